/-
  C02: the integer bookkeeping of `CSSMatch.match_nth`, TRANSLATED from the source on every run
  (`gen/gen_py_nth.py` → `Generated/PyNth.lean`), against the hand-written three-loop model `Model/Nth.lean`
  (`Nth.adjust`, `Nth.floorLoop`, `Nth.outer`, `Nth.matchOne`) that `Properties/C02.lean` is about.

    piece 1  `init_eq`           — the twelve assignments = the model's initial state (`last_index = len - 1`, `count = 0`,
                                   `count_incr = 1`, `relative_index = 0`, `idx = last_idx = idxOf a b var 0`, and the two values
                                   `index`, `factor` that fix the order of the walk), for all arguments;
    piece 2  `loop1_sim`         — the translated `while idx < 1 or idx > last_index + 1` loop, whenever it ends, ends in the
                                   `(count, idx)` of `Nth.adjust` at the same fuel (all integers, every value of `adjust`);
             `loop2_sim`         — the translated `while idx >= 1` loop ends in the `lowest` of `Nth.floorLoop`;
             `adjustBlock_eq`    — the whole `if var:` block: its `(count, count_incr, idx, last_idx)` is `modelAdjust` = what
                                   `Nth.matchOne` hands to `Nth.outer`;   `adjustBlock_nonvar` — `var = False`: identity;
             (that the block ENDS with the model's fuels: `Properties/C02GenNthTerm.lean`)
    piece 3  `mainCond_eq`, `advance_eq`, `outer_step` — one turn of `Nth.outer` is the generated test, the child walk
                                   `Nth.inner` (piece 4: NOT translated, frame-checked by the translator), the generated advance.
  The proofs mention only the names of the generated definitions (`init`, `loop1Cond/Step`, `loop2Cond/Step`, `adjustBlock`,
  `mainCond`, `advance`), no local names.
-/
import SoupVerif.Generated.PyNth
import SoupVerif.Properties.C02
namespace SoupVerif
namespace C02GenNth
open Nth PyWhile Gen.PyNth

/-- piece 1 -/
theorem init_eq (last : Bool) (a b : Int) (var : Bool) (len : Int) :
    init last a b var len =
      (last, len - 1, (if last then len - 1 else 0), 0, a, b, var, 0, 1, (if last then -1 else 1),
        idxOf a b var 0, idxOf a b var 0) := by
  simp [init, idxOf]

/-- the model's `adjust` flag as the Python value of the local (`None`, `-1`, `1`) -/
def encode : Option Bool → Option Int
  | none => none
  | some true => some 1
  | some false => some (-1)

theorem loop1_sim (a b lastIndex : Int) :
    ∀ (fuel : Nat) (count idx lastIdx : Int) (adj : Option Bool) (r : Int × Int × Int × Option Int),
      whileBrk (loop1Cond lastIndex a b true 1) (loop1Step lastIndex a b true 1) fuel
          (count, idx, lastIdx, encode adj) = some r →
      Nth.adjust a b lastIndex fuel count idx adj = (r.1, r.2.1) := by
  intro fuel
  induction fuel with
  | zero =>
    intro count idx lastIdx adj r h
    unfold whileBrk at h
    split at h
    · cases h
    · cases h; simp [Nth.adjust]
  | succ n ih =>
    intro count idx lastIdx adj r h
    unfold whileBrk at h
    unfold Nth.adjust
    by_cases h1 : idx < 1
    · have hc : loop1Cond lastIndex a b true 1 (count, idx, lastIdx, encode adj) = true := by
        simp [loop1Cond, h1]
      rw [if_pos hc] at h
      rcases adj with _ | _ | _
      · simp [loop1Step, encode, h1] at h ⊢
        by_cases h2 : a * (count + 1) + b ≤ idx
        · simp [h2] at h ⊢; subst h; simp
        · simp [h2] at h ⊢; exact ih _ _ _ (some false) r (by simpa [encode] using h)
      · simp [loop1Step, encode, h1] at h ⊢
        by_cases h2 : a * (count + 1) + b ≤ idx
        · simp [h2] at h ⊢; subst h; simp
        · simp [h2] at h ⊢; exact ih _ _ _ (some false) r (by simpa [encode] using h)
      · simp [loop1Step, encode, h1] at h ⊢
        subst h; simp
    · by_cases h3 : idx > lastIndex + 1
      · have hc : loop1Cond lastIndex a b true 1 (count, idx, lastIdx, encode adj) = true := by
          simp [loop1Cond, h3]
        rw [if_pos hc] at h
        rcases adj with _ | _ | _
        · simp [loop1Step, encode, h1, h3] at h ⊢
          by_cases h2 : idx ≤ a * (count + 1) + b
          · simp [h2] at h ⊢; subst h; simp
          · simp [h2] at h ⊢; exact ih _ _ _ (some true) r (by simpa [encode] using h)
        · simp [loop1Step, encode, h1, h3] at h ⊢
          subst h; simp
        · simp [loop1Step, encode, h1, h3] at h ⊢
          by_cases h2 : idx ≤ a * (count + 1) + b
          · simp [h2] at h ⊢; subst h; simp
          · simp [h2] at h ⊢; exact ih _ _ _ (some true) r (by simpa [encode] using h)
      · have hc : ¬ loop1Cond lastIndex a b true 1 (count, idx, lastIdx, encode adj) = true := by
          simp [loop1Cond, h1, h3]
        rw [if_neg hc] at h
        cases h; simp [h1, h3]

/-- piece 2, second loop -/
theorem loop2_sim (a b : Int) :
    ∀ (fuel : Nat) (count idx lastIdx lowest : Int) (r : Int × Int × Int × Int),
      whileBrk (loop2Cond a b true 1) (loop2Step a b true 1) fuel (count, idx, lastIdx, lowest) = some r →
      Nth.floorLoop a b fuel count idx lowest = r.2.2.2 := by
  intro fuel
  induction fuel with
  | zero =>
    intro count idx lastIdx lowest r h
    unfold whileBrk at h
    split at h
    · cases h
    · cases h; simp [Nth.floorLoop]
  | succ n ih =>
    intro count idx lastIdx lowest r h
    unfold whileBrk at h
    unfold Nth.floorLoop
    by_cases h1 : idx ≥ 1
    · have hc : loop2Cond a b true 1 (count, idx, lastIdx, lowest) = true := by simp [loop2Cond, h1]
      rw [if_pos hc] at h
      simp [loop2Step] at h
      simp [h1]
      exact ih _ _ _ _ r h
    · have hc : ¬ loop2Cond a b true 1 (count, idx, lastIdx, lowest) = true := by simp [loop2Cond, h1]
      rw [if_neg hc] at h
      cases h; simp [h1]

/-- the model's result of the adjustment: `(count, count_incr, idx)` handed to `Nth.outer` by `Nth.matchOne` -/
def modelAdjust (a b lastIndex : Int) (fuel1 fuel2 : Nat) (count idx : Int) : Int × Int × Int × Int :=
  let r := Nth.adjust a b lastIndex fuel1 count idx none
  if a < 0 then
    let lowest := Nth.floorLoop a b fuel2 r.1 r.2 r.1
    (lowest, -1, a * lowest + b, a * lowest + b)
  else (r.1, 1, a * r.1 + b, a * r.1 + b)

/-- piece 2: whenever the generated block ends (with whatever fuels), its result is the model's at the same fuels -/
theorem adjustBlock_eq (fuel1 fuel2 : Nat) (a b lastIndex count idx lastIdx : Int) (r : Int × Int × Int × Int)
    (h : adjustBlock fuel1 fuel2 lastIndex a b true count 1 idx lastIdx = some r) :
    r = modelAdjust a b lastIndex fuel1 fuel2 count idx := by
  unfold adjustBlock at h
  simp only [if_true] at h
  split at h
  · cases h
  · rename_i c1 i1 l1 x1 h1
    have e1 := loop1_sim a b lastIndex fuel1 count idx lastIdx none _ h1
    simp only at e1
    unfold modelAdjust
    rw [e1]
    by_cases ha : a < 0
    · simp only [ha, decide_true, if_true] at h ⊢
      split at h
      · cases h
      · rename_i c2 i2 l2 x2 h2
        have e2 := loop2_sim a b fuel2 c1 i1 l1 c1 _ h2
        simp only at e2
        simp at h
        rw [e2, ← h]
    · simp [ha] at h ⊢
      rw [← h]

/-- when `var` is false the block does nothing -/
theorem adjustBlock_nonvar (fuel1 fuel2 : Nat) (a b lastIndex count incr idx lastIdx : Int) :
    adjustBlock fuel1 fuel2 lastIndex a b false count incr idx lastIdx = some (count, incr, idx, lastIdx) := by
  simp [adjustBlock]

/-- piece 3: the main test -/
theorem mainCond_eq (lastIndex idx : Int) :
    mainCond lastIndex idx = (decide (1 ≤ idx) && decide (idx ≤ lastIndex + 1)) := rfl

/-- piece 3: the advance of `idx` -/
theorem advance_eq (a b : Int) (var : Bool) (incr count idx lastIdx : Int) :
    advance a b var incr count idx lastIdx =
      if count + incr < 0 then ((count + incr, idx, idx), true)
      else if idxOf a b var (count + incr) == idx then ((count + incr, idxOf a b var (count + incr), idx), true)
      else ((count + incr, idxOf a b var (count + incr), idx), false) := by
  unfold advance idxOf
  by_cases h1 : count + incr < 0
  · simp [h1]
  · by_cases h2 : (if var = true then a * (count + incr) + b else a) = idx
    · simp [h1, h2]
    · have h2' : ¬ idx = (if var = true then a * (count + incr) + b else a) := fun e => h2 e.symm
      simp [h1, h2, h2']

/-- piece 3: one turn of the model's main loop `Nth.outer` IS the generated test, the (untranslated) child walk
    `Nth.inner`, then the generated advance -/
theorem outer_step {α : Type} (counted isEl : α → Bool) (a b : Int) (var : Bool) (lastIndex incr : Int)
    (fuel : Nat) (count idx lastIdx : Int) (rest : List α) (rel : Int) :
    Nth.outer counted isEl a b var lastIndex incr (fuel + 1) count idx rest rel =
      if mainCond lastIndex idx then
        match Nth.inner counted isEl idx rest rel with
        | .hit m => m
        | .cont rest' rel' =>
          match advance a b var incr count idx lastIdx with
          | (_, true) => false
          | ((count', idx', _), false) => Nth.outer counted isEl a b var lastIndex incr fuel count' idx' rest' rel'
      else false := by
  rw [advance_eq, mainCond_eq]
  conv => lhs; unfold Nth.outer
  by_cases hc : (decide (1 ≤ idx) && decide (idx ≤ lastIndex + 1)) = true
  · simp only [hc, if_true]
    cases Nth.inner counted isEl idx rest rel with
    | hit m => rfl
    | cont rest' rel' =>
      by_cases h1 : count + incr < 0
      · simp [h1]
      · by_cases h2 : idxOf a b var (count + incr) = idx
        · simp [h1, h2]
        · simp [h1, h2]
  · simp only [hc]; simp

end C02GenNth
end SoupVerif
