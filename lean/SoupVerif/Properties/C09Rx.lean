/-
  C09 at the level of the regular expressions of the SOURCE.

  `Properties/C09.lean` proves spelling-independence for hand-written scanners (`scanIdent`, `skipWSC`,
  `scanString`, `unescapeString`, `cssUnescape`).  The files `Refine/{Ident,Wsc,StringTok,Unescape}.lean`
  prove, for ALL strings, that these scanners compute exactly what the regex-engine model computes on
  the regular expressions REGENERATED from `css_parser.py` (`Gen.tok_id`, `Gen.tok_class`,
  `Gen.cp_RE_WS_BEGIN`, `Gen.cp_RE_WS_END`, `Gen.tok_pseudo_close`, `Gen.cp_RE_VALUES`,
  `Gen.cp_RE_CSS_ESC`, `Gen.cp_RE_CSS_STR_ESC`).  Composed here: the component facts of C09 stated about
  the regexes the code compiles, so that an edit of `WSC`, `COMMENTS`, `NEWLINE`, `IDENTIFIER`,
  `CSS_ESCAPES`, `VALUE`, `RE_CSS_ESC`, `RE_CSS_STR_ESC` in the source breaks a proof obligation here.

  What is still tied by testing only: the parser loop around the tokens (the order in which the thirteen
  token patterns are tried and what each handler does with the groups) — `compile_spelling_invariant`
  remains unproved end to end; see `Properties/C09Compile.lean` for the part that is proved.
-/
import SoupVerif.Properties.C09
import SoupVerif.Refine.Ident
import SoupVerif.Refine.Wsc
import SoupVerif.Refine.StringTok
import SoupVerif.Refine.Unescape
namespace SoupVerif
namespace C09Rx
open Escape Spelling Rx

/-! ### Identifiers: every admissible spelling is one token of the generated regex -/

/-- `#ident` written in ANY admissible spelling (literal characters, `\c`, hex escapes of every shape) is
    consumed by the generated `id` token regex as exactly one token. -/
theorem id_token_any_spelling (forms : List (Nat × EscForm)) (r : Str)
    (hv : validForms forms r = true) (hh : headOk forms = true) (hr : ¬ continuesIdent r) :
    matchAt pyFoldEnv Gen.tok_id (35 :: renderIdentWith forms ++ r) 0 =
      some (1 + (renderIdentWith forms).length, []) := by
  have h := Refine.Ident.tok_id_matchAt Refine.Ident.identFold_py (35 :: renderIdentWith forms ++ r) 0
  rw [List.drop_zero, C09.scan_any_spelling_prefixed 35 forms r hv hh hr] at h
  rw [h]; simp [Nat.add_comm]

theorem class_token_any_spelling (forms : List (Nat × EscForm)) (r : Str)
    (hv : validForms forms r = true) (hh : headOk forms = true) (hr : ¬ continuesIdent r) :
    matchAt pyFoldEnv Gen.tok_class (46 :: renderIdentWith forms ++ r) 0 =
      some (1 + (renderIdentWith forms).length, []) := by
  have h := Refine.Ident.tok_class_matchAt Refine.Ident.identFold_py (46 :: renderIdentWith forms ++ r) 0
  rw [List.drop_zero, C09.scan_any_spelling_prefixed 46 forms r hv hh hr] at h
  rw [h]; simp [Nat.add_comm]

/-- Two spellings of the same code points: both are one `id` token for the generated regex, and the hand
    decoder gives the same value for the two token texts. -/
theorem id_token_two_spellings (f₁ f₂ : List (Nat × EscForm)) (r : Str)
    (h₁ : validForms f₁ r = true) (h₂ : validForms f₂ r = true)
    (hh₁ : headOk f₁ = true) (hh₂ : headOk f₂ = true) (hr : ¬ continuesIdent r)
    (hcp₁ : ∀ p ∈ f₁, rangeOk p.1 p.2 = true) (hcp₂ : ∀ p ∈ f₂, rangeOk p.1 p.2 = true)
    (hval : valueOf f₁ = valueOf f₂) :
    (matchAt pyFoldEnv Gen.tok_id (35 :: renderIdentWith f₁ ++ r) 0).isSome = true ∧
    (matchAt pyFoldEnv Gen.tok_id (35 :: renderIdentWith f₂ ++ r) 0).isSome = true ∧
    cssUnescape (renderIdentWith f₁) = cssUnescape (renderIdentWith f₂) := by
  refine ⟨by rw [id_token_any_spelling f₁ r h₁ hh₁ hr]; rfl,
          by rw [id_token_any_spelling f₂ r h₂ hh₂ hr]; rfl, ?_⟩
  obtain ⟨m₁, m₂, e₁, e₂, hm⟩ :=
    C09.ident_token_spelling_irrelevant f₁ f₂ r h₁ h₂ hh₁ hh₂ hr hcp₁ hcp₂ hval
  rw [C09.scan_any_spelling_ctx f₁ r h₁ hh₁ hr] at e₁
  rw [C09.scan_any_spelling_ctx f₂ r h₂ hh₂ hr] at e₂
  cases e₁; cases e₂; exact hm

/-! ### Gaps: whitespace and comments, as the generated regexes see them -/

/-- `RE_WS_BEGIN` (the leading trim of `selector_iter`) consumes exactly what `skipWSC` skips — for any
    gap `g` in front of text that starts with no gap, it ends right after `g`. -/
theorem ws_begin_skips_gap (env : CharEnv) (g r : Str) (hg : isGap g) (hr : noGapStart r = true) :
    ∃ j, matchAt env Gen.cp_RE_WS_BEGIN (g ++ r) 0 = some (j, []) ∧ (g ++ r).drop j = r := by
  obtain ⟨j, hj, hd⟩ := Refine.Wsc.ws_begin_drop env (g ++ r)
  exact ⟨j, hj, by rw [hd, C09.skipWSC_append g r hg hr]⟩

/-- Two different gaps in front of the same text are trimmed to the same rest. -/
theorem ws_begin_two_gaps (env : CharEnv) (g₁ g₂ r : Str) (h₁ : isGap g₁) (h₂ : isGap g₂)
    (hr : noGapStart r = true) :
    ∃ j₁ j₂, matchAt env Gen.cp_RE_WS_BEGIN (g₁ ++ r) 0 = some (j₁, []) ∧
      matchAt env Gen.cp_RE_WS_BEGIN (g₂ ++ r) 0 = some (j₂, []) ∧
      (g₁ ++ r).drop j₁ = (g₂ ++ r).drop j₂ := by
  obtain ⟨j₁, a₁, b₁⟩ := ws_begin_skips_gap env g₁ r h₁ hr
  obtain ⟨j₂, a₂, b₂⟩ := ws_begin_skips_gap env g₂ r h₂ hr
  exact ⟨j₁, j₂, a₁, a₂, by rw [b₁, b₂]⟩

/-- `RE_WS_END` (the end-of-pattern test of `selector_iter`): at position `i` it succeeds exactly when
    only a gap remains. -/
theorem ws_end_iff_gap (env : CharEnv) (s : Str) (i : Nat) (hi : i ≤ s.length) :
    (matchAt env Gen.cp_RE_WS_END s i).isSome = true ↔ isGap (s.drop i) := by
  rw [Refine.Wsc.ws_end_isSome env s i hi]
  unfold isGap
  simp

/-- The closing parenthesis token `WSC*\)`: any gap before `)` is skipped, whatever it is. -/
theorem pseudo_close_any_gap (g r : Str) (hg : isGap g) :
    (matchAt pyFoldEnv Gen.tok_pseudo_close (g ++ 41 :: r) 0).map (·.1) = some (g.length + 1) := by
  have h := Refine.Wsc.pseudo_close_at Refine.Wsc.caseFree_pyFold (g ++ 41 :: r) 0 (Nat.zero_le _)
  have hs : skipWSC (g ++ 41 :: r) = 41 :: r := C09.skipWSC_append g (41 :: r) hg (by simp [noGapStart, isCssWs])
  rw [List.drop_zero, hs] at h
  simp only [List.head?_cons, if_true] at h
  rw [h]
  have : Refine.Wsc.gapEnd (g ++ 41 :: r) 0 = g.length := by
    unfold Refine.Wsc.gapEnd
    rw [List.drop_zero, hs]; simp
  simp [this]

/-! ### Quoted strings -/

/-- A quoted value in ANY admissible spelling of its body (literal characters, escapes, line
    continuations), with either quote, is one `value` match of the generated `RE_VALUES`, spanning exactly
    the quoted text. -/
theorem value_any_spelling (q : Nat) (ps : List StrPiece) (r : Str) (hq : q = 34 ∨ q = 39)
    (hv : validStr q ps [] = true) :
    matchAt pyFoldEnv Gen.cp_RE_VALUES (q :: (renderStrWith ps ++ q :: r)) 0 =
      some ((renderStrWith ps).length + 2, [(1, 0, (renderStrWith ps).length + 2)]) := by
  have h := Refine.StringTok.value_quoted_matchAt Refine.StringTok.foldOK_py
    (q :: (renderStrWith ps ++ q :: r)) (by rcases hq with h | h <;> subst h <;> simp)
  rw [C09.scanString_any_spelling q ps r hq hv] at h
  exact h

/-- … and `css_unescape(…, string=True)` as the parser model runs it (the engine on the regenerated
    `RE_CSS_STR_ESC`) decodes that body to the value spelled — for every spelling. -/
theorem string_any_spelling_rx (q : Nat) (ps : List StrPiece) (hv : validStr q ps [] = true)
    (hr : ∀ p ∈ ps, pieceRangeOk p = true) :
    Parser.cssUnescape pyFoldEnv Gen.lexicon (renderStrWith ps) true = strValue ps := by
  rw [Refine.unescapeString_pyFold, C09.string_any_spelling q ps hv hr]

/-- Single or double quotes, any spelling of the body: same value, computed by the engine-based decoder. -/
theorem two_string_spellings_rx (q₁ q₂ : Nat) (p₁ p₂ : List StrPiece)
    (h₁ : validStr q₁ p₁ [] = true) (h₂ : validStr q₂ p₂ [] = true)
    (r₁ : ∀ p ∈ p₁, pieceRangeOk p = true) (r₂ : ∀ p ∈ p₂, pieceRangeOk p = true)
    (hval : strValue p₁ = strValue p₂) :
    Parser.cssUnescape pyFoldEnv Gen.lexicon (renderStrWith p₁) true =
      Parser.cssUnescape pyFoldEnv Gen.lexicon (renderStrWith p₂) true := by
  rw [string_any_spelling_rx q₁ p₁ h₁ r₁, string_any_spelling_rx q₂ p₂ h₂ r₂, hval]

end C09Rx
end SoupVerif
