/-
C03 (wrapper layer): every module-level query function of `soupsieve/__init__.py` returns what
`compile(pattern, namespaces, flags, custom=custom, **kwargs)` followed by the same-named method
returns.  The facts are `decide`d on `Generated/Wrappers.lean`, which gen/gen_wrappers.py rebuilds
from the source text on every run; dropping `custom=custom` from any wrapper (the historical
defect) empties `compileKwargs` for that wrapper and makes `wrappers_forward_all` false.
-/
import SoupVerif.Generated.Wrappers

namespace SoupVerif.C03Wrappers
open SoupVerif.Gen.Wrappers

/-- Arguments the same-named `SoupSieve` method must receive. Unknown names get a value no wrapper can have. -/
def expected (name : String) : List String :=
  if name = "closest" then ["tag"]
  else if name = "match" then ["tag"]
  else if name = "filter" then ["iterable"]
  else if name = "select_one" then ["tag"]
  else if name = "select" then ["tag", "limit"]
  else if name = "iselect" then ["tag", "limit"]
  else ["<no such entry point>"]

/-- Positional parameters each wrapper must declare (the call target second, `limit` only on the selecting ones). -/
def expectedParams (name : String) : List String :=
  if name = "select" ∨ name = "iselect" then ["select", "tag", "namespaces", "limit", "flags"]
  else if name = "filter" then ["select", "iterable", "namespaces", "flags"]
  else ["select", "tag", "namespaces", "flags"]

/-- The list covers exactly the six entry points, once each. -/
theorem wrappers_names :
    wrappers.map (·.name) = ["closest", "match", "filter", "select_one", "select", "iselect"] := by decide

/-- Every wrapper hands pattern, namespaces, flags positionally, `custom=custom` by keyword and its
`**kwargs` to `compile`, then calls the method of its own name with the remaining arguments. -/
theorem wrappers_forward_all : ∀ w ∈ wrappers,
    w.compileArgs = ["select", "namespaces", "flags"] ∧ w.compileKwargs = [("custom", "custom")] ∧
    w.passesKwargs = true ∧ w.method = w.name ∧ w.methodArgs = expected w.name := by decide

/-- The translator recognised every body (`return compile(..).m(..)` / `yield from compile(..).m(..)`), the callee
is the module-level function `compile` (defined once, not shadowed), no keyword is passed to the method, and only
`iselect` is a generator. -/
theorem wrappers_shape : ∀ w ∈ wrappers,
    w.shape ≠ .unknown ∧ (w.shape = .yieldFrom ↔ w.name = "iselect") ∧
    w.callee = "compile" ∧ w.calleeIsModuleFn = true ∧ w.methodKwargs = [] ∧ w.note = "" := by decide

/-- Signatures: positional parameters as documented, `custom` keyword-only, `**kwargs`, no `*args`. -/
theorem wrappers_signature : ∀ w ∈ wrappers,
    w.params = expectedParams w.name ∧ w.kwonly = ["custom"] ∧ w.vararg = "" ∧ w.varkw = "kwargs" := by decide

/-- Every forwarded name is a parameter of the wrapper (so it denotes the caller's argument), and every
parameter is forwarded exactly once, either to `compile` or to the method. -/
theorem wrappers_params_partition : ∀ w ∈ wrappers,
    (w.compileArgs ++ w.compileKwargs.map (·.2) ++ w.methodArgs).Perm (w.params ++ w.kwonly) := by decide

/-- `compile` takes (pattern, namespaces, flags, *, custom, **kwargs): the three positional arguments of the
wrappers land on pattern / namespaces / flags and the keyword on `custom`; `compile` passes all four to the
cached compiler, each in its own argument. -/
theorem compile_signature :
    compileParams = ["pattern", "namespaces", "flags"] ∧ compileKwonly = ["custom"] ∧
    compileVararg = "" ∧ compileVarkw = "kwargs" ∧
    compileCacheCallee = "cp._cached_css_compile" ∧
    compileCacheArgsUse = [["pattern"], ["namespaces"], ["custom"], ["flags"]] := by decide

/-- No other top-level function of `__init__.py` goes through `compile`; the exported `SoupSieve` is css_match's. -/
theorem no_other_callers : otherCompileCallers = [] ∧ soupSieveAlias = "cm.SoupSieve" := by decide

/-- `CSSMatch(self.selectors, target, self.namespaces, self.flags).m(args)` -/
def viaMatcher (target m : String) (args : List String) : Call :=
  { kind := .ctor, target := "CSSMatch", ctorArgs := ["self.selectors", target, "self.namespaces", "self.flags"],
    method := m, args := args, kwargs := [] }

/-- `self.m(args, kwargs)` -/
def viaSelf (m : String) (args : List String) (kwargs : List (String × String)) : Call :=
  { kind := .self, target := "self", ctorArgs := [], method := m, args := args, kwargs := kwargs }

theorem delegation_names :
    delegations.map (·.name) = ["match", "closest", "filter", "select_one", "select", "iselect"] := by decide

/-- `match → CSSMatch.match(tag)`, `closest → CSSMatch.closest()`, `filter → CSSMatch.filter()` or per-item
`self.match(node)`, `select_one → self.select(tag, limit=1)`, `select → self.iselect(tag, limit)`,
`iselect → CSSMatch.select(limit)`. Every `CSSMatch` is built from (selectors, the call target, namespaces, flags). -/
theorem delegation_targets :
    delegations =
      [ { name := "match", params := ["tag"], calls := [viaMatcher "tag" "match" ["tag"]] },
        { name := "closest", params := ["tag"], calls := [viaMatcher "tag" "closest" []] },
        { name := "filter", params := ["iterable"],
          calls := [viaMatcher "iterable" "filter" [], viaSelf "match" ["node"] []] },
        { name := "select_one", params := ["tag"], calls := [viaSelf "select" ["tag"] [("limit", "1")]] },
        { name := "select", params := ["tag", "limit"], calls := [viaSelf "iselect" ["tag", "limit"] []] },
        { name := "iselect", params := ["tag", "limit"], calls := [viaMatcher "tag" "select" ["limit"]] } ] := by
  decide

theorem delegation_ctor_args : ∀ d ∈ delegations, ∀ c ∈ d.calls, c.kind = .ctor →
    c.ctorArgs = ["self.selectors", (d.params.headD "?"), "self.namespaces", "self.flags"] := by decide

/-- The method parameters agree with what the wrappers pass (`expected`). -/
theorem delegation_params : ∀ d ∈ delegations, d.params = expected d.name := by decide

/-- The pinned (defective) `select`: `custom=custom` is not handed to `compile`. -/
def droppedCustom : Wrapper :=
  { name := "select", params := ["select", "tag", "namespaces", "limit", "flags"],
    kwonly := ["custom"], vararg := "", varkw := "kwargs", shape := .ret, callee := "compile",
    calleeIsModuleFn := true, compileArgs := ["select", "namespaces", "flags"], compileKwargs := [],
    passesKwargs := true, method := "select", methodArgs := ["tag", "limit"], methodKwargs := [], note := "" }

/-- Expressibility of the historical defect: a wrapper that drops `custom=custom` fails the forwarding predicate. -/
example : ¬ ∀ w ∈ [droppedCustom],
    w.compileArgs = ["select", "namespaces", "flags"] ∧ w.compileKwargs = [("custom", "custom")] ∧
    w.passesKwargs = true ∧ w.method = w.name ∧ w.methodArgs = expected w.name := by decide

end SoupVerif.C03Wrappers
