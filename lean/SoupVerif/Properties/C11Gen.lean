/-
  C11 about the Lean term TRANSLATED from the source text of `util.lower`.

  The matcher model compares names through the hand-written `lower` / `lowerCp` (Model/Py.lean); every C11 theorem
  about HTML case folding is a statement about that function.  `gen/gen_py_strings.py` translates the body of
  `util.lower` (its loop body `o = ord(c); chr(o + 32) if UC_A <= o <= UC_Z else c`, with `UC_A` / `UC_Z` translated
  from their module-level assignments `ord('A')` / `ord('Z')`) into `Gen.PyStrings.lowerStep` / `Gen.PyStrings.lower`
  on every run.  Proved here for EVERY string (every list of naturals): the translated function IS the hand model.
  An edit of the bounds, of the offset 32, of the comparison operators or of either arm of the conditional changes
  `Generated/PyStrings.lean` and breaks `gen_lowerStep_eq`.
-/
import SoupVerif.Properties.C11
import SoupVerif.Generated.PyStrings
namespace SoupVerif
namespace C11Gen
open Names PyStrings

/-- The translated loop body is the hand model's per-character function, on every natural number. -/
theorem gen_lowerStep_eq (c : Nat) : Gen.PyStrings.lowerStep c = lowerCp c := by
  simp only [Gen.PyStrings.lowerStep, lowerCp, Gen.PyStrings.UC_A, Gen.PyStrings.UC_Z]
  repeat' split
  all_goals simp_all
  all_goals omega

/-- The fixed loop frame is `List.map`. -/
theorem charLoop_eq_map (f : Nat → Nat) (s : Str) : charLoop f s = s.map f := by
  induction s with
  | nil => rfl
  | cons c cs ih => simp [charLoop, ih]

/-- **The tie.**  The function translated from the current source is the hand-written model, on every string. -/
theorem gen_lower_eq (s : Str) : Gen.PyStrings.lower s = lower s := by
  unfold Gen.PyStrings.lower lower
  rw [charLoop_eq_map]
  exact List.map_congr_left fun c _ => gen_lowerStep_eq c

/-- `chr(o + 32)` cannot raise: the translated body maps code points to code points (it applies `chr` only to
    `o + 32` with `o ≤ 'Z'`). -/
theorem gen_lowerStep_codepoint (c : Nat) (h : c ≤ 0x10FFFF) : Gen.PyStrings.lowerStep c ≤ 0x10FFFF := by
  rw [gen_lowerStep_eq]; unfold lowerCp; split <;> omega

/-- What it does, spelled out: `A`..`Z` move to `a`..`z`, every other code point (non-ASCII letters, `İ`, `K` KELVIN
    SIGN, …) is left alone. -/
theorem gen_lowerStep_spec (c : Nat) :
    Gen.PyStrings.lowerStep c = if 65 ≤ c ∧ c ≤ 90 then c + 32 else c := by
  rw [gen_lowerStep_eq]; rfl

/-! ### The C11 theorems, about the translated function -/

theorem lower_idem (s : Str) : Gen.PyStrings.lower (Gen.PyStrings.lower s) = Gen.PyStrings.lower s := by
  simp only [gen_lower_eq]; exact C11.lower_idem s

theorem lower_length (s : Str) : (Gen.PyStrings.lower s).length = s.length := by
  rw [gen_lower_eq]; exact Names.lower_length s

/-- The case-insensitive equality the C11 theorems speak about is equality after the translated `lower`. -/
theorem caseEq_iff (a b : Str) : C11.caseEq a b ↔ Gen.PyStrings.lower a = Gen.PyStrings.lower b := by
  simp only [gen_lower_eq]; exact Iff.rfl

/-- HTML: the selector's tag name matches regardless of ASCII case — "case" as decided by the translated `lower`. -/
theorem html_tag_fold (c : Ctx) (e : Elem) (n n' : Str) (p : Option Str) (hx : c.isXml = false)
    (h : Gen.PyStrings.lower n = Gen.PyStrings.lower n') :
    matchTagname c e ⟨n, p⟩ = matchTagname c e ⟨n', p⟩ :=
  C11.html_tag_fold c e n n' p hx ((caseEq_iff n n').mpr h)

/-- HTML, as a characterisation: the tag name matches iff it equals the element's name after the translated `lower`
    (or is the universal selector). -/
theorem html_tag_iff (c : Ctx) (e : Elem) (n : Str) (p : Option Str) (hx : c.isXml = false) :
    matchTagname c e ⟨n, p⟩ = true ↔ Gen.PyStrings.lower n = Gen.PyStrings.lower e.name ∨ n = "*".toStr := by
  rw [← caseEq_iff]; exact C11.html_tag_iff c e n p hx

/-- HTML: `match_attribute_name` sees the selector's attribute name only through the translated `lower`. -/
theorem html_attr_name_lower (c : Ctx) (e : Elem) (a p : Str) (hx : c.isXml = false) :
    matchAttributeName c e a p = matchAttributeName c e (Gen.PyStrings.lower a) p := by
  rw [gen_lower_eq]; exact C11.html_attr_name_lower c e a p hx

/-! ### Non-vacuity -/

example : Gen.PyStrings.lower "DiV".toStr = "div".toStr := by decide
example : Gen.PyStrings.lower [0x40, 0x41, 0x5A, 0x5B, 0x60, 0x61, 0x7A, 0x7B] = [0x40, 0x61, 0x7A, 0x5B, 0x60, 0x61, 0x7A, 0x7B] := by
  decide
-- non-ASCII capitals are NOT folded: 'É' (U+00C9), 'İ' (U+0130), KELVIN SIGN (U+212A)
example : Gen.PyStrings.lower [0xC9, 0x130, 0x212A, 0x10FFFF] = [0xC9, 0x130, 0x212A, 0x10FFFF] := by decide

end C11Gen
end SoupVerif
