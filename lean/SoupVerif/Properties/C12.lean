/-
  C12  Namespace selectors compare namespace URIs through the supplied prefix map.

  Model : `Ctx.tagNs` (`get_tag_ns`), `matchNamespace`, `matchTagname`, `matchTag`,
          `matchAttributeName` (Model/Match.lean); `Ctx.namespaces`/`Ctx.nsGet` is the caller's
          prefix → URI map (`self.namespaces.get`).

  Element side (`ns|E`, `*|E`, `|E`, `E`): `ns_prefix`, `ns_unmapped`, `ns_any`, `ns_none`,
  `ns_default`, with `uri c e` the URI the matcher attributes to the element (`uri_def`,
  `html_without_ns`).  The element's own prefix is never read: `doc_prefix_irrelevant`.

  Attribute side (`[ns|a]`, `[*|a]`, `[|a]`, `[a]`): every branch of `match_attribute_name` is
  rewritten as ONE `List.find?` with an explicit predicate, followed by `normalize_value`:
  `attr_ns`, `attr_ns_unmapped`, `attr_any`, `attr_any_ignores_star_mapping`, `attr_bare`,
  `attr_no_ns_support`.  The document-side prefix text is never read for a prefixed selector:
  `attr_prefix_text_irrelevant`.
  `match_attribute_name` is a generator (since the repair of `[*|a op v]`, which only looked at
  the first designated attribute): `matchAttributeValues` is the list of ALL yielded values and
  every branch is ONE `List.filter` with the same predicate — `attr_ns_values`,
  `attr_ns_unmapped_values`, `attr_any_values`, `attr_bare_values`, `attr_no_ns_support_values`;
  `matchAttributeName` (the `find?` forms above) is its head (`attr_first_of_values`).  An
  attribute selector holds when SOME designated attribute passes the value test:
  `attr_value_test`, `attr_any_value_test`, `attr_ns_value_test`, and on the specification side
  `attr_any_value_test_spec`, `attr_any_ne_spec`, `attr_any_presence_spec`.

  Places where the statement had to be sharper than the prose of the property:
    * `[a]` and `[|a]` compare the WHOLE key text of the attribute (`attr_bare`): a namespaced
      attribute whose key text is `xlink:href` is matched by `[xlink\:href]`, and not by `[href]`.
      "The attribute without a namespace" is right for keys that are plain strings; for a
      `NamespacedAttribute` the key text (prefix included) is what is compared.
    * without namespace support (`supportsNamespaces = false`) the whole key is compared for
      EVERY prefix, so there the key text does matter (`attr_no_ns_support`,
      `key_text_matters_without_ns_support`).
-/
import SoupVerif.Lemmas.Names
import SoupVerif.Spec.Css
namespace SoupVerif
namespace C12
open Names

/-- The namespace URI the matcher attributes to an element (`get_tag_ns`). -/
abbrev uri (c : Ctx) (e : Elem) : Str := c.tagNs e

/-- Prop reading of `Names.nameEq`. -/
def NameEq (c : Ctx) (a b : Str) : Prop := if c.isXml then a = b else lower a = lower b

theorem nameEq_true_iff (c : Ctx) (a b : Str) : nameEq c a b = true ↔ NameEq c a b :=
  nameEq_iff c a b

/-! ### The element's namespace URI -/

/-- With namespace support the URI is the element's `namespace` (`None` and `''` both give `''`). -/
theorem uri_def (c : Ctx) (e : Elem) (h : c.supportsNamespaces = true) :
    uri c e = e.ns.getD [] := by
  simp only [uri, Ctx.tagNs, h, if_true]
  cases e.ns <;> rfl

/-- Documents without namespace support treat every element as XHTML. -/
theorem html_without_ns (c : Ctx) (e : Elem) (h : c.supportsNamespaces = false) :
    uri c e = NS_XHTML := by
  simp [uri, Ctx.tagNs, h]

theorem supportsNamespaces_def (c : Ctx) : c.supportsNamespaces = (c.isXml || c.hasHtmlNs) := rfl

/-- The prefix map lookup is "first entry with that key" (a `dict` has at most one). -/
theorem nsGet_nil (c : Ctx) (k : Str) (h : c.namespaces = []) : c.nsGet k = none := by
  simp [Ctx.nsGet, h]

theorem nsGet_cons (c : Ctx) (k k' u : Str) (rest : List (Str × Str))
    (h : c.namespaces = (k', u) :: rest) :
    c.nsGet k = if k' = k then some u else { c with namespaces := rest }.nsGet k := by
  simp only [Ctx.nsGet, h, List.find?_cons]
  by_cases hk : k' = k
  · simp [hk]
  · have : (k' == k) = false := by simpa using hk
    simp [hk, this]

/-! ### `ns|E`, `*|E`, `|E`, `E` -/

/-- `ns|E`: the element's URI equals the URI the caller mapped `ns` to. -/
theorem ns_prefix (c : Ctx) (e : Elem) (n p : Str) (hp : p ≠ []) (hs : p ≠ "*".toStr) :
    matchNamespace c e ⟨n, some p⟩ = true ↔ ∃ u, c.nsGet p = some u ∧ uri c e = u := by
  rw [star_toStr] at hs
  have hpe : p.isEmpty = false := by cases p <;> simp_all
  have hst : (p == [42]) = false := by simpa using hs
  simp only [matchNamespace, hpe, star_toStr, hst, Bool.false_eq_true, if_false]
  cases c.nsGet p with
  | none => simp
  | some u =>
    simp only [beq_iff_eq, uri]
    constructor
    · intro h; exact ⟨u, rfl, h⟩
    · rintro ⟨u', hu, h⟩; cases hu; exact h

/-- An unmapped prefix matches nothing. -/
theorem ns_unmapped (c : Ctx) (e : Elem) (n p : Str) (hp : p ≠ []) (hs : p ≠ "*".toStr)
    (hm : c.nsGet p = none) : matchNamespace c e ⟨n, some p⟩ = false := by
  cases h : matchNamespace c e ⟨n, some p⟩
  · rfl
  · obtain ⟨u, hu, _⟩ := (ns_prefix c e n p hp hs).mp h
    rw [hm] at hu; cases hu

/-- `*|E` ignores the namespace (also when the caller mapped a prefix `*`). -/
theorem ns_any (c : Ctx) (e : Elem) (n : Str) : matchNamespace c e ⟨n, some "*".toStr⟩ = true := by
  simp [matchNamespace]

/-- `|E` matches only elements without a namespace. -/
theorem ns_none (c : Ctx) (e : Elem) (n : Str) :
    matchNamespace c e ⟨n, some []⟩ = true ↔ uri c e = [] := by
  simp [matchNamespace, uri]

/-- A bare `E` matches any namespace unless the map has a default (`''`) entry, in which case
    the element must be in that namespace. -/
theorem ns_default (c : Ctx) (e : Elem) (n : Str) :
    matchNamespace c e ⟨n, none⟩ = true ↔ (c.nsGet [] = none ∨ c.nsGet [] = some (uri c e)) := by
  simp only [matchNamespace]
  cases c.nsGet [] with
  | none => simp
  | some d =>
    simp only [beq_iff_eq, uri]
    constructor
    · intro h; right; rw [h]
    · rintro (h | h)
      · cases h
      · injection h with h; exact h.symm

/-- `match_tag`: no tag is no constraint; otherwise namespace test and name test. -/
theorem tag_none (c : Ctx) (e : Elem) : matchTag c e none = true := rfl

theorem tag_some (c : Ctx) (e : Elem) (t : SelTag) :
    matchTag c e (some t) = (matchNamespace c e t && matchTagname c e t) := rfl

/-- `ns|E` as a whole: named `E` (by the document type's name rule) AND URI equal to the
    mapped one. -/
theorem type_selector_ns (c : Ctx) (e : Elem) (n p : Str) (hp : p ≠ []) (hs : p ≠ "*".toStr) :
    matchTag c e (some ⟨n, some p⟩) = true ↔
      (∃ u, c.nsGet p = some u ∧ uri c e = u) ∧ matchTagname c e ⟨n, some p⟩ = true := by
  rw [tag_some, Bool.and_eq_true, ns_prefix c e n p hp hs]

/-- The name test does not look at the selector's prefix. -/
theorem tagname_ignores_prefix (c : Ctx) (e : Elem) (n : Str) (p q : Option Str) :
    matchTagname c e ⟨n, p⟩ = matchTagname c e ⟨n, q⟩ := rfl

/-! ### Prefixes used in the document are never compared -/

/-- The element's own prefix is never consulted by the type selector test. -/
theorem doc_prefix_irrelevant (c : Ctx) (e : Elem) (t : Option SelTag) (q : Option Str) :
    matchTag c e t = matchTag c { e with pfx := q } t := by
  cases t <;> rfl

/-- Neither is it by the attribute test. -/
theorem doc_prefix_irrelevant_attr (c : Ctx) (e : Elem) (a p : Str) (q : Option Str) :
    matchAttributeName c e a p = matchAttributeName c { e with pfx := q } a p := rfl

/-- What a prefixed attribute selector may read of an attribute: namespace URI, local name, value. -/
def SameNsNameVal (x y : Attr) : Prop := x.kns = y.kns ∧ x.kname = y.kname ∧ x.val = y.val

/-- `[ns|a]` with a non-empty, non-`*` prefix mapped to a NON-EMPTY URI, in a document with
    namespace support: the result depends on the attributes only through (`kns`, `kname`, `val`);
    the key text (which carries the document's prefix) is not read at all.  (`u ≠ []` is needed
    since fix 3a64a82: a prefix mapped to `''` compares the whole key, see `attr_ns_empty` and
    `key_text_matters_for_empty_uri`.) -/
theorem attr_prefix_text_irrelevant (c : Ctx) (e : Elem) (as bs : List Attr) (a p u : Str)
    (h : c.supportsNamespaces = true) (hp : p ≠ []) (hs : p ≠ "*".toStr) (hm : c.nsGet p = some u)
    (hu : u ≠ [])
    (hrel : Pairwise₂ SameNsNameVal as bs) :
    matchAttributeName c { e with attrs := as } a p = matchAttributeName c { e with attrs := bs } a p := by
  rw [man_ns h _ a p u hp hs hm hu, man_ns h _ a p u hp hs hm hu]
  refine find?_map_pairwise₂ ?_ ?_ hrel
  · rintro x y ⟨h1, h2, _⟩; simp [localNameEq, h1, h2]
  · rintro x y ⟨_, _, h3⟩; simp [valOf, h3]

/-- The relation of the task statement: additionally the key agrees on attributes that have no
    namespace. -/
def SameUpToPrefixText (x y : Attr) : Prop :=
  x.kns = y.kns ∧ x.kname = y.kname ∧ x.val = y.val ∧ (x.kns = none → x.key = y.key)

/-- Every prefixed form (`[ns|a]` mapped to a non-empty URI or unmapped, `[*|a]`), with namespace
    support: the key text is read only on attributes that have no namespace.  (Since fix 3a64a82 a
    prefix mapped to `''` is the whole-key form `[a]`, which reads the key of every attribute:
    hence `hne`; `key_text_matters_for_empty_uri` shows it cannot be dropped.) -/
theorem attr_prefix_text_irrelevant_gen (c : Ctx) (e : Elem) (as bs : List Attr) (a p : Str)
    (h : c.supportsNamespaces = true) (hp : p ≠ []) (hne : c.nsGet p ≠ some [])
    (hrel : Pairwise₂ SameUpToPrefixText as bs) :
    matchAttributeName c { e with attrs := as } a p = matchAttributeName c { e with attrs := bs } a p := by
  by_cases hs : p = "*".toStr
  · subst hs
    rw [man_star h, man_star h]
    refine find?_map_pairwise₂ ?_ ?_ hrel
    · rintro x y ⟨h1, h2, _, h4⟩
      cases hk : x.kns with
      | none => simp [← h1, hk, h4 hk]
      | some kn => simp [← h1, hk, localNameEq, h2]
    · rintro x y ⟨_, _, h3, _⟩; simp [valOf, h3]
  · cases hm : c.nsGet p with
    | none => rw [man_unmapped h _ a p hp hs hm, man_unmapped h _ a p hp hs hm]
    | some u =>
      refine attr_prefix_text_irrelevant c e as bs a p u h hp hs hm (fun hu => hne (hu ▸ hm)) ?_
      clear hm hne
      induction hrel with
      | nil => exact .nil
      | cons hab _ ih => exact .cons ⟨hab.1, hab.2.1, hab.2.2.1⟩ ih

/-! ### `[ns|a]`, `[*|a]`, `[|a]`, `[a]` -/

/-- The predicate selecting the attribute for `[ns|a]`, `ns ↦ u`. -/
def inNs (c : Ctx) (a u : Str) (x : Attr) : Bool := x.kns == some u && localNameEq c a x

theorem inNs_iff (c : Ctx) (a u : Str) (x : Attr) :
    inNs c a u x = true ↔ x.kns = some u ∧ ∃ nm, x.kname = some nm ∧ NameEq c a nm := by
  simp [inNs, localNameEq_iff, nameEq_true_iff]

/-- `[ns|a]`, equational form: the first attribute in namespace `u` with local name `a`
    (`u ≠ []`; a prefix mapped to the empty string is `attr_ns_empty`). -/
theorem attr_ns_eq (c : Ctx) (e : Elem) (a p u : Str) (h : c.supportsNamespaces = true)
    (hp : p ≠ []) (hs : p ≠ "*".toStr) (hm : c.nsGet p = some u) (hu : u ≠ []) :
    matchAttributeName c e a p = (e.attrs.find? (inNs c a u)).map (fun x => normalizeValue x.val) :=
  man_ns h e a p u hp hs hm hu

/-- `[ns|a]` matches attribute `a` in the mapped namespace. -/
theorem attr_ns (c : Ctx) (e : Elem) (a p u : Str) (v : NVal) (h : c.supportsNamespaces = true)
    (hp : p ≠ []) (hs : p ≠ "*".toStr) (hm : c.nsGet p = some u) (hu : u ≠ []) :
    matchAttributeName c e a p = some v ↔
      ∃ x, e.attrs.find? (inNs c a u) = some x ∧ normalizeValue x.val = v := by
  rw [attr_ns_eq c e a p u h hp hs hm hu, Option.map_eq_some_iff]

/-- NEW (fix 3a64a82).  A prefix mapped to the EMPTY string designates attributes without a
    namespace the way `[a]` / `[|a]` do: `[p|a]` IS the whole-key form — the first attribute whose
    full key text is `a` (as `p|E` with `p ↦ ''` is `|E`, `ns_prefix` with `u = []` / `ns_none`). -/
theorem attr_ns_empty (c : Ctx) (e : Elem) (a p : Str) (h : c.supportsNamespaces = true)
    (hp : p ≠ []) (hs : p ≠ "*".toStr) (hm : c.nsGet p = some []) :
    matchAttributeName c e a p =
      (e.attrs.find? (fun x => nameEq c a x.key)).map (fun x => normalizeValue x.val) :=
  man_ns_empty h e a p hp hs hm

/-- … hence `[p|a]` ≡ `[a]` ≡ `[|a]` (the two latter reach the matcher with the empty prefix). -/
theorem attr_ns_empty_eq_bare (c : Ctx) (e : Elem) (a p : Str)
    (hp : p ≠ []) (hs : p ≠ "*".toStr) (hm : c.nsGet p = some []) :
    matchAttributeName c e a p = matchAttributeName c e a [] := by
  cases h : c.supportsNamespaces
  · rw [man_no_ns h, man_no_ns h]
  · rw [man_ns_empty h e a p hp hs hm, man_bare h]

/-- An unmapped prefix matches nothing. -/
theorem attr_ns_unmapped (c : Ctx) (e : Elem) (a p : Str) (h : c.supportsNamespaces = true)
    (hp : p ≠ []) (hs : p ≠ "*".toStr) (hm : c.nsGet p = none) :
    matchAttributeName c e a p = none :=
  man_unmapped h e a p hp hs hm

/-- The predicate selecting the attribute for `[*|a]`. -/
def inAnyNs (c : Ctx) (a : Str) (x : Attr) : Bool :=
  (x.kns.isNone && nameEq c a x.key) || (x.kns.isSome && localNameEq c a x)

theorem inAnyNs_iff (c : Ctx) (a : Str) (x : Attr) :
    inAnyNs c a x = true ↔
      (x.kns = none ∧ NameEq c a x.key) ∨
      (x.kns.isSome = true ∧ ∃ nm, x.kname = some nm ∧ NameEq c a nm) := by
  simp [inAnyNs, localNameEq_iff, nameEq_true_iff]

/-- `[*|a]` matches attribute `a` in any namespace or none — whatever the prefix map says about
    the prefix `*` (the code special-cases `*`). -/
theorem attr_any_ignores_star_mapping (c : Ctx) (e : Elem) (a : Str)
    (h : c.supportsNamespaces = true) :
    matchAttributeName c e a "*".toStr =
      (e.attrs.find? (inAnyNs c a)).map (fun x => normalizeValue x.val) :=
  man_star h e a

/-- The same under the hypothesis that `*` is not mapped (the form asked for). -/
theorem attr_any (c : Ctx) (e : Elem) (a : Str) (h : c.supportsNamespaces = true)
    (_hm : c.nsGet "*".toStr = none) :
    matchAttributeName c e a "*".toStr =
      (e.attrs.find? (inAnyNs c a)).map (fun x => normalizeValue x.val) :=
  attr_any_ignores_star_mapping c e a h

/-- Changing the prefix map never changes `[*|a]`. -/
theorem attr_any_map_independent (c : Ctx) (e : Elem) (a : Str) (m : List (Str × Str))
    (h : c.supportsNamespaces = true) :
    matchAttributeName { c with namespaces := m } e a "*".toStr = matchAttributeName c e a "*".toStr := by
  have h1 := attr_any_ignores_star_mapping { c with namespaces := m } e a h
  rw [h1, attr_any_ignores_star_mapping c e a h]
  rfl

/-- `[a]` and `[|a]` (both reach the matcher with the empty prefix): the attribute whose FULL key
    text equals `a` — namespaced or not. -/
theorem attr_bare (c : Ctx) (e : Elem) (a : Str) (h : c.supportsNamespaces = true) :
    matchAttributeName c e a [] =
      (e.attrs.find? (fun x => nameEq c a x.key)).map (fun x => normalizeValue x.val) :=
  man_bare h e a

/-- HTML without namespaces: the prefix is ignored (documented behaviour). -/
theorem attr_no_ns_support (c : Ctx) (e : Elem) (a p : Str) (h : c.supportsNamespaces = false) :
    matchAttributeName c e a p =
      (e.attrs.find? (fun x => lower a == lower x.key)).map (fun x => normalizeValue x.val) :=
  man_no_ns h e a p

/-- Consequently, without namespace support the prefix of the selector is irrelevant. -/
theorem attr_no_ns_support_prefix_irrelevant (c : Ctx) (e : Elem) (a p q : Str)
    (h : c.supportsNamespaces = false) :
    matchAttributeName c e a p = matchAttributeName c e a q := by
  rw [attr_no_ns_support c e a p h, attr_no_ns_support c e a q h]

/-! ### Every designated attribute (`match_attribute_name` is a generator)

  Since the repair of `[*|a op v]`, `match_attribute_name` yields the value of EVERY attribute the
  name test designates and `match_attributes` accepts when SOME yielded value passes the value
  test.  Each branch is ONE `List.filter` with the same predicate as above; the theorems above are
  the heads (`matchAttributeName_eq_head?`). -/

/-- The former return value is the first yielded value. -/
theorem attr_first_of_values (c : Ctx) (e : Elem) (a p : Str) :
    matchAttributeName c e a p = (matchAttributeValues c e a p).head? :=
  matchAttributeName_eq_head? c e a p

theorem doc_prefix_irrelevant_attr_values (c : Ctx) (e : Elem) (a p : Str) (q : Option Str) :
    matchAttributeValues c e a p = matchAttributeValues c { e with pfx := q } a p := rfl

/-- `[ns|a]`, `ns ↦ u`: ALL the attributes in namespace `u` with local name `a`, document order. -/
theorem attr_ns_values (c : Ctx) (e : Elem) (a p u : Str) (h : c.supportsNamespaces = true)
    (hp : p ≠ []) (hs : p ≠ "*".toStr) (hm : c.nsGet p = some u) (hu : u ≠ []) :
    matchAttributeValues c e a p =
      (e.attrs.filter (inNs c a u)).map (fun x => normalizeValue x.val) :=
  mav_ns h e a p u hp hs hm hu

/-- NEW (fix 3a64a82).  `[p|a]`, `p ↦ ''`: the attributes whose FULL key text equals `a`, exactly
    what `[a]` / `[|a]` designate (`attr_bare_values`). -/
theorem attr_ns_empty_values (c : Ctx) (e : Elem) (a p : Str) (h : c.supportsNamespaces = true)
    (hp : p ≠ []) (hs : p ≠ "*".toStr) (hm : c.nsGet p = some []) :
    matchAttributeValues c e a p =
      (e.attrs.filter (fun x => nameEq c a x.key)).map (fun x => normalizeValue x.val) :=
  mav_ns_empty h e a p hp hs hm

theorem attr_ns_empty_values_eq_bare (c : Ctx) (e : Elem) (a p : Str)
    (hp : p ≠ []) (hs : p ≠ "*".toStr) (hm : c.nsGet p = some []) :
    matchAttributeValues c e a p = matchAttributeValues c e a [] := by
  cases h : c.supportsNamespaces
  · rw [mav_no_ns h, mav_no_ns h]
  · rw [mav_ns_empty h e a p hp hs hm, mav_bare h]

/-- An unmapped prefix designates nothing. -/
theorem attr_ns_unmapped_values (c : Ctx) (e : Elem) (a p : Str) (h : c.supportsNamespaces = true)
    (hp : p ≠ []) (hs : p ≠ "*".toStr) (hm : c.nsGet p = none) :
    matchAttributeValues c e a p = [] :=
  mav_unmapped h e a p hp hs hm

/-- `[*|a]` designates ALL the attributes with local name `a` in any namespace, and the attribute
    `a` in no namespace — whatever the prefix map says about `*`.  (Before the repair only the
    first of them was looked at: this statement was false of the code.) -/
theorem attr_any_values (c : Ctx) (e : Elem) (a : Str) (h : c.supportsNamespaces = true) :
    matchAttributeValues c e a "*".toStr =
      (e.attrs.filter (inAnyNs c a)).map (fun x => normalizeValue x.val) :=
  mav_star h e a

/-- Changing the prefix map never changes `[*|a]`. -/
theorem attr_any_values_map_independent (c : Ctx) (e : Elem) (a : Str) (m : List (Str × Str))
    (h : c.supportsNamespaces = true) :
    matchAttributeValues { c with namespaces := m } e a "*".toStr =
      matchAttributeValues c e a "*".toStr := by
  have h1 := attr_any_values { c with namespaces := m } e a h
  rw [h1, attr_any_values c e a h]
  rfl

/-- `[a]` and `[|a]`: the attributes whose FULL key text equals `a` (one, when keys are distinct). -/
theorem attr_bare_values (c : Ctx) (e : Elem) (a : Str) (h : c.supportsNamespaces = true) :
    matchAttributeValues c e a [] =
      (e.attrs.filter (fun x => nameEq c a x.key)).map (fun x => normalizeValue x.val) :=
  mav_bare h e a

/-- HTML without namespaces: the prefix is ignored, the whole key is compared case-insensitively. -/
theorem attr_no_ns_support_values (c : Ctx) (e : Elem) (a p : Str)
    (h : c.supportsNamespaces = false) :
    matchAttributeValues c e a p =
      (e.attrs.filter (fun x => lower a == lower x.key)).map (fun x => normalizeValue x.val) :=
  mav_no_ns h e a p

theorem attr_no_ns_support_prefix_irrelevant_values (c : Ctx) (e : Elem) (a p q : Str)
    (h : c.supportsNamespaces = false) :
    matchAttributeValues c e a p = matchAttributeValues c e a q := by
  rw [attr_no_ns_support_values c e a p h, attr_no_ns_support_values c e a q h]

/-- `attr_prefix_text_irrelevant` for every designated attribute. -/
theorem attr_prefix_text_irrelevant_values (c : Ctx) (e : Elem) (as bs : List Attr) (a p u : Str)
    (h : c.supportsNamespaces = true) (hp : p ≠ []) (hs : p ≠ "*".toStr) (hm : c.nsGet p = some u)
    (hu : u ≠ [])
    (hrel : Pairwise₂ SameNsNameVal as bs) :
    matchAttributeValues c { e with attrs := as } a p =
      matchAttributeValues c { e with attrs := bs } a p := by
  rw [mav_ns h _ a p u hp hs hm hu, mav_ns h _ a p u hp hs hm hu]
  refine filter_map_pairwise₂ ?_ ?_ hrel
  · rintro x y ⟨h1, h2, _⟩; simp [localNameEq, h1, h2]
  · rintro x y ⟨_, _, h3⟩; simp [valOf, h3]

/-- `attr_prefix_text_irrelevant_gen` for every designated attribute. -/
theorem attr_prefix_text_irrelevant_gen_values (c : Ctx) (e : Elem) (as bs : List Attr) (a p : Str)
    (h : c.supportsNamespaces = true) (hp : p ≠ []) (hne : c.nsGet p ≠ some [])
    (hrel : Pairwise₂ SameUpToPrefixText as bs) :
    matchAttributeValues c { e with attrs := as } a p =
      matchAttributeValues c { e with attrs := bs } a p := by
  by_cases hs : p = "*".toStr
  · subst hs
    rw [mav_star h, mav_star h]
    refine filter_map_pairwise₂ ?_ ?_ hrel
    · rintro x y ⟨h1, h2, _, h4⟩
      cases hk : x.kns with
      | none => simp [← h1, hk, h4 hk]
      | some kn => simp [← h1, hk, localNameEq, h2]
    · rintro x y ⟨_, _, h3, _⟩; simp [valOf, h3]
  · cases hm : c.nsGet p with
    | none => rw [mav_unmapped h _ a p hp hs hm, mav_unmapped h _ a p hp hs hm]
    | some u =>
      refine attr_prefix_text_irrelevant_values c e as bs a p u h hp hs hm (fun hu => hne (hu ▸ hm)) ?_
      clear hm hne
      induction hrel with
      | nil => exact .nil
      | cons hab _ ih => exact .cons ⟨hab.1, hab.2.1, hab.2.2.1⟩ ih

/-- The pattern `match_attributes` uses for one attribute selector. -/
def patternOf (c : Ctx) (s : AttrSel) : Option Rx :=
  if c.isXml && s.xmlTypePattern.isSome then s.xmlTypePattern else s.pattern

/-- The value test of `match_attributes` on one value. -/
def passes (c : Ctx) (s : AttrSel) (v : NVal) : Bool :=
  match patternOf c s with
  | none => true
  | some r => Rx.isMatch c.env r (nvalJoin v)

/-- One attribute selector: some designated attribute passes the value test. -/
theorem attr_value_test (c : Ctx) (e : Elem) (s : AttrSel) :
    matchAttributes c e [s] = (matchAttributeValues c e s.attrName s.pfx).any (passes c s) := by
  simp only [matchAttributes, List.all_cons, List.all_nil, Bool.and_true]
  rfl

/-- `[*|a op v]` holds iff SOME attribute with local name `a` in any namespace, or named `a` in no
    namespace, has a value that satisfies the test (`[*|a]`, no pattern: iff there is one). -/
theorem attr_any_value_test (c : Ctx) (e : Elem) (a : Str) (pat xt : Option Rx)
    (h : c.supportsNamespaces = true) :
    matchAttributes c e [⟨a, "*".toStr, pat, xt⟩] = true ↔
      ∃ x ∈ e.attrs, inAnyNs c a x = true ∧
        passes c ⟨a, "*".toStr, pat, xt⟩ (normalizeValue x.val) = true := by
  rw [attr_value_test, attr_any_values c e a h]
  simp only [List.any_map, List.any_filter, List.any_eq_true, Bool.and_eq_true, Function.comp]

/-- `[ns|a op v]`, `ns ↦ u`: likewise over the attributes in namespace `u`. -/
theorem attr_ns_value_test (c : Ctx) (e : Elem) (a p u : Str) (pat xt : Option Rx)
    (h : c.supportsNamespaces = true) (hp : p ≠ []) (hs : p ≠ "*".toStr) (hm : c.nsGet p = some u)
    (hu : u ≠ []) :
    matchAttributes c e [⟨a, p, pat, xt⟩] = true ↔
      ∃ x ∈ e.attrs, inNs c a u x = true ∧ passes c ⟨a, p, pat, xt⟩ (normalizeValue x.val) = true := by
  rw [attr_value_test, attr_ns_values c e a p u h hp hs hm hu]
  simp only [List.any_map, List.any_filter, List.any_eq_true, Bool.and_eq_true, Function.comp]

/-- NEW (fix 3a64a82).  `[p|a op v]`, `p ↦ ''`: some attribute whose full key text is `a` has a
    value that passes — the test of `[a op v]`. -/
theorem attr_ns_empty_value_test (c : Ctx) (e : Elem) (a p : Str) (pat xt : Option Rx)
    (h : c.supportsNamespaces = true) (hp : p ≠ []) (hs : p ≠ "*".toStr) (hm : c.nsGet p = some []) :
    matchAttributes c e [⟨a, p, pat, xt⟩] = true ↔
      ∃ x ∈ e.attrs, nameEq c a x.key = true ∧ passes c ⟨a, p, pat, xt⟩ (normalizeValue x.val) = true := by
  rw [attr_value_test, attr_ns_empty_values c e a p h hp hs hm]
  simp only [List.any_map, List.any_filter, List.any_eq_true, Bool.and_eq_true, Function.comp]

/-- … and it is literally the bare selector's verdict: `[p|a op v]` ≡ `[a op v]` ≡ `[|a op v]`. -/
theorem attr_ns_empty_matchAttributes_eq_bare (c : Ctx) (e : Elem) (a p : Str) (pat xt : Option Rx)
    (hp : p ≠ []) (hs : p ≠ "*".toStr) (hm : c.nsGet p = some []) :
    matchAttributes c e [⟨a, p, pat, xt⟩] = matchAttributes c e [⟨a, [], pat, xt⟩] := by
  rw [attr_value_test, attr_value_test]
  show (matchAttributeValues c e a p).any _ = (matchAttributeValues c e a []).any _
  rw [attr_ns_empty_values_eq_bare c e a p hp hs hm]
  rfl

/-- The specification side (`Css.satAttr`, value tests of `Spec/CssValue.lean`): `[*|a op v flag]`
    for every operator but `!=` … -/
theorem attr_any_value_test_spec (c : Ctx) (e : Elem) (a : Str) (t : Css.AttrTest)
    (h : c.supportsNamespaces = true) (hop : (t.op == Css.AttrOp.ne) = false) :
    Css.satAttr c e "*".toStr a (some t) = true ↔
      ∃ x ∈ e.attrs, inAnyNs c a x = true ∧
        Css.valTest t.op t.value (Css.caseInsensitive c a t.flag)
          (nvalJoin (normalizeValue x.val)) = true := by
  unfold Css.satAttr
  simp only [hop, Bool.false_eq_true, if_false, attr_any_values c e a h, List.any_map,
    List.any_filter, List.any_eq_true, Bool.and_eq_true, Function.comp]

/-- … and `[*|a!=v]` is `:not([*|a=v])`: NO such attribute has the value `v`. -/
theorem attr_any_ne_spec (c : Ctx) (e : Elem) (a : Str) (t : Css.AttrTest)
    (h : c.supportsNamespaces = true) (hop : (t.op == Css.AttrOp.ne) = true) :
    Css.satAttr c e "*".toStr a (some t) = true ↔
      ¬ ∃ x ∈ e.attrs, inAnyNs c a x = true ∧
        Css.valTest t.op t.value (Css.caseInsensitive c a t.flag)
          (nvalJoin (normalizeValue x.val)) = true := by
  unfold Css.satAttr
  simp only [hop, if_true, attr_any_values c e a h, List.any_map, List.any_filter,
    Bool.not_eq_true', ← Bool.not_eq_true, List.any_eq_true, Bool.and_eq_true, Function.comp]

/-- `[*|a]`: there is such an attribute. -/
theorem attr_any_presence_spec (c : Ctx) (e : Elem) (a : Str) (h : c.supportsNamespaces = true) :
    Css.satAttr c e "*".toStr a none = true ↔ ∃ x ∈ e.attrs, inAnyNs c a x = true := by
  unfold Css.satAttr
  simp only [attr_any_values c e a h, List.any_map, List.any_filter, List.any_eq_true,
    Bool.and_eq_true, Function.comp, and_true]

/-! ### Non-vacuity and counterexamples (concrete contexts) -/

def u1 : Str := "u1".toStr
def u2 : Str := "u2".toStr

/-- An XML document context with prefix map `{svg: u1, '*': u2}`. -/
def cxml : Ctx :=
  { env := asciiEnv, bidi := fun _ => 0, wildStrip := id, isXml := true, hasHtmlNs := false,
    isHtml := false, root := none, scope := none,
    namespaces := [("svg".toStr, u1), ("*".toStr, u2)], iframeRestrict := false }

/-- The same with a default namespace. -/
def cxmlDefault : Ctx := { cxml with namespaces := [([], u1)] }

/-- An HTML document without namespace support (html.parser / lxml). -/
def chtml : Ctx := { cxml with isXml := false }

def circle (pfx : Option Str) (ns : Option Str) (attrs : List Attr) : Elem :=
  { isDoc := false, name := "circle".toStr, pfx := pfx, ns := ns, attrs := attrs }

def xhref (keyText : String) (ns : Str) : Attr :=
  { key := keyText.toStr, kns := some ns, kname := some "href".toStr, val := .str "v".toStr }
def plainHref : Attr := { key := "href".toStr, kns := none, kname := none, val := .str "w".toStr }

-- `svg|circle`: the document's prefix (`s`) differs from the selector's (`svg`); only URIs count.
example : matchTag cxml (circle (some "s".toStr) (some u1) []) (some ⟨"circle".toStr, some "svg".toStr⟩) = true := by decide
example : matchTag cxml (circle (some "svg".toStr) (some u2) []) (some ⟨"circle".toStr, some "svg".toStr⟩) = false := by decide
-- unmapped prefix
example : matchTag cxml (circle none (some u1) []) (some ⟨"circle".toStr, some "nope".toStr⟩) = false := by decide
-- `|circle`
example : matchTag cxml (circle none none []) (some ⟨"circle".toStr, some []⟩) = true := by decide
example : matchTag cxml (circle none (some u1) []) (some ⟨"circle".toStr, some []⟩) = false := by decide
-- bare `circle` with and without a default namespace
example : matchTag cxml (circle none (some u2) []) (some ⟨"circle".toStr, none⟩) = true := by decide
example : matchTag cxmlDefault (circle none (some u2) []) (some ⟨"circle".toStr, none⟩) = false := by decide
example : matchTag cxmlDefault (circle none (some u1) []) (some ⟨"circle".toStr, none⟩) = true := by decide
-- `[svg|href]`: document prefix text `x:` is irrelevant, the URI decides
example : matchAttributeName cxml (circle none none [plainHref, xhref "x:href" u1]) "href".toStr "svg".toStr
    = some (.str "v".toStr) := by decide
example : matchAttributeName cxml (circle none none [plainHref, xhref "svg:href" u2]) "href".toStr "svg".toStr
    = none := by decide
-- `[*|href]`: first attribute named href in any namespace or none; `*` being mapped (to `u2`)
-- does not restrict it to `u2`
example : matchAttributeName cxml (circle none none [xhref "x:href" u1, plainHref]) "href".toStr "*".toStr
    = some (.str "v".toStr) := by decide
example : matchAttributeName cxml (circle none none [plainHref]) "href".toStr "*".toStr
    = some (.str "w".toStr) := by decide
-- `[*|href="v"]` / `[*|href="w"]`: BOTH attributes are designated (before the repair of
-- `match_attribute_name` only the first, `x:href`, was looked at and `[*|href="w"]` failed)
example : matchAttributeValues cxml (circle none none [xhref "x:href" u1, plainHref]) "href".toStr "*".toStr
    = [.str "v".toStr, .str "w".toStr] := by decide
example : matchAttributes cxml (circle none none [xhref "x:href" u1, plainHref])
    [⟨"href".toStr, "*".toStr, some (.seq [.lit 119 false, .eos]), none⟩] = true := by decide
example : matchAttributes cxml (circle none none [xhref "x:href" u1, plainHref])
    [⟨"href".toStr, "*".toStr, some (.seq [.lit 118 false, .eos]), none⟩] = true := by decide
example : matchAttributes cxml (circle none none [xhref "x:href" u1, plainHref])
    [⟨"href".toStr, "*".toStr, some (.seq [.lit 122 false, .eos]), none⟩] = false := by decide
-- `[href]` compares the whole key: it does not see `x:href`, `[x\:href]` does
example : matchAttributeName cxml (circle none none [xhref "x:href" u1]) "href".toStr [] = none := by decide
example : matchAttributeName cxml (circle none none [xhref "x:href" u1]) "x:href".toStr []
    = some (.str "v".toStr) := by decide

/-- An XML document context whose prefix map sends `n` to the EMPTY string (and `svg` to `u1`). -/
def cxmlEmpty : Ctx := { cxml with namespaces := [("n".toStr, []), ("svg".toStr, u1)] }

-- `[n|href]`, `n ↦ ''` (fix 3a64a82): the attribute `href` without a namespace, as `[href]`;
-- before the fix the model (and the code) answered `none`
example : matchAttributeName cxmlEmpty (circle none none [xhref "x:href" u1, plainHref]) "href".toStr "n".toStr
    = some (.str "w".toStr) := by decide
example : matchAttributeName cxmlEmpty (circle none none [xhref "x:href" u1]) "href".toStr "n".toStr
    = none := by decide
-- `n|circle` with the same map: the element without a namespace
example : matchTag cxmlEmpty (circle none none []) (some ⟨"circle".toStr, some "n".toStr⟩) = true := by decide
example : matchTag cxmlEmpty (circle none (some u1) []) (some ⟨"circle".toStr, some "n".toStr⟩) = false := by decide

/-- The hypothesis `u ≠ []` / `nsGet p ≠ some []` of `attr_prefix_text_irrelevant(_gen)` is needed:
    with `n ↦ ''` the selector `[n|x\:href]` is the whole-key form and reads the key text of a
    namespaced attribute. -/
theorem key_text_matters_for_empty_uri :
    cxmlEmpty.supportsNamespaces = true ∧ cxmlEmpty.nsGet "n".toStr = some [] ∧
    SameUpToPrefixText (xhref "x:href" u1) (xhref "y:href" u1) ∧
    matchAttributeName cxmlEmpty (circle none none [xhref "x:href" u1]) "x:href".toStr "n".toStr
      ≠ matchAttributeName cxmlEmpty (circle none none [xhref "y:href" u1]) "x:href".toStr "n".toStr := by
  refine ⟨by decide, by decide, ⟨rfl, rfl, rfl, by decide⟩, by decide⟩

/-- The hypothesis `supportsNamespaces = true` of `attr_prefix_text_irrelevant` is needed: without
    namespace support the whole key text is compared, for every prefix. -/
theorem key_text_matters_without_ns_support :
    SameUpToPrefixText (xhref "x:href" u1) (xhref "y:href" u1) ∧
    matchAttributeName chtml (circle none none [xhref "x:href" u1]) "x:href".toStr "svg".toStr
      ≠ matchAttributeName chtml (circle none none [xhref "y:href" u1]) "x:href".toStr "svg".toStr := by
  refine ⟨⟨rfl, rfl, rfl, by decide⟩, by decide⟩

end C12
end SoupVerif
