/-
  C17 — `:in-range` / `:out-of-range` in terms of the decision of `CSSMatch.match_range` TRANSLATED from the
  source (`Gen.PyLoops.rangeDecision`, `Generated/PyLoops.lean`; equality with the matcher model:
  `Properties/C18GenRange.lean`).  `C17.oorOf` (the function `rangeStateE` / `inrange_eq` / `outofrange_eq`
  are stated with) is the generated decision for `:out-of-range`.
-/
import SoupVerif.Properties.C17
import SoupVerif.Properties.C18GenRange

namespace SoupVerif.C17
open SoupVerif StateLaws

/-- `oorOf` is what the hand decision negates / returns. -/
theorem handDecision_oorOf (itype : Str) (mn mx v : Option Inputs.PVal) (inRange : Bool) :
    C18.handDecision itype mn mx v inRange =
      (if mn.isNone && mx.isNone then false
       else if inRange then !oorOf itype mn mx v else oorOf itype mn mx v) := rfl

/-- With a valid bound, `oorOf` is the generated decision for `:out-of-range` … -/
theorem oorOf_eq_gen (itype : Str) (mn mx v : Option Inputs.PVal) (h : (mn.isNone && mx.isNone) = false) :
    oorOf itype mn mx v = Gen.PyLoops.rangeDecision itype mn mx v false := by
  rw [C18.rangeDecision_eq_hand, handDecision_oorOf, h]; rfl

/-- … and its negation is the generated decision for `:in-range`. -/
theorem not_oorOf_eq_gen (itype : Str) (mn mx v : Option Inputs.PVal) (h : (mn.isNone && mx.isNone) = false) :
    (!oorOf itype mn mx v) = Gen.PyLoops.rangeDecision itype mn mx v true := by
  rw [C18.rangeDecision_eq_hand, handDecision_oorOf, h]; rfl

/-- The state `match_range` establishes, with the generated decision: when none of the four reads raises,
    `rangeState` is `none` without a valid bound and otherwise `some` of the generated `:out-of-range` decision. -/
theorem rangeState_gen (c : Ctx) (e : Elem) (itype : Str) (mn mx v : Option Inputs.PVal)
    (hT : lowerE ((c.attrByName e Gen.PyLoops.rangeAttrType).getD (.str [])) = .ok itype)
    (hmn : parseValueE itype (c.attrByName e Gen.PyLoops.rangeAttrMin) = .ok mn)
    (hmx : parseValueE itype (c.attrByName e Gen.PyLoops.rangeAttrMax) = .ok mx)
    (hv : parseValueE itype (c.attrByName e Gen.PyLoops.rangeAttrValue) = .ok v) :
    rangeState c e =
      (if mn.isNone && mx.isNone then none else some (Gen.PyLoops.rangeDecision itype mn mx v false)) := by
  have hT' : lowerE ((c.attrByName e "type".toStr).getD (.str [])) = .ok itype := hT
  have hmn' : parseValueE itype (c.attrByName e "min".toStr) = .ok mn := hmn
  have hmx' : parseValueE itype (c.attrByName e "max".toStr) = .ok mx := hmx
  have hv' : parseValueE itype (c.attrByName e "value".toStr) = .ok v := hv
  unfold rangeState rangeStateE
  simp only [hT', hmn', hmx', hv']
  cases hb : (mn.isNone && mx.isNone)
  · simp [oorOf_eq_gen _ _ _ _ hb]
  · simp

/-- `:in-range` / `:out-of-range` on an HTML document = the compound (an HTML `input` of a range type carrying
    `min` or `max`) and the decision translated from the source of `match_range`. -/
theorem inrange_eq_gen (c : Ctx) (l : Loc) (e : Elem) (hc : c.isHtml = true)
    (itype : Str) (mn mx v : Option Inputs.PVal)
    (hT : lowerE ((c.attrByName e Gen.PyLoops.rangeAttrType).getD (.str [])) = .ok itype)
    (hmn : parseValueE itype (c.attrByName e Gen.PyLoops.rangeAttrMin) = .ok mn)
    (hmx : parseValueE itype (c.attrByName e Gen.PyLoops.rangeAttrMax) = .ok mx)
    (hv : parseValueE itype (c.attrByName e Gen.PyLoops.rangeAttrValue) = .ok v) :
    matchList c l e Gen.CSS_IN_RANGE =
        (rangeCompoundHolds c e && Gen.PyLoops.rangeDecision itype mn mx v true) ∧
    matchList c l e Gen.CSS_OUT_OF_RANGE =
        (rangeCompoundHolds c e && Gen.PyLoops.rangeDecision itype mn mx v false) := by
  rw [inrange_eq c l e hc, outofrange_eq c l e hc, rangeState_gen c e itype mn mx v hT hmn hmx hv]
  cases hb : (mn.isNone && mx.isNone)
  · rw [← not_oorOf_eq_gen _ _ _ _ hb, ← oorOf_eq_gen _ _ _ _ hb]
    cases oorOf itype mn mx v <;> simp
  · have h1 : mn = none := by cases mn <;> simp_all
    have h2 : mx = none := by cases mx <;> simp_all
    subst h1 h2
    simp [C18.rangeDecision_no_bounds]

end SoupVerif.C17
