/-
  C08  Matching never raises on any tree — leaf level.

  The matcher model (`Model/Match.lean`) is made of total Lean functions; the places where
  CPython can raise are explicit: `lowerE` (`util.lower` on a list: unhashable for the
  `lru_cache` → `TypeError`), `parseValueE` (`RE_x.match(value)` on a list → `TypeError`) and
  their caller `matchRangeE` (`match_range`).  This file proves

    * `range_total`      no error when `type`/`min`/`max`/`value` hold what parsers store there
                         (`ParserShaped`: never a sequence);
    * `range_error_iff`  exactly when `matchRangeE` errors, and that the error is `TypeError`;
    * the historical defect (`util.lower(None)` for a missing `type`) as `matchRangeOldE`;
    * `normalize_total`, `normalize_list_items_str`   shape of `normalize_value`'s result;
    * `inputs_total` family   `Inputs.parse_value` gives `None` for unknown types; the ISO-week
                         count is arithmetic and defined for every year (0 and huge included).

  SIDE CONDITION found (a deviation candidate).  `ParserShaped` is needed: with a builder whose
  `multi_valued_attributes` makes `type` (or `min`/`max`/`value` of a range type) a list, the
  Python code raises `TypeError` (reproduced: `<input type="number x" min="1" value="3">` with
  `multi_valued_attributes={'*': ['type']}` and `:in-range`).  No stock parser does that.

  SCOPE NOTE (`matcher_total_note`).  For list-valued `dir`, `lang`, `type` (in `match_dir`,
  `match_default`, `match_indeterminate`), `http-equiv`, `content`, `value` (with `dir=auto`) the
  functions `matchDirWalk`, `findBidiKids`, `firstSubmit`, `radioCheckedScan`, `metaLangScan`,
  `matchLang` of the model take a conventional branch (`.list _ => none/false/skip/join`) where
  CPython raises (`util.lower(list)` → `TypeError`, `list.lower` → `AttributeError`,
  `unicodedata.bidirectional('ab')` → `TypeError`).  Under `ParserShapedFor` for those names the
  branches are unreachable (`attrByName_not_list`); outside it the model does not describe the
  Python code.
-/
import SoupVerif.Properties.C18Range
namespace SoupVerif
namespace C08

/-! ### Shapes -/

/-- The value is a sequence (`list`/`tuple`): the only shape `normalize_value` turns into a list. -/
def isSeq : PyVal → Bool
  | .seq _ _ => true
  | _ => false

/-- Key comparison of `get_attribute_by_name`: exact in XML, lower-cased key otherwise. -/
def keyIs (c : Ctx) (a : Attr) (name : Str) : Bool :=
  if c.isXml then a.key == name else lower a.key == name

/-- The attributes called `names` (compared as the matcher compares them) never hold a sequence:
    `str`, `None`, `bytes` or any other object (whose `str()` is taken). -/
def ParserShapedFor (names : List String) (c : Ctx) (e : Elem) : Prop :=
  ∀ a ∈ e.attrs, ∀ n ∈ names, keyIs c a n.toStr = true → isSeq a.val = false

/-- What `match_range` reads. -/
def rangeAttrs : List String := ["type", "min", "max", "value"]

def ParserShaped (c : Ctx) (e : Elem) : Prop := ParserShapedFor rangeAttrs c e

/-- `normalize_value` is total: a string for `None`/`str`/`bytes`/other objects, a list of
    strings for a sequence. -/
theorem normalize_total (v : PyVal) :
    (isSeq v = false ∧ ∃ s, normalizeValue v = .str s) ∨
    (∃ items r, v = .seq items r ∧ normalizeValue v = .list (items.map normalizeItem)) := by
  cases v with
  | none => exact Or.inl ⟨rfl, _, rfl⟩
  | str s => exact Or.inl ⟨rfl, _, rfl⟩
  | bytes d => exact Or.inl ⟨rfl, _, rfl⟩
  | seq items r => exact Or.inr ⟨items, r, rfl, rfl⟩
  | other r => exact Or.inl ⟨rfl, _, rfl⟩

theorem normalize_str_iff (v : PyVal) : (∃ s, normalizeValue v = .str s) ↔ isSeq v = false := by
  cases v <;> simp [normalizeValue, isSeq]

theorem normalize_list_iff (v : PyVal) : (∃ l, normalizeValue v = .list l) ↔ isSeq v = true := by
  cases v <;> simp [normalizeValue, isSeq]

/-- Every item of a normalised sequence is a string: one per item, a nested sequence through its
    `str()` (never a nested list), `None` as `''`. -/
theorem normalize_list_items_str (items : List PyVal) (r : Str) :
    ∃ l : List Str, normalizeValue (.seq items r) = .list l ∧ l.length = items.length ∧
      ∀ i (h : i < items.length), l[i]? = some (normalizeItem items[i]) := by
  refine ⟨items.map normalizeItem, rfl, by simp, ?_⟩
  intro i h
  simp [h]

theorem normalizeItem_nested (items : List PyVal) (r : Str) : normalizeItem (.seq items r) = r := rfl
theorem normalizeItem_none : normalizeItem .none = [] := rfl

/-- A shaped attribute never reads as a list. -/
theorem attrByName_not_list {names : List String} {c : Ctx} {e : Elem}
    (hs : ParserShapedFor names c e) {n : String} (hn : n ∈ names) (l : List Str) :
    c.attrByName e n.toStr ≠ some (.list l) := by
  intro h
  unfold Ctx.attrByName at h
  have key : ∀ a ∈ e.attrs, keyIs c a n.toStr = true → normalizeValue a.val ≠ .list l := by
    intro a ha hk hl
    have h1 := hs a ha n hn hk
    have h2 := (normalize_list_iff a.val).mp ⟨l, hl⟩
    rw [h1] at h2
    cases h2
  split at h
  · rename_i hx
    rw [Option.map_eq_some_iff] at h
    obtain ⟨a, hfind, hv⟩ := h
    have hp := List.find?_some hfind
    exact key a (List.mem_of_find?_eq_some hfind)
      (by unfold keyIs; rw [if_pos hx]; simpa using hp) hv
  · rename_i hx
    rw [Option.map_eq_some_iff] at h
    obtain ⟨a, hfind, hv⟩ := h
    have hp := List.find?_some hfind
    exact key a (List.mem_of_find?_eq_some hfind)
      (by unfold keyIs; rw [if_neg hx]; simpa using hp) hv

theorem attrByName_shaped {names : List String} {c : Ctx} {e : Elem}
    (hs : ParserShapedFor names c e) {n : String} (hn : n ∈ names) :
    c.attrByName e n.toStr = none ∨ ∃ s, c.attrByName e n.toStr = some (.str s) := by
  cases h : c.attrByName e n.toStr with
  | none => exact Or.inl rfl
  | some v =>
    cases v with
    | str s => exact Or.inr ⟨s, rfl⟩
    | list l => exact absurd h (attrByName_not_list hs hn l)

/-! ### `match_range` never raises on parser-shaped elements -/

theorem lowerE_ok_iff (v : NVal) : (∃ s, lowerE v = .ok s) ↔ ∃ s, v = .str s := by
  cases v <;> simp [lowerE]

/-- `match_range` returns a value for every context, element and condition, whatever the
    content of `type`, `min`, `max`, `value` (missing, empty, malformed, any year). -/
theorem range_total (c : Ctx) (e : Elem) (cond : Nat) (hs : ParserShaped c e) :
    ∃ b, matchRangeE c e cond = .ok b := by
  have hT : ∃ itype, lowerE ((c.attrByName e "type".toStr).getD (.str [])) = .ok itype := by
    rcases attrByName_shaped hs (n := "type") (by simp [rangeAttrs]) with h | ⟨s, h⟩
    · rw [h]; exact ⟨_, rfl⟩
    · rw [h]; exact ⟨_, rfl⟩
  obtain ⟨itype, hT⟩ := hT
  have hP : ∀ k ∈ rangeAttrs, ∃ r, parseValueE itype (c.attrByName e k.toStr) = .ok r := by
    intro k hk
    rcases attrByName_shaped hs hk with h | ⟨s, h⟩
    · rw [h]; exact ⟨_, rfl⟩
    · rw [h]; exact ⟨_, rfl⟩
  obtain ⟨mn, hmn⟩ := hP "min" (by simp [rangeAttrs])
  obtain ⟨mx, hmx⟩ := hP "max" (by simp [rangeAttrs])
  obtain ⟨v, hv⟩ := hP "value" (by simp [rangeAttrs])
  obtain ⟨b, hb, -⟩ := C18.range_def c e cond itype mn mx v hT hmn hmx hv
  exact ⟨b, hb⟩

/-- The `Bool` wrapper `matchRange` used inside `matchSel` turns an error into `false`; on
    parser-shaped elements there is no error to swallow. -/
theorem matchRange_faithful (c : Ctx) (e : Elem) (cond : Nat) (hs : ParserShaped c e) :
    matchRangeE c e cond = .ok (matchRange c e cond) := by
  obtain ⟨b, hb⟩ := range_total c e cond hs
  unfold matchRange
  rw [hb]; rfl

/-! ### Exactly when `match_range` raises -/

/-- The types for which `Inputs.parse_value` applies a regular expression to the value. -/
def isRangeType (it : Str) : Bool :=
  ["date", "month", "week", "time", "datetime-local", "number", "range"].any (fun t => t.toStr == it)

def isListV : Option NVal → Bool
  | some (.list _) => true
  | _ => false

/-- What `parse_value` returns for a value that is not a list. -/
def parsedOf (it : Str) : Option NVal → Option Inputs.PVal
  | some (.str s) => Inputs.parseValue it s
  | _ => none

/-- `match_range` on the four values it reads (the body of `matchRangeE`). -/
def rangeCore (tv : NVal) (mnv mxv vv : Option NVal) (condition : Nat) : Except PyErr Bool := do
  let itype ← lowerE tv
  let mn ← parseValueE itype mnv
  let mx ← parseValueE itype mxv
  if mn.isNone && mx.isNone then return false
  let value ← parseValueE itype vv
  let outOfRange : Bool :=
    match value with
    | none => false
    | some v =>
      let lowBad := match mn with | some m => Inputs.ltP v m | none => false
      let highBad := match mx with | some m => Inputs.ltP m v | none => false
      if itype == "time".toStr then
        match mn, mx with
        | some m1, some m2 =>
          if Inputs.ltP m2 m1 then Inputs.ltP v m1 && Inputs.ltP m2 v
          else lowBad || highBad
        | _, _ => lowBad || highBad
      else if ["date", "datetime-local", "month", "week", "number", "range"].any (fun t => t.toStr == itype) then
        lowBad || highBad
      else false
  return (if hasFlag condition SEL_IN_RANGE then !outOfRange else outOfRange)

theorem matchRangeE_core (c : Ctx) (e : Elem) (cond : Nat) :
    matchRangeE c e cond = rangeCore ((c.attrByName e "type".toStr).getD (.str []))
      (c.attrByName e "min".toStr) (c.attrByName e "max".toStr) (c.attrByName e "value".toStr) cond := rfl

/-- The reads that raise, in the order Python performs them:
    `type` is a list; or the type is one of the seven range types and `min` is a list, or `max`
    is, or (some bound being valid, so that the early `return False` is not taken) `value` is. -/
def raisesCore (tv : NVal) (mnv mxv vv : Option NVal) : Bool :=
  match tv with
  | .list _ => true
  | .str s =>
    isRangeType (lower s) &&
      (isListV mnv || isListV mxv ||
        (!((parsedOf (lower s) mnv).isNone && (parsedOf (lower s) mxv).isNone) && isListV vv))

def rangeRaises (c : Ctx) (e : Elem) : Bool :=
  raisesCore ((c.attrByName e "type".toStr).getD (.str []))
    (c.attrByName e "min".toStr) (c.attrByName e "max".toStr) (c.attrByName e "value".toStr)

theorem parseValueE_list (it : Str) (l : List Str) :
    parseValueE it (some (.list l)) = if isRangeType it then .error .typeError else .ok none := rfl

theorem parseValueE_notlist (it : Str) (v : Option NVal) (h : isListV v = false) :
    parseValueE it v = .ok (parsedOf it v) := by
  cases v with
  | none => rfl
  | some x =>
    cases x with
    | str s => rfl
    | list l => simp [isListV] at h

theorem parseValueE_islist (it : Str) (v : Option NVal) (hR : isRangeType it = true)
    (h : isListV v = true) : parseValueE it v = .error .typeError := by
  cases v with
  | none => simp [isListV] at h
  | some x =>
    cases x with
    | str s => simp [isListV] at h
    | list l => rw [parseValueE_list, if_pos hR]

theorem parseValue_nonrange (it s : Str) (hR : isRangeType it = false) :
    Inputs.parseValue it s = none := by
  apply C18.parse_other_type
  intro k hk hkt
  have : isRangeType it = true := by
    unfold isRangeType
    rw [List.any_eq_true]
    exact ⟨k, hk, by simp [hkt]⟩
  rw [hR] at this
  cases this

theorem parseValueE_nonrange (it : Str) (v : Option NVal) (hR : isRangeType it = false) :
    parseValueE it v = .ok none := by
  cases v with
  | none => rfl
  | some x =>
    cases x with
    | str s => show Except.ok (Inputs.parseValue it s) = _; rw [parseValue_nonrange it s hR]
    | list l => rw [parseValueE_list, hR]; rfl

theorem close_err {X : Except PyErr Bool} {R : Bool} (hX : X = .error .typeError) (hR : R = true) :
    (X = .error .typeError ↔ R = true) ∧ ∀ err, X = .error err → err = .typeError := by
  refine ⟨⟨fun _ => hR, fun _ => hX⟩, ?_⟩
  intro err h
  rw [hX] at h
  injection h with h
  exact h.symm

theorem close_ok {X : Except PyErr Bool} {R : Bool} {b : Bool} (hX : X = .ok b) (hR : R = false) :
    (X = .error .typeError ↔ R = true) ∧ ∀ err, X = .error err → err = .typeError := by
  refine ⟨⟨?_, ?_⟩, ?_⟩
  · intro h; rw [hX] at h; cases h
  · intro h; rw [hR] at h; cases h
  · intro err h; rw [hX] at h; cases h

theorem core_error_iff (tv : NVal) (mnv mxv vv : Option NVal) (cond : Nat) :
    (rangeCore tv mnv mxv vv cond = .error .typeError ↔ raisesCore tv mnv mxv vv = true) ∧
    (∀ err, rangeCore tv mnv mxv vv cond = .error err → err = .typeError) := by
  cases tv with
  | list l => exact close_err rfl rfl
  | str s =>
    by_cases hR : isRangeType (lower s) = true
    · by_cases h1 : isListV mnv = true
      · apply close_err
        · unfold rangeCore
          simp only [lowerE, parseValueE_islist _ _ hR h1, bind, Except.bind]
        · simp [raisesCore, hR, h1]
      · have h1' : isListV mnv = false := by simpa using h1
        by_cases h2 : isListV mxv = true
        · apply close_err
          · unfold rangeCore
            simp only [lowerE, parseValueE_notlist _ _ h1', parseValueE_islist _ _ hR h2, bind, Except.bind]
          · simp [raisesCore, hR, h2]
        · have h2' : isListV mxv = false := by simpa using h2
          cases hb : ((parsedOf (lower s) mnv).isNone && (parsedOf (lower s) mxv).isNone) with
          | true =>
            apply close_ok (b := false)
            · unfold rangeCore
              simp only [lowerE, parseValueE_notlist _ _ h1', parseValueE_notlist _ _ h2', bind,
                Except.bind, hb, if_true, pure, Except.pure]
            · simp only [raisesCore, hR, h1', h2', hb]; rfl
          | false =>
            by_cases h3 : isListV vv = true
            · apply close_err
              · unfold rangeCore
                simp only [lowerE, parseValueE_notlist _ _ h1', parseValueE_notlist _ _ h2',
                  parseValueE_islist _ _ hR h3, bind, Except.bind, hb, Bool.false_eq_true, if_false]
              · simp only [raisesCore, hR, h1', h2', hb, h3]; rfl
            · have h3' : isListV vv = false := by simpa using h3
              have hX : ∃ b, rangeCore (.str s) mnv mxv vv cond = .ok b := by
                unfold rangeCore
                simp only [lowerE, parseValueE_notlist _ _ h1', parseValueE_notlist _ _ h2',
                  parseValueE_notlist _ _ h3', bind, Except.bind, hb, Bool.false_eq_true, if_false,
                  pure, Except.pure]
                exact ⟨_, rfl⟩
              obtain ⟨b, hX⟩ := hX
              apply close_ok hX
              simp only [raisesCore, hR, h1', h2', hb, h3']; rfl
    · have hR' : isRangeType (lower s) = false := by simpa using hR
      apply close_ok (b := false)
      · unfold rangeCore
        simp only [lowerE, parseValueE_nonrange _ _ hR', bind, Except.bind, Option.isNone_none,
          Bool.and_self, if_true, pure, Except.pure]
      · simp [raisesCore, hR']

/-- `match_range` raises exactly when a read attribute normalises to a list AND the branch that
    uses it is reached (`rangeRaises`); the exception is always `TypeError`. -/
theorem range_error_iff (c : Ctx) (e : Elem) (cond : Nat) :
    (∃ err, matchRangeE c e cond = .error err) ↔ rangeRaises c e = true := by
  rw [matchRangeE_core]
  unfold rangeRaises
  have h := core_error_iff ((c.attrByName e "type".toStr).getD (.str []))
    (c.attrByName e "min".toStr) (c.attrByName e "max".toStr) (c.attrByName e "value".toStr) cond
  constructor
  · rintro ⟨err, he⟩
    have := h.2 err he
    subst this
    exact h.1.mp he
  · intro hr
    exact ⟨_, h.1.mpr hr⟩

theorem range_error_is_typeError (c : Ctx) (e : Elem) (cond : Nat) (err : PyErr)
    (h : matchRangeE c e cond = .error err) : err = .typeError := by
  rw [matchRangeE_core] at h
  exact (core_error_iff _ _ _ _ cond).2 err h

/-- Parser-shaped elements never satisfy the raising condition. -/
theorem shaped_not_raises (c : Ctx) (e : Elem) (hs : ParserShaped c e) : rangeRaises c e = false := by
  cases h : rangeRaises c e with
  | false => rfl
  | true =>
    obtain ⟨err, he⟩ := (range_error_iff c e 0).mpr h
    obtain ⟨b, hb⟩ := range_total c e 0 hs
    rw [hb] at he
    cases he

/-! ### Examples: a list-valued `type`, and the historical `util.lower(None)` -/

def chtml : Ctx :=
  { env := asciiEnv, bidi := fun _ => 0, wildStrip := id, isXml := false, hasHtmlNs := false,
    isHtml := true, root := none, scope := none, namespaces := [], iframeRestrict := false }

def input (attrs : List (String × PyVal)) : Elem :=
  { isDoc := false, name := "input".toStr, pfx := none, ns := none,
    attrs := attrs.map fun (k, v) => ⟨k.toStr, none, none, v⟩ }

def sv (s : String) : PyVal := .str s.toStr

/-- `<input type=["number","x"] min="1" value="3">` (a builder with a multi-valued `type`). -/
example : matchRangeE chtml
    (input [("type", .seq [sv "number", sv "x"] "['number', 'x']".toStr), ("min", sv "1"), ("value", sv "3")])
    SEL_IN_RANGE = .error .typeError := by rfl

/-- A list-valued `min` raises only for a range type … -/
example : matchRangeE chtml
    (input [("type", sv "number"), ("min", .seq [sv "1", sv "2"] []), ("value", sv "3")])
    SEL_IN_RANGE = .error .typeError := by rfl
/-- … not for `type=text` (`parse_value` never touches the value) … -/
example : matchRangeE chtml
    (input [("type", sv "text"), ("min", .seq [sv "1", sv "2"] []), ("value", sv "3")])
    SEL_IN_RANGE = .ok false := by rfl
/-- … and a list-valued `value` is not even read when there is no valid bound. -/
example : matchRangeE chtml
    (input [("type", sv "number"), ("min", sv "x"), ("value", .seq [sv "3"] [])])
    SEL_IN_RANGE = .ok false := by rfl
example : matchRangeE chtml
    (input [("type", sv "number"), ("min", sv "1"), ("value", .seq [sv "3"] [])])
    SEL_IN_RANGE = .error .typeError := by rfl
/-- `None`, bytes, numbers (their `str()`) are fine. -/
example : matchRangeE chtml
    (input [("type", sv "number"), ("min", .other "1".toStr), ("max", .none), ("value", .bytes "3".toStr)])
    SEL_IN_RANGE = .ok true := by rfl

/-- The historical code: `util.lower(self.get_attribute_by_name(el, 'type'))` — no default, so a
    missing `type` handed `None` to `util.lower` (`for c in None` → `TypeError`). -/
def matchRangeOldE (c : Ctx) (e : Elem) (condition : Nat) : Except PyErr Bool := do
  let _itype ← (match c.attrByName e "type".toStr with
    | none => (Except.error PyErr.typeError : Except PyErr Str)
    | some v => lowerE v)
  matchRangeE c e condition

/-- `<input max="5">` (no `type`): the old code raises, the repaired code answers `False`. -/
example : matchRangeOldE chtml (input [("max", sv "5")]) SEL_IN_RANGE = .error .typeError := by rfl
example : matchRangeE chtml (input [("max", sv "5")]) SEL_IN_RANGE = .ok false := by rfl
example : matchRangeE chtml (input [("max", sv "5")]) SEL_OUT_OF_RANGE = .ok false := by rfl
/-- With a `type` both agree. -/
example : matchRangeOldE chtml (input [("type", sv "number"), ("max", sv "5"), ("value", sv "7")]) SEL_OUT_OF_RANGE
    = matchRangeE chtml (input [("type", sv "number"), ("max", sv "5"), ("value", sv "7")]) SEL_OUT_OF_RANGE := by
  rfl
example : matchRangeE chtml (input [("type", sv "number"), ("max", sv "5"), ("value", sv "7")]) SEL_OUT_OF_RANGE
    = .ok true := by rfl

/-- The old code raises exactly when the repaired one does, or `type` is missing. -/
theorem old_error_iff (c : Ctx) (e : Elem) (cond : Nat) :
    (∃ err, matchRangeOldE c e cond = .error err) ↔
      (c.attrByName e "type".toStr = none ∨ rangeRaises c e = true) := by
  rw [← range_error_iff c e cond]
  unfold matchRangeOldE
  cases h : c.attrByName e "type".toStr with
  | none => simp [bind, Except.bind]
  | some v =>
    cases v with
    | str s => simp [lowerE, bind, Except.bind]
    | list l =>
      have : matchRangeE c e cond = .error .typeError := by
        rw [matchRangeE_core, h]; rfl
      simp [lowerE, bind, Except.bind, this]

/-! ### `Inputs`: no partial operation -/

/-- `parse_value` returns `None` for every type outside the seven it knows. -/
theorem inputs_unknown_type (ty s : Str) (h : isRangeType ty = false) : Inputs.parseValue ty s = none :=
  parseValue_nonrange ty s h

/-- The weekday of 31 December is always a weekday number — no division by zero, no table lookup
    out of range, for every year including 0. -/
theorem dec31_range (y : Nat) : 1 ≤ Inputs.dec31 y ∧ Inputs.dec31 y ≤ 7 := by
  unfold Inputs.dec31
  simp only
  split
  · omega
  · rename_i h
    have : (y + y / 4 - y / 100 + y / 400) % 7 ≠ 0 := by simpa using h
    omega

/-- The ISO week count is 52 or 53 for every year whatsoever (no `strptime`, no `ValueError`). -/
theorem maxWeek_total (y : Nat) : Inputs.maxWeek y = 52 ∨ Inputs.maxWeek y = 53 := by
  unfold Inputs.maxWeek
  split
  · exact Or.inr rfl
  · exact Or.inl rfl

/-- `validate_week` is a plain comparison against that count. -/
theorem validateWeek_total (y w : Nat) :
    Inputs.validateWeek y w = (decide (1 ≤ w) && decide (w ≤ Inputs.maxWeek y)) := rfl

theorem validateWeek_small (y w : Nat) (h1 : 1 ≤ w) (h2 : w ≤ 52) : Inputs.validateWeek y w = true := by
  rw [validateWeek_total]
  rcases maxWeek_total y with h | h <;> simp [h, h1] <;> omega

theorem validateWeek_large (y w : Nat) (h : 54 ≤ w) : Inputs.validateWeek y w = false := by
  rw [validateWeek_total]
  rcases maxWeek_total y with h' | h' <;> simp [h'] <;> omega

/-- The inputs of the historical `ValueError`s (`strptime` on years below 1000 / above 9999). -/
example : Inputs.parseValue "week".toStr "0999-W01".toStr = some (.ints [999, 1]) := by decide
example : Inputs.parseValue "week".toStr "10000-W01".toStr = some (.ints [10000, 1]) := by decide
example : Inputs.parseValue "week".toStr "0000-W01".toStr = none := by decide      -- year 0 is invalid
example : Inputs.validateWeek 0 1 = true := by decide
example : Inputs.validateWeek 100000000 53 = false := by decide
example : Inputs.validateWeek 100000004 53 = true := by decide
example : matchRangeE chtml (input [("type", sv "week"), ("min", sv "0999-W01"), ("value", sv "0998-W52")])
    SEL_OUT_OF_RANGE = .ok true := by rfl
example : matchRangeE chtml (input [("type", sv "week"), ("max", sv "10000-W01"), ("value", sv "10000-W02")])
    SEL_OUT_OF_RANGE = .ok true := by rfl

/-- `parse_value` is total on strings: a value or `None`, for every type and every string. -/
theorem inputs_total (ty s : Str) : Inputs.parseValue ty s = none ∨ ∃ v, Inputs.parseValue ty s = some v := by
  cases Inputs.parseValue ty s with
  | none => exact Or.inl rfl
  | some v => exact Or.inr ⟨v, rfl⟩

/-! ### The domain on which the total model is faithful: `ParserShapedDoc` -/

/-- The attributes the state pseudo-classes read (`:in-range`/`:out-of-range`, `:dir()`,
    `:lang()`, `:default`, `:indeterminate`, `:placeholder-shown`, and the `<meta>` language
    search). -/
def stateAttrs : List String :=
  ["type", "min", "max", "value", "dir", "lang", "xml:lang", "name", "http-equiv", "content", "placeholder"]

/-- `a` is one of them under ANY of the key comparisons the matcher uses (exact, lower-cased, or
    the local name of a namespaced key for `xml:lang`). -/
def isStateAttr (a : Attr) : Bool :=
  stateAttrs.any (fun n => n.toStr == lower a.key) ||
    (match a.kname with
     | some nm => lower nm == "lang".toStr
     | none => false)

/-- No state attribute of the element holds a sequence. -/
def ElemShaped (e : Elem) : Prop := ∀ a ∈ e.attrs, isStateAttr a = true → isSeq a.val = false

mutual
/-- All elements of a tree (the node itself included). -/
def allElems : Node → List Elem
  | .elem e kids => e :: allElemsKids kids
  | .str _ _ => []
def allElemsKids : List Node → List Elem
  | [] => []
  | k :: ks => allElems k ++ allElemsKids ks
end

/-- Every element of the tree is parser-shaped for the whole state-attribute set.  This is the
    domain of faithfulness of the total model (`Model/Match.lean`): the harness generates list
    values only for attributes OUTSIDE `stateAttrs`. -/
def ParserShapedDoc (n : Node) : Prop := ∀ e ∈ allElems n, ElemShaped e

theorem stateAttrs_lower : ∀ n ∈ stateAttrs, lower n.toStr = n.toStr := by decide

theorem elemShaped_for (c : Ctx) (e : Elem) (h : ElemShaped e) : ParserShapedFor stateAttrs c e := by
  intro a ha n hn hk
  apply h a ha
  unfold isStateAttr
  rw [Bool.or_eq_true]
  left
  rw [List.any_eq_true]
  refine ⟨n, hn, ?_⟩
  unfold keyIs at hk
  split at hk
  · have : a.key = n.toStr := by simpa using hk
    rw [this, stateAttrs_lower n hn]; simp
  · have : lower a.key = n.toStr := by simpa using hk
    rw [this]; simp

theorem parserShapedFor_mono {names names' : List String} {c : Ctx} {e : Elem}
    (hsub : ∀ n ∈ names', n ∈ names) (h : ParserShapedFor names c e) : ParserShapedFor names' c e :=
  fun a ha n hn hk => h a ha n (hsub n hn) hk

theorem elemShaped_parserShaped (c : Ctx) (e : Elem) (h : ElemShaped e) : ParserShaped c e :=
  parserShapedFor_mono (by decide) (elemShaped_for c e h)

/-- On a parser-shaped document `match_range` never raises, on any element, in any context. -/
theorem doc_range_total (n : Node) (hd : ParserShapedDoc n) (c : Ctx) (e : Elem) (he : e ∈ allElems n)
    (cond : Nat) : ∃ b, matchRangeE c e cond = .ok b :=
  range_total c e cond (elemShaped_parserShaped c e (hd e he))

/-- On a parser-shaped document no attribute read by name ever sees a list, for every name of
    `stateAttrs` (so every `.list _` branch on such a read in the model is dead code there). -/
theorem doc_attr_not_list (n : Node) (hd : ParserShapedDoc n) (c : Ctx) (e : Elem) (he : e ∈ allElems n)
    (name : String) (hn : name ∈ stateAttrs) (l : List Str) :
    c.attrByName e name.toStr ≠ some (.list l) :=
  attrByName_not_list (elemShaped_for c e (hd e he)) hn l

/-- Every function of `Model/Match.lean` other than the three `…E` leaves is a total Lean
    function into `Bool` / `Option` / `List` (this statement is trivially true for that reason:
    `matchList` — hence `matchEl`, `select`, `closest`, `filter` — returns a value on every context,
    location and selector list).

    DOMAIN OF FAITHFULNESS.  On `ParserShapedDoc` trees the Python counterparts use only total
    operations (dictionary iteration, `==`, `in`, loops over `contents`/`descendants`, `.parent`
    walks that stop at `None`, `util.lower`/`RE.match`/`.lower()`/`unicodedata.bidirectional(c)`
    on strings and single characters).  OUTSIDE that domain the model's `.list _` branches are
    conventions and CPython raises instead (all reproduced with
    `BeautifulSoup(..., 'html.parser', multi_valued_attributes={'*': [attr]})`):

    | attribute (list-valued)     | selector                      | Python                                  | model branch                         |
    |-----------------------------|-------------------------------|-----------------------------------------|--------------------------------------|
    | `type`                      | `:in-range`/`:out-of-range`   | `TypeError` (unhashable list)           | `lowerE` → `.error .typeError` (faithful) |
    | `min`/`max`/`value`, range type | `:in-range`/`:out-of-range` | `TypeError` (expected string)         | `parseValueE` → `.error .typeError` (faithful) |
    | `dir`                       | `:dir(ltr)`                   | `TypeError` (unhashable list)           | `matchDirWalk`/`findBidiKids`: `.list _ => none` |
    | `type` with `dir=auto`      | `:dir(ltr)` on `input`        | `TypeError` (unhashable list)           | `matchDirWalk`: `.list _ => []`      |
    | `value` with `dir=auto`     | `:dir(ltr)` on `input type=text` | `TypeError` (`bidirectional()` of a str) | `matchDirWalk`: `.list _ => []`   |
    | `type` of an `input`        | `:indeterminate`              | `TypeError` (unhashable list)           | `radioCheckedScan`: `.list _ => false` |
    | `type` of `input`/`button`  | `:default` (non-empty list)   | `TypeError` (unhashable list)           | `firstSubmit`: `.list _ =>` skip     |
    | `lang` / `xml:lang`         | `:lang(en)`                   | `AttributeError` (`list.lower`)         | `matchLang`: joined with spaces      |
    | `http-equiv` of a `meta`    | `p:lang(en)` (meta fallback)  | `TypeError` (unhashable list)           | `metaLangScan`: `.list _ => false`   |
    | `content` of a `meta`       | `p:lang(en)` (meta fallback)  | `AttributeError` (`list.lower`)         | `matchLang`: joined with spaces      |

    `name` (compared with `==`) and `placeholder` (only tested for presence by an attribute
    selector) are total in Python for lists too; they are in `stateAttrs` only to keep the domain
    simple.  No stock parser stores a list for any attribute of `stateAttrs`; a builder with a
    custom `multi_valued_attributes` can.  Exception-freedom of the real code on generated trees
    is checked by the harness, not here. -/
theorem matcher_total_note (c : Ctx) (l : Loc) (e : Elem) (sel : SelList) :
    ∃ b : Bool, matchList c l e sel = b := ⟨_, rfl⟩

end C08
end SoupVerif
