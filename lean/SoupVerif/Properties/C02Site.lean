/-
  C02 (call site) — the well-formedness hypothesis of `C02.matchOne_iff` holds at the one place where
  the matcher calls `Nth.matchOne` (`matchNth` in Model/Match.lean, the model of `CSSMatch.match_nth`),
  for EVERY located element `l : Loc` (every tree, every element of it, with or without a parent),
  and the resulting end-to-end statement about `matchNth`.

  `C02.matchOne_iff` needs:  `walk = pre ++ e :: post`, no node of `pre` "is" `el`, `isEl e`, `counted e`.
  At the call site  `walk` is the parent's contents (or `[el]` for a parentless element), reversed for
  the `-last-` forms; `isEl ch = ch.same l` (`child is el`); `counted` = element ∧ passes `of S` ∧
  (for `-of-type`) has the type of `el`.  The fact "`el` occurs exactly once in its parent's children"
  was so far proved only inside C01 (`Lemmas/SatNth`, for the records of `:first-child` & co.); here it
  is exported for every nth record:

    walk_split        walk l last = before l last ++ l :: after l last
    before_not_same / after_not_same     no other sibling `is` l
    occurs_once       exactly one member of the sibling list `is` l (and it is `l`)
    counted_self      `l` itself is counted once the `of S` pre-check has passed
    wellformed        all hypotheses of `C02.matchOne_iff` together, at the call site

    matchNth_iff      matchNth c l e ⟨a, n, b, ofType, last, S⟩ = true  ↔
                        (S empty ∨ l matches S) ∧ ∃ n : Nat, a*n + b = position        (An+B form)
    matchNth_const_iff                                                  … ∧ a = position  (keyword form)
    matchNth_eq_nthSatB, position_eq_posOf, matchNths_iff

  `position` is defined on the element's sibling list: one more than the number of counted siblings
  before `l` (after `l`, for the `-last-` forms).
-/
import SoupVerif.Properties.C02
import SoupVerif.Lemmas.SatNth
namespace SoupVerif
namespace C02Site
open SatTree NthSpec

/-! ## The data of the call site -/

/-- The sibling list `match_nth` walks: the parent's contents, or a fake parent holding just `el`. -/
def sibs (l : Loc) : List Loc :=
  match l.parent? with
  | some p => p.children
  | none => [l]

/-- `get_children(parent, reverse=last)`. -/
def walk (l : Loc) (last : Bool) : List Loc := if last then (sibs l).reverse else sibs l

/-- The nodes the walk passes before it reaches `l` … -/
def before (l : Loc) (last : Bool) : List Loc :=
  if last then l.nextSiblings.reverse else l.prevSiblings.reverse

/-- … and the ones after it (never looked at). -/
def after (l : Loc) (last : Bool) : List Loc :=
  if last then l.prevSiblings else l.nextSiblings

/-- Which nodes `match_nth` counts: elements that pass `of S` and, for `-of-type`, have the type of
    `el` (`e` is the element of `el`). -/
def counted (c : Ctx) (e : Elem) (ofType : Bool) (sels : SelList) (ch : Loc) : Bool :=
  match ch.elem? with
  | none => false
  | some ce => (!sels.nonEmpty || matchList c ch ce sels) && (!ofType || sameType c e ce)

/-- The position of `l` among its siblings: 1 + the number of counted siblings before it
    (after it, for `:nth-last-*`). -/
def position (c : Ctx) (l : Loc) (e : Elem) (ofType last : Bool) (sels : SelList) : Nat :=
  ((if last then l.nextSiblings else l.prevSiblings).filter (counted c e ofType sels)).length + 1

/-- The `of S` pre-check on `el` itself. -/
def preCheck (c : Ctx) (l : Loc) (e : Elem) (sels : SelList) : Bool :=
  !sels.nonEmpty || matchList c l e sels

/-! ## The call site, literally -/

/-- `matchNth` is `Nth.matchOne` on this data. -/
theorem matchNth_eq (c : Ctx) (l : Loc) (e : Elem) (a : Int) (var : Bool) (b : Int)
    (ofType last : Bool) (sels : SelList) :
    matchNth c l e (.mk a var b ofType last sels) =
      if preCheck c l e sels then
        Nth.matchOne (counted c e ofType sels) (fun ch => ch.same l) a b var (walk l last)
      else false := by
  conv => lhs; unfold matchNth
  have hp : preCheck c l e sels = !(sels.nonEmpty && !matchList c l e sels) := by
    unfold preCheck; cases sels.nonEmpty <;> cases matchList c l e sels <;> rfl
  rw [hp]
  cases (sels.nonEmpty && !matchList c l e sels) <;> rfl

/-! ## Re-export: `el` occurs once in its parent's children -/

theorem sibs_split (l : Loc) : sibs l = l.prevSiblings.reverse ++ l :: l.nextSiblings :=
  SatNth.sibs_eq l

/-- The walk is: the siblings before `l`, `l` itself (structurally), the siblings after `l`. -/
theorem walk_split (l : Loc) (last : Bool) : walk l last = before l last ++ l :: after l last := by
  unfold walk before after
  rw [sibs_split]
  cases last <;> simp

theorem before_not_same (l : Loc) (last : Bool) : ∀ x ∈ before l last, x.same l = false := by
  intro x hx
  unfold before at hx
  cases last with
  | false => exact prev_not_same l x (List.mem_reverse.mp hx)
  | true => exact next_not_same l x (List.mem_reverse.mp hx)

theorem after_not_same (l : Loc) (last : Bool) : ∀ x ∈ after l last, x.same l = false := by
  intro x hx
  unfold after at hx
  cases last with
  | false => exact next_not_same l x hx
  | true => exact prev_not_same l x hx

/-- **`el` occurs exactly once** in the list `match_nth` walks: the members for which `child is el`
    holds are `l`, once. -/
theorem occurs_once (l : Loc) (last : Bool) : (walk l last).filter (fun ch => ch.same l) = [l] := by
  rw [walk_split, List.filter_append, List.filter_cons]
  have h1 : (before l last).filter (fun ch => ch.same l) = [] :=
    List.filter_eq_nil_iff.mpr (fun x hx => by simp [before_not_same l last x hx])
  have h2 : (after l last).filter (fun ch => ch.same l) = [] :=
    List.filter_eq_nil_iff.mpr (fun x hx => by simp [after_not_same l last x hx])
  rw [h1, h2, same_self l]; rfl

/-- The same for the parent's children list itself (`last = false`). -/
theorem occurs_once_in_parent (l p : Loc) (hp : l.parent? = some p) :
    p.children.filter (fun ch => ch.same l) = [l] := by
  have h := occurs_once l false
  unfold walk sibs at h
  rw [hp] at h
  exact h

theorem sameType_refl (c : Ctx) (e : Elem) : sameType c e e = true := by
  simp [sameType]

/-- `el` is counted, once it has passed the `of S` pre-check (it has its own type). -/
theorem counted_self (c : Ctx) (l : Loc) (e : Elem) (he : l.elem? = some e) (ofType : Bool)
    (sels : SelList) (hpre : preCheck c l e sels = true) : counted c e ofType sels l = true := by
  unfold counted
  rw [he]
  unfold preCheck at hpre
  simp only [hpre, sameType_refl, Bool.or_true, Bool.and_self]

/-- **The hypotheses of `C02.matchOne_iff` hold at the call site**, for every located element, every
    nth record whose `of S` pre-check passes. -/
theorem wellformed (c : Ctx) (l : Loc) (e : Elem) (he : l.elem? = some e) (ofType last : Bool)
    (sels : SelList) (hpre : preCheck c l e sels = true) :
    walk l last = before l last ++ l :: after l last ∧
    (∀ x ∈ before l last, (fun ch : Loc => ch.same l) x = false) ∧
    (fun ch : Loc => ch.same l) l = true ∧
    counted c e ofType sels l = true :=
  ⟨walk_split l last, before_not_same l last, same_self l, counted_self c l e he ofType sels hpre⟩

/-- The stronger, literal form (`C02.matchOne_iff'`): nothing else in the walk `is` `el`. -/
theorem wellformed' (l : Loc) (last : Bool) :
    ∀ x ∈ before l last ++ after l last, (fun ch : Loc => ch.same l) x = false := by
  intro x hx
  rcases List.mem_append.mp hx with h | h
  · exact before_not_same l last x h
  · exact after_not_same l last x h

/-! ## Position -/

theorem position_eq (c : Ctx) (l : Loc) (e : Elem) (ofType last : Bool) (sels : SelList) :
    position c l e ofType last sels = ((before l last).filter (counted c e ofType sels)).length + 1 := by
  unfold position before
  cases last <;> simp [List.filter_reverse]

/-- `position` is the spec position `posOf` of the walk (Spec/Nth.lean). -/
theorem position_eq_posOf (c : Ctx) (l : Loc) (e : Elem) (he : l.elem? = some e) (ofType last : Bool)
    (sels : SelList) (hpre : preCheck c l e sels = true) :
    NthSpec.posOf (counted c e ofType sels) (fun ch => ch.same l) (walk l last) =
      some (position c l e ofType last sels) := by
  obtain ⟨h1, h2, h3, h4⟩ := wellformed c l e he ofType last sels hpre
  rw [position_eq]
  exact C02.posOf_wellformed _ _ _ _ l _ h1 h2 h3 h4

/-! ## End to end -/

/-- **`match_nth`, `An+B` form**: for every context, every located element `l` (with element `e`),
    all integers `a b`, both directions, with and without `of-type`, with and without `of S`:
    the record matches iff `el` passes `of S` and `a*n + b = position` for some `n ≥ 0`. -/
theorem matchNth_iff (c : Ctx) (l : Loc) (e : Elem) (he : l.elem? = some e) (a b : Int)
    (ofType last : Bool) (sels : SelList) :
    matchNth c l e (.mk a true b ofType last sels) = true ↔
      preCheck c l e sels = true ∧
      ∃ n : Nat, a * (n : Int) + b = ((position c l e ofType last sels : Nat) : Int) := by
  rw [matchNth_eq]
  cases hpre : preCheck c l e sels with
  | false => simp
  | true =>
    obtain ⟨h1, h2, h3, h4⟩ := wellformed c l e he ofType last sels hpre
    simp only [if_true, true_and]
    rw [position_eq]
    exact C02.matchOne_iff _ _ a b _ _ l _ h1 h2 h3 h4

/-- The pre-check spelled out. -/
theorem preCheck_iff (c : Ctx) (l : Loc) (e : Elem) (sels : SelList) :
    preCheck c l e sels = true ↔ (sels.nonEmpty = false ∨ matchList c l e sels = true) := by
  unfold preCheck; cases sels.nonEmpty <;> simp

/-- Without `of S` (`:nth-child(An+B)`, `:nth-of-type(An+B)`, …). -/
theorem matchNth_iff_plain (c : Ctx) (l : Loc) (e : Elem) (he : l.elem? = some e) (a b : Int)
    (ofType last : Bool) (sels : SelList) (hs : sels.nonEmpty = false) :
    matchNth c l e (.mk a true b ofType last sels) = true ↔
      ∃ n : Nat, a * (n : Int) + b = ((position c l e ofType last sels : Nat) : Int) := by
  rw [matchNth_iff c l e he]
  have : preCheck c l e sels = true := (preCheck_iff c l e sels).mpr (.inl hs)
  simp [this]

/-- **Keyword form** (`var = false`: `:first-child`, `:last-of-type`, … with `idx = a`). -/
theorem matchNth_const_iff (c : Ctx) (l : Loc) (e : Elem) (he : l.elem? = some e) (a b : Int)
    (ofType last : Bool) (sels : SelList) :
    matchNth c l e (.mk a false b ofType last sels) = true ↔
      preCheck c l e sels = true ∧ a = ((position c l e ofType last sels : Nat) : Int) := by
  rw [matchNth_eq]
  cases hpre : preCheck c l e sels with
  | false => simp
  | true =>
    obtain ⟨h1, h2, h3, h4⟩ := wellformed c l e he ofType last sels hpre
    simp only [if_true, true_and]
    rw [position_eq]
    exact C02.matchOne_const _ _ a b _ _ l _ h1 h2 h3 h4

/-- Executable form: `matchNth` computes the decision procedure `nthSatB` at `position`. -/
theorem matchNth_eq_nthSatB (c : Ctx) (l : Loc) (e : Elem) (he : l.elem? = some e) (a b : Int)
    (ofType last : Bool) (sels : SelList) :
    matchNth c l e (.mk a true b ofType last sels) =
      (preCheck c l e sels && nthSatB a b (position c l e ofType last sels)) := by
  rw [Bool.eq_iff_iff, matchNth_iff c l e he, Bool.and_eq_true, nthSatB_iff]
  rfl

/-- All records of a compound (`for n in nth`: every one must match). -/
theorem matchNths_iff (c : Ctx) (l : Loc) (e : Elem) (ns : List NthSel) :
    matchNths c l e ns = true ↔ ∀ n ∈ ns, matchNth c l e n = true := by
  induction ns with
  | nil => simp [matchNths]
  | cons n rest ih =>
    rw [matchNths, Bool.and_eq_true, ih]
    simp

/-- The position never exceeds the number of siblings walked, and is at least 1. -/
theorem position_bounds (c : Ctx) (l : Loc) (e : Elem) (ofType last : Bool) (sels : SelList) :
    1 ≤ position c l e ofType last sels ∧
      position c l e ofType last sels ≤ (walk l last).length := by
  refine ⟨by unfold position; omega, ?_⟩
  rw [position_eq, walk_split, List.length_append, List.length_cons]
  have := List.length_filter_le (counted c e ofType sels) (before l last)
  omega

end C02Site
end SoupVerif
