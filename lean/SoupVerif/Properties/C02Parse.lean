/-
  C02, from the selector TEXT: every accepted spelling of An+B, end to end.

  `Properties/C02.lean`, `C02Site.lean` prove that the matcher model on an nth RECORD `(a, var, b, of_type,
  last, S)` holds iff the `of S` pre-check passes and `a·n + b = position` for some `n ≥ 0` (`var`), resp.
  `a = position` (`¬var`).  `Properties/C09Compile.lean` proves that the parser model on the TEXT of any
  spelling returns `denote` of the token values.  This file composes them with

    * `Refine/C02ParseAnB.lean` — `anbValue : SAnB → Int × Int`, the CSS value `(A, B)` of a spelled An+B
      (CSS Syntax §6, written independently of the parser), and `parse_anb_value`: the record
      `parse_pseudo_nth` builds designates exactly `{A·n + B | n ≥ 0}`;
    * `Refine/C02ParseSem.lean` — an item that adds nth records adds a conjunct for the matcher.

  TEXTS (`textOf cx tag items g₁ g₂`, hypotheses `Spelled …` = those of `compile_eq_denote`, `NoComma cx`):
      g₁  [ first (comb compound)* comb ]  tag? pre… ITEM post…  g₂
  one complex selector of `C09Compile`'s grammar whose subject compound contains ITEM anywhere among its
  simple selectors; gaps / comments, escapes, letter case, quotes as in that grammar.

  THEOREMS (for every tree / context `c`, every located element `l` with element `e`):

    * `nth_text_iff` (any built-in table `B`), `nth_text_iff'` (`Gen.builtinsRec`: soupsieve's own) —
      ITEM = `:nth-child(x)` | `:nth-last-child(x)` | `:nth-of-type(x)` | `:nth-last-of-type(x)`, name and
      An+B in ANY accepted spelling:  the text compiles to some `sl`, and
          matchList c l e sl  ↔  (the selector without ITEM matches)  ∧  ∃ n ≥ 0, A·n + B = position
      with `(A, B) = anbValue x`; `position` = 1 + the number of element siblings before `l` (after `l` for
      `-last-`; of `e`'s own type for `-of-type`): `C02Site.position c l e ofType last noOf`;
    * `nth_of_text_iff` — ITEM = `:nth-child(x of S)` | `:nth-last-child(x of S)`:  … ∧ `l` matches the
      compiled `S` ∧ ∃ n ≥ 0, A·n + B = position among the siblings matching `S`;
    * `type_nth_text_iff` — the text `E:nth-child(x)` alone: ↔ `match_tag(E)` ∧ ∃ n ≥ 0, A·n + B = position;
    * `keyword_text_iff` — ITEM = `:first-child` | `:last-child` | `:only-child` | `:first-of-type` |
      `:last-of-type` | `:only-of-type` (any letter case / escapes): ↔ rest ∧ position = 1 (in each direction);
    * `keyword_eq_nth_text` — a text with a keyword and a text with, in its place, `:nth-child(x)` /
      `:nth-last-child(x)` / both / the `-of-type` ones, every `x` any spelling of the value `0n+1`
      (`1`, `+1`, `01`, `0n+1`, …): both compile and match the SAME elements;
    * `keyword_oftype_compile_eq` — for the `-of-type` keywords and bare integers the compiled STRUCTURES are
      identical.

  FINDING (item 4 of the task, not a defect of the matcher): the `-child` keywords do NOT compile to the same
  nth records as `:nth-child(1)` / `:nth-last-child(1)`: `parse_pseudo_class` stores an EMPTY `of S` list
  (`ct.SelectorList()`), `parse_pseudo_nth` stores `CSS_NTH_OF_S_DEFAULT` (`*|*`).  The real library agrees
  (`sv.compile(':first-child').selectors != sv.compile(':nth-child(1)').selectors`).  They coincide at the
  matcher (`matchNth_default`: `*|*` counts every element), which is what `keyword_eq_nth_text` states.

  The first conjunct "the selector without ITEM matches" is `matchList c l e (denote B (restV cx tag pre post))`:
  by `compile_rest` this is the compiled form of ANY admissible spelling of the text without ITEM; when
  nothing is left of the subject compound it is the implied `*` (`matchList_rest_tagOnly`).

  OUTSIDE: selector lists with commas (the statement would need the other alternatives), nth items in a
  non-subject compound or inside `:not()` / `:is()` arguments, the grammar of `C09Compile2` (namespaces,
  `:has`, …), patterns on which `compile` raises (among them An+B with more than 4300 digits).
-/
import SoupVerif.Refine.C02ParseSem
namespace SoupVerif
namespace C02Parse
open SoupVerif.Parser Escape Spelling Refine.Compile Refine.C02Parse C02Site
open C09Compile (Forms identOK SItem SCompound SSelList SComb STag itemsValue restValue renderItems renderRest
  itemsOK restOK plainName Item Compound SelListV denote finishNested applyItems)

/-! ## Texts: a complex selector between two gaps -/

/-- What stands in front of the subject compound: nothing, or `first (comb compound)* comb`. -/
abbrev Cx := Option (SCompound × List (SComb × SCompound) × SComb)

/-- The selector `cx tag? items…`: the subject compound `tag? items…` alone (`cx = none`), or behind the
    compounds and combinators of `cx`. -/
def selOf (cx : Cx) (tag : Option STag) (items : List SItem) : SSelList :=
  match cx with
  | none => .mk (.mk tag items) []
  | some (first, rest₀, cb) => .mk first (rest₀ ++ [(cb, .mk tag items)])

/-- The values of the context. -/
def Cx.value (cx : Cx) : CtxV := cx.map fun q => (q.1.value, restValue q.2.1, q.2.2.value)

/-- No comma among the combinators of the context (the comma is a combinator for the tokenizer): the text is
    ONE complex selector, whose subject is the compound under consideration. -/
def NoComma (cx : Cx) : Prop := NoCommaV cx.value

/-- The pattern text `g₁ cx tag? items… g₂`. -/
def textOf (cx : Cx) (tag : Option STag) (items : List SItem) (g₁ g₂ : Str) : Str :=
  g₁ ++ (selOf cx tag items).render ++ g₂

/-- The hypotheses of `C09Compile.compile_eq_denote` for that text: `g₁`, `g₂` are gaps (white space and
    complete comments), every token is spelled admissibly in its context, the text contains no NUL. -/
structure Spelled (cx : Cx) (tag : Option STag) (items : List SItem) (g₁ g₂ : Str) : Prop where
  gap₁ : isGap g₁
  gap₂ : isGap g₂
  ok : (selOf cx tag items).ok g₂
  noNul : ∀ c ∈ textOf cx tag items g₁ g₂, c ≠ 0

/-- The values of the selector without the items under consideration ("the compound's other parts", and the
    context); when nothing is left of the subject compound this is the implied `*`. -/
def restV (cx : Cx) (tag : Option STag) (pre post : List SItem) : SelListV :=
  selV cx.value (.mk (tag.map STag.value) (itemsValue (pre ++ post)))

/-- The empty `of S` list (`ct.SelectorList()`): every element sibling is counted. -/
abbrev noOf : SelList := .mk [] false false

theorem itemsValue_append : ∀ (l₁ l₂ : List SItem), itemsValue (l₁ ++ l₂) = itemsValue l₁ ++ itemsValue l₂
  | [], l₂ => by simp only [List.nil_append, itemsValue]
  | it :: l₁, l₂ => by simp only [List.cons_append, itemsValue, itemsValue_append l₁ l₂]

theorem restValue_append : ∀ (l₁ l₂ : List (SComb × SCompound)),
    restValue (l₁ ++ l₂) = restValue l₁ ++ restValue l₂
  | [], l₂ => by simp [restValue]
  | x :: l₁, l₂ => by simp [restValue, restValue_append l₁ l₂]

theorem selOf_value (cx : Cx) (tag : Option STag) (items : List SItem) :
    (selOf cx tag items).value = selV cx.value (.mk (tag.map STag.value) (itemsValue items)) := by
  cases cx with
  | none => simp only [selOf, Cx.value, Option.map_none, selV, SSelList.value, SCompound.value, restValue]
  | some q =>
    obtain ⟨first, rest₀, cb⟩ := q
    simp only [selOf, Cx.value, Option.map_some, selV, SSelList.value, SCompound.value, restValue_append,
      restValue]

theorem compile_text (B : Builtins) {cx : Cx} {tag : Option STag} {items : List SItem} {g₁ g₂ : Str}
    (hs : Spelled cx tag items g₁ g₂) :
    Parser.compile pyFoldEnv Gen.lexicon B (textOf cx tag items g₁ g₂) [] 0 =
      .ok (denote B (selV cx.value (.mk (tag.map STag.value) (itemsValue items)))) := by
  rw [← selOf_value]
  exact C09Compile.compile_eq_denote B g₁ g₂ _ hs.gap₁ hs.gap₂ hs.ok hs.noNul

/-- The first conjunct of the theorems below is what any admissible spelling of the rest compiles to. -/
theorem compile_rest (B : Builtins) {cx : Cx} {tag : Option STag} {pre post : List SItem} {g₁ g₂ : Str}
    (hs : Spelled cx tag (pre ++ post) g₁ g₂) :
    Parser.compile pyFoldEnv Gen.lexicon B (textOf cx tag (pre ++ post) g₁ g₂) [] 0 =
      .ok (denote B (restV cx tag pre post)) :=
  compile_text B hs

/-- The text `g₁ cx tag? pre… mids… post… g₂` compiles, and the result matches an element exactly when the
    compiled rest does and the records the items `mids` add all match. -/
theorem compile_insert (B : Builtins) {cx : Cx} (hnc : NoComma cx) {tag : Option STag}
    {pre mids post : List SItem} {g₁ g₂ : Str}
    {rs : List NthSel} (h : AddsNthL B (itemsValue mids) rs) (hs : Spelled cx tag (pre ++ mids ++ post) g₁ g₂) :
    ∃ sl, Parser.compile pyFoldEnv Gen.lexicon B (textOf cx tag (pre ++ mids ++ post) g₁ g₂) [] 0 = .ok sl ∧
      ∀ (c : Ctx) (l : Loc) (e : Elem),
        matchList c l e sl = (matchList c l e (denote B (restV cx tag pre post)) && matchNths c l e rs) := by
  refine ⟨_, compile_text B hs, ?_⟩
  intro c l e
  rw [restV, itemsValue_append, itemsValue_append, itemsValue_append]
  exact matchList_insertL B cx.value hnc _ h _ _ _ c l e

theorem itemsOK_mem : ∀ (items : List SItem) (r : Str), itemsOK items r → ∀ it ∈ items, ∃ r', it.ok r'
  | [], _, _, it, hit => by simp at hit
  | p :: rest, r, h, it, hit => by
    rw [itemsOK] at h
    rcases List.mem_cons.1 hit with rfl | hit
    · exact ⟨_, h.1⟩
    · exact itemsOK_mem rest r h.2 it hit

theorem restOK_snoc : ∀ (l : List (SComb × SCompound)) (x : SComb × SCompound) (r : Str),
    restOK (l ++ [x]) r → x.2.ok r
  | [], x, r, h => by
    simp only [List.nil_append, restOK, renderRest, List.nil_append] at h
    exact h.2.1
  | y :: l, x, r, h => by
    rw [List.cons_append, restOK] at h
    exact restOK_snoc l x r h.2.2

theorem Spelled.item_ok {cx : Cx} {tag : Option STag} {items : List SItem} {g₁ g₂ : Str}
    (hs : Spelled cx tag items g₁ g₂) (it : SItem) (hit : it ∈ items) : ∃ r', it.ok r' := by
  have hok := hs.ok
  cases cx with
  | none =>
    simp only [selOf, SSelList.ok, SCompound.ok, renderRest, List.nil_append] at hok
    exact itemsOK_mem items g₂ hok.1.2.1 it hit
  | some q =>
    obtain ⟨first, rest₀, cb⟩ := q
    simp only [selOf, SSelList.ok] at hok
    have := restOK_snoc rest₀ (cb, .mk tag items) g₂ hok.2
    simp only [SCompound.ok] at this
    exact itemsOK_mem items g₂ this.2.1 it hit

theorem anb_ok_of_nth {f : Forms} {ga gb r : Str} {x : SAnB} (h : (SItem.nth f ga x gb).ok r) : x.ok := by
  rw [SItem.ok] at h
  exact h.2.2.2.2

/-! ## `:nth-child(x)`, `:nth-last-child(x)`, `:nth-of-type(x)`, `:nth-last-of-type(x)` -/

/-- **C02 from the text.**  For every text `g₁ tag? pre… :NAME( ga x gb ) post… g₂` of `C09Compile`'s grammar
    (any spelling of the name `f` — letter case, escapes —, any accepted spelling `x` of An+B, any gaps), for
    every table `B` of built-in lists: the parser model compiles it, and the matcher model run on the result
    matches the element `e` at `l` exactly when the compound's other parts match, `e` passes the `of S`
    pre-check of the record (`B.nthOfSDefault`, i.e. `*|*`, for the `-child` names; none for `-of-type`) and
    `A·n + B = position` for some integer `n ≥ 0`, where `(A, B) = anbValue x` is the CSS value of `x`. -/
theorem nth_text_iff (B : Builtins) (g₁ g₂ : Str) (cx : Cx) (hnc : NoComma cx) (tag : Option STag)
    (pre post : List SItem)
    (f : Forms) (ga : Str) (x : SAnB) (gb : Str) (k : NthName) (hk : 58 :: lower (valueOf f) = k.text)
    (hs : Spelled cx tag (pre ++ [.nth f ga x gb] ++ post) g₁ g₂) :
    ∃ sl, Parser.compile pyFoldEnv Gen.lexicon B (textOf cx tag (pre ++ [.nth f ga x gb] ++ post) g₁ g₂) [] 0
        = .ok sl ∧
      ∀ (c : Ctx) (l : Loc) (e : Elem), l.elem? = some e →
        (matchList c l e sl = true ↔
          matchList c l e (denote B (restV cx tag pre post)) = true ∧
          preCheck c l e (nthSels B k none) = true ∧
          ∃ n : Nat, (anbValue x).1 * (n : Int) + (anbValue x).2 =
            ((position c l e k.isOfType k.isLast (nthSels B k none) : Nat) : Int)) := by
  have hx : x.ok := by
    obtain ⟨r', h⟩ := hs.item_ok (.nth f ga x gb) (by simp)
    exact anb_ok_of_nth h
  have hv : itemsValue [SItem.nth f ga x gb] = [.nth k.text x.canon] := by
    simp only [itemsValue, SItem.value, hk]
  obtain ⟨sl, hc, hm⟩ := compile_insert B hnc (rs := [nthRecord B k x.canon none])
    (by rw [hv]; exact AddsNthL.single (addsNth_nth B k x.canon)) hs
  refine ⟨sl, hc, ?_⟩
  intro c l e he
  rw [hm, Bool.and_eq_true, matchNths_single, nthRecord, matchNth_designates c l e he,
    parse_anb_value B [] x hx]

/-- … with soupsieve's own built-in lists (`Gen.builtinsRec`, regenerated from `css_parser.py`): the default
    `of S` is `*|*`, which every element passes, so the position is the one among ALL element siblings
    (of the element's own type for `-of-type`; counted from the end for `-last-`). -/
theorem nth_text_iff' (g₁ g₂ : Str) (cx : Cx) (hnc : NoComma cx) (tag : Option STag) (pre post : List SItem)
    (f : Forms) (ga : Str) (x : SAnB) (gb : Str) (k : NthName) (hk : 58 :: lower (valueOf f) = k.text)
    (hs : Spelled cx tag (pre ++ [.nth f ga x gb] ++ post) g₁ g₂) :
    ∃ sl, Parser.compile pyFoldEnv Gen.lexicon Gen.builtinsRec
        (textOf cx tag (pre ++ [.nth f ga x gb] ++ post) g₁ g₂) [] 0 = .ok sl ∧
      ∀ (c : Ctx) (l : Loc) (e : Elem), l.elem? = some e →
        (matchList c l e sl = true ↔
          matchList c l e (denote Gen.builtinsRec (restV cx tag pre post)) = true ∧
          ∃ n : Nat, (anbValue x).1 * (n : Int) + (anbValue x).2 =
            ((position c l e k.isOfType k.isLast noOf : Nat) : Int)) := by
  obtain ⟨sl, hc, hm⟩ := nth_text_iff Gen.builtinsRec g₁ g₂ cx hnc tag pre post f ga x gb k hk hs
  refine ⟨sl, hc, ?_⟩
  intro c l e he
  rw [hm c l e he, position_nthSels]
  simp [preCheck_nthSels]

/-- What `parse_selectors` returns for the argument `S` of `of S` (`FLG_PSEUDO | FLG_OPEN`; the induction
    `run_list` of `C09Compile`), from the values of `S`. -/
def ofList (B : Builtins) (S : SSelList) : SelList := finishNested false (S.value.loopState B true)

theorem ofList_nonEmpty (B : Builtins) (S : SSelList) : (ofList B S).nonEmpty = true := by
  simp [ofList, finishNested, SelList.nonEmpty, SelList.sels]

/-- **`:nth-child(x of S)`, `:nth-last-child(x of S)`**: the same with the compiled `S` as filter — the
    element must itself match `S`, and the position is counted among the siblings that match `S`. -/
theorem nth_of_text_iff (B : Builtins) (g₁ g₂ : Str) (cx : Cx) (hnc : NoComma cx) (tag : Option STag)
    (pre post : List SItem)
    (f : Forms) (ga : Str) (x : SAnB) (dg1 : Str) (m : List Bool) (dg2 : Str) (S : SSelList) (gb : Str)
    (k : NthName) (hk : 58 :: lower (valueOf f) = k.text)
    (hs : Spelled cx tag (pre ++ [.nthOf f ga x dg1 m dg2 S gb] ++ post) g₁ g₂) :
    k.isOfType = false ∧
    ∃ sl, Parser.compile pyFoldEnv Gen.lexicon B
        (textOf cx tag (pre ++ [.nthOf f ga x dg1 m dg2 S gb] ++ post) g₁ g₂) [] 0 = .ok sl ∧
      ∀ (c : Ctx) (l : Loc) (e : Elem), l.elem? = some e →
        (matchList c l e sl = true ↔
          matchList c l e (denote B (restV cx tag pre post)) = true ∧
          matchList c l e (ofList B S) = true ∧
          ∃ n : Nat, (anbValue x).1 * (n : Int) + (anbValue x).2 =
            ((position c l e false k.isLast (ofList B S) : Nat) : Int)) := by
  obtain ⟨r', hit⟩ := hs.item_ok (.nthOf f ga x dg1 m dg2 S gb) (by simp)
  rw [SItem.ok] at hit
  have hx : x.ok := hit.2.2.2.1
  have hkc : k.isOfType = false := by
    have := hit.2.1
    rw [hk] at this
    exact (nthChildName_iff k).1 this
  refine ⟨hkc, ?_⟩
  have hv : itemsValue [SItem.nthOf f ga x dg1 m dg2 S gb] = [.nthOf k.text x.canon S.value] := by
    simp only [itemsValue, SItem.value, hk]
  obtain ⟨sl, hc, hm⟩ := compile_insert B hnc
    (rs := [nthRecord B k x.canon (some (finishNested false (S.value.loopState B true)))])
    (by rw [hv]; exact AddsNthL.single (addsNth_nthOf B k x.canon S.value)) hs
  refine ⟨sl, hc, ?_⟩
  intro c l e he
  have hsel : nthSels B k (some (finishNested false (S.value.loopState B true))) = ofList B S := by
    simp [nthSels, hkc, ofList]
  rw [hm, Bool.and_eq_true, matchNths_single, nthRecord, matchNth_designates c l e he,
    parse_anb_value B [] x hx, hsel, hkc, preCheck_iff, ofList_nonEmpty]
  simp

/-! ## `E:nth-child(x)` with nothing else in the compound -/

/-- The compiled compound that consists of a type selector only — or of nothing, which stands for the
    implied `*` (in the default namespace, if one is declared) — tests just the type. -/
theorem matchList_rest_tagOnly (B : Builtins) (tag : Option STag) (c : Ctx) (l : Loc) (e : Elem) :
    matchList c l e (denote B (restV none tag [] [])) =
      matchTag c e (some ⟨(tag.map STag.value).getD [42], none⟩) := by
  rw [restV, Cx.value, Option.map_none, selV, denote_single, SatCore.matchList_single]
  cases tag with
  | none =>
    simp only [List.append_nil, itemsValue, Compound.buildOn, applyItems, fixTag, SelB.empty, SelB.tag,
      SelB.setTag, SelB.freeze, SelB.size, SelB.sizeList, SelB.freezeF, Option.map_none, Option.isNone_none,
      if_true, Bool.false_eq_true, if_false, Option.getD_none]
    unfold matchSel
    simp [hasFlag, matchNths, matchAttributes, SelList.nonEmpty, SelList.sels, SEL_DEFINED, SEL_ROOT, SEL_SCOPE,
      SEL_PLACEHOLDER_SHOWN, SEL_EMPTY, RANGES, SEL_IN_RANGE, SEL_OUT_OF_RANGE, SEL_DEFAULT, SEL_INDETERMINATE,
      DIR_FLAGS, SEL_DIR_LTR, SEL_DIR_RTL]
  | some t =>
    simp only [List.append_nil, itemsValue, Compound.buildOn, applyItems, fixTag, SelB.empty, SelB.tag,
      SelB.setTag, SelB.freeze, SelB.size, SelB.sizeList, SelB.freezeF, Option.map_some, Option.isNone_some,
      Bool.false_eq_true, if_false, Option.getD_some]
    unfold matchSel
    simp [hasFlag, matchNths, matchAttributes, SelList.nonEmpty, SelList.sels, SEL_DEFINED, SEL_ROOT, SEL_SCOPE,
      SEL_PLACEHOLDER_SHOWN, SEL_EMPTY, RANGES, SEL_IN_RANGE, SEL_OUT_OF_RANGE, SEL_DEFAULT, SEL_INDETERMINATE,
      DIR_FLAGS, SEL_DIR_LTR, SEL_DIR_RTL]

/-- **`E:nth-child(x)`** (and the three other names), `E` a type selector, `*`, or absent: the compiled
    text matches exactly the elements of type `E` (`match_tag`) whose position is `A·n + B` for some `n ≥ 0`. -/
theorem type_nth_text_iff (g₁ g₂ : Str) (tag : Option STag)
    (f : Forms) (ga : Str) (x : SAnB) (gb : Str) (k : NthName) (hk : 58 :: lower (valueOf f) = k.text)
    (hs : Spelled none tag [.nth f ga x gb] g₁ g₂) :
    ∃ sl, Parser.compile pyFoldEnv Gen.lexicon Gen.builtinsRec (textOf none tag [.nth f ga x gb] g₁ g₂) [] 0
        = .ok sl ∧
      ∀ (c : Ctx) (l : Loc) (e : Elem), l.elem? = some e →
        (matchList c l e sl = true ↔
          matchTag c e (some ⟨(tag.map STag.value).getD [42], none⟩) = true ∧
          ∃ n : Nat, (anbValue x).1 * (n : Int) + (anbValue x).2 =
            ((position c l e k.isOfType k.isLast noOf : Nat) : Int)) := by
  obtain ⟨sl, hc, hm⟩ := nth_text_iff' g₁ g₂ none trivial tag [] [] f ga x gb k hk (by simpa using hs)
  refine ⟨sl, by simpa using hc, ?_⟩
  intro c l e he
  rw [hm c l e he, matchList_rest_tagOnly]

/-! ## The keyword forms -/

/-- **`:first-child`, `:last-child`, `:only-child`, `:first-of-type`, `:last-of-type`, `:only-of-type`** in
    any spelling of the name (letter case, escapes): the compiled text matches exactly when the compound's
    other parts match and the element is at position 1 in each direction the keyword names
    (`kw.forms`: `[child]`, `[lastChild]`, `[child, lastChild]`, `[ofType]`, …). -/
theorem keyword_text_iff (B : Builtins) (g₁ g₂ : Str) (cx : Cx) (hnc : NoComma cx) (tag : Option STag)
    (pre post : List SItem)
    (f : Forms) (kw : Keyword) (hk : 58 :: lower (valueOf f) = kw.text)
    (hs : Spelled cx tag (pre ++ [.pseudo f] ++ post) g₁ g₂) :
    ∃ sl, Parser.compile pyFoldEnv Gen.lexicon B (textOf cx tag (pre ++ [.pseudo f] ++ post) g₁ g₂) [] 0 = .ok sl ∧
      ∀ (c : Ctx) (l : Loc) (e : Elem), l.elem? = some e →
        (matchList c l e sl = true ↔
          matchList c l e (denote B (restV cx tag pre post)) = true ∧
          ∀ k ∈ kw.forms, position c l e k.isOfType k.isLast noOf = 1) := by
  have hv : itemsValue [SItem.pseudo f] = [.pseudo kw.text] := by
    simp only [itemsValue, SItem.value, hk]
  obtain ⟨sl, hc, hm⟩ := compile_insert B hnc (rs := kw.forms.map kwRecord)
    (by rw [hv]; exact AddsNthL.single (addsNth_kw B kw)) hs
  refine ⟨sl, hc, ?_⟩
  intro c l e he
  rw [hm, Bool.and_eq_true, matchNths_iff]
  apply and_congr_right
  intro _
  simp only [List.mem_map, forall_exists_index, and_imp, forall_apply_eq_imp_iff₂]
  apply forall_congr'
  intro k
  apply imp_congr_right
  intro _
  rw [kwRecord, matchNth_const_iff c l e he, preCheck_empty]
  simp only [true_and]
  show (1 : Int) = ((position c l e k.isOfType k.isLast noOf : Nat) : Int) ↔ _
  omega

/-- The item is `:NAME(x)` for the functional name `k`, in any spelling, with an An+B of CSS value `0n+1`
    (`1`, `+1`, `01`, `0n+1`, `-0N + 1`, …). -/
def NthOne (it : SItem) (k : NthName) : Prop :=
  ∃ f ga x gb, it = .nth f ga x gb ∧ 58 :: lower (valueOf f) = k.text ∧ anbValue x = (0, 1)

/-- … an `-of-type` name with a bare integer of value 1 (`1`, `+1`, `01`, …). -/
def NthOneInt (it : SItem) (k : NthName) : Prop :=
  ∃ f ga x gb, it = .nth f ga x gb ∧ 58 :: lower (valueOf f) = k.text ∧ anbValue x = (0, 1) ∧
    hasN x = false ∧ k.isOfType = true

theorem nthOnes_records {mids : List SItem} {ks : List NthName} (h : List.Forall₂ NthOne mids ks)
    (hok : ∀ it ∈ mids, ∃ r, it.ok r) :
    ∃ rs, AddsNthL Gen.builtinsRec (itemsValue mids) rs ∧
      ∀ (c : Ctx) (l : Loc) (e : Elem), l.elem? = some e →
        matchNths c l e rs = matchNths c l e (ks.map kwRecord) := by
  induction h with
  | nil => exact ⟨[], by simpa only [itemsValue] using AddsNthL.nil _, fun _ _ _ _ => rfl⟩
  | @cons it k mids ks h1 _ ih =>
    obtain ⟨rs', ha, hm⟩ := ih (fun it hit => hok it (by simp [hit]))
    obtain ⟨f, ga, x, gb, rfl, hk, hx1⟩ := h1
    obtain ⟨r, hr⟩ := hok (.nth f ga x gb) (by simp)
    have hx := anb_ok_of_nth hr
    refine ⟨[nthRecord Gen.builtinsRec k x.canon none] ++ rs', ?_, ?_⟩
    · simp only [itemsValue, SItem.value, hk]
      exact AddsNthL.cons (addsNth_nth _ k x.canon) ha
    · intro c l e he
      simp only [List.singleton_append, List.map_cons, matchNths]
      rw [matchNth_one c l e he k x hx hx1, hm c l e he]

theorem nthOneInts_records (B : Builtins) {mids : List SItem} {ks : List NthName}
    (h : List.Forall₂ NthOneInt mids ks) (hok : ∀ it ∈ mids, ∃ r, it.ok r) :
    AddsNthL B (itemsValue mids) (ks.map kwRecord) := by
  induction h with
  | nil => simpa only [itemsValue, List.map_nil] using AddsNthL.nil _
  | @cons it k mids ks h1 _ ih =>
    have ha := ih (fun it hit => hok it (by simp [hit]))
    obtain ⟨f, ga, x, gb, rfl, hk, hx1, hn, hot⟩ := h1
    obtain ⟨r, hr⟩ := hok (.nth f ga x gb) (by simp)
    have hx := anb_ok_of_nth hr
    simp only [itemsValue, SItem.value, hk, List.map_cons]
    have := AddsNthL.cons (addsNth_nth B k x.canon) ha
    rwa [nthRecord_one_ofType B k hot x hx hn hx1] at this

/-- **The keyword forms coincide with the An+B forms.**  With soupsieve's built-in lists: a text with a
    keyword (any spelling) and a text with, in its place, the functional forms the keyword abbreviates —
    `:nth-child(x)` for `:first-child`, `:nth-last-child(x)` for `:last-child`, both for `:only-child`, and
    the `-of-type` ones — each `x` ANY accepted spelling of the value `0n+1`, the rest of the two compounds
    having the same values: both compile, and the results match the same elements. -/
theorem keyword_eq_nth_text (g₁ g₂ g₁' g₂' : Str) (cx cx' : Cx) (hnc : NoComma cx) (hnc' : NoComma cx')
    (tag tag' : Option STag) (pre post pre' post' : List SItem)
    (f : Forms) (kw : Keyword) (hk : 58 :: lower (valueOf f) = kw.text)
    (mids : List SItem) (hmids : List.Forall₂ NthOne mids kw.forms)
    (hrest : restV cx tag pre post = restV cx' tag' pre' post')
    (hs : Spelled cx tag (pre ++ [.pseudo f] ++ post) g₁ g₂) (hs' : Spelled cx' tag' (pre' ++ mids ++ post') g₁' g₂') :
    ∃ sl sl',
      Parser.compile pyFoldEnv Gen.lexicon Gen.builtinsRec (textOf cx tag (pre ++ [.pseudo f] ++ post) g₁ g₂) [] 0
        = .ok sl ∧
      Parser.compile pyFoldEnv Gen.lexicon Gen.builtinsRec (textOf cx' tag' (pre' ++ mids ++ post') g₁' g₂') [] 0
        = .ok sl' ∧
      ∀ (c : Ctx) (l : Loc) (e : Elem), l.elem? = some e → matchList c l e sl = matchList c l e sl' := by
  have hv : itemsValue [SItem.pseudo f] = [.pseudo kw.text] := by
    simp only [itemsValue, SItem.value, hk]
  obtain ⟨sl, hc, hm⟩ := compile_insert Gen.builtinsRec hnc (rs := kw.forms.map kwRecord)
    (by rw [hv]; exact AddsNthL.single (addsNth_kw _ kw)) hs
  obtain ⟨rs, ha, hr⟩ := nthOnes_records hmids
    (fun it hit => hs'.item_ok it (by simp [hit]))
  obtain ⟨sl', hc', hm'⟩ := compile_insert Gen.builtinsRec hnc' ha hs'
  refine ⟨sl, sl', hc, hc', ?_⟩
  intro c l e he
  rw [hm, hm', hrest, hr c l e he]

/-- **… and for the `-of-type` keywords the compiled structures are identical** when `x` is a bare integer
    (`:first-of-type` ≡ `:nth-of-type(1)`, `:only-of-type` ≡ `:nth-of-type(+1):nth-last-of-type(01)`, …),
    for every table of built-in lists.  (For the `-child` keywords they are NOT: `parse_pseudo_class` gives
    the record an empty `of S` list, `parse_pseudo_nth` gives it `CSS_NTH_OF_S_DEFAULT`;
    see `Audit/C02Parse.lean`.) -/
theorem keyword_oftype_compile_eq (B : Builtins) (g₁ g₂ g₁' g₂' : Str) (cx cx' : Cx) (hcx : cx.value = cx'.value)
    (tag tag' : Option STag) (pre post pre' post' : List SItem)
    (f : Forms) (kw : Keyword) (hk : 58 :: lower (valueOf f) = kw.text)
    (mids : List SItem) (hmids : List.Forall₂ NthOneInt mids kw.forms)
    (htag : tag.map STag.value = tag'.map STag.value) (hpre : itemsValue pre = itemsValue pre')
    (hpost : itemsValue post = itemsValue post')
    (hs : Spelled cx tag (pre ++ [.pseudo f] ++ post) g₁ g₂) (hs' : Spelled cx' tag' (pre' ++ mids ++ post') g₁' g₂') :
    Parser.compile pyFoldEnv Gen.lexicon B (textOf cx tag (pre ++ [.pseudo f] ++ post) g₁ g₂) [] 0 =
      Parser.compile pyFoldEnv Gen.lexicon B (textOf cx' tag' (pre' ++ mids ++ post') g₁' g₂') [] 0 := by
  have hv : itemsValue [SItem.pseudo f] = [.pseudo kw.text] := by
    simp only [itemsValue, SItem.value, hk]
  have ha := nthOneInts_records B hmids (fun it hit => hs'.item_ok it (by simp [hit]))
  rw [compile_text B hs, compile_text B hs', itemsValue_append, itemsValue_append, itemsValue_append,
    itemsValue_append, hv, htag, hpre, hpost, hcx]
  congr 1
  exact denote_congrL B _ _ _ (AddsNthL.single (addsNth_kw B kw)) ha _ _ _

#print axioms nth_text_iff
#print axioms nth_text_iff'
#print axioms nth_of_text_iff
#print axioms type_nth_text_iff
#print axioms keyword_text_iff
#print axioms keyword_eq_nth_text
#print axioms keyword_oftype_compile_eq

end C02Parse
end SoupVerif
