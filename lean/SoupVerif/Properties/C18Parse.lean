/-
  C18, end to end: `:in-range` / `:out-of-range` from the selector TEXT and the attribute STRINGS.

  LEFT sides: `matchText c t l` — the parser model on the pattern text `t` (ANY spelling of `:in-range` /
  `:out-of-range`, `C17Parse.SpellsPseudo`), then `CSSMatch.match` on the element at `l` (`Properties/C12Parse`).
  RIGHT sides: the element's attribute strings `type`, `min`, `max`, `value` and their SPEC-level readings only
  (`Refine/C18ParseBase.lean`: `ValidStr` = the HTML valid date / month / week / time / local date-time /
  floating-point number strings of `Spec/Calendar.lean`, `RVal.lt` = chronological / numeric order,
  `Spec.OutOfRange` = the range test with wrap-around for times).  No regular expression, no `parseValue`, no IR.

  Composition of: `C17Parse.state_text` (text → parser → matcher = the regenerated list `Gen.CSS_IN_RANGE` /
  `Gen.CSS_OUT_OF_RANGE`), `C17.inrange_eq` / `C17.outofrange_eq` (the lists = the range compound and
  `match_range`), `C18.range_def` (`match_range` = `Spec.OutOfRange` on the parsed values),
  `C18.parse_*_spec` (parsed values = valid strings), `C18.order_*_mono` (tuple order = calendar order) — and,
  below them, `C18Rx.parseValueRx_eq` (the regenerated `RE_DATE … RE_NUM`).

    * `RangeInput c e ty aMn aMx aV`   the hypotheses on the element: its `type` attribute is a string that is the
                                keyword `ty` (up to ASCII case in an HTML document, exactly in an XHTML document
                                parsed as XML), its `min` / `max` / `value` attributes are absent (`none`) or hold
                                the strings `aMn`, `aMx`, `aV`;
    * `in_range_text`, `out_of_range_text`   (1) the verdict `b` with
                                `b = true ↔ subjectOk ∧ isInput ∧ (a valid min or max) ∧ ¬ OutOfRange` resp. `∧ OutOfRange`,
                                for the readings `mn mx v` of the three strings (`Reads`; every attribute has exactly
                                one reading: `Refine.C18Parse.reads_exists`, `reads_unique`);
    * `in_out_range_text`       both at once: never both, one of them iff … a valid bound, and then exactly one;
    * `invalid_value_text`      an invalid (or absent) value is never out of range, and is in range as soon as one
                                bound is valid;
    * `one_bound_text_min`, `one_bound_text_max`   an invalid (or absent) bound sets no limit;
    * `valid_range_text`, and per type `date_range_text` (`date_out_of_range_text`), `month_range_text`,
      `week_range_text`, `time_range_text` (wrap and no wrap), `datetime_range_text`, `number_range_text`,
      `integer_range_text`      (2) all three strings valid: the verdicts in day numbers, months, Mondays, minutes,
                                decimal values;
    * `not_input_text`, `other_type_text`, `xml_type_text`, `no_valid_bound_text`   (3) elements that are not
                                range inputs match neither text;
    * `Examples`                one element per type on a concrete form (a wrapping time range, an invalid value,
                                an invalid bound, `type="DaTe"`, XHTML parsed as XML), each verdict derived from the
                                theorems above, re-evaluated on the model by `#guard`, and checked on the real library.

  THE WEEK CLAUSE.  `WeekGuard ty a` is the guard of `C18.week_valid_partial` on the attribute string: for
  `type=week`, the string is not `YYYY…-W53` for a year `y` whose 31 December lies in ISO week 1 of `y+1`.  It is
  required of the three strings in (1) — and is needed: `Examples.week53_finding` (known finding, 2019-W53).  A string that
  IS a valid week string satisfies it (`weekGuard_of_valid`), so (2) has no guard.

  NOT COVERED HERE (recorded in DESIGN.md, the models have exact decimals and unbounded naturals): the library
  compares numbers as doubles (`max="9007199254740992" value="9007199254740993"` is `:in-range` on the real
  library, out of range by `number_range_text`), and treats a string of more than 4300 digits as invalid.
  Strings with seconds / a space separator are invalid for `Spec.validTimeStr` / `Spec.validDateTimeStr` as for the
  code (known finding `time-with-seconds-or-space-separator`).
-/
import SoupVerif.Refine.C18ParseBase
import SoupVerif.Properties.C17Parse
namespace SoupVerif
namespace C18Parse
open StateLaws Refine.C18Parse
open C17Parse (SpellsPseudo subjectOk state_text)
open C12Parse (matchText)

/-! ## The hypotheses on the element -/

/-- The element is an `input` in the XHTML namespace (every `input`, when the tree builder keeps no namespaces:
    `Ctx.isHtmlTag`, as in C17). -/
def isInput (c : Ctx) (e : Elem) : Bool := c.isHtmlTag e && tagIs c e "input"

theorem isInput_iff (c : Ctx) (e : Elem) :
    isInput c e = true ↔ c.tagNs e = NS_XHTML ∧ c.tagName e = "input".toStr := by
  simp [isInput, Ctx.isHtmlTag, tagIs]

/-- The attribute `n` (as `get_attribute_by_name` finds it) is absent (`a = none`) or holds the string `a`. -/
def AttrStr (c : Ctx) (e : Elem) (n : String) (a : Option Str) : Prop :=
  c.attrByName e n.toStr = a.map NVal.str

/-- The `type` attribute holds a string that is the keyword `ty`: up to ASCII case — in an XHTML document parsed
    as XML, exactly. -/
def TypeIs (c : Ctx) (e : Elem) (ty : RangeType) : Prop :=
  ∃ ts, c.attrByName e "type".toStr = some (.str ts) ∧ (if c.isXml then ts else lower ts) = ty.name.toStr

/-- A range input, as far as its attributes go. -/
structure RangeInput (c : Ctx) (e : Elem) (ty : RangeType) (aMn aMx aV : Option Str) : Prop where
  type : TypeIs c e ty
  min : AttrStr c e "min" aMn
  max : AttrStr c e "max" aMx
  value : AttrStr c e "value" aV

theorem name_lower (ty : RangeType) : lower ty.name.toStr = ty.name.toStr := by cases ty <;> decide

theorem TypeIs.itype {c : Ctx} {e : Elem} {ty : RangeType} (h : TypeIs c e ty) :
    lowerE ((c.attrByName e "type".toStr).getD (.str [])) = .ok ty.name.toStr := by
  obtain ⟨ts, hs, ht⟩ := h
  rw [hs]
  show Except.ok (lower ts) = _
  cases hx : c.isXml
  · simp only [hx, Bool.false_eq_true, if_false] at ht; rw [ht]
  · simp only [hx, if_true] at ht; rw [ht, name_lower]

/-- The selector `[type=ty]` accepts such an element. -/
theorem TypeIs.typeIs {c : Ctx} {e : Elem} {ty : RangeType} (hfold : FoldsAscii c.env) (h : TypeIs c e ty) :
    typeIs c e ty.name = true := by
  obtain ⟨ts, hs, ht⟩ := h
  have hv : attrVal c e "type" = some ts := by
    rw [← C17.range_same_attribute c e "type" (by decide), hs]; rfl
  have hm : ts ∈ attrVals c e "type" := by
    rw [attrVal_eq_head?] at hv
    exact List.mem_of_mem_head? hv
  unfold StateLaws.typeIs attrEq
  rw [List.any_eq_true]
  refine ⟨ts, hm, ?_⟩
  cases hx : c.isXml
  · simp only [hx, Bool.false_eq_true, if_false] at ht
    exact litsEq_of_lower c.env hfold _ _ (by rw [ht, name_lower])
  · simp only [hx, if_true] at ht
    rw [Bool.not_true, C11.litsEq_exact, ht]
    exact beq_self_eq_true _

theorem anyType_of_typeIs (c : Ctx) (e : Elem) (ty : RangeType) (h : typeIs c e ty.name = true) :
    ["date", "month", "week", "time", "datetime-local", "number", "range"].any (typeIs c e) = true := by
  cases ty <;> simp only [RangeType.name] at h <;> simp [h]

theorem hasAttr_of_attrStr (c : Ctx) (e : Elem) (n : String) (hl : lower n.toStr = n.toStr) (s : Str)
    (h : AttrStr c e n (some s)) : hasAttr c e n = true := by
  unfold hasAttr
  rw [← C17.range_same_attribute c e n hl, h]; rfl

/-! ## `match_range` on the attribute strings -/

section Core
variable (c : Ctx) (e : Elem) (ty : RangeType) (aMn aMx aV : Option Str) (mn mx v : Option RVal)

/-- The range compound on such an element, once a bound is valid: the `input` test. -/
theorem rangeCompound_of_bound (hfold : FoldsAscii c.env) (hT : TypeIs c e ty) (hmn : AttrStr c e "min" aMn)
    (hmx : AttrStr c e "max" aMx) (rmn : Reads ty aMn mn) (rmx : Reads ty aMx mx)
    (hb : mn.isSome = true ∨ mx.isSome = true) :
    C17.rangeCompoundHolds c e = isInput c e := by
  have h1 := anyType_of_typeIs c e ty (hT.typeIs hfold)
  have h2 : (hasAttr c e "min" || hasAttr c e "max") = true := by
    rcases hb with hb | hb
    · cases mn with
      | none => cases hb
      | some x =>
        obtain ⟨s, rfl, -⟩ := rmn
        rw [hasAttr_of_attrStr c e "min" (by decide) s hmn, Bool.true_or]
    · cases mx with
      | none => cases hb
      | some x =>
        obtain ⟨s, rfl, -⟩ := rmx
        rw [hasAttr_of_attrStr c e "max" (by decide) s hmx, Bool.or_true]
  unfold C17.rangeCompoundHolds isInput
  rw [h1, h2, Bool.and_true, Bool.and_true]

/-- `match_range` on the readings. -/
theorem matchRange_of_reads (cond : Nat) (hR : RangeInput c e ty aMn aMx aV)
    (gmn : WeekGuard ty aMn) (gmx : WeekGuard ty aMx) (gv : WeekGuard ty aV)
    (rmn : Reads ty aMn mn) (rmx : Reads ty aMx mx) (rv : Reads ty aV v) :
    ∃ b, matchRange c e cond = b ∧
      (b = true ↔ (mn.isSome = true ∨ mx.isSome = true) ∧
        (if hasFlag cond SEL_IN_RANGE then ¬ Spec.OutOfRange RVal.lt (ty = .time) mn mx v
         else Spec.OutOfRange RVal.lt (ty = .time) mn mx v)) := by
  have pmn := parseValueE_of_reads ty aMn mn rmn gmn
  have pmx := parseValueE_of_reads ty aMx mx rmx gmx
  have pv := parseValueE_of_reads ty aV v rv gv
  rw [← hR.min] at pmn; rw [← hR.max] at pmx; rw [← hR.value] at pv
  obtain ⟨b, hb, hiff⟩ := C18.range_def c e cond ty.name.toStr _ _ _ hR.type.itype pmn pmx pv
  refine ⟨b, by unfold matchRange; rw [hb]; rfl, ?_⟩
  rw [hiff, outOfRange_transfer ty aMn aMx aV mn mx v rmn rmx rv]
  simp only [Option.isSome_map]

theorem hasFlag_in : hasFlag SEL_IN_RANGE SEL_IN_RANGE = true := by decide
theorem hasFlag_out : hasFlag SEL_OUT_OF_RANGE SEL_IN_RANGE = false := by decide

end Core

/-! ## 1. The two pseudo-classes on the text -/

section Main
variable (c : Ctx) (l : Loc) (e : Elem) (kids : List Node) (ty : RangeType) (aMn aMx aV : Option Str)
  (mn mx v : Option RVal)

/-- **`:in-range` on the text.**  `c`: an HTML document whose engine folds ASCII case (`foldsAscii_ascii`,
    `foldsAscii_py`); `e` at `l`: an element whose `type` attribute is the keyword `ty` and whose `min`, `max`,
    `value` attributes are absent or the strings `aMn`, `aMx`, `aV` (`RangeInput`), none of them a week string
    hit by the week-53 finding (`WeekGuard`, empty unless `ty = week`); `mn`, `mx`, `v`: the readings of the
    three strings (`Reads`: the value a valid string denotes, `none` for an absent or invalid one).
    Any spelling `t` of `:in-range` selects `e` exactly when `e` passes the subject guard, is an HTML `input`,
    has a valid `min` or `max`, and its value is NOT out of range: `Spec.OutOfRange` with the chronological /
    numeric order, wrap-around for `type=time` only; an invalid value is never out of range, an invalid bound
    sets no limit. -/
theorem in_range_text (hc : c.isHtml = true) (hfold : FoldsAscii c.env) (hf : l.focus = .elem e kids)
    (hR : RangeInput c e ty aMn aMx aV)
    (gmn : WeekGuard ty aMn) (gmx : WeekGuard ty aMx) (gv : WeekGuard ty aV)
    (rmn : Reads ty aMn mn) (rmx : Reads ty aMx mx) (rv : Reads ty aV v)
    (t : Str) (h : SpellsPseudo "in-range".toStr t) :
    ∃ b, matchText c t l = .ok b ∧
      (b = true ↔ subjectOk c e = true ∧ isInput c e = true ∧ (mn.isSome = true ∨ mx.isSome = true) ∧
        ¬ Spec.OutOfRange RVal.lt (ty = .time) mn mx v) := by
  refine ⟨_, state_text .inRange c l e kids hf t h, ?_⟩
  show (subjectOk c e && matchList c l e Gen.CSS_IN_RANGE) = true ↔ _
  rw [C17.inrange_eq c l e hc, ← C17.matchRange_in]
  obtain ⟨b, hb, hiff⟩ := matchRange_of_reads c e ty aMn aMx aV mn mx v SEL_IN_RANGE hR gmn gmx gv rmn rmx rv
  rw [hb, Bool.and_eq_true, Bool.and_eq_true, hiff, hasFlag_in, if_pos rfl]
  constructor
  · rintro ⟨hs, hk, hbd, ho⟩
    rw [rangeCompound_of_bound c e ty aMn aMx mn mx hfold hR.type hR.min hR.max rmn rmx hbd] at hk
    exact ⟨hs, hk, hbd, ho⟩
  · rintro ⟨hs, hk, hbd, ho⟩
    rw [← rangeCompound_of_bound c e ty aMn aMx mn mx hfold hR.type hR.min hR.max rmn rmx hbd] at hk
    exact ⟨hs, hk, hbd, ho⟩

/-- **`:out-of-range` on the text**: … and its value IS out of range. -/
theorem out_of_range_text (hc : c.isHtml = true) (hfold : FoldsAscii c.env) (hf : l.focus = .elem e kids)
    (hR : RangeInput c e ty aMn aMx aV)
    (gmn : WeekGuard ty aMn) (gmx : WeekGuard ty aMx) (gv : WeekGuard ty aV)
    (rmn : Reads ty aMn mn) (rmx : Reads ty aMx mx) (rv : Reads ty aV v)
    (t : Str) (h : SpellsPseudo "out-of-range".toStr t) :
    ∃ b, matchText c t l = .ok b ∧
      (b = true ↔ subjectOk c e = true ∧ isInput c e = true ∧ (mn.isSome = true ∨ mx.isSome = true) ∧
        Spec.OutOfRange RVal.lt (ty = .time) mn mx v) := by
  refine ⟨_, state_text .outOfRange c l e kids hf t h, ?_⟩
  show (subjectOk c e && matchList c l e Gen.CSS_OUT_OF_RANGE) = true ↔ _
  rw [C17.outofrange_eq c l e hc, ← C17.matchRange_out]
  obtain ⟨b, hb, hiff⟩ := matchRange_of_reads c e ty aMn aMx aV mn mx v SEL_OUT_OF_RANGE hR gmn gmx gv rmn rmx rv
  rw [hb, Bool.and_eq_true, Bool.and_eq_true, hiff, hasFlag_out, if_neg (by decide)]
  constructor
  · rintro ⟨hs, hk, hbd, ho⟩
    rw [rangeCompound_of_bound c e ty aMn aMx mn mx hfold hR.type hR.min hR.max rmn rmx hbd] at hk
    exact ⟨hs, hk, hbd, ho⟩
  · rintro ⟨hs, hk, hbd, ho⟩
    rw [← rangeCompound_of_bound c e ty aMn aMx mn mx hfold hR.type hR.min hR.max rmn rmx hbd] at hk
    exact ⟨hs, hk, hbd, ho⟩

/-- **Both at once**: never both; one of them exactly when the element passes the subject guard, is an HTML
    `input` and has a valid `min` or `max` — and then `:out-of-range` iff the value is out of range. -/
theorem in_out_range_text (hc : c.isHtml = true) (hfold : FoldsAscii c.env) (hf : l.focus = .elem e kids)
    (hR : RangeInput c e ty aMn aMx aV)
    (gmn : WeekGuard ty aMn) (gmx : WeekGuard ty aMx) (gv : WeekGuard ty aV)
    (rmn : Reads ty aMn mn) (rmx : Reads ty aMx mx) (rv : Reads ty aV v)
    (t₁ t₂ : Str) (h₁ : SpellsPseudo "in-range".toStr t₁) (h₂ : SpellsPseudo "out-of-range".toStr t₂) :
    ∃ b₁ b₂, matchText c t₁ l = .ok b₁ ∧ matchText c t₂ l = .ok b₂ ∧
      ¬ (b₁ = true ∧ b₂ = true) ∧
      ((b₁ = true ∨ b₂ = true) ↔
        subjectOk c e = true ∧ isInput c e = true ∧ (mn.isSome = true ∨ mx.isSome = true)) ∧
      (subjectOk c e = true → isInput c e = true → (mn.isSome = true ∨ mx.isSome = true) →
        (b₂ = true ↔ Spec.OutOfRange RVal.lt (ty = .time) mn mx v) ∧ b₁ = !b₂) := by
  obtain ⟨b₁, e₁, i₁⟩ := in_range_text c l e kids ty aMn aMx aV mn mx v hc hfold hf hR gmn gmx gv rmn rmx rv t₁ h₁
  obtain ⟨b₂, e₂, i₂⟩ := out_of_range_text c l e kids ty aMn aMx aV mn mx v hc hfold hf hR gmn gmx gv rmn rmx rv t₂ h₂
  refine ⟨b₁, b₂, e₁, e₂, ?_, ?_, ?_⟩
  · rintro ⟨h1, h2⟩
    exact (i₁.1 h1).2.2.2 (i₂.1 h2).2.2.2
  · rw [i₁, i₂]
    by_cases ho : Spec.OutOfRange RVal.lt (ty = .time) mn mx v <;> simp [ho]
  · intro hs hk hb
    have j₁ : b₁ = true ↔ ¬ Spec.OutOfRange RVal.lt (ty = .time) mn mx v := by rw [i₁]; simp [hs, hk, hb]
    have j₂ : b₂ = true ↔ Spec.OutOfRange RVal.lt (ty = .time) mn mx v := by rw [i₂]; simp [hs, hk, hb]
    refine ⟨j₂, ?_⟩
    cases b₁ <;> cases b₂ <;> simp_all

/-! ### Invalid value, invalid bound -/

/-- **An invalid (or absent) value is never out of range** — and is in range as soon as a bound is valid. -/
theorem invalid_value_text (hc : c.isHtml = true) (hfold : FoldsAscii c.env) (hf : l.focus = .elem e kids)
    (hR : RangeInput c e ty aMn aMx aV)
    (gmn : WeekGuard ty aMn) (gmx : WeekGuard ty aMx) (gv : WeekGuard ty aV)
    (rmn : Reads ty aMn mn) (rmx : Reads ty aMx mx) (rv : Reads ty aV none)
    (t₁ t₂ : Str) (h₁ : SpellsPseudo "in-range".toStr t₁) (h₂ : SpellsPseudo "out-of-range".toStr t₂) :
    matchText c t₂ l = .ok false ∧
    ∃ b₁, matchText c t₁ l = .ok b₁ ∧
      (b₁ = true ↔ subjectOk c e = true ∧ isInput c e = true ∧ (mn.isSome = true ∨ mx.isSome = true)) := by
  obtain ⟨b₁, e₁, i₁⟩ := in_range_text c l e kids ty aMn aMx aV mn mx none hc hfold hf hR gmn gmx gv rmn rmx rv t₁ h₁
  obtain ⟨b₂, e₂, i₂⟩ := out_of_range_text c l e kids ty aMn aMx aV mn mx none hc hfold hf hR gmn gmx gv rmn rmx rv t₂ h₂
  have ho : ¬ Spec.OutOfRange RVal.lt (ty = .time) mn mx none := by simp [Spec.OutOfRange]
  constructor
  · rw [e₂]; cases b₂
    · rfl
    · exact absurd (i₂.1 rfl).2.2.2 ho
  · exact ⟨b₁, e₁, by rw [i₁]; simp [ho]⟩

/-- **An invalid (or absent) `max` sets no limit**: with a valid `min` denoting `a` and a valid value denoting
    `x`, out of range iff `x` is before `a`. -/
theorem one_bound_text_min (hc : c.isHtml = true) (hfold : FoldsAscii c.env) (hf : l.focus = .elem e kids)
    (hR : RangeInput c e ty aMn aMx aV)
    (gmn : WeekGuard ty aMn) (gmx : WeekGuard ty aMx) (gv : WeekGuard ty aV) (a x : RVal)
    (rmn : Reads ty aMn (some a)) (rmx : Reads ty aMx none) (rv : Reads ty aV (some x))
    (t₁ t₂ : Str) (h₁ : SpellsPseudo "in-range".toStr t₁) (h₂ : SpellsPseudo "out-of-range".toStr t₂) :
    ∃ b₁ b₂, matchText c t₁ l = .ok b₁ ∧ matchText c t₂ l = .ok b₂ ∧
      (b₂ = true ↔ subjectOk c e = true ∧ isInput c e = true ∧ RVal.lt x a) ∧
      (b₁ = true ↔ subjectOk c e = true ∧ isInput c e = true ∧ ¬ RVal.lt x a) := by
  obtain ⟨b₁, e₁, i₁⟩ := in_range_text c l e kids ty aMn aMx aV _ _ _ hc hfold hf hR gmn gmx gv rmn rmx rv t₁ h₁
  obtain ⟨b₂, e₂, i₂⟩ := out_of_range_text c l e kids ty aMn aMx aV _ _ _ hc hfold hf hR gmn gmx gv rmn rmx rv t₂ h₂
  exact ⟨b₁, b₂, e₁, e₂, by rw [i₂]; simp [Spec.OutOfRange], by rw [i₁]; simp [Spec.OutOfRange]⟩

/-- **An invalid (or absent) `min` sets no limit.** -/
theorem one_bound_text_max (hc : c.isHtml = true) (hfold : FoldsAscii c.env) (hf : l.focus = .elem e kids)
    (hR : RangeInput c e ty aMn aMx aV)
    (gmn : WeekGuard ty aMn) (gmx : WeekGuard ty aMx) (gv : WeekGuard ty aV) (b x : RVal)
    (rmn : Reads ty aMn none) (rmx : Reads ty aMx (some b)) (rv : Reads ty aV (some x))
    (t₁ t₂ : Str) (h₁ : SpellsPseudo "in-range".toStr t₁) (h₂ : SpellsPseudo "out-of-range".toStr t₂) :
    ∃ b₁ b₂, matchText c t₁ l = .ok b₁ ∧ matchText c t₂ l = .ok b₂ ∧
      (b₂ = true ↔ subjectOk c e = true ∧ isInput c e = true ∧ RVal.lt b x) ∧
      (b₁ = true ↔ subjectOk c e = true ∧ isInput c e = true ∧ ¬ RVal.lt b x) := by
  obtain ⟨b₁, e₁, i₁⟩ := in_range_text c l e kids ty aMn aMx aV _ _ _ hc hfold hf hR gmn gmx gv rmn rmx rv t₁ h₁
  obtain ⟨b₂, e₂, i₂⟩ := out_of_range_text c l e kids ty aMn aMx aV _ _ _ hc hfold hf hR gmn gmx gv rmn rmx rv t₂ h₂
  exact ⟨b₁, b₂, e₁, e₂, by rw [i₂]; simp [Spec.OutOfRange], by rw [i₁]; simp [Spec.OutOfRange]⟩

end Main

/-! ## 2. The common case: `min`, `max` and `value` all valid -/

/-- A valid week string is never hit by the week-53 finding: the guard is only about INVALID strings the code
    accepts. -/
theorem weekGuard_of_valid (ty : RangeType) (s : Str) (x : RVal) (h : ValidStr ty s x) : WeekGuard ty (some s) := by
  intro hty s' hs y w hw hx
  subst hty
  cases hs
  cases x <;> simp only [ValidStr] at h
  rename_i y' w'
  obtain ⟨hs', hy, -, hle⟩ := h
  have e := ((Inputs.shapeWeek_iff s y w).2 hw).symm.trans ((Inputs.shapeWeek_iff s y' w').2 hs')
  simp only [Option.some.injEq, Prod.mk.injEq] at e
  obtain ⟨rfl, rfl⟩ := e
  obtain ⟨hd, rfl⟩ := hx
  have h31 := (Spec.dec31InNextWeek1_iff y hy).1 hd
  have h53 := Spec.isoWeeksInYear_53_iff_dec31 y hy
  have h52 := Spec.isoWeeksInYear_52_or_53 y hy
  omega

section Valid
variable (c : Ctx) (l : Loc) (e : Elem) (kids : List Node)

/-- All three strings valid, denoting `a` (min), `b` (max), `x` (value): no guard, and the bound clause is met. -/
theorem valid_range_text (ty : RangeType) (smn smx sv : Str) (a b x : RVal)
    (hc : c.isHtml = true) (hfold : FoldsAscii c.env) (hf : l.focus = .elem e kids)
    (hR : RangeInput c e ty (some smn) (some smx) (some sv))
    (va : ValidStr ty smn a) (vb : ValidStr ty smx b) (vx : ValidStr ty sv x)
    (t₁ t₂ : Str) (h₁ : SpellsPseudo "in-range".toStr t₁) (h₂ : SpellsPseudo "out-of-range".toStr t₂) :
    ∃ b₁ b₂, matchText c t₁ l = .ok b₁ ∧ matchText c t₂ l = .ok b₂ ∧
      (b₂ = true ↔ subjectOk c e = true ∧ isInput c e = true ∧
        Spec.OutOfRange RVal.lt (ty = .time) (some a) (some b) (some x)) ∧
      (b₁ = true ↔ subjectOk c e = true ∧ isInput c e = true ∧
        ¬ Spec.OutOfRange RVal.lt (ty = .time) (some a) (some b) (some x)) := by
  have gmn := weekGuard_of_valid ty smn a va
  have gmx := weekGuard_of_valid ty smx b vb
  have gv := weekGuard_of_valid ty sv x vx
  obtain ⟨b₁, e₁, i₁⟩ := in_range_text c l e kids ty _ _ _ (some a) (some b) (some x) hc hfold hf hR gmn gmx gv
    ⟨smn, rfl, va⟩ ⟨smx, rfl, vb⟩ ⟨sv, rfl, vx⟩ t₁ h₁
  obtain ⟨b₂, e₂, i₂⟩ := out_of_range_text c l e kids ty _ _ _ (some a) (some b) (some x) hc hfold hf hR gmn gmx gv
    ⟨smn, rfl, va⟩ ⟨smx, rfl, vb⟩ ⟨sv, rfl, vx⟩ t₂ h₂
  exact ⟨b₁, b₂, e₁, e₂, by rw [i₂]; simp, by rw [i₁]; simp⟩

variable (smn smx sv : Str) (hc : c.isHtml = true) (hfold : FoldsAscii c.env) (hf : l.focus = .elem e kids)
  (t₁ t₂ : Str) (h₁ : SpellsPseudo "in-range".toStr t₁) (h₂ : SpellsPseudo "out-of-range".toStr t₂)
include hc hfold hf h₁ h₂

/-- **`type=date`**, valid dates `y1-m1-d1` (min), `y2-m2-d2` (max), `y-m-d` (value): out of range iff the value
    is a day before the minimum or after the maximum; in range iff between them (inclusive). -/
theorem date_range_text (y1 m1 d1 y2 m2 d2 y m d : Nat)
    (hR : RangeInput c e .date (some smn) (some smx) (some sv))
    (va : Spec.validDateStr smn y1 m1 d1) (vb : Spec.validDateStr smx y2 m2 d2) (vx : Spec.validDateStr sv y m d) :
    ∃ b₁ b₂, matchText c t₁ l = .ok b₁ ∧ matchText c t₂ l = .ok b₂ ∧
      (b₂ = true ↔ subjectOk c e = true ∧ isInput c e = true ∧
        (Spec.dayNumber y m d < Spec.dayNumber y1 m1 d1 ∨ Spec.dayNumber y2 m2 d2 < Spec.dayNumber y m d)) ∧
      (b₁ = true ↔ subjectOk c e = true ∧ isInput c e = true ∧
        Spec.dayNumber y1 m1 d1 ≤ Spec.dayNumber y m d ∧ Spec.dayNumber y m d ≤ Spec.dayNumber y2 m2 d2) := by
  obtain ⟨b₁, b₂, e₁, e₂, i₂, i₁⟩ := valid_range_text c l e kids .date smn smx sv (.date y1 m1 d1) (.date y2 m2 d2)
    (.date y m d) hc hfold hf hR va vb vx t₁ t₂ h₁ h₂
  refine ⟨b₁, b₂, e₁, e₂, ?_, ?_⟩
  · rw [i₂]; simp [Spec.OutOfRange, RVal.lt]
  · rw [i₁]; simp only [Spec.OutOfRange, RVal.lt, reduceCtorEq, false_and, false_implies, true_and,
      not_false_eq_true, forall_const, not_or, Nat.not_lt]

/-- `:out-of-range` alone, for dates. -/
theorem date_out_of_range_text (y1 m1 d1 y2 m2 d2 y m d : Nat)
    (hR : RangeInput c e .date (some smn) (some smx) (some sv))
    (va : Spec.validDateStr smn y1 m1 d1) (vb : Spec.validDateStr smx y2 m2 d2) (vx : Spec.validDateStr sv y m d) :
    ∃ b, matchText c t₂ l = .ok b ∧
      (b = true ↔ subjectOk c e = true ∧ isInput c e = true ∧
        (Spec.dayNumber y m d < Spec.dayNumber y1 m1 d1 ∨ Spec.dayNumber y2 m2 d2 < Spec.dayNumber y m d)) := by
  obtain ⟨_, b₂, _, e₂, i₂, _⟩ := date_range_text c l e kids smn smx sv hc hfold hf t₁ t₂ h₁ h₂ y1 m1 d1 y2 m2 d2 y m d
    hR va vb vx
  exact ⟨b₂, e₂, i₂⟩

/-- **`type=month`**: months in calendar order (`12·y + m`). -/
theorem month_range_text (y1 m1 y2 m2 y m : Nat)
    (hR : RangeInput c e .month (some smn) (some smx) (some sv))
    (va : Spec.validMonthStr smn y1 m1) (vb : Spec.validMonthStr smx y2 m2) (vx : Spec.validMonthStr sv y m) :
    ∃ b₁ b₂, matchText c t₁ l = .ok b₁ ∧ matchText c t₂ l = .ok b₂ ∧
      (b₂ = true ↔ subjectOk c e = true ∧ isInput c e = true ∧
        (y * 12 + m < y1 * 12 + m1 ∨ y2 * 12 + m2 < y * 12 + m)) ∧
      (b₁ = true ↔ subjectOk c e = true ∧ isInput c e = true ∧
        y1 * 12 + m1 ≤ y * 12 + m ∧ y * 12 + m ≤ y2 * 12 + m2) := by
  obtain ⟨b₁, b₂, e₁, e₂, i₂, i₁⟩ := valid_range_text c l e kids .month smn smx sv (.month y1 m1) (.month y2 m2)
    (.month y m) hc hfold hf hR va vb vx t₁ t₂ h₁ h₂
  refine ⟨b₁, b₂, e₁, e₂, ?_, ?_⟩
  · rw [i₂]; simp [Spec.OutOfRange, RVal.lt]
  · rw [i₁]; simp only [Spec.OutOfRange, RVal.lt, reduceCtorEq, false_and, false_implies, true_and,
      not_false_eq_true, forall_const, not_or, Nat.not_lt]

/-- **`type=week`**, valid ISO weeks (week number at most the ISO week count of the year, no guard): weeks in
    calendar order — by the day number of their Monday. -/
theorem week_range_text (y1 w1 y2 w2 y w : Nat)
    (hR : RangeInput c e .week (some smn) (some smx) (some sv))
    (va : Spec.validWeekStr smn y1 w1) (vb : Spec.validWeekStr smx y2 w2) (vx : Spec.validWeekStr sv y w) :
    ∃ b₁ b₂, matchText c t₁ l = .ok b₁ ∧ matchText c t₂ l = .ok b₂ ∧
      (b₂ = true ↔ subjectOk c e = true ∧ isInput c e = true ∧
        (Spec.week1Monday y + 7 * (w - 1) < Spec.week1Monday y1 + 7 * (w1 - 1) ∨
          Spec.week1Monday y2 + 7 * (w2 - 1) < Spec.week1Monday y + 7 * (w - 1))) ∧
      (b₁ = true ↔ subjectOk c e = true ∧ isInput c e = true ∧
        Spec.week1Monday y1 + 7 * (w1 - 1) ≤ Spec.week1Monday y + 7 * (w - 1) ∧
          Spec.week1Monday y + 7 * (w - 1) ≤ Spec.week1Monday y2 + 7 * (w2 - 1)) := by
  obtain ⟨b₁, b₂, e₁, e₂, i₂, i₁⟩ := valid_range_text c l e kids .week smn smx sv (.week y1 w1) (.week y2 w2)
    (.week y w) hc hfold hf hR va vb vx t₁ t₂ h₁ h₂
  refine ⟨b₁, b₂, e₁, e₂, ?_, ?_⟩
  · rw [i₂]; simp [Spec.OutOfRange, RVal.lt]
  · rw [i₁]; simp only [Spec.OutOfRange, RVal.lt, reduceCtorEq, false_and, false_implies, true_and,
      not_false_eq_true, forall_const, not_or, Nat.not_lt]

/-- **`type=time`**, valid times `h1:i1` (min), `h2:i2` (max), `h:i` (value), in minutes since midnight: when the
    minimum is later than the maximum the range wraps around midnight and the value is out of range iff it lies
    strictly after the maximum and strictly before the minimum; otherwise the ordinary interval. -/
theorem time_range_text (h1 i1 h2 i2 h i : Nat)
    (hR : RangeInput c e .time (some smn) (some smx) (some sv))
    (va : Spec.validTimeStr smn h1 i1) (vb : Spec.validTimeStr smx h2 i2) (vx : Spec.validTimeStr sv h i) :
    ∃ b₁ b₂, matchText c t₁ l = .ok b₁ ∧ matchText c t₂ l = .ok b₂ ∧
      (b₂ = true ↔ subjectOk c e = true ∧ isInput c e = true ∧
        (if h2 * 60 + i2 < h1 * 60 + i1 then h2 * 60 + i2 < h * 60 + i ∧ h * 60 + i < h1 * 60 + i1
         else h * 60 + i < h1 * 60 + i1 ∨ h2 * 60 + i2 < h * 60 + i)) ∧
      (b₁ = true ↔ subjectOk c e = true ∧ isInput c e = true ∧
        (if h2 * 60 + i2 < h1 * 60 + i1 then h * 60 + i ≤ h2 * 60 + i2 ∨ h1 * 60 + i1 ≤ h * 60 + i
         else h1 * 60 + i1 ≤ h * 60 + i ∧ h * 60 + i ≤ h2 * 60 + i2)) := by
  obtain ⟨b₁, b₂, e₁, e₂, i₂, i₁⟩ := valid_range_text c l e kids .time smn smx sv (.time h1 i1) (.time h2 i2)
    (.time h i) hc hfold hf hR va vb vx t₁ t₂ h₁ h₂
  refine ⟨b₁, b₂, e₁, e₂, ?_, ?_⟩
  · rw [i₂]
    by_cases hw : h2 * 60 + i2 < h1 * 60 + i1 <;> simp [Spec.OutOfRange, RVal.lt, hw]
  · rw [i₁]
    by_cases hw : h2 * 60 + i2 < h1 * 60 + i1
    · simp only [Spec.OutOfRange, RVal.lt, hw, and_self, forall_const, not_true_eq_false, false_implies,
        and_true, if_true, not_and, Nat.not_lt]
      constructor
      · rintro ⟨a, b, c⟩; exact ⟨a, b, by omega⟩
      · rintro ⟨a, b, c⟩; exact ⟨a, b, by omega⟩
    · simp only [Spec.OutOfRange, RVal.lt, hw, and_false, false_implies, not_false_eq_true, forall_const,
        true_and, if_false, not_or, Nat.not_lt]

/-- **`type=datetime-local`**: local date-times in order of minutes since 0001-01-01 00:00. -/
theorem datetime_range_text (y1 m1 d1 h1 i1 y2 m2 d2 h2 i2 y m d h i : Nat)
    (hR : RangeInput c e .datetimeLocal (some smn) (some smx) (some sv))
    (va : Spec.validDateTimeStr smn y1 m1 d1 h1 i1) (vb : Spec.validDateTimeStr smx y2 m2 d2 h2 i2)
    (vx : Spec.validDateTimeStr sv y m d h i) :
    ∃ b₁ b₂, matchText c t₁ l = .ok b₁ ∧ matchText c t₂ l = .ok b₂ ∧
      (b₂ = true ↔ subjectOk c e = true ∧ isInput c e = true ∧
        (Spec.dayNumber y m d * 1440 + h * 60 + i < Spec.dayNumber y1 m1 d1 * 1440 + h1 * 60 + i1 ∨
          Spec.dayNumber y2 m2 d2 * 1440 + h2 * 60 + i2 < Spec.dayNumber y m d * 1440 + h * 60 + i)) ∧
      (b₁ = true ↔ subjectOk c e = true ∧ isInput c e = true ∧
        Spec.dayNumber y1 m1 d1 * 1440 + h1 * 60 + i1 ≤ Spec.dayNumber y m d * 1440 + h * 60 + i ∧
          Spec.dayNumber y m d * 1440 + h * 60 + i ≤ Spec.dayNumber y2 m2 d2 * 1440 + h2 * 60 + i2) := by
  obtain ⟨b₁, b₂, e₁, e₂, i₂, i₁⟩ := valid_range_text c l e kids .datetimeLocal smn smx sv
    (.datetime y1 m1 d1 h1 i1) (.datetime y2 m2 d2 h2 i2) (.datetime y m d h i) hc hfold hf hR va vb vx t₁ t₂ h₁ h₂
  refine ⟨b₁, b₂, e₁, e₂, ?_, ?_⟩
  · rw [i₂]; simp [Spec.OutOfRange, RVal.lt]
  · rw [i₁]; simp only [Spec.OutOfRange, RVal.lt, reduceCtorEq, false_and, false_implies, true_and,
      not_false_eq_true, forall_const, not_or, Nat.not_lt]

/-- **`type=number` / `type=range`**, valid floating-point number strings denoting `(-1)^n·m·10^x`: by value
    (`RVal.lt` on numbers: the decimals scaled to a common exponent — any common exponent, `num_lt_any_scale`). -/
theorem number_range_text (ty : RangeType) (hty : ty = .number ∨ ty = .range)
    (n1 : Bool) (m1 : Nat) (x1 : Int) (n2 : Bool) (m2 : Nat) (x2 : Int) (n : Bool) (m : Nat) (x : Int)
    (hR : RangeInput c e ty (some smn) (some smx) (some sv))
    (va : Spec.numShape smn n1 m1 x1) (vb : Spec.numShape smx n2 m2 x2) (vx : Spec.numShape sv n m x) :
    ∃ b₁ b₂, matchText c t₁ l = .ok b₁ ∧ matchText c t₂ l = .ok b₂ ∧
      (b₂ = true ↔ subjectOk c e = true ∧ isInput c e = true ∧
        (RVal.lt (.num n m x) (.num n1 m1 x1) ∨ RVal.lt (.num n2 m2 x2) (.num n m x))) ∧
      (b₁ = true ↔ subjectOk c e = true ∧ isInput c e = true ∧
        ¬ RVal.lt (.num n m x) (.num n1 m1 x1) ∧ ¬ RVal.lt (.num n2 m2 x2) (.num n m x)) := by
  have hnt : ¬ ty = .time := by rcases hty with rfl | rfl <;> decide
  have hv : ∀ s nn mm xx, Spec.numShape s nn mm xx → ValidStr ty s (.num nn mm xx) := by
    intro s nn mm xx hs; rcases hty with rfl | rfl <;> exact hs
  obtain ⟨b₁, b₂, e₁, e₂, i₂, i₁⟩ := valid_range_text c l e kids ty smn smx sv (.num n1 m1 x1) (.num n2 m2 x2)
    (.num n m x) hc hfold hf hR (hv _ _ _ _ va) (hv _ _ _ _ vb) (hv _ _ _ _ vx) t₁ t₂ h₁ h₂
  refine ⟨b₁, b₂, e₁, e₂, ?_, ?_⟩
  · rw [i₂]; simp [Spec.OutOfRange, hnt]
  · rw [i₁]; simp [Spec.OutOfRange, hnt]

/-- … for integers written without fraction and exponent (`numShape s n m 0`): the usual order on integers. -/
theorem integer_range_text (ty : RangeType) (hty : ty = .number ∨ ty = .range)
    (n1 : Bool) (m1 : Nat) (n2 : Bool) (m2 : Nat) (n : Bool) (m : Nat)
    (hR : RangeInput c e ty (some smn) (some smx) (some sv))
    (va : Spec.numShape smn n1 m1 0) (vb : Spec.numShape smx n2 m2 0) (vx : Spec.numShape sv n m 0) :
    ∃ b₁ b₂, matchText c t₁ l = .ok b₁ ∧ matchText c t₂ l = .ok b₂ ∧
      (b₂ = true ↔ subjectOk c e = true ∧ isInput c e = true ∧
        ((if n then -(m : Int) else m) < (if n1 then -(m1 : Int) else m1) ∨
          (if n2 then -(m2 : Int) else m2) < (if n then -(m : Int) else m))) ∧
      (b₁ = true ↔ subjectOk c e = true ∧ isInput c e = true ∧
        (if n1 then -(m1 : Int) else m1) ≤ (if n then -(m : Int) else m) ∧
          (if n then -(m : Int) else m) ≤ (if n2 then -(m2 : Int) else m2)) := by
  obtain ⟨b₁, b₂, e₁, e₂, i₂, i₁⟩ := number_range_text c l e kids smn smx sv hc hfold hf t₁ t₂ h₁ h₂ ty hty
    n1 m1 0 n2 m2 0 n m 0 hR va vb vx
  refine ⟨b₁, b₂, e₁, e₂, ?_, ?_⟩
  · rw [i₂, num_lt_int, num_lt_int]
  · rw [i₁, num_lt_int, num_lt_int, Int.not_lt, Int.not_lt]

end Valid

/-! ## 3. Elements that are not range inputs match neither text -/

section Neither
variable (c : Ctx) (l : Loc) (e : Elem) (kids : List Node)

/-- Both texts answer `false` once the range compound fails or `match_range` finds no bound. -/
theorem neither_of (hc : c.isHtml = true) (hf : l.focus = .elem e kids)
    (h : C17.rangeCompoundHolds c e = false ∨ C17.rangeState c e = none) (t : Str)
    (ht : SpellsPseudo "in-range".toStr t ∨ SpellsPseudo "out-of-range".toStr t) :
    matchText c t l = .ok false := by
  rcases ht with ht | ht
  · rw [state_text .inRange c l e kids hf t ht]
    show Except.ok (subjectOk c e && matchList c l e Gen.CSS_IN_RANGE) = _
    rw [C17.inrange_eq c l e hc]
    rcases h with h | h <;> rw [h] <;> simp
  · rw [state_text .outOfRange c l e kids hf t ht]
    show Except.ok (subjectOk c e && matchList c l e Gen.CSS_OUT_OF_RANGE) = _
    rw [C17.outofrange_eq c l e hc]
    rcases h with h | h <;> rw [h] <;> simp

/-- **Not an HTML `input`** (other tag, or outside the XHTML namespace): neither. -/
theorem not_input_text (hc : c.isHtml = true) (hf : l.focus = .elem e kids) (hn : isInput c e = false) (t : Str)
    (ht : SpellsPseudo "in-range".toStr t ∨ SpellsPseudo "out-of-range".toStr t) :
    matchText c t l = .ok false := by
  apply neither_of c l e kids hc hf _ t ht
  left
  unfold C17.rangeCompoundHolds
  unfold isInput at hn
  rw [hn, Bool.false_and, Bool.false_and]

theorem parseValueE_other (itype : Str) (h : ∀ ty : RangeType, itype ≠ ty.name.toStr) (x : Option NVal) :
    parseValueE itype x = .ok none := by
  have hany : (["date", "month", "week", "time", "datetime-local", "number", "range"].any
      fun t => t.toStr == itype) = false := by
    cases hb : (["date", "month", "week", "time", "datetime-local", "number", "range"].any
      fun t => t.toStr == itype) with
    | false => rfl
    | true =>
      exfalso
      rw [List.any_eq_true] at hb
      obtain ⟨k, hk, he⟩ := hb
      have he' : k.toStr = itype := by simpa using he
      simp only [List.mem_cons, List.not_mem_nil, or_false] at hk
      rcases hk with rfl | rfl | rfl | rfl | rfl | rfl | rfl
      · exact h .date he'.symm
      · exact h .month he'.symm
      · exact h .week he'.symm
      · exact h .time he'.symm
      · exact h .datetimeLocal he'.symm
      · exact h .number he'.symm
      · exact h .range he'.symm
  cases x with
  | none => rfl
  | some x =>
    cases x with
    | str s =>
      show Except.ok (Inputs.parseValue itype s) = _
      rw [C18.parse_other_type itype s]
      intro k hk hkt
      simp only [List.mem_cons, List.not_mem_nil, or_false] at hk
      rcases hk with rfl | rfl | rfl | rfl | rfl | rfl | rfl
      · exact h .date hkt
      · exact h .month hkt
      · exact h .week hkt
      · exact h .time hkt
      · exact h .datetimeLocal hkt
      · exact h .number hkt
      · exact h .range hkt
    | list l =>
      unfold parseValueE
      simp only [hany, Bool.false_eq_true, if_false]

/-- **Another `type`**: when the `type` attribute is absent, not a string, or a string that does not lower-case
    to one of the seven keywords, neither — whatever `min`, `max`, `value` hold, in every environment. -/
theorem other_type_text (hc : c.isHtml = true) (hf : l.focus = .elem e kids)
    (hty : ∀ ts (ty : RangeType), c.attrByName e "type".toStr = some (.str ts) → lower ts ≠ ty.name.toStr)
    (t : Str) (ht : SpellsPseudo "in-range".toStr t ∨ SpellsPseudo "out-of-range".toStr t) :
    matchText c t l = .ok false := by
  apply neither_of c l e kids hc hf _ t ht
  right
  unfold C17.rangeState C17.rangeStateE
  cases hT : c.attrByName e "type".toStr with
  | none =>
    have : ∀ ty : RangeType, lower ([] : Str) ≠ ty.name.toStr := by intro ty; cases ty <;> decide
    simp only [Option.getD_none, lowerE, parseValueE_other _ this]
    rfl
  | some x =>
    cases x with
    | list l' => rfl
    | str ts =>
      have := fun ty => hty ts ty hT
      simp only [Option.getD_some, lowerE, parseValueE_other _ this]
      rfl

/-- **XHTML parsed as XML**: the `type` keyword is compared exactly; when none of the `type` attributes `[type]`
    designates is one of the seven keywords letter for letter (e.g. `type="DATE"`), neither. -/
theorem xml_type_text (hc : c.isHtml = true) (hx : c.isXml = true) (hf : l.focus = .elem e kids)
    (hty : ∀ s ∈ attrVals c e "type", ∀ ty : RangeType, s ≠ ty.name.toStr)
    (t : Str) (ht : SpellsPseudo "in-range".toStr t ∨ SpellsPseudo "out-of-range".toStr t) :
    matchText c t l = .ok false := by
  apply neither_of c l e kids hc hf _ t ht
  left
  have hno : ∀ ty : RangeType, typeIs c e ty.name = false := by
    intro ty
    unfold StateLaws.typeIs
    rw [hx, Bool.not_true, attrEq_exact]
    cases hb : (attrVals c e "type").any fun s => s == ty.name.toStr with
    | false => rfl
    | true =>
      rw [List.any_eq_true] at hb
      obtain ⟨s, hs, he⟩ := hb
      exact absurd (by simpa using he) (hty s hs ty)
  have h1 := hno .date; have h2 := hno .month; have h3 := hno .week; have h4 := hno .time
  have h5 := hno .datetimeLocal; have h6 := hno .number; have h7 := hno .range
  simp only [RangeType.name] at h1 h2 h3 h4 h5 h6 h7
  unfold C17.rangeCompoundHolds
  simp [h1, h2, h3, h4, h5, h6, h7]

/-- **No valid bound**: a range input whose `min` and `max` are absent or invalid matches neither text (whatever
    its `value` attribute holds). -/
theorem no_valid_bound_text (hc : c.isHtml = true) (hf : l.focus = .elem e kids) (ty : RangeType)
    (aMn aMx : Option Str) (hT : TypeIs c e ty) (hmn : AttrStr c e "min" aMn) (hmx : AttrStr c e "max" aMx)
    (gmn : WeekGuard ty aMn) (gmx : WeekGuard ty aMx)
    (rmn : Reads ty aMn none) (rmx : Reads ty aMx none)
    (t : Str) (ht : SpellsPseudo "in-range".toStr t ∨ SpellsPseudo "out-of-range".toStr t) :
    matchText c t l = .ok false := by
  apply neither_of c l e kids hc hf _ t ht
  right
  have pmn := parseValueE_of_reads ty aMn none rmn gmn
  have pmx := parseValueE_of_reads ty aMx none rmx gmx
  rw [← hmn] at pmn; rw [← hmx] at pmx
  unfold C17.rangeState C17.rangeStateE
  rw [hT.itype]
  simp only [pmn, pmx]
  rfl

end Neither

/-! ## Non-vacuity: a concrete form

  Eighteen elements inside `<html><body><form>…</form></body></html>` (html.parser); the verdicts below were
  cross-checked on the real soupsieve 2.6.1 / bs4 4.15.0 (`Audit/C18Parse.lean`):
  `:in-range` selects 0, 2, 4, 5, 8, 17 and `:out-of-range` 1, 3, 6, 7, 9, 10, 12, 14, 16. -/

namespace Examples
open C17Parse.Examples (E0 elemOf el docN child)
open C17Parse (spells_literal lits)
open C09Compile (identOK)
open Escape

def controls : List (String × List (String × String)) :=
  [("input", [("type", "date"), ("min", "2024-01-01"), ("max", "2024-12-31"), ("value", "2024-02-29")]),   -- 0 in
   ("input", [("type", "date"), ("min", "2024-01-01"), ("max", "2024-12-31"), ("value", "2025-01-01")]),   -- 1 out
   ("input", [("type", "date"), ("min", "2024-01-01"), ("max", "2024-12-31"), ("value", "2023-02-29")]),   -- 2 invalid value: in
   ("input", [("type", "month"), ("min", "2024-03"), ("max", "2024-10"), ("value", "2024-11")]),           -- 3 out
   ("input", [("type", "week"), ("min", "2020-W10"), ("max", "2020-W53"), ("value", "2020-W53")]),         -- 4 in
   ("input", [("type", "time"), ("min", "22:00"), ("max", "06:00"), ("value", "23:30")]),                  -- 5 in (wrap)
   ("input", [("type", "time"), ("min", "22:00"), ("max", "06:00"), ("value", "12:00")]),                  -- 6 out (wrap)
   ("input", [("type", "datetime-local"), ("min", "2024-01-01T00:00"), ("max", "2024-01-01T12:00"),
              ("value", "2024-01-01T12:01")]),                                                             -- 7 out
   ("input", [("type", "number"), ("min", "-1.5"), ("max", "1e1"), ("value", "9.99")]),                    -- 8 in
   ("input", [("type", "range"), ("min", "0"), ("max", "10"), ("value", "11")]),                           -- 9 out
   ("input", [("type", "date"), ("min", "yesterday"), ("max", "2024-12-31"), ("value", "2025-01-01")]),    -- 10 invalid min: out
   ("input", [("type", "date"), ("min", "yesterday"), ("max", "2024-02-30"), ("value", "2024-01-01")]),    -- 11 no valid bound
   ("input", [("type", "DaTe"), ("min", "2024-01-01"), ("value", "2023-12-31")]),                          -- 12 out
   ("input", [("type", "text"), ("min", "1"), ("max", "5"), ("value", "7")]),                              -- 13 neither
   ("input", [("type", "week"), ("min", "2019-W53"), ("value", "2019-W52")]),                              -- 14 the finding
   ("p", [("type", "number"), ("min", "1"), ("max", "5"), ("value", "7")]),                                -- 15 neither
   ("input", [("type", "time"), ("min", "09:00"), ("max", "17:00"), ("value", "08:59")]),                  -- 16 out (no wrap)
   ("input", [("type", "number"), ("min", "1"), ("value", "")])]                                           -- 17 in

def tree : Node := docN [el "html" [] [el "body" [] [el "form" [] (controls.map fun x => el x.1 x.2 [])]]]
def top : Loc := ⟨tree, []⟩
def form : Loc := child (child (child top 0) 0) 0
/-- the `i`-th element of the form -/
def at_ (i : Nat) : Loc := child form i
def elemAt (i : Nat) : Elem := match controls[i]? with | some x => elemOf x.1 x.2 | none => default

/-- An HTML document (html.parser), no namespace map. -/
def ctx : Ctx := mkCtx E0 false [] top

theorem ctx_html : ctx.isHtml = true := by decide
theorem ctx_fold : FoldsAscii ctx.env := foldsAscii_ascii

theorem focus_at : ∀ (i : Nat) (_ : i < 18), (at_ i).focus = .elem (elemAt i) []
  | 0, _ => rfl
  | 1, _ => rfl
  | 2, _ => rfl
  | 3, _ => rfl
  | 4, _ => rfl
  | 5, _ => rfl
  | 6, _ => rfl
  | 7, _ => rfl
  | 8, _ => rfl
  | 9, _ => rfl
  | 10, _ => rfl
  | 11, _ => rfl
  | 12, _ => rfl
  | 13, _ => rfl
  | 14, _ => rfl
  | 15, _ => rfl
  | 16, _ => rfl
  | 17, _ => rfl
  | _ + 18, h => absurd h (by omega)

theorem subj (i : Nat) : subjectOk ctx (elemAt i) = true :=
  C17Parse.subjectOk_plain ctx _ (by unfold elemAt; split <;> rfl) (by decide)

/-- ` :IN-\72 ange/**/` — a space, upper case, a hex escape with its terminator, a comment. -/
def inRangeAlt : C09Compile.Forms :=
  [(73, .lit), (78, .lit), (45, .lit), (114, .hex 2 [] (some .space)), (97, .lit), (110, .lit), (103, .lit),
   (101, .lit)]

theorem spIn : SpellsPseudo "in-range".toStr " :IN-\\72 ange/**/".toStr :=
  ⟨inRangeAlt, [32], "/**/".toStr, by decide, by decide, by decide, by simp only [identOK]; decide, by decide,
    by decide⟩
theorem spOut : SpellsPseudo "out-of-range".toStr ":OUT-OF-RANGE".toStr :=
  ⟨lits "OUT-OF-RANGE".toStr, [], [], by decide, by decide, by decide, by simp only [identOK]; decide, by decide,
    by decide⟩

/-! ### valid strings, readings -/

theorem vDate (s : String) (y m d : Nat) (h : Inputs.shapeDate s.toStr = some (y, m, d)) (hv : Spec.validDate y m d) :
    Spec.validDateStr s.toStr y m d := ⟨(Inputs.shapeDate_iff _ _ _ _).1 h, hv⟩
theorem vMonth (s : String) (y m : Nat) (h : Inputs.shapeMonth s.toStr = some (y, m))
    (hv : 1 ≤ y ∧ 1 ≤ m ∧ m ≤ 12) : Spec.validMonthStr s.toStr y m := ⟨(Inputs.shapeMonth_iff _ _ _).1 h, hv⟩
theorem vTime (s : String) (h mi : Nat) (hs : Inputs.shapeTime s.toStr = some (h, mi)) (hv : h ≤ 23 ∧ mi ≤ 59) :
    Spec.validTimeStr s.toStr h mi := ⟨(Inputs.shapeTime_iff _ _ _).1 hs, hv⟩
theorem vDateTime (s : String) (y m d h mi : Nat) (hs : Inputs.shapeDateTime s.toStr = some (y, m, d, h, mi))
    (hv : Spec.validDate y m d ∧ h ≤ 23 ∧ mi ≤ 59) : Spec.validDateTimeStr s.toStr y m d h mi :=
  ⟨(Inputs.shapeDateTime_iff _ _ _ _ _ _).1 hs, hv⟩
theorem vNum (s : String) (n : Bool) (m : Nat) (x : Int) (h : Inputs.shapeNum s.toStr = some (.num n m x)) :
    Spec.numShape s.toStr n m x := (Inputs.shapeNum_iff _ _ _ _).1 h
theorem vWeek (s : String) (y w k : Nat) (h : Inputs.shapeWeek s.toStr = some (y, w)) (hy : 1 ≤ y) (hw : 1 ≤ w)
    (hk : Spec.isoWeeksFast y = k) (hwk : w ≤ k) : Spec.validWeekStr s.toStr y w :=
  ⟨(Inputs.shapeWeek_iff _ _ _).1 h, hy, hw, by rw [Spec.isoWeeksInYear_of_fast hy hk]; exact hwk⟩

/-- An invalid string reads `none` — outside the week-53 finding, where the code and the calendar disagree. -/
theorem readsNone (ty : RangeType) (s : Str) (h : Inputs.parseValue ty.name.toStr s = none) :
    Reads ty (some s) none := by
  intro s' hs x hx
  cases hs
  rw [parse_of_valid ty s x hx] at h
  cases h

theorem dnLt {y1 m1 d1 y2 m2 d2 : Nat} (v1 : Spec.validDate y1 m1 d1) (v2 : Spec.validDate y2 m2 d2)
    (h : Inputs.ltInts [y1, m1, d1] [y2, m2, d2] = true) :
    Spec.dayNumber y1 m1 d1 < Spec.dayNumber y2 m2 d2 := (C18.order_date_mono _ _ _ _ _ _ v1 v2).1 h
theorem dnLe {y1 m1 d1 y2 m2 d2 : Nat} (v1 : Spec.validDate y1 m1 d1) (v2 : Spec.validDate y2 m2 d2)
    (h : Inputs.ltInts [y2, m2, d2] [y1, m1, d1] = false) :
    Spec.dayNumber y1 m1 d1 ≤ Spec.dayNumber y2 m2 d2 :=
  Nat.not_lt.1 fun h' => by rw [(C18.order_date_mono _ _ _ _ _ _ v2 v1).2 h'] at h; cases h

theorem d0101 : Spec.validDateStr "2024-01-01".toStr 2024 1 1 := vDate "2024-01-01" 2024 1 1 (by decide) (by decide)
theorem d1231 : Spec.validDateStr "2024-12-31".toStr 2024 12 31 := vDate "2024-12-31" 2024 12 31 (by decide) (by decide)
theorem d0229 : Spec.validDateStr "2024-02-29".toStr 2024 2 29 := vDate "2024-02-29" 2024 2 29 (by decide) (by decide)
theorem d250101 : Spec.validDateStr "2025-01-01".toStr 2025 1 1 := vDate "2025-01-01" 2025 1 1 (by decide) (by decide)
theorem d231231 : Spec.validDateStr "2023-12-31".toStr 2023 12 31 := vDate "2023-12-31" 2023 12 31 (by decide) (by decide)

/-! ### (2) all three strings valid, one example per type -/

-- 0: `type=date`, 2024-02-29 within 2024-01-01 … 2024-12-31
example : matchText ctx " :IN-\\72 ange/**/".toStr (at_ 0) = .ok true ∧
    matchText ctx ":OUT-OF-RANGE".toStr (at_ 0) = .ok false := by
  obtain ⟨b₁, b₂, e₁, e₂, i₂, i₁⟩ := date_range_text ctx (at_ 0) (elemAt 0) [] _ _ _ ctx_html ctx_fold
    (focus_at 0 (by decide)) _ _ spIn spOut 2024 1 1 2024 12 31 2024 2 29
    ⟨⟨"date".toStr, rfl, rfl⟩, rfl, rfl, rfl⟩ d0101 d1231 d0229
  have l1 := dnLe d0101.2 d0229.2 (by decide)
  have l2 := dnLe d0229.2 d1231.2 (by decide)
  rw [e₁, e₂, i₁.2 ⟨subj 0, by decide, l1, l2⟩]
  refine ⟨rfl, ?_⟩
  cases b₂
  · rfl
  · have := (i₂.1 rfl).2.2; omega

-- 1: `type=date`, 2025-01-01 after the maximum
example : matchText ctx " :IN-\\72 ange/**/".toStr (at_ 1) = .ok false ∧
    matchText ctx ":OUT-OF-RANGE".toStr (at_ 1) = .ok true := by
  obtain ⟨b₁, b₂, e₁, e₂, i₂, i₁⟩ := date_range_text ctx (at_ 1) (elemAt 1) [] _ _ _ ctx_html ctx_fold
    (focus_at 1 (by decide)) _ _ spIn spOut 2024 1 1 2024 12 31 2025 1 1
    ⟨⟨"date".toStr, rfl, rfl⟩, rfl, rfl, rfl⟩ d0101 d1231 d250101
  have l1 := dnLt d1231.2 d250101.2 (by decide)
  rw [e₁, e₂, i₂.2 ⟨subj 1, by decide, Or.inr l1⟩]
  refine ⟨?_, rfl⟩
  cases b₁
  · rfl
  · have := (i₁.1 rfl).2.2; omega

-- 3: `type=month`, 2024-11 after 2024-10
example : matchText ctx ":in-range".toStr (at_ 3) = .ok false ∧
    matchText ctx ":out-of-range".toStr (at_ 3) = .ok true := by
  obtain ⟨b₁, b₂, e₁, e₂, i₂, i₁⟩ := month_range_text ctx (at_ 3) (elemAt 3) [] _ _ _ ctx_html ctx_fold
    (focus_at 3 (by decide)) ":in-range".toStr ":out-of-range".toStr (spells_literal .inRange) (spells_literal .outOfRange) 2024 3 2024 10 2024 11
    ⟨⟨"month".toStr, rfl, rfl⟩, rfl, rfl, rfl⟩ (vMonth "2024-03" _ _ (by decide) (by decide))
    (vMonth "2024-10" _ _ (by decide) (by decide)) (vMonth "2024-11" _ _ (by decide) (by decide))
  rw [e₁, e₂, i₂.2 ⟨subj 3, by decide, by decide⟩]
  refine ⟨?_, rfl⟩
  cases b₁
  · rfl
  · have := (i₁.1 rfl).2.2; omega

-- 4: `type=week`, 2020-W53 (2020 has 53 ISO weeks) within 2020-W10 … 2020-W53
example : matchText ctx ":in-range".toStr (at_ 4) = .ok true ∧
    matchText ctx ":out-of-range".toStr (at_ 4) = .ok false := by
  obtain ⟨b₁, b₂, e₁, e₂, i₂, i₁⟩ := week_range_text ctx (at_ 4) (elemAt 4) [] _ _ _ ctx_html ctx_fold
    (focus_at 4 (by decide)) ":in-range".toStr ":out-of-range".toStr (spells_literal .inRange) (spells_literal .outOfRange) 2020 10 2020 53 2020 53
    ⟨⟨"week".toStr, rfl, rfl⟩, rfl, rfl, rfl⟩ (vWeek "2020-W10" _ _ 53 (by decide) (by decide) (by decide) (by decide) (by decide))
    (vWeek "2020-W53" _ _ 53 (by decide) (by decide) (by decide) (by decide) (by decide))
    (vWeek "2020-W53" _ _ 53 (by decide) (by decide) (by decide) (by decide) (by decide))
  rw [e₁, e₂, i₁.2 ⟨subj 4, by decide, by omega, by omega⟩]
  refine ⟨rfl, ?_⟩
  cases b₂
  · rfl
  · have := (i₂.1 rfl).2.2; omega

-- 5, 6: `type=time`, the range 22:00 … 06:00 wraps around midnight: 23:30 is in range, 12:00 out of range
example : matchText ctx ":in-range".toStr (at_ 5) = .ok true ∧
    matchText ctx ":out-of-range".toStr (at_ 5) = .ok false := by
  obtain ⟨b₁, b₂, e₁, e₂, i₂, i₁⟩ := time_range_text ctx (at_ 5) (elemAt 5) [] _ _ _ ctx_html ctx_fold
    (focus_at 5 (by decide)) ":in-range".toStr ":out-of-range".toStr (spells_literal .inRange) (spells_literal .outOfRange) 22 0 6 0 23 30
    ⟨⟨"time".toStr, rfl, rfl⟩, rfl, rfl, rfl⟩ (vTime "22:00" _ _ (by decide) (by decide))
    (vTime "06:00" _ _ (by decide) (by decide)) (vTime "23:30" _ _ (by decide) (by decide))
  rw [e₁, e₂, i₁.2 ⟨subj 5, by decide, by decide⟩]
  refine ⟨rfl, ?_⟩
  cases b₂
  · rfl
  · exact absurd (i₂.1 rfl).2.2 (by decide)

example : matchText ctx ":in-range".toStr (at_ 6) = .ok false ∧
    matchText ctx ":out-of-range".toStr (at_ 6) = .ok true := by
  obtain ⟨b₁, b₂, e₁, e₂, i₂, i₁⟩ := time_range_text ctx (at_ 6) (elemAt 6) [] _ _ _ ctx_html ctx_fold
    (focus_at 6 (by decide)) ":in-range".toStr ":out-of-range".toStr (spells_literal .inRange) (spells_literal .outOfRange) 22 0 6 0 12 0
    ⟨⟨"time".toStr, rfl, rfl⟩, rfl, rfl, rfl⟩ (vTime "22:00" _ _ (by decide) (by decide))
    (vTime "06:00" _ _ (by decide) (by decide)) (vTime "12:00" _ _ (by decide) (by decide))
  rw [e₁, e₂, i₂.2 ⟨subj 6, by decide, by decide⟩]
  refine ⟨?_, rfl⟩
  cases b₁
  · rfl
  · exact absurd (i₁.1 rfl).2.2 (by decide)

-- 16: `type=time`, 09:00 … 17:00 does not wrap: 08:59 is out of range
example : matchText ctx ":out-of-range".toStr (at_ 16) = .ok true := by
  obtain ⟨b₁, b₂, e₁, e₂, i₂, i₁⟩ := time_range_text ctx (at_ 16) (elemAt 16) [] _ _ _ ctx_html ctx_fold
    (focus_at 16 (by decide)) ":in-range".toStr ":out-of-range".toStr (spells_literal .inRange) (spells_literal .outOfRange) 9 0 17 0 8 59
    ⟨⟨"time".toStr, rfl, rfl⟩, rfl, rfl, rfl⟩ (vTime "09:00" _ _ (by decide) (by decide))
    (vTime "17:00" _ _ (by decide) (by decide)) (vTime "08:59" _ _ (by decide) (by decide))
  rw [e₂, i₂.2 ⟨subj 16, by decide, by decide⟩]

-- 7: `type=datetime-local`, one minute past the maximum
example : matchText ctx ":out-of-range".toStr (at_ 7) = .ok true := by
  obtain ⟨b₁, b₂, e₁, e₂, i₂, i₁⟩ := datetime_range_text ctx (at_ 7) (elemAt 7) [] _ _ _ ctx_html ctx_fold
    (focus_at 7 (by decide)) ":in-range".toStr ":out-of-range".toStr (spells_literal .inRange) (spells_literal .outOfRange)
    2024 1 1 0 0 2024 1 1 12 0 2024 1 1 12 1
    ⟨⟨"datetime-local".toStr, rfl, rfl⟩, rfl, rfl, rfl⟩
    (vDateTime "2024-01-01T00:00" _ _ _ _ _ (by decide) (by decide))
    (vDateTime "2024-01-01T12:00" _ _ _ _ _ (by decide) (by decide))
    (vDateTime "2024-01-01T12:01" _ _ _ _ _ (by decide) (by decide))
  rw [e₂, i₂.2 ⟨subj 7, by decide, Or.inr (by omega)⟩]

-- 8: `type=number`, 9.99 within -1.5 … 1e1 (fractions, a sign, an exponent)
example : matchText ctx ":in-range".toStr (at_ 8) = .ok true := by
  obtain ⟨b₁, b₂, e₁, e₂, i₂, i₁⟩ := number_range_text ctx (at_ 8) (elemAt 8) [] _ _ _ ctx_html ctx_fold
    (focus_at 8 (by decide)) ":in-range".toStr ":out-of-range".toStr (spells_literal .inRange) (spells_literal .outOfRange) .number (Or.inl rfl)
    true 15 (-1) false 1 1 false 999 (-2)
    ⟨⟨"number".toStr, rfl, rfl⟩, rfl, rfl, rfl⟩ (vNum "-1.5" _ _ _ (by decide)) (vNum "1e1" _ _ _ (by decide))
    (vNum "9.99" _ _ _ (by decide))
  rw [e₁, i₁.2 ⟨subj 8, by decide, by simp only [RVal.lt, decScaled]; decide,
    by simp only [RVal.lt, decScaled]; decide⟩]

-- 9: `type=range`, the integer 11 above 0 … 10
example : matchText ctx ":out-of-range".toStr (at_ 9) = .ok true := by
  obtain ⟨b₁, b₂, e₁, e₂, i₂, i₁⟩ := integer_range_text ctx (at_ 9) (elemAt 9) [] _ _ _ ctx_html ctx_fold
    (focus_at 9 (by decide)) ":in-range".toStr ":out-of-range".toStr (spells_literal .inRange) (spells_literal .outOfRange) .range (Or.inr rfl)
    false 0 false 10 false 11
    ⟨⟨"range".toStr, rfl, rfl⟩, rfl, rfl, rfl⟩ (vNum "0" _ _ _ (by decide)) (vNum "10" _ _ _ (by decide))
    (vNum "11" _ _ _ (by decide))
  rw [e₂, i₂.2 ⟨subj 9, by decide, by decide⟩]

/-! ### (1) invalid value, invalid bound, letter case of `type` -/

-- 2: the value 2023-02-29 is not a date: never out of range, in range since the bounds are valid
example : matchText ctx ":out-of-range".toStr (at_ 2) = .ok false ∧ matchText ctx ":in-range".toStr (at_ 2) = .ok true := by
  obtain ⟨h2, b₁, e₁, i₁⟩ := invalid_value_text ctx (at_ 2) (elemAt 2) [] .date (some "2024-01-01".toStr) (some "2024-12-31".toStr) (some "2023-02-29".toStr)
    (some (.date 2024 1 1)) (some (.date 2024 12 31)) ctx_html ctx_fold
    (focus_at 2 (by decide)) ⟨⟨"date".toStr, rfl, rfl⟩, rfl, rfl, rfl⟩
    (weekGuard_of_ne _ _ (by decide)) (weekGuard_of_ne _ _ (by decide)) (weekGuard_of_ne _ _ (by decide))
    ⟨_, rfl, d0101⟩ ⟨_, rfl, d1231⟩ (readsNone .date "2023-02-29".toStr (by decide))
    ":in-range".toStr ":out-of-range".toStr (spells_literal .inRange) (spells_literal .outOfRange)
  rw [h2, e₁, i₁.2 ⟨subj 2, by decide, Or.inl rfl⟩]
  exact ⟨rfl, rfl⟩

-- 17: `value=""`, only `min`: in range
example : matchText ctx ":out-of-range".toStr (at_ 17) = .ok false ∧ matchText ctx ":in-range".toStr (at_ 17) = .ok true := by
  obtain ⟨h2, b₁, e₁, i₁⟩ := invalid_value_text ctx (at_ 17) (elemAt 17) [] .number (some "1".toStr) none (some "".toStr)
    (some (.num false 1 0)) none ctx_html ctx_fold
    (focus_at 17 (by decide)) ⟨⟨"number".toStr, rfl, rfl⟩, rfl, rfl, rfl⟩
    (weekGuard_of_ne _ _ (by decide)) (weekGuard_of_ne _ _ (by decide)) (weekGuard_of_ne _ _ (by decide))
    ⟨_, rfl, vNum "1" _ _ _ (by decide)⟩ (reads_none_absent _) (readsNone .number "".toStr (by decide))
    ":in-range".toStr ":out-of-range".toStr (spells_literal .inRange) (spells_literal .outOfRange)
  rw [h2, e₁, i₁.2 ⟨subj 17, by decide, Or.inl rfl⟩]
  exact ⟨rfl, rfl⟩

-- 10: `min="yesterday"` sets no limit; the value is after the (valid) maximum
example : matchText ctx ":out-of-range".toStr (at_ 10) = .ok true := by
  obtain ⟨b₁, b₂, e₁, e₂, i₂, i₁⟩ := one_bound_text_max ctx (at_ 10) (elemAt 10) [] .date (some "yesterday".toStr) (some "2024-12-31".toStr) (some "2025-01-01".toStr) ctx_html ctx_fold
    (focus_at 10 (by decide)) ⟨⟨"date".toStr, rfl, rfl⟩, rfl, rfl, rfl⟩
    (weekGuard_of_ne _ _ (by decide)) (weekGuard_of_ne _ _ (by decide)) (weekGuard_of_ne _ _ (by decide))
    (.date 2024 12 31) (.date 2025 1 1)
    (readsNone .date "yesterday".toStr (by decide)) ⟨_, rfl, d1231⟩ ⟨_, rfl, d250101⟩
    ":in-range".toStr ":out-of-range".toStr (spells_literal .inRange) (spells_literal .outOfRange)
  rw [e₂, i₂.2 ⟨subj 10, by decide, dnLt d1231.2 d250101.2 (by decide)⟩]

-- 12: `type="DaTe"`, only `min`; 2023-12-31 is before it
example : matchText ctx ":out-of-range".toStr (at_ 12) = .ok true := by
  obtain ⟨b₁, b₂, e₁, e₂, i₂, i₁⟩ := one_bound_text_min ctx (at_ 12) (elemAt 12) [] .date (some "2024-01-01".toStr) none (some "2023-12-31".toStr) ctx_html ctx_fold
    (focus_at 12 (by decide)) ⟨⟨"DaTe".toStr, rfl, by decide⟩, rfl, rfl, rfl⟩
    (weekGuard_of_ne _ _ (by decide)) (weekGuard_of_ne _ _ (by decide)) (weekGuard_of_ne _ _ (by decide))
    (.date 2024 1 1) (.date 2023 12 31)
    ⟨_, rfl, d0101⟩ (reads_none_absent _) ⟨_, rfl, d231231⟩
    ":in-range".toStr ":out-of-range".toStr (spells_literal .inRange) (spells_literal .outOfRange)
  rw [e₂, i₂.2 ⟨subj 12, by decide, dnLt d231231.2 d0101.2 (by decide)⟩]

/-! ### (3) neither -/

-- 11: neither `min="yesterday"` nor `max="2024-02-30"` is a date
example : matchText ctx ":in-range".toStr (at_ 11) = .ok false ∧ matchText ctx ":OUT-OF-RANGE".toStr (at_ 11) = .ok false :=
  ⟨no_valid_bound_text ctx (at_ 11) (elemAt 11) [] ctx_html (focus_at 11 (by decide)) .date (some "yesterday".toStr) (some "2024-02-30".toStr)
      ⟨"date".toStr, rfl, rfl⟩ rfl rfl (weekGuard_of_ne _ _ (by decide)) (weekGuard_of_ne _ _ (by decide))
      (readsNone .date "yesterday".toStr (by decide)) (readsNone .date "2024-02-30".toStr (by decide)) ":in-range".toStr
      (Or.inl (spells_literal .inRange)),
   no_valid_bound_text ctx (at_ 11) (elemAt 11) [] ctx_html (focus_at 11 (by decide)) .date (some "yesterday".toStr) (some "2024-02-30".toStr)
      ⟨"date".toStr, rfl, rfl⟩ rfl rfl (weekGuard_of_ne _ _ (by decide)) (weekGuard_of_ne _ _ (by decide))
      (readsNone .date "yesterday".toStr (by decide)) (readsNone .date "2024-02-30".toStr (by decide)) _
      (Or.inr spOut)⟩

-- 13: `type=text`
example : matchText ctx ":in-range".toStr (at_ 13) = .ok false ∧ matchText ctx ":out-of-range".toStr (at_ 13) = .ok false := by
  have h : ∀ ts (ty : RangeType), ctx.attrByName (elemAt 13) "type".toStr = some (.str ts) → lower ts ≠ ty.name.toStr := by
    intro ts ty hts
    have : ts = "text".toStr := by
      have e : ctx.attrByName (elemAt 13) "type".toStr = some (.str "text".toStr) := rfl
      rw [e] at hts; injection hts with h1; injection h1 with h2; exact h2.symm
    subst this
    cases ty <;> decide
  exact ⟨other_type_text ctx (at_ 13) (elemAt 13) [] ctx_html (focus_at 13 (by decide)) h ":in-range".toStr
      (Or.inl (spells_literal .inRange)),
    other_type_text ctx (at_ 13) (elemAt 13) [] ctx_html (focus_at 13 (by decide)) h ":out-of-range".toStr
      (Or.inr (spells_literal .outOfRange))⟩

-- 15: a `p` carrying the four attributes
example : matchText ctx ":in-range".toStr (at_ 15) = .ok false ∧ matchText ctx ":out-of-range".toStr (at_ 15) = .ok false :=
  ⟨not_input_text ctx (at_ 15) (elemAt 15) [] ctx_html (focus_at 15 (by decide)) (by decide) ":in-range".toStr
      (Or.inl (spells_literal .inRange)),
   not_input_text ctx (at_ 15) (elemAt 15) [] ctx_html (focus_at 15 (by decide)) (by decide) ":out-of-range".toStr
      (Or.inr (spells_literal .outOfRange))⟩

/-! ### The week-53 finding: the guard cannot be dropped

  Element 14: `<input type="week" min="2019-W53" value="2019-W52">`.  Year 2019 has 52 ISO weeks (31 December
  2019 is a Tuesday, in week 1 of 2020), so `2019-W53` is NOT a valid week string: the element has no valid
  bound and, by the property, is neither in nor out of range.  The code accepts the string (known finding
  `week_valid_false` of `Properties/C18.lean`, pinned by the repository's tests), takes it as the minimum and
  answers `:out-of-range` (real soupsieve: the same).  The string fails `WeekGuard`. -/

theorem week53_not_valid : Reads .week (some "2019-W53".toStr) none := by
  intro s hs x hx
  cases hs
  cases x <;> simp only [ValidStr] at hx
  rename_i y w
  obtain ⟨hs, hy, hw1, hw2⟩ := hx
  have e := ((Inputs.shapeWeek_iff _ y w).2 hs).symm.trans (show Inputs.shapeWeek "2019-W53".toStr = some (2019, 53) by decide)
  simp only [Option.some.injEq, Prod.mk.injEq] at e
  obtain ⟨rfl, rfl⟩ := e
  rw [Spec.isoWeeksInYear_of_fast (k := 52) (by decide) (by decide)] at hw2
  omega

theorem week53_guard_fails : ¬ WeekGuard .week (some "2019-W53".toStr) := by
  intro h
  exact h rfl _ rfl 2019 53 ((Inputs.shapeWeek_iff _ _ _).1 (by decide))
    ⟨Spec.dec31InNextWeek1_of_fast (by decide) (by decide), rfl⟩

/-- The conclusion of `out_of_range_text` fails on element 14 (all hypotheses but the guard on `min` hold): the
    text matches although the element has no valid bound. -/
theorem week53_finding :
    RangeInput ctx (elemAt 14) .week (some "2019-W53".toStr) none (some "2019-W52".toStr) ∧
    Reads .week (some "2019-W53".toStr) none ∧ Reads .week none none ∧
    matchText ctx ":out-of-range".toStr (at_ 14) = .ok true := by
  refine ⟨⟨⟨"week".toStr, rfl, rfl⟩, rfl, rfl, rfl⟩, week53_not_valid, reads_none_absent _, ?_⟩
  rw [state_text .outOfRange ctx (at_ 14) (elemAt 14) [] (focus_at 14 (by decide)) ":out-of-range".toStr (spells_literal .outOfRange)]
  exact congrArg _ (by decide +kernel)

/-! ### An XHTML document parsed as XML: the `type` keyword is compared exactly

  `<html xmlns="http://www.w3.org/1999/xhtml"><body><input type="DATE" min="2024-01-01" value="2023-12-31"/>
  <input type="date" min="2024-01-01" value="2023-12-31"/></body></html>` (real soupsieve, `lxml-xml`:
  `:out-of-range` selects the second `input` only, `:in-range` nothing). -/

def xel (n : String) (attrs : List (String × String)) (kids : List Node) : Node :=
  .elem { isDoc := false, name := n.toStr, pfx := none, ns := some NS_XHTML,
          attrs := attrs.map C17Parse.Examples.mkAttr } kids
def xcontrols : List (List (String × String)) :=
  [[("type", "DATE"), ("min", "2024-01-01"), ("value", "2023-12-31")],
   [("type", "date"), ("min", "2024-01-01"), ("value", "2023-12-31")]]
def xtree : Node := docN [xel "html" [] [xel "body" [] (xcontrols.map fun a => xel "input" a [])]]
def xtop : Loc := ⟨xtree, []⟩
def xat (i : Nat) : Loc := child (child (child xtop 0) 0) i
def xelem (i : Nat) : Elem :=
  { isDoc := false, name := "input".toStr, pfx := none, ns := some NS_XHTML,
    attrs := (xcontrols[i]?.getD []).map C17Parse.Examples.mkAttr }
def xctx : Ctx := mkCtx E0 true [] xtop

example : xctx.isHtml = true ∧ xctx.isXml = true := by decide

example : matchText xctx ":in-range".toStr (xat 0) = .ok false ∧ matchText xctx ":out-of-range".toStr (xat 0) = .ok false := by
  have h : ∀ s ∈ attrVals xctx (xelem 0) "type", ∀ ty : RangeType, s ≠ ty.name.toStr := by
    intro s hs ty
    have e : attrVals xctx (xelem 0) "type" = ["DATE".toStr] := by decide
    rw [e, List.mem_singleton] at hs
    subst hs
    cases ty <;> decide
  exact ⟨xml_type_text xctx (xat 0) (xelem 0) [] (by decide) (by decide) rfl h ":in-range".toStr
      (Or.inl (spells_literal .inRange)),
    xml_type_text xctx (xat 0) (xelem 0) [] (by decide) (by decide) rfl h ":out-of-range".toStr
      (Or.inr (spells_literal .outOfRange))⟩

example : matchText xctx ":out-of-range".toStr (xat 1) = .ok true := by
  obtain ⟨b₁, b₂, e₁, e₂, i₂, i₁⟩ := one_bound_text_min xctx (xat 1) (xelem 1) [] .date
    (some "2024-01-01".toStr) none (some "2023-12-31".toStr) (by decide) foldsAscii_ascii rfl
    ⟨⟨"date".toStr, rfl, by decide⟩, rfl, rfl, rfl⟩
    (weekGuard_of_ne _ _ (by decide)) (weekGuard_of_ne _ _ (by decide)) (weekGuard_of_ne _ _ (by decide))
    (.date 2024 1 1) (.date 2023 12 31)
    ⟨_, rfl, d0101⟩ (reads_none_absent _) ⟨_, rfl, d231231⟩
    ":in-range".toStr ":out-of-range".toStr (spells_literal .inRange) (spells_literal .outOfRange)
  rw [e₂, i₂.2 ⟨C17Parse.subjectOk_plain xctx _ rfl (by decide), by decide, dnLt d231231.2 d0101.2 (by decide)⟩]

def isOk (x : Except Parser.Err Bool) (b : Bool) : Bool :=
  match x with
  | .ok b' => b == b'
  | .error _ => false

-- the model evaluated directly on the same texts, as a cross-check of the statements
#guard isOk (matchText ctx " :IN-\\72 ange/**/".toStr (at_ 0)) true
#guard isOk (matchText ctx ":OUT-OF-RANGE".toStr (at_ 1)) true
#guard isOk (matchText ctx ":in-range".toStr (at_ 2)) true
#guard isOk (matchText ctx ":out-of-range".toStr (at_ 3)) true
#guard isOk (matchText ctx ":in-range".toStr (at_ 4)) true
#guard isOk (matchText ctx ":in-range".toStr (at_ 5)) true
#guard isOk (matchText ctx ":out-of-range".toStr (at_ 6)) true
#guard isOk (matchText ctx ":out-of-range".toStr (at_ 7)) true
#guard isOk (matchText ctx ":in-range".toStr (at_ 8)) true
#guard isOk (matchText ctx ":out-of-range".toStr (at_ 9)) true
#guard isOk (matchText ctx ":out-of-range".toStr (at_ 10)) true
#guard isOk (matchText ctx ":in-range".toStr (at_ 11)) false && isOk (matchText ctx ":out-of-range".toStr (at_ 11)) false
#guard isOk (matchText ctx ":out-of-range".toStr (at_ 12)) true
#guard isOk (matchText ctx ":in-range".toStr (at_ 13)) false && isOk (matchText ctx ":out-of-range".toStr (at_ 13)) false
#guard isOk (matchText ctx ":out-of-range".toStr (at_ 14)) true
#guard isOk (matchText ctx ":in-range".toStr (at_ 15)) false && isOk (matchText ctx ":out-of-range".toStr (at_ 15)) false
#guard isOk (matchText ctx ":out-of-range".toStr (at_ 16)) true
#guard isOk (matchText ctx ":in-range".toStr (at_ 17)) true
#guard isOk (matchText xctx ":in-range".toStr (xat 0)) false && isOk (matchText xctx ":out-of-range".toStr (xat 0)) false
#guard isOk (matchText xctx ":in-range".toStr (xat 1)) false && isOk (matchText xctx ":out-of-range".toStr (xat 1)) true

end Examples

#print axioms in_range_text
#print axioms out_of_range_text
#print axioms in_out_range_text
#print axioms invalid_value_text
#print axioms one_bound_text_min
#print axioms one_bound_text_max
#print axioms valid_range_text
#print axioms date_range_text
#print axioms date_out_of_range_text
#print axioms month_range_text
#print axioms week_range_text
#print axioms time_range_text
#print axioms datetime_range_text
#print axioms number_range_text
#print axioms integer_range_text
#print axioms not_input_text
#print axioms other_type_text
#print axioms xml_type_text
#print axioms no_valid_bound_text
#print axioms Examples.week53_finding

end C18Parse
end SoupVerif
