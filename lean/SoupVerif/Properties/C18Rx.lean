/-
  C18 at the level of the regular expressions of the SOURCE.

  `Properties/C18.lean` proves that `Inputs.parseValue` (hand-written shape scanners + the validators)
  accepts exactly the valid HTML date / month / week / time / local date-time / number strings.
  `Refine/Inputs.lean` proves, for ALL strings, that `parse_value` written with the regex-engine model on
  the expressions REGENERATED from `css_match.py` (`Gen.cm_RE_DATE`, `…_MONTH`, `…_WEEK`, `…_TIME`,
  `…_DATETIME`, `…_NUM`, groups fetched by NAME through the generated group tables) is the same function.
  Composed here: the C18 statements about `parseValueRx`, i.e. about the regexes the code compiles — an edit
  of `RE_DATE` (say `[0-9]` → `\d`, a dropped anchor, a renamed group) breaks a proof obligation here.
-/
import SoupVerif.Properties.C18
import SoupVerif.Refine.Inputs
namespace SoupVerif
namespace C18Rx
open RefineInputs

variable (env : CharEnv)

theorem parse_date_spec_rx (s : Str) (v : Inputs.PVal) :
    parseValueRx env "date".toStr s = some v ↔
      ∃ y m d, Spec.validDateStr s y m d ∧ v = .ints [y, m, d] := by
  rw [parseValueRx_eq]; exact C18.parse_date_spec s v

theorem parse_month_spec_rx (s : Str) (v : Inputs.PVal) :
    parseValueRx env "month".toStr s = some v ↔ ∃ y m, Spec.validMonthStr s y m ∧ v = .ints [y, m] := by
  rw [parseValueRx_eq]; exact C18.parse_month_spec s v

/-- Weeks: what the code accepts (the recorded finding: week 53 also for years whose 31 December lies in
    week 1 of the next year). -/
theorem parse_week_char_rx (s : Str) (v : Inputs.PVal) :
    parseValueRx env "week".toStr s = some v ↔
      ∃ y w, Inputs.shapeWeek s = some (y, w) ∧ 1 ≤ y ∧ 1 ≤ w ∧ w ≤ Inputs.maxWeek y ∧ v = .ints [y, w] := by
  rw [parseValueRx_eq]; exact C18.parse_week_char s v

theorem parse_week_valid_partial_rx (s : Str) (v : Inputs.PVal)
    (hg : ∀ y, Inputs.shapeWeek s = some (y, 53) → ¬ Spec.dec31InNextWeek1 y) :
    parseValueRx env "week".toStr s = some v ↔ ∃ y w, Spec.validWeekStr s y w ∧ v = .ints [y, w] := by
  rw [parseValueRx_eq]; exact C18.parse_week_valid_partial s v hg

theorem parse_week_never_rejects_valid_rx (s : Str) (y w : Nat) (h : Spec.validWeekStr s y w) :
    parseValueRx env "week".toStr s = some (.ints [y, w]) := by
  rw [parseValueRx_eq]; exact C18.parse_week_never_rejects_valid s y w h

theorem parse_time_spec_rx (s : Str) (v : Inputs.PVal) :
    parseValueRx env "time".toStr s = some v ↔ ∃ h mi, Spec.validTimeStr s h mi ∧ v = .ints [h, mi] := by
  rw [parseValueRx_eq]; exact C18.parse_time_spec s v

theorem parse_datetime_spec_rx (s : Str) (v : Inputs.PVal) :
    parseValueRx env "datetime-local".toStr s = some v ↔
      ∃ y m d h mi, Spec.validDateTimeStr s y m d h mi ∧ v = .ints [y, m, d, h, mi] := by
  rw [parseValueRx_eq]; exact C18.parse_datetime_spec s v

theorem parse_number_spec_rx (s : Str) (v : Inputs.PVal) :
    (parseValueRx env "number".toStr s = some v ↔
      ∃ neg mant exp, Spec.numShape s neg mant exp ∧ v = .num neg mant exp) ∧
    (parseValueRx env "range".toStr s = some v ↔
      ∃ neg mant exp, Spec.numShape s neg mant exp ∧ v = .num neg mant exp) := by
  rw [parseValueRx_eq, parseValueRx_eq]; exact C18.parse_number_spec s v

theorem parse_other_type_rx (t s : Str)
    (h : ∀ k ∈ ["date", "month", "week", "time", "datetime-local", "number", "range"], t ≠ k.toStr) :
    parseValueRx env t s = none := by
  rw [parseValueRx_eq]; exact C18.parse_other_type t s h

-- non-vacuity through the engine, evaluated in the kernel
example : parseValueRx asciiEnv "date".toStr "2024-02-29".toStr = some (.ints [2024, 2, 29]) := by decide +kernel
example : parseValueRx asciiEnv "date".toStr "2023-02-29".toStr = none := by decide +kernel
example : parseValueRx asciiEnv "date".toStr "2024-02-29\n".toStr = none := by decide +kernel

end C18Rx
end SoupVerif
