/-
  C01 — "select() returns exactly the elements CSS semantics designate"
  (second group of theorems: the matcher on the parser's IR against the meaning of selectors).

  Specification : `Spec/Css.lean` (`sat`, `satTop`, `selectSpec`; the sets `parentElem`,
                  `ancestorElems`, `precedingElemSiblings`, `followingElemSiblings`, `childElems`,
                  `descendantElems`), `Spec/CssValue.lean` (`valTest`: the string predicates).
  Compiler      : `Spec/CssCompile.lean` (`compileComplex`, `compileTop`, `compileList` — the IR the
                  parser builds; `renderComplex`, `renderList` — canonical text for the
                  differential check against the real parser).
  Model         : `matchSel`, `matchEl`, `selectIn` (Model/Match.lean, Model/Api.lean).

  Rung reached: (1) the whole C01 grammar — type / universal / id / class / attribute selectors
  (all seven operators, flags `i`/`s`), the four combinators, lists, `:not` / `:is` (`:where`,
  `:matches`) / `:has` (nested, complex, relative), `:root`, `:empty`, `:first/last/only-child`,
  `:first/last/only-of-type`.

  The hypotheses of `match_eq_sat` are exactly the places where the Python code can differ from the
  CSS reading (see the comments at each hypothesis):
    * `c.iframeRestrict = false`     (given in the task: HTML-only built-in lists only)
    * `x.wf`                         (`#` + empty id, `:not()` cannot be written in CSS)
    * case-insensitive attribute comparisons need `c.env.fold = lowerCp`: `re.IGNORECASE` folds
      more than ASCII (`[a="k" i]` matches the value `"K"`, KELVIN SIGN)
    * `:root` needs `RootAgrees c T`: the matcher's root is "the element `CSSMatch.__init__`
      found (or a child of an `iframe` in HTML) with no element / non-blank text / CDATA sibling",
      the specification's is "an element with no parent element".
-/
import SoupVerif.Lemmas.SatMain
import SoupVerif.Lemmas.SatAll
import SoupVerif.Lemmas.SatRoot
import SoupVerif.Lemmas.SatRootCond
import SoupVerif.Properties.C01Attr
import SoupVerif.Properties.C01
import SoupVerif.Spec.CssHas
namespace SoupVerif
namespace C01Sat
open Css SatTree SatCore SatLeaf SatMain SatRoot

/-- The regular-expression templates mean the string predicates (Properties/C01Attr). -/
theorem templatesOk (env : CharEnv) : TemplatesOk env :=
  fun op v s ic h => C01Attr.attrPattern_sem env op v s ic h

/-! ### The theorem, most general form -/

/-- For any set of locations `P` closed under parent and children steps: if every simple selector
    occurring in `x` satisfies its side condition `Good c P` (see `SatMain.Good`), the matcher on
    the compiled selector decides the meaning of `x`, at every element of `P`. -/
theorem match_eq_sat_gen (c : Ctx) (P : Loc → Prop) (hP : Closed P)
    (hifr : c.iframeRestrict = false) (x : Complex) (hx : x.All (Good c P))
    (l : Loc) (e : Elem) (kids : List Node) (hf : l.focus = .elem e kids) (hl : P l) :
    matchSel c l e (compileComplex x) = sat c l x :=
  complex_ok hP hifr (templatesOk c.env) x hx l e kids hf hl .none

/-- The side conditions from checkable ones. -/
theorem good_of (c : Ctx) (T : Loc) (x : Complex) (hwf : x.wf = true)
    (hfold : x.caseSensitiveIn c = true ∨ c.env.fold = lowerCp)
    (hroot : x.noRoot = true ∨ RootAgrees c T) :
    x.All (Good c (fun l => l.top = T)) := by
  have h1 := Complex.All.of_all x hwf
  have h2 := Complex.All.of_all_or x hfold
  have h3 := Complex.All.of_all_or x hroot
  refine Complex.All.imp ?_ x (Complex.All.and x h1 (Complex.All.and x h2 h3))
  intro s ⟨hw, hf, hr⟩
  cases s with
  | id v => simpa [Good, Simple.wfLeaf] using hw
  | neg L =>
    simp only [Good]
    intro h; subst h
    simp [Simple.wfLeaf] at hw
  | attr ns name test =>
    cases test with
    | none => trivial
    | some t =>
      simp only [Good]
      intro hci
      rcases hf with hf | hf
      · simp [Simple.caseSensitiveIn, hci] at hf
      · exact hf
  | root =>
    simp only [Good]
    rcases hr with hr | hr
    · simp [Simple.isRoot] at hr
    · exact hr
  | cls v => trivial
  | is L => trivial
  | has L => trivial
  | empty => trivial
  | firstChild => trivial
  | lastChild => trivial
  | onlyChild => trivial
  | firstOfType => trivial
  | lastOfType => trivial
  | onlyOfType => trivial

/-! ### The theorem -/

/-- **C01, main theorem.**  On every element `l` of the tree with top `T`, the matcher applied to
    the IR of `x` (as compiled inside a pseudo-class: no implied `*`) returns exactly the meaning of
    `x`.  (`e.isDoc = false` is not needed: `matchSel` itself never looks at it — `matchEl` does.) -/
theorem match_eq_sat (c : Ctx) (hifr : c.iframeRestrict = false)
    (x : Complex) (hwf : x.wf = true)
    (hfold : x.caseSensitiveIn c = true ∨ c.env.fold = lowerCp)
    (T : Loc) (hroot : x.noRoot = true ∨ RootAgrees c T)
    (l : Loc) (e : Elem) (kids : List Node) (hf : l.focus = .elem e kids) (hT : l.top = T) :
    matchSel c l e (compileComplex x) = sat c l x :=
  match_eq_sat_gen c _ (closed_top T) hifr x (good_of c T x hwf hfold hroot) l e kids hf hT

/-- Without `:root` no hypothesis about the tree is left. -/
theorem match_eq_sat_noroot (c : Ctx) (hifr : c.iframeRestrict = false)
    (x : Complex) (hwf : x.wf = true)
    (hfold : x.caseSensitiveIn c = true ∨ c.env.fold = lowerCp) (hnr : x.noRoot = true)
    (l : Loc) (e : Elem) (kids : List Node) (hf : l.focus = .elem e kids) :
    matchSel c l e (compileComplex x) = sat c l x :=
  match_eq_sat c hifr x hwf hfold l.top (Or.inl hnr) l e kids hf rfl

/-- Top-level form: with the implied `*`. -/
theorem match_eq_satTop (c : Ctx) (hifr : c.iframeRestrict = false)
    (x : Complex) (hwf : x.wf = true)
    (hfold : x.caseSensitiveIn c = true ∨ c.env.fold = lowerCp)
    (T : Loc) (hroot : x.noRoot = true ∨ RootAgrees c T)
    (l : Loc) (e : Elem) (kids : List Node) (hf : l.focus = .elem e kids) (hT : l.top = T) :
    matchSel c l e (compileTop x) = satTop c l x := by
  unfold compileTop satTop
  apply match_eq_sat c hifr x.withImplied _ _ T _ l e kids hf hT
  · unfold Complex.wf; rw [Complex.withImplied_all]; exact hwf
  · unfold Complex.caseSensitiveIn; rw [Complex.withImplied_all]; exact hfold
  · unfold Complex.noRoot; rw [Complex.withImplied_all]; exact hroot

/-! ### `select` -/

/-- `match(el)` for a compiled top-level list. -/
theorem matchEl_eq (c : Ctx) (hifr : c.iframeRestrict = false) (L : List Complex)
    (hwf : ∀ x ∈ L, x.wf = true)
    (hfold : (∀ x ∈ L, x.caseSensitiveIn c = true) ∨ c.env.fold = lowerCp)
    (T : Loc) (hroot : (∀ x ∈ L, x.noRoot = true) ∨ RootAgrees c T)
    (l : Loc) (hel : isElem l = true) (hT : l.top = T) :
    matchEl c (compileList L) l = (!l.isDoc && L.any (satTop c l)) := by
  obtain ⟨e, kids, hf⟩ := isElem_focus hel
  unfold matchEl compileList Loc.isDoc
  simp only [hf]
  rw [matchList_pos]
  simp only [Bool.not_false, Bool.true_or, Bool.true_and, Bool.false_eq_true, if_false]
  rw [matchAny_eq_any, List.any_map]
  congr 1
  apply any_congr_mem
  intro x hx
  exact match_eq_satTop c hifr x (hwf x hx)
    (hfold.elim (fun h => Or.inl (h x hx)) Or.inr) T
    (hroot.elim (fun h => Or.inl (h x hx)) Or.inr) l e kids hf hT

/-- **`select` is exact.**  Without a limit, `select` returns — in document order — exactly the
    descendant elements of `tag` that the selector list designates: no more and no fewer. -/
theorem select_exact (c : Ctx) (hifr : c.iframeRestrict = false) (L : List Complex)
    (hwf : ∀ x ∈ L, x.wf = true)
    (hfold : (∀ x ∈ L, x.caseSensitiveIn c = true) ∨ c.env.fold = lowerCp)
    (tag : Loc) (hroot : (∀ x ∈ L, x.noRoot = true) ∨ RootAgrees c tag.top)
    (limit : Int) (hlim : limit < 1) :
    selectIn c (compileList L) tag limit = selectSpec c L tag := by
  unfold selectIn selectSpec
  simp only [hlim, if_true]
  rw [ctx_tagDescendants_false]
  apply List.filter_congr
  intro d hd
  have hel : isElem d = true := rightOf_isElem .desc tag d hd
  have hT : d.top = tag.top := (closed_top tag.top).rightOf .desc tag d rfl hd
  exact matchEl_eq c hifr L hwf hfold tag.top hroot d hel hT

/-- **The API entry point** `SoupSieve.select(tag, limit)` (`Model/Api.lean`), which builds its own
    matcher context with `CSSMatch.__init__` (`mkCtx`): exactly the designated elements. -/
theorem api_select_exact (E : Env) (isXml : Bool) (ns : List (Str × Str)) (L : List Complex)
    (hwf : ∀ x ∈ L, x.wf = true) (tag : Loc)
    (hfold : (∀ x ∈ L, x.caseSensitiveIn (mkCtx E isXml ns tag) = true) ∨ E.env.fold = lowerCp)
    (hroot : (∀ x ∈ L, x.noRoot = true) ∨ RootAgrees (mkCtx E isXml ns tag) tag.top)
    (limit : Int) (hlim : limit < 1) :
    select E isXml ns (compileList L) tag limit = selectSpec (mkCtx E isXml ns tag) L tag :=
  select_exact (mkCtx E isXml ns tag) rfl L hwf hfold tag hroot limit hlim

/-- The same with the `:root` hypothesis spelled out as conditions on the tree
    (`SatRootCond.rootAgrees_of_conditions`). -/
theorem api_select_exact' (E : Env) (isXml : Bool) (ns : List (Str × Str)) (L : List Complex)
    (hwf : ∀ x ∈ L, x.wf = true) (hfold : E.env.fold = lowerCp) (tag : Loc)
    (hdoc : ∀ n : Loc, n.top = tag.top → n.isDoc = true → n.up = [])
    (hifr : ∀ l p : Loc, l.top = tag.top → l.parent? = some p →
      ((mkCtx E isXml ns tag).isHtml && (mkCtx E isXml ns tag).locIsIframe p) = false)
    (hone : tag.top.isDoc = true →
      (tag.top.children.filter (fun s => blocksRoot s.focus)).length ≤ 1)
    (limit : Int) (hlim : limit < 1) :
    select E isXml ns (compileList L) tag limit = selectSpec (mkCtx E isXml ns tag) L tag :=
  api_select_exact E isXml ns L hwf tag (Or.inr hfold)
    (Or.inr (SatRootCond.rootAgrees_of_conditions E isXml ns tag hdoc hifr hone)) limit hlim

/-- Membership form: "no more and no fewer". -/
theorem mem_select_iff (c : Ctx) (hifr : c.iframeRestrict = false) (L : List Complex)
    (hwf : ∀ x ∈ L, x.wf = true)
    (hfold : (∀ x ∈ L, x.caseSensitiveIn c = true) ∨ c.env.fold = lowerCp)
    (tag : Loc) (hroot : (∀ x ∈ L, x.noRoot = true) ∨ RootAgrees c tag.top)
    (limit : Int) (hlim : limit < 1) (l : Loc) :
    l ∈ selectIn c (compileList L) tag limit ↔
      l ∈ descendantElems tag ∧ l.isDoc = false ∧ ∃ x ∈ L, satTop c l x = true := by
  rw [select_exact c hifr L hwf hfold tag hroot limit hlim]
  simp [selectSpec, List.mem_filter]

/-! ### "The document object itself is never an element" -/

/-- Specification side: whatever stands to the left of `>` or of the descendant combinator is not
    the document object. -/
theorem doc_object_never_related (k : Comb) (hk : k = .child ∨ k = .desc) (l t : Loc)
    (h : t ∈ leftOf k l) : t.isDoc = false := by
  rcases hk with rfl | rfl
  · simp only [leftOf, Option.mem_toList] at h
    rw [parentElem_eq] at h
    cases hp : l.parent? with
    | none => simp [hp] at h
    | some p =>
      simp only [hp] at h
      cases hd : p.isDoc with
      | true => simp [hd] at h
      | false => simp [hd] at h; subst h; exact hd
  · simp only [leftOf] at h
    rw [← ancestors_takeWhile] at h
    have := mem_takeWhile_p _ _ _ h
    simpa using this

/-- Specification side: a child of the document object has no parent element, hence matches no
    `L > R` and no `L R`. -/
theorem sat_child_of_doc (c : Ctx) (l p : Loc) (hp : l.parent? = some p) (hd : p.isDoc = true)
    (L : Complex) (R : Compound) :
    sat c l (.comb L .child R) = false ∧ sat c l (.comb L .desc R) = false := by
  have h1 : parentElem l = none := by rw [parentElem_eq, hp]; simp [hd]
  have h2 : ancestorElems l = [] := by
    rw [← ancestors_takeWhile]
    unfold Loc.ancestors
    unfold Loc.parent? at hp
    cases hu : l.up with
    | nil => rfl
    | cons f rest =>
      rw [hu] at hp
      simp only [Option.some.injEq] at hp
      subst hp
      simp only [Loc.ancestorsAux, List.takeWhile]
      simp [hd]
  constructor
  · simp [sat, leftOf, h1]
  · simp [sat, leftOf, h2]

/-- Model side, through `match_eq_sat`. -/
theorem match_child_of_doc (c : Ctx) (hifr : c.iframeRestrict = false)
    (L : Complex) (R : Compound) (k : Comb) (hk : k = .child ∨ k = .desc)
    (hwf : (Complex.comb L k R).wf = true)
    (hfold : (Complex.comb L k R).caseSensitiveIn c = true ∨ c.env.fold = lowerCp)
    (l p : Loc) (hroot : (Complex.comb L k R).noRoot = true ∨ RootAgrees c l.top)
    (e : Elem) (kids : List Node) (hf : l.focus = .elem e kids)
    (hp : l.parent? = some p) (hd : p.isDoc = true) :
    matchSel c l e (compileComplex (.comb L k R)) = false := by
  rw [match_eq_sat c hifr _ hwf hfold l.top hroot l e kids hf rfl]
  rcases hk with rfl | rfl
  · exact (sat_child_of_doc c l p hp hd L R).1
  · exact (sat_child_of_doc c l p hp hd L R).2

/-! ### "An empty value given to `^=`, `$=` or `*=` designates nothing" -/

/-- Specification side. -/
theorem empty_prefix_suffix_substr_match_nothing (c : Ctx) (e : Elem) (ns name : Str) (op : AttrOp)
    (hop : op = .pre ∨ op = .suf ∨ op = .sub) (f : CaseFlag) :
    satAttr c e ns name (some ⟨op, [], f⟩) = false := by
  unfold satAttr
  rcases hop with rfl | rfl | rfl <;> simp [valTest]

/-- Model side, through `match_eq_sat`: a compound containing such an attribute selector matches
    no element, whatever else it contains. -/
theorem match_empty_value_nothing (c : Ctx) (hifr : c.iframeRestrict = false)
    (ns name : Str) (op : AttrOp) (hop : op = .pre ∨ op = .suf ∨ op = .sub) (f : CaseFlag)
    (tag : Option TypeSel)
    (hfold : caseInsensitive c name f = false ∨ c.env.fold = lowerCp)
    (l : Loc) (e : Elem) (kids : List Node) (hf : l.focus = .elem e kids) :
    matchSel c l e (compileComplex (.one (.mk tag [.attr ns name (some ⟨op, [], f⟩)]))) = false := by
  rw [match_eq_sat_noroot c hifr _ (by rfl) _ (by rfl) l e kids hf]
  · simp only [sat, satCompound, hf, satParts, satSimple,
      empty_prefix_suffix_substr_match_nothing c e ns name op hop f]
    simp
  · rcases hfold with h | h
    · left
      simp [Complex.caseSensitiveIn, Complex.all, Compound.all, allParts, Simple.all,
        Simple.caseSensitiveIn, h]
    · exact Or.inr h

/-! ### Non-vacuity: a concrete three-level tree with interleaved text / comment nodes -/

namespace Examples

def mkE (n : String) (attrs : List Attr := []) : Elem := ⟨false, n.toStr, none, none, attrs⟩
def docE : Elem := ⟨true, "[document]".toStr, none, none, []⟩
def sattr (k v : String) : Attr := ⟨k.toStr, none, none, .str v.toStr⟩

/-- `<!DOCTYPE html><html> <div class="X y" id="d"><!--c--><a></a>t<b></b></div><p></p>
    <div><b></b><a></a></div></html>` below the `BeautifulSoup` object. -/
def tree : Node :=
  .elem docE [
    .str .doctype "html".toStr,
    .elem (mkE "html") [
      .str .text " ".toStr,
      .elem (mkE "div" [sattr "class" "X y", sattr "id" "d"]) [
        .str .comment "c".toStr, .elem (mkE "a") [], .str .text "t".toStr, .elem (mkE "b") []],
      .elem (mkE "p") [],
      .str .text "\n".toStr,
      .elem (mkE "div") [.elem (mkE "b") [], .elem (mkE "a") []]]]

def top : Loc := ⟨tree, []⟩
def E0 : Env := ⟨asciiEnv, fun _ => 0, id⟩
def ctx : Ctx := mkCtx E0 false [] top

def ty (n : String) : Option TypeSel := some ⟨.default, some n.toStr⟩

/-- `div:has(> a + b):not(:is(p, #e))` -/
def x1 : Complex :=
  .one (.mk (ty "div")
    [.has [.mk .child (.comb (.one (.mk (ty "a") [])) .adj (.mk (ty "b") []))],
     .neg [.one (.mk none [.is [.one (.mk (ty "p") []), .one (.mk none [.id "e".toStr])]])]])

/-- `html:root > [class~="x" i]:first-of-type b:last-child` -/
def x2 : Complex :=
  .comb (.comb (.one (.mk (ty "html") [.root])) .child
      (.mk none [.attr [] "class".toStr (some ⟨.word, "x".toStr, .i⟩), .firstOfType]))
    .desc (.mk (ty "b") [.lastChild])

/-- `p ~ div > a:only-of-type, [id^=""]` -/
def x3 : List Complex :=
  [.comb (.comb (.one (.mk (ty "p") [])) .sib (.mk (ty "div") [])) .child (.mk (ty "a") [.onlyOfType]),
   .one (.mk none [.attr [] "id".toStr (some ⟨.pre, [], .none⟩)])]

example : renderComplex x1 = "div:has(> a + b):not(:is(p, #e))".toStr := by decide
example : renderComplex x2 = "html:root > [class~=\"x\" i]:first-of-type b:last-child".toStr := by decide
example : renderList x3 = "p ~ div > a:only-of-type, [id^=\"\"]".toStr := by decide

-- the hypotheses of the theorems hold here
example : ctx.iframeRestrict = false := rfl
example : x1.wf = true ∧ x1.noRoot = true ∧ x1.caseSensitiveIn ctx = true := by decide
example : x2.wf = true ∧ x2.noRoot = false ∧ x2.caseSensitiveIn ctx = false := by decide
example : ctx.env.fold = lowerCp := rfl
theorem rootAgrees_example : RootAgrees ctx top.top := rootAgrees_of_check ctx top.top (by decide)

-- both sides computed independently …
example : (selectSpec ctx [x1] top).map Loc.pos = [[1, 1]] := by decide
example : (selectIn ctx (compileList [x1]) top 0).map Loc.pos = [[1, 1]] := by decide
example : (selectSpec ctx [x2] top).map Loc.pos = [[1, 1, 3]] := by decide
example : (selectIn ctx (compileList [x2]) top 0).map Loc.pos = [[1, 1, 3]] := by decide
example : (selectSpec ctx x3 top).map Loc.pos = [[1, 4, 1]] := by decide
example : (selectIn ctx (compileList x3) top 0).map Loc.pos = [[1, 4, 1]] := by decide

-- … and through the theorem
example : selectIn ctx (compileList [x1]) top 0 = selectSpec ctx [x1] top :=
  select_exact ctx rfl [x1] (by decide) (Or.inr rfl) top (Or.inl (by decide)) 0 (by decide)
example : selectIn ctx (compileList [x2]) top 0 = selectSpec ctx [x2] top :=
  select_exact ctx rfl [x2] (by decide) (Or.inr rfl) top (Or.inr rootAgrees_example) 0 (by decide)
example : selectIn ctx (compileList x3) top 0 = selectSpec ctx x3 top :=
  select_exact ctx rfl x3 (by decide) (Or.inr rfl) top (Or.inl (by decide)) 0 (by decide)

/-- The forward form of `:has` used by the specification against its declarative reading
    (`Spec/CssHas.lean`), at every element of the tree, for several relative selectors. -/
def rels : List RelSel :=
  [.mk .child (.comb (.one (.mk (ty "a") [])) .adj (.mk (ty "b") [])),
   .mk .desc (.one (.mk (ty "b") [.lastChild])),
   .mk .desc (.comb (.one (.mk (ty "div") [])) .child (.mk (ty "a") [])),
   .mk .sib (.comb (.one (.mk (ty "div") [])) .desc (.mk none [.firstChild])),
   .mk .adj (.one (.mk (ty "p") [])),
   .mk .adj (.comb (.comb (.one (.mk (ty "p") [])) .sib (.mk (ty "div") [])) .child (.mk (ty "b") [.firstOfType])),
   .mk .child (.one (.mk none [.has [.mk .child (.one (.mk (ty "b") []))]]))]

example : ((treeNodes top).filter (fun l => isElem l && !l.isDoc)).all (fun l =>
    rels.all (fun r => satRel ctx l r == satRelDeclarative ctx l r)) = true := by decide
example : (rels.map fun r =>
      ((treeNodes top).filter (fun l => isElem l && !l.isDoc && satRel ctx l r)).map Loc.pos) =
    [[[1, 1]], [[1], [1, 1]], [[1]], [[1, 1], [1, 2]], [[1, 1]], [[1, 1]], [[1]]] := by
  decide

/-- Where the `:root` hypothesis bites: two elements below the document object (a fragment parsed
    by `html.parser`).  CSS: both have no parent element; the matcher: neither is `:root`. -/
def tree2 : Node := .elem docE [.elem (mkE "p") [], .elem (mkE "q") []]
def top2 : Loc := ⟨tree2, []⟩
def ctx2 : Ctx := mkCtx E0 false [] top2
example : rootCheck ctx2 top2 = false := by decide
example : (selectSpec ctx2 [.one (.mk none [.root])] top2).map Loc.pos = [[0], [1]] := by decide
example : (selectIn ctx2 (compileList [.one (.mk none [.root])]) top2 0).map Loc.pos = [] := by decide

/-- … and text next to the root element (`<html></html>x`). -/
def tree3 : Node := .elem docE [.elem (mkE "html") [], .str .text "x".toStr]
def top3 : Loc := ⟨tree3, []⟩
def ctx3 : Ctx := mkCtx E0 false [] top3
example : rootCheck ctx3 top3 = false := by decide
example : (selectSpec ctx3 [.one (.mk none [.root])] top3).map Loc.pos = [[0]] := by decide
example : (selectIn ctx3 (compileList [.one (.mk none [.root])]) top3 0).map Loc.pos = [] := by decide

end Examples

end C01Sat
end SoupVerif
