/-
  C09, end to end, for (almost) the whole selector grammar: the COMPILED RESULT depends only on the token
  values, not on their spelling.  This file extends `Properties/C09Compile.lean` (read its header first; the
  statements there stay valid) to the parts of the grammar it leaves out: namespace prefixes, `:lang()`,
  the `contains` family, empty slots of the forgiving lists of `:is()` / `:where()`, `:has()` with relative
  selector lists, `&`, and custom selectors `:--name` with a custom dictionary.

  MAIN THEOREMS

    theorem compile_eq_denote2 (B : Builtins) (Γ : Tbl) (custom : List (Str × Str)) (cu0 : Custom)
        (hpc : processCustom pyFoldEnv Gen.lexicon custom = .ok cu0) (hcu0 : CuInv B Γ [] cu0)
        (g₁ g₂ : Str) (l : SSelList) (hg₁ : isGap g₁) (hg₂ : isGap g₂) (hok : l.ok 0 g₂) (htbl : l.tbl Γ)
        (h0 : ∀ x ∈ g₁ ++ l.render ++ g₂, x ≠ 0) :
        Parser.compile pyFoldEnv Gen.lexicon B (g₁ ++ l.render ++ g₂) custom 0 = .ok (denote B l.value)

    theorem compile_spelling_invariant_partial2 …   -- two (pattern, dictionary) pairs with `l.value = l'.value`
                                                     -- compile to the same structure

  and the specialisations `compile_eq_denote2_plain` / `compile_spelling_invariant_partial2_plain` (no
  custom dictionary: exactly the shape of the theorems of `C09Compile.lean`, with the side condition
  `l.tbl []`, "no `:--name` in the pattern") and `compile_eq_denote2_table` (the dictionary given as a list of
  (name as written, key, definition); `process_custom` is then run by the theorem, see below).
  `denote` is computed from the VALUES alone: a fold that mirrors `parse_selectors` for every flag word
  (`combStepG`: `parse_combinator` / `parse_has_combinator`, `closeSt`: the closing parenthesis, `finishG`:
  the clean-up after the loop), written without positions.  `B : Builtins` is arbitrary.  Environment:
  `pyFoldEnv`, as in `C09Compile.lean`.

  COVERED GRAMMAR (`SSelList`, `SCompound`, `SItem`; text = `render`, values = `value`, side conditions =
  `ok fl` for the flag word `fl` of the `parse_selectors` call that reads the list, and `tbl Γ`).  Everything
  `C09Compile.lean` covers, and:

    tag       := ( NS? `|` )? ( `*` | IDENT )                  -- NS := `*` | IDENT;  `|tag`, `*|tag`, `ns|*`, …
    item      := …
               | `[` gap ( NS? `|` )? IDENT ( … )? gap `]`      -- `[ns|a]`, `[*|a=v]`, `[|a]` (value of `[|a]` = of `[a]`)
               | `:lang(` gap VALUES gap `)`
               | `:contains(` | `:-soup-contains(` | `:-soup-contains-own(`  gap VALUES gap `)`
               | `:` FN `(` gap list gap `)`                    -- FN now also `has`
               | `&`
               | `:--` NAME                                     -- NAME defined in the custom dictionary
    VALUES    := VALUE ( gap `,` gap VALUE )*                   -- VALUE as in attribute selectors: identifier or
                                                                --   quoted string, any admissible spelling
    list      := slot ( comb slot )*      where a slot is a compound or EMPTY, and (`restOK`):
        · in the lists of `:is()` / `:where()` (FLG_FORGIVE) a slot may be empty when it is a whole
          comma-separated alternative: `:is()`, `:is(, a)`, `:is(a, , b)`, `:is(a,)`;
        · in the lists of `:has()` (FLG_RELATIVE) the FIRST slot of an alternative may be empty when a
          combinator other than the comma follows — a leading combinator: `:has(> a, + b c)`;
        · everywhere else (top level, `:not()`, `:matches()`, `of S`, definitions of custom selectors) every
          slot is a compound;
        · the text after an empty slot begins with no gap (the preceding token has taken it): a decomposition
          of the text, not a restriction of the texts.
    dictionary: `Γ : Tbl` maps a key (lower-cased unescaped name with the colon) to its definition
        gap list gap (flags FLG_PSEUDO; the definition may use every covered construct, including other custom
        selectors).  A `:--name` item CARRIES the definition of its name (`SItem.custom f g₁ l g₂`; `l.tbl Γ` says
        it is the one `Γ` has), its value carries the values of the definition: the syntax is a finite tree, so
        the dictionary is acyclic by construction.  The name begins with a literal `--` (the look-ahead of the
        token works on the raw text); the rest of it may be spelled with escapes, in any letter case.

  WHAT IS ASSUMED about the dictionary, and what is proved about it.  `compile_eq_denote2` takes the result of
  `process_custom` as a hypothesis (`hpc`, `hcu0`: every key of `Γ` is in the map with the source text of its
  definition).  `processCustom_table` + `CuInv_init` (used by `compile_eq_denote2_table`) PROVE it from: the keys
  are pairwise different, and every name as written passes `nameOK` — `RE_CUSTOM` matches the lower-cased name
  and the lower-cased unescaped name is the key.  `nameOK` is decidable and is evaluated name by name (the
  engine on the regenerated `Gen.cp_RE_CUSTOM`); `RE_CUSTOM` is NOT refined against a hand-written scanner here.
  The memoisation of `parse_selectors` (a definition is compiled once, with its own name removed from the map,
  then stored) is part of the proof: invariant `CuInv` of the map, `StackLt` (the definitions being expanded are
  bigger than what is being parsed, so it cannot refer to them).  Fuel: `C06.compile_fuel_irrelevant` — the
  proof runs with more fuel than `compile` allots and transfers the result.

  NOT COVERED (none is known to fail):
    * empty slots elsewhere than at the start of an alternative: `:is(a >)`, `:is(a > , b)` (accepted by the
      library, the dangling combinator is dropped); `:is(a, b >)` raises;
    * the text of a definition with NUL (replaced by U+FFFD before it is tokenised), names of custom selectors
      whose leading `--` is written with escapes (such a pattern is an error), dictionaries with two names of the
      same key (KeyError), cyclic dictionaries (`SelectorSyntaxError`, see `C06.custom_cycle_terminates`);
    * `RE_CUSTOM` (see above); all patterns on which `compile` raises; parse flags other than 0.

  HYPOTHESES of the theorems, all explicit: `l.ok 0 g₂` (decidable, context-dependent only through the next
  character), `l.tbl Γ`, no NUL in the pattern, `hpc` / `hcu0` (or `nameOK` + distinct keys).

  HOW.  Token lemmas in `Refine/Compile2*.lean`: `Compile2Tag` / `Compile2Attr` / `Compile2AttrStep` (the optional
  prefix `(?:(?:IDENT|\*)?\|)?` when present: exactly one run; the attribute token from the name on for
  arbitrary captures), `Compile2Values` / `Compile2ValuesStep` (the greedy loop `(?:WSC*,WSC*VALUE)*` by
  induction over the list; `RE_VALUES.finditer` = `Parser.parseValues` on the text of the `values` group, run by
  the engine on `Gen.cp_RE_VALUES`), `Compile2CombStep` (combinators in every mode, `)` after an empty slot,
  `&`), `Compile2Custom` (the `pseudo_class_custom` token, the three facts about `Custom.get?/erase/set`).
  Below: the mutual induction `run_item` / `run_items` / `run_compound` / `run_rest` / `run_list` / `run_top`,
  now for ALL strings `s` at once (a definition is parsed on its own text) and for all flag words; the list
  level carries the invariant `InvG` (`relations` / `relType` at the start of an alternative) and ends with
  `EndOK` (what the clean-up needs).  Every shape lemma is `rfl` against `Generated/Regexes.lean`; only the
  stable names `Gen.tok_*`, `Gen.cp_*` are mentioned.
-/
import SoupVerif.Refine.Compile2Custom
namespace SoupVerif
namespace C09Compile2
open Rx SoupVerif.Parser ParserProgress Escape Spelling Refine.Compile
open C09Compile (Forms identOK SValue SAttrOp SAttr opText flagText AttrV STag SComb plainName fnName
  setF finishNested finishTop SafeStart safeStart_cons safeStart_of_combHead safeStart_gap safeStart_close
  identOK_length setF_setF NestedFlags fnName_facts plainName_no_dash name_head initLS_nested
  finishSel_nested finishSel_top nested_flags_facts opText_cases run_attr nulFix_id compile_unfold)
open C09Compile.SValue (facts render_noGap)

/-! ### Type selectors with an optional namespace prefix -/

/-- `ns|name`, `*|name`, `|name`, `name` (name: an identifier or `*`). -/
structure STagN where
  ns : Option SNs
  t : STag

def STagN.render (x : STagN) : Str :=
  match x.ns with
  | none => x.t.render
  | some n => n.text ++ 124 :: x.t.render

/-- Name and prefix: what `parse_tag_pattern` stores. -/
def STagN.value (x : STagN) : SelTag := ⟨x.t.value, x.ns.map SNs.value⟩

def STagN.ok (x : STagN) (r : Str) : Prop :=
  x.t.ok r ∧ match x.ns with | none => True | some n => n.ok (x.t.render ++ r)

/-- What `parse_attribute_selector` adds to the builder, from the values (prefix `ns`, `[]` if none). -/
def applyAttr (ns : Str) (a : AttrV) (b : SelB) : SelB :=
  match a.body with
  | none => attrBuildNs b ns a.name [] [] none
  | some (op, v, fl) => attrBuildNs b ns a.name op v (fl.map fun c => [c])

theorem applyAttr_nil (a : AttrV) (b : SelB) : applyAttr [] a b = a.apply b := by
  unfold applyAttr AttrV.apply
  cases a.body with
  | none => rfl
  | some x => rfl

/-! ### Simple selectors, compounds, selector lists (mutually recursive through `:not(…)` etc.) -/

mutual
/-- A simple selector other than the type selector, with its spelling. -/
inductive SItem where
  | id (f : Forms)
  | cls (f : Forms)
  | attr (a : SAttr)
  /-- `[ gap ns| name … ]`: an attribute selector with a namespace prefix -/
  | attrNs (ns : SNs) (a : SAttr)
  /-- `:name` -/
  | pseudo (f : Forms)
  /-- `:name(` gap list gap `)` -/
  | fn (f : Forms) (g₁ : Str) (l : SSelList) (g₂ : Str)
  /-- `:nth-…(` gap An+B gap `)` -/
  | nth (f : Forms) (g₁ : Str) (a : SAnB) (g₂ : Str)
  /-- `:nth-child(` gap An+B gap-with-ws `of` gap-with-ws list gap `)` (`of` in any letter case) -/
  | nthOf (f : Forms) (g₁ : Str) (a : SAnB) (dg1 : Str) (m : List Bool) (dg2 : Str) (l : SSelList) (g₂ : Str)
  /-- `:dir(` gap `ltr`|`rtl` gap `)`, the keyword in any letter case -/
  | dir (f : Forms) (g₁ : Str) (ltr : Bool) (m : List Bool) (g₂ : Str)
  /-- `:lang(` gap value-list gap `)` -/
  | lang (f : Forms) (g₁ : Str) (V : SValues) (g₂ : Str)
  /-- `:contains(` / `:-soup-contains(` / `:-soup-contains-own(` gap value-list gap `)` -/
  | contains (f : Forms) (g₁ : Str) (V : SValues) (g₂ : Str)
  /-- `&` -/
  | amp
  /-- `:--name`, with the definition of the name in the custom table: gap, list, gap (the text of the
      definition is NOT part of the pattern; see `SItem.tbl`) -/
  | custom (f : Forms) (g₁ : Str) (l : SSelList) (g₂ : Str)
/-- Optional type selector, then simple selectors. -/
inductive SCompound where
  | mk (tag : Option STagN) (items : List SItem)
/-- A selector list as the tokenizer sees it: a compound, then combinator–compound pairs (the comma
    being one of the combinators). -/
inductive SSelList where
  | mk (first : SCompound) (rest : List (SComb × SCompound))
end

mutual
/-- … and without the spelling: the values only. -/
inductive Item where
  | id (v : Str)
  | cls (v : Str)
  /-- prefix (`[]` when there is none: `[a]` and `[|a]` have the same values), name and body -/
  | attr (ns : Str) (a : AttrV)
  | pseudo (name : Str)
  | fn (name : Str) (l : SelListV)
  /-- name, canonical An+B text (lower case, no gaps) -/
  | nth (name canon : Str)
  | nthOf (name canon : Str) (l : SelListV)
  | dir (ltr : Bool)
  | lang (vs : List Str)
  /-- `own`: the name is `:-soup-contains-own` -/
  | contains (own : Bool) (vs : List Str)
  | amp
  /-- the name (lower case, with the colon) and the values of its definition -/
  | custom (name : Str) (l : SelListV)
inductive Compound where
  | mk (tag : Option SelTag) (items : List Item)
inductive SelListV where
  | mk (first : Compound) (rest : List (Nat × Compound))
end

mutual
def SItem.value : SItem → Item
  | .id f => .id (valueOf f)
  | .cls f => .cls (valueOf f)
  | .attr a => .attr [] a.value
  | .attrNs ns a => .attr ns.value a.value
  | .pseudo f => .pseudo (58 :: lower (valueOf f))
  | .fn f _ l _ => .fn (58 :: lower (valueOf f)) l.value
  | .nth f _ a _ => .nth (58 :: lower (valueOf f)) a.canon
  | .nthOf f _ a _ _ _ l _ => .nthOf (58 :: lower (valueOf f)) a.canon l.value
  | .dir _ _ ltr _ _ => .dir ltr
  | .lang _ _ V _ => .lang V.values
  | .contains f _ V _ => .contains (58 :: lower (valueOf f) == ":-soup-contains-own".toStr) V.values
  | .amp => .amp
  | .custom f _ l _ => .custom (58 :: lower (valueOf f)) l.value
def itemsValue : List SItem → List Item
  | [] => []
  | it :: rest => it.value :: itemsValue rest
def SCompound.value : SCompound → Compound
  | .mk tag items => .mk (tag.map STagN.value) (itemsValue items)
def restValue : List (SComb × SCompound) → List (Nat × Compound)
  | [] => []
  | x :: rest => (x.1.value, x.2.value) :: restValue rest
def SSelList.value : SSelList → SelListV
  | .mk first rest => .mk first.value (restValue rest)
end

mutual
def SItem.render : SItem → Str
  | .id f => 35 :: renderIdentWith f
  | .cls f => 46 :: renderIdentWith f
  | .attr a => a.render
  | .attrNs ns a => 91 :: (a.g0 ++ (ns.text ++ 124 :: (renderIdentWith a.name ++ a.afterName)))
  | .pseudo f => 58 :: renderIdentWith f
  | .fn f g₁ l g₂ => 58 :: (renderIdentWith f ++ (40 :: (g₁ ++ (l.render ++ (g₂ ++ [41])))))
  | .nth f g₁ a g₂ => 58 :: (renderIdentWith f ++ (40 :: (g₁ ++ (a.render ++ (g₂ ++ [41])))))
  | .nthOf f g₁ a dg1 m dg2 l g₂ =>
    58 :: (renderIdentWith f ++ (40 :: (g₁ ++ (a.render ++ (dg1 ++ (mixCase m "of".toStr ++
      (dg2 ++ (l.render ++ (g₂ ++ [41])))))))))
  | .dir f g₁ ltr m g₂ =>
    58 :: (renderIdentWith f ++ (40 :: (g₁ ++ (mixCase m (dirWord ltr) ++ (g₂ ++ [41])))))
  | .lang f g₁ V g₂ => 58 :: (renderIdentWith f ++ (40 :: (g₁ ++ (V.render ++ (g₂ ++ [41])))))
  | .contains f g₁ V g₂ => 58 :: (renderIdentWith f ++ (40 :: (g₁ ++ (V.render ++ (g₂ ++ [41])))))
  | .amp => [38]
  | .custom f _ _ _ => 58 :: renderIdentWith f
def renderItems : List SItem → Str
  | [] => []
  | it :: rest => it.render ++ renderItems rest
def SCompound.render : SCompound → Str
  | .mk tag items => (match tag with | some t => t.render | none => []) ++ renderItems items
def renderRest : List (SComb × SCompound) → Str
  | [] => []
  | x :: rest => x.1.render ++ (x.2.render ++ renderRest rest)
def SSelList.render : SSelList → Str
  | .mk first rest => first.render ++ renderRest rest
end

/-- No type selector and no simple selector: an empty slot of a list. -/
def SCompound.isEmpty : SCompound → Bool
  | .mk tag items => tag.isNone && items.isEmpty

def Compound.isEmpty : Compound → Bool
  | .mk tag items => tag.isNone && items.isEmpty

/-- Names of the covered pseudo-classes that take a selector list. -/
def fnName2 (n : Str) : Prop :=
  n = ":not".toStr ∨ n = ":is".toStr ∨ n = ":where".toStr ∨ n = ":matches".toStr ∨ n = ":has".toStr

/-- The flags of the nested `parse_selectors` call of `parse_pseudo_open`, from the pseudo-class name. -/
def fnFlags (n : Str) : Nat :=
  FLG_PSEUDO ||| FLG_OPEN |||
    (if n == ":not".toStr then FLG_NOT
     else if n == ":has".toStr then FLG_RELATIVE
     else if n == ":where".toStr || n == ":is".toStr then FLG_FORGIVE else 0)

mutual
/-- Admissible in front of the text `r`. -/
def SItem.ok : SItem → Str → Prop
  | .id f, r => identOK f r
  | .cls f, r => identOK f r
  | .attr a, r => a.ok r
  | .attrNs ns a, r => a.ok r ∧ ns.ok (renderIdentWith a.name ++ (a.afterName ++ r))
  | .pseudo f, r => identOK f r ∧ plainName (58 :: lower (valueOf f))
  | .fn f g₁ l g₂, r =>
    identOK f (40 :: (g₁ ++ (l.render ++ (g₂ ++ 41 :: r)))) ∧ fnName2 (58 :: lower (valueOf f)) ∧
    isGap g₁ ∧ isGap g₂ ∧ l.ok (fnFlags (58 :: lower (valueOf f))) (g₂ ++ 41 :: r)
  | .nth f g₁ a g₂, r =>
    identOK f (40 :: (g₁ ++ (a.render ++ (g₂ ++ 41 :: r)))) ∧
    (nthTypeName (58 :: lower (valueOf f)) ∨ nthChildName (58 :: lower (valueOf f))) ∧
    isGap g₁ ∧ isGap g₂ ∧ a.ok
  | .nthOf f g₁ a dg1 m dg2 l g₂, r =>
    identOK f (40 :: (g₁ ++ (a.render ++ (dg1 ++ (mixCase m "of".toStr ++
      (dg2 ++ (l.render ++ (g₂ ++ 41 :: r)))))))) ∧
    nthChildName (58 :: lower (valueOf f)) ∧ isGap g₁ ∧ a.ok ∧ DescGap dg1 ∧ DescGap dg2 ∧ isGap g₂ ∧
    l.ok 65 (g₂ ++ 41 :: r)
  | .dir f g₁ ltr m g₂, r =>
    identOK f (40 :: (g₁ ++ (mixCase m (dirWord ltr) ++ (g₂ ++ 41 :: r)))) ∧
    58 :: lower (valueOf f) = ":dir".toStr ∧ isGap g₁ ∧ isGap g₂
  | .lang f g₁ V g₂, r =>
    identOK f (40 :: (g₁ ++ (V.render ++ (g₂ ++ 41 :: r)))) ∧
    58 :: lower (valueOf f) = ":lang".toStr ∧ isGap g₁ ∧ isGap g₂ ∧ V.ok (g₂ ++ 41 :: r)
  | .contains f g₁ V g₂, r =>
    identOK f (40 :: (g₁ ++ (V.render ++ (g₂ ++ 41 :: r)))) ∧
    containsName (58 :: lower (valueOf f)) ∧ isGap g₁ ∧ isGap g₂ ∧ V.ok (g₂ ++ 41 :: r)
  | .amp, _ => True
  | .custom f g₁ l g₂, r =>
    identOK f r ∧ f.take 2 = [(45, .lit), (45, .lit)] ∧ isGap g₁ ∧ isGap g₂ ∧ l.ok 1 g₂ ∧
    ∀ x ∈ g₁ ++ l.render ++ g₂, x ≠ 0
def itemsOK : List SItem → Str → Prop
  | [], _ => True
  | it :: rest, r => it.ok (renderItems rest ++ r) ∧ itemsOK rest r
def SCompound.ok : SCompound → Str → Prop
  | .mk tag items, r =>
    (match tag with | some t => t.ok (renderItems items ++ r) | none => True) ∧ itemsOK items r
/-- The combinator–compound pairs of a list parsed with the flags `fl`, `b` telling whether the slot in
    front of them is non-empty.  An EMPTY slot is allowed only at the start of a comma-separated
    alternative, and then: in a forgiving list (`FLG_FORGIVE`: `:is()`, `:where()`) when a comma or the
    end follows; in a relative list (`FLG_RELATIVE`: `:has()`) when a combinator other than the comma
    follows (a leading combinator).  The text after an empty slot begins with no gap (the token before it
    has taken it). -/
def restOK (fl : Nat) : Bool → List (SComb × SCompound) → Str → Prop
  | b, [], r => b = true ∨ (fgOf fl = true ∧ noGapStart r = true)
  | b, x :: rest, r =>
    x.1.ok ∧ x.2.ok (renderRest rest ++ r) ∧
    (b = false → noGapStart (x.1.render ++ (x.2.render ++ (renderRest rest ++ r))) = true ∧
      (if relOf fl = true then x.1.value ≠ 44 ∧ x.1.value ≠ 32 else x.1.value = 44 ∧ fgOf fl = true)) ∧
    (x.2.isEmpty = true → x.1.value = 44 ∧ (relOf fl = true ∨ fgOf fl = true)) ∧
    restOK fl (!x.2.isEmpty) rest r
/-- A selector list parsed with the flags `fl`, in front of the text `r`. -/
def SSelList.ok (fl : Nat) : SSelList → Str → Prop
  | .mk first rest, r =>
    first.ok (renderRest rest ++ r) ∧ (first.isEmpty = true → relOf fl = true ∨ fgOf fl = true) ∧
    restOK fl (!first.isEmpty) rest r
end

/-- Tokens of a compound at its own level. -/
def SCompound.size : SCompound → Nat
  | .mk tag items => (if tag.isSome then 1 else 0) + items.length

def restSize : List (SComb × SCompound) → Nat
  | [] => 0
  | x :: rest => 1 + x.2.size + restSize rest

mutual
/-- Fuel the loop must still have after the token of an item (for the nested list of `:not(…)` etc.). -/
def SItem.need : SItem → Nat
  | .fn _ _ l _ => l.cost + 1
  | .nthOf _ _ _ _ _ _ l _ => l.cost + 1
  | .custom _ _ l _ => l.cost + 1
  | _ => 0
def itemsNeed : List SItem → Nat
  | [] => 0
  | it :: rest => it.need + itemsNeed rest
def SCompound.need : SCompound → Nat
  | .mk _ items => itemsNeed items
def restNeed : List (SComb × SCompound) → Nat
  | [] => 0
  | x :: rest => x.2.need + restNeed rest
/-- Fuel the loop of a nested list needs: its own tokens, the closing parenthesis, and what its items need. -/
def SSelList.cost : SSelList → Nat
  | .mk first rest => first.size + restSize rest + 1 + (first.need + restNeed rest)
end

/-! ## What the parser builds, from the values alone -/

/-- The end of `parse_selectors` (clean-up of the last compound, flag post-processing, freezing) for the
    flags `fl`, positions aside. -/
def finishG (fl : Nat) (st : LS) : SelList :=
  .mk ((finalSels fl (cleanupLS fl st).selectors).map SelB.freeze) ((fl &&& FLG_NOT) != 0)
    (cleanupLS fl st).isHtml

mutual
/-- What the parser does with one simple selector. -/
def Item.apply (B : Builtins) : Item → SelB → SelB
  | .id v, b => b.addId v
  | .cls v, b => b.addClass v
  | .attr ns a, b => applyAttr ns a b
  | .pseudo n, b => plainPseudo B n b
  | .fn n l, b => b.addSub (finishG (fnFlags n) (closeSt (l.loopState B (fnFlags n))))
  | .nth n c, b => nthBuild B n c none b
  | .nthOf n c l, b => nthBuild B n c (some (finishG 65 (closeSt (l.loopState B 65)))) b
  | .dir ltr, b => dirBuild ltr b
  | .lang vs, b => b.addLang ⟨vs⟩
  | .contains own vs, b => b.addContains ⟨vs, own⟩
  | .amp, b => b.orFlags SEL_SCOPE
  | .custom _ l, b => b.addSub (finishG 1 (l.loopState B 1))
def applyItems (B : Builtins) : List Item → SelB → SelB
  | [], b => b
  | it :: rest, b => applyItems B rest (it.apply B b)
/-- The builder after a compound, starting from the builder `b`. -/
def Compound.buildOn (B : Builtins) : Compound → SelB → SelB
  | .mk tag items, b => applyItems B items (match tag with | some n => b.setTag n | none => b)
/-- The loop over combinator–compound pairs, positions aside, for the flags `fl`. -/
def foldRest (B : Builtins) (fl : Nat) : List (Nat × Compound) → LS → LS
  | [], st => st
  | x :: rest, st =>
    foldRest B fl rest
      { combStepG fl x.1 st with sel := x.2.buildOn B SelB.empty, hasSelector := !x.2.isEmpty }
/-- The loop state at the end of a selector list parsed with the flags `fl`. -/
def SelListV.loopState (B : Builtins) (fl : Nat) : SelListV → LS
  | .mk first rest =>
    foldRest B fl rest
      { initLS 0 0 fl [] with sel := first.buildOn B SelB.empty, hasSelector := !first.isEmpty }
end

/-- The compiled selector list, from the values alone. -/
def denote (B : Builtins) (v : SelListV) : SelList := finishG 0 (v.loopState B 0)

/-- The loop state after the first slot of a list. -/
def firstSt (B : Builtins) (fl : Nat) (c : Compound) : LS :=
  { initLS 0 0 fl [] with sel := c.buildOn B SelB.empty, hasSelector := !c.isEmpty }

theorem loopState_eq (B : Builtins) (fl : Nat) (first : Compound) (rest : List (Nat × Compound)) :
    (SelListV.mk first rest).loopState B fl = foldRest B fl rest (firstSt B fl first) := by
  rw [SelListV.loopState]; rfl

/-! ## The custom table -/

/-- The custom table, spelled: key (lower case, unescaped, with the colon) ↦ the definition as gap, list,
    gap.  What `process_custom` must have produced from it is stated by `CuInv … []`. -/
abbrev Tbl := List (Str × Str × SSelList × Str)

def defOf (Γ : Tbl) (k : Str) : Option (Str × SSelList × Str) := (Γ.find? (fun e => e.1 == k)).map (·.2)

mutual
/-- Every `:--name` of the syntax carries the definition the table has for its key. -/
def SItem.tbl (Γ : Tbl) : SItem → Prop
  | .fn _ _ l _ => l.tbl Γ
  | .nthOf _ _ _ _ _ _ l _ => l.tbl Γ
  | .custom f g₁ l g₂ => defOf Γ (58 :: lower (valueOf f)) = some (g₁, l, g₂) ∧ l.tbl Γ
  | _ => True
def itemsTbl (Γ : Tbl) : List SItem → Prop
  | [] => True
  | it :: rest => it.tbl Γ ∧ itemsTbl Γ rest
def SCompound.tbl (Γ : Tbl) : SCompound → Prop
  | .mk _ items => itemsTbl Γ items
def restTbl (Γ : Tbl) : List (SComb × SCompound) → Prop
  | [] => True
  | x :: rest => x.2.tbl Γ ∧ restTbl Γ rest
def SSelList.tbl (Γ : Tbl) : SSelList → Prop
  | .mk first rest => first.tbl Γ ∧ restTbl Γ rest
end

/-- The custom map while parsing: every name of the table that is not being expanded (`stack`) is there,
    as the source text of its definition or as the compiled list its values denote. -/
def CuInv (B : Builtins) (Γ : Tbl) (stack : List Str) (cu : Custom) : Prop :=
  ∀ k g₁ l g₂, defOf Γ k = some (g₁, l, g₂) → k ∉ stack →
    cu.get? k = some (.src (g₁ ++ l.render ++ g₂)) ∨
    cu.get? k = some (.compiled (finishG 1 (l.value.loopState B 1)))

/-- The definitions being expanded are bigger than what is being parsed (so it cannot refer to them:
    the syntax is a finite tree). -/
def StackLt (Γ : Tbl) (stack : List Str) (n : Nat) : Prop :=
  ∀ k ∈ stack, ∀ g₁ l g₂, defOf Γ k = some (g₁, l, g₂) → n < l.cost

theorem StackLt.mono {Γ : Tbl} {stack : List Str} {n m : Nat} (h : StackLt Γ stack n) (hm : m ≤ n) :
    StackLt Γ stack m := fun k hk g₁ l g₂ hd => Nat.lt_of_le_of_lt hm (h k hk g₁ l g₂ hd)

/-- The map `process_custom` makes of a table whose keys are pairwise different. -/
theorem CuInv_init (B : Builtins) (Γ : Tbl) :
    CuInv B Γ [] (Γ.map fun e => (e.1, .src (e.2.1 ++ e.2.2.1.render ++ e.2.2.2))) := by
  intro k g₁ l g₂ hd _
  left
  unfold defOf at hd
  unfold Custom.get?
  rw [List.find?_map]
  cases hf : Γ.find? (fun e => e.1 == k) with
  | none => rw [hf] at hd; cases hd
  | some e =>
    rw [hf] at hd
    simp only [Option.map_some, Option.some.injEq] at hd
    have : (List.find? ((fun e => e.1 == k) ∘ fun e : Str × Str × SSelList × Str =>
        (e.1, CustomVal.src (e.2.1 ++ e.2.2.1.render ++ e.2.2.2))) Γ) = some e := hf
    rw [this]
    simp [hd]


/-! ### `process_custom` on a table -/

/-- What `process_custom` checks and computes for one name of the custom dictionary: the lower-cased name
    matches `RE_CUSTOM`, and its key is the lower-cased unescaped name.  (A decidable condition on the
    name: `RE_CUSTOM` itself is not refined here.) -/
def nameOK (n key : Str) : Prop :=
  Rx.isMatch pyFoldEnv Gen.lexicon.reCustom (lower n) = true ∧
    lower (Parser.cssUnescape pyFoldEnv Gen.lexicon (lower n)) = key

instance (n key : Str) : Decidable (nameOK n key) := by unfold nameOK; infer_instance

/-- The text of a definition. -/
def defText (d : Str × SSelList × Str) : Str := d.1 ++ d.2.1.render ++ d.2.2

theorem set_fresh (c : Custom) (k : Str) (v : CustomVal) (h : c.any (fun e => e.1 == k) = false) :
    c.set k v = c ++ [(k, v)] := by
  unfold Custom.set
  rw [h]; rfl

/-- One step of `process_custom`. -/
def pcStep (acc : Custom) (kv : Str × Str) : M Custom :=
  let name := lower kv.1
  if !(Rx.isMatch pyFoldEnv Gen.lexicon.reCustom name) then
    .error { kind := .badCustomName, pattern := [], offset := 0 }
  else
    let key := lower (Parser.cssUnescape pyFoldEnv Gen.lexicon name)
    if acc.any (fun e => e.1 == key) then .error { kind := .customCollision, pattern := [], offset := 0 }
    else .ok (acc.set key (.src kv.2))

theorem processCustom_eq (custom : List (Str × Str)) :
    processCustom pyFoldEnv Gen.lexicon custom = custom.foldlM pcStep [] := rfl

theorem pcStep_ok (acc : Custom) (n key v : Str) (h : nameOK n key)
    (hf : acc.any (fun e => e.1 == key) = false) :
    pcStep acc (n, v) = .ok (acc ++ [(key, .src v)]) := by
  unfold pcStep
  simp only [h.1, Bool.not_true, Bool.false_eq_true, if_false, h.2, hf]
  rw [set_fresh acc _ _ hf]

theorem processCustom_go (entries : List (Str × Str × Str × SSelList × Str)) :
    ∀ (acc : Custom), (∀ x ∈ entries, nameOK x.1 x.2.1) →
    (∀ x ∈ entries, acc.any (fun e => e.1 == x.2.1) = false) →
    (entries.map (·.2.1)).Nodup →
    List.foldlM pcStep acc (entries.map fun x => (x.1, defText x.2.2)) =
      .ok (acc ++ entries.map fun x => (x.2.1, .src (defText x.2.2))) := by
  induction entries with
  | nil => intro acc _ _ _; simp; rfl
  | cons x rest ih =>
    intro acc hname hfresh hnd
    have hf := hfresh x (by simp)
    rw [List.map_cons, List.foldlM_cons, pcStep_ok acc _ _ _ (hname x (by simp)) hf]
    show List.foldlM pcStep (acc ++ [(x.2.1, CustomVal.src (defText x.2.2))]) _ = _
    rw [ih (acc ++ [(x.2.1, CustomVal.src (defText x.2.2))]) (fun y hy => hname y (by simp [hy]))
      (by
        intro y hy
        rw [List.any_append, hfresh y (by simp [hy])]
        simp only [List.any_cons, List.any_nil, Bool.or_false, Bool.false_or, beq_eq_false_iff_ne, ne_eq]
        intro e
        simp only [List.map_cons, List.nodup_cons, List.mem_map] at hnd
        exact hnd.1 ⟨y, hy, e.symm⟩)
      (by simp only [List.map_cons, List.nodup_cons] at hnd; exact hnd.2)]
    simp

/-- `process_custom` on a dictionary whose names pass its checks (`nameOK`, decidable per name) and whose
    keys are pairwise different: the map from the keys to the source texts, in the given order. -/
theorem processCustom_table (entries : List (Str × Str × Str × SSelList × Str))
    (hname : ∀ x ∈ entries, nameOK x.1 x.2.1) (hnd : (entries.map (·.2.1)).Nodup) :
    processCustom pyFoldEnv Gen.lexicon (entries.map fun x => (x.1, defText x.2.2)) =
      .ok ((entries.map (·.2)).map fun e => (e.1, .src (e.2.1 ++ e.2.2.1.render ++ e.2.2.2))) := by
  rw [processCustom_eq, processCustom_go entries [] hname (fun _ _ => rfl) hnd]
  simp [defText]

/-! ## Text facts -/

theorem SItem.render_cons (it : SItem) :
    ∃ c cs, it.render = c :: cs ∧ (c = 35 ∨ c = 46 ∨ c = 91 ∨ c = 58 ∨ c = 38) := by
  cases it with
  | id f => exact ⟨35, _, by rw [SItem.render], Or.inl rfl⟩
  | cls f => exact ⟨46, _, by rw [SItem.render], Or.inr (Or.inl rfl)⟩
  | attr a => exact ⟨91, _, by rw [SItem.render, SAttr.render], Or.inr (Or.inr (Or.inl rfl))⟩
  | attrNs ns a => exact ⟨91, _, by rw [SItem.render], Or.inr (Or.inr (Or.inl rfl))⟩
  | pseudo f => exact ⟨58, _, by rw [SItem.render], Or.inr (Or.inr (Or.inr (Or.inl rfl)))⟩
  | fn f g₁ l g₂ => exact ⟨58, _, by rw [SItem.render], Or.inr (Or.inr (Or.inr (Or.inl rfl)))⟩
  | nth f g₁ a g₂ => exact ⟨58, _, by rw [SItem.render], Or.inr (Or.inr (Or.inr (Or.inl rfl)))⟩
  | nthOf f g₁ a dg1 m dg2 l g₂ => exact ⟨58, _, by rw [SItem.render], Or.inr (Or.inr (Or.inr (Or.inl rfl)))⟩
  | dir f g₁ ltr m g₂ => exact ⟨58, _, by rw [SItem.render], Or.inr (Or.inr (Or.inr (Or.inl rfl)))⟩
  | lang f g₁ V g₂ => exact ⟨58, _, by rw [SItem.render], Or.inr (Or.inr (Or.inr (Or.inl rfl)))⟩
  | contains f g₁ V g₂ => exact ⟨58, _, by rw [SItem.render], Or.inr (Or.inr (Or.inr (Or.inl rfl)))⟩
  | amp => exact ⟨38, [], by rw [SItem.render], Or.inr (Or.inr (Or.inr (Or.inr rfl)))⟩
  | custom f g₁ l g₂ => exact ⟨58, _, by rw [SItem.render], Or.inr (Or.inr (Or.inr (Or.inl rfl)))⟩

theorem safeStart_items (items : List SItem) (r : Str) (hr : SafeStart r) :
    SafeStart (renderItems items ++ r) := by
  cases items with
  | nil => simpa [renderItems] using hr
  | cons it rest =>
    obtain ⟨c, cs, hc, h⟩ := it.render_cons
    rw [renderItems, hc]
    apply safeStart_cons
    rcases h with h | h | h | h | h <;> subst h <;> decide

theorem safeStart_rest (fl : Nat) (b : Bool) (rest : List (SComb × SCompound)) (r : Str)
    (hok : restOK fl b rest r) (hr : SafeStart r) : SafeStart (renderRest rest ++ r) := by
  cases rest with
  | nil => simpa [renderRest] using hr
  | cons x rest =>
    rw [restOK] at hok
    obtain ⟨y, ys, hy, h⟩ := x.1.render_head hok.1
    simp only [renderRest, hy, List.cons_append]
    apply safeStart_of_combHead
    rcases h with h | h | h
    · exact Or.inl h
    · exact Or.inr (Or.inl h)
    · exact Or.inr (Or.inr (Or.inl h))

theorem stag_render_head (t : STag) (r : Str) (hok : t.ok r) :
    ∃ x xs, t.render = x :: xs ∧ tagStart x = true := by
  cases t with
  | star => exact ⟨42, [], rfl, by decide⟩
  | name f =>
    obtain ⟨_, hh, _⟩ := hok
    obtain ⟨x, xs, hx, h⟩ := headOk_first f hh
    refine ⟨x, xs, by simp [STag.render, hx], ?_⟩
    rcases h with h | h | h <;> simp [tagStart, h]

theorem STagN.render_head (x : STagN) (r : Str) (hok : x.ok r) :
    ∃ c cs, x.render = c :: cs ∧ nsStart c = true := by
  obtain ⟨ns, t⟩ := x
  obtain ⟨ht, hns⟩ := hok
  cases ns with
  | none =>
    obtain ⟨c, cs, hc, h⟩ := stag_render_head t r ht
    exact ⟨c, cs, by simp [STagN.render, hc], by simp [nsStart, h]⟩
  | some n =>
    obtain ⟨c, cs, hc, h⟩ := n.head _ hns
    cases hn : n.text with
    | nil =>
      rw [hn] at hc
      exact ⟨124, t.render, by simp [STagN.render, hn], by decide⟩
    | cons y ys =>
      rw [hn] at hc
      simp only [List.cons_append, List.cons.injEq] at hc
      exact ⟨y, ys ++ 124 :: t.render, by simp [STagN.render, hn], by rw [hc.1]; exact h⟩

theorem STagN.length_pos (x : STagN) (r : Str) (hok : x.ok r) : 1 ≤ x.render.length := by
  obtain ⟨c, cs, hc, _⟩ := x.render_head r hok
  simp [hc]

/-- First character of a compound: no gap, no combinator, no closing parenthesis. -/
theorem SCompound.render_head (c : SCompound) (r : Str) (hok : c.ok r) (hne : c.isEmpty = false) :
    ∃ x xs, c.render = x :: xs ∧ isCssWs x = false ∧ x ≠ 47 ∧ isComb x = false ∧ x ≠ 41 := by
  obtain ⟨tag, items⟩ := c
  simp only [SCompound.ok] at hok
  obtain ⟨htag, _⟩ := hok
  cases tag with
  | none =>
    have hne' : items ≠ [] := by
      intro e; subst e; simp [SCompound.isEmpty] at hne
    cases items with
    | nil => exact absurd rfl hne'
    | cons it rest =>
      obtain ⟨x, xs, hx, h⟩ := it.render_cons
      refine ⟨x, xs ++ renderItems rest, by simp [SCompound.render, renderItems, hx], ?_⟩
      rcases h with h | h | h | h | h <;> subst h <;> decide
  | some tg =>
    obtain ⟨x, xs, hx, h⟩ := tg.render_head _ htag
    refine ⟨x, xs ++ renderItems items, by simp [SCompound.render, hx], ?_⟩
    simp only [nsStart, tagStart, identStartChar, Bool.or_eq_true, Bool.and_eq_true, decide_eq_true_eq,
      beq_iff_eq] at h
    refine ⟨by simp [isCssWs]; omega, by omega, by simp [isComb]; omega, by omega⟩

theorem SCompound.render_noGap (c : SCompound) (r t : Str) (hok : c.ok r) (hne : c.isEmpty = false) :
    noGapStart (c.render ++ t) = true := by
  obtain ⟨x, xs, hx, hw, h47, _, _⟩ := c.render_head r hok hne
  simp [hx, noGapStart, hw, h47]

theorem SCompound.render_empty (c : SCompound) (h : c.isEmpty = true) : c.render = [] := by
  obtain ⟨tag, items⟩ := c
  simp only [SCompound.isEmpty, Bool.and_eq_true, Option.isNone_iff_eq_none, List.isEmpty_iff] at h
  obtain ⟨rfl, rfl⟩ := h
  simp [SCompound.render, renderItems]

theorem itemsValue_isEmpty (items : List SItem) : (itemsValue items).isEmpty = items.isEmpty := by
  cases items <;> simp [itemsValue]

theorem SCompound.value_isEmpty (c : SCompound) : c.value.isEmpty = c.isEmpty := by
  obtain ⟨tag, items⟩ := c
  cases tag <;> simp [SCompound.value, Compound.isEmpty, SCompound.isEmpty, itemsValue_isEmpty]

/-- After an empty slot the text begins with no gap. -/
theorem restOK_noGap (fl : Nat) (rest : List (SComb × SCompound)) (r : Str) (hok : restOK fl false rest r) :
    noGapStart (renderRest rest ++ r) = true := by
  cases rest with
  | nil =>
    rw [restOK] at hok
    rcases hok with h | h
    · cases h
    · simpa [renderRest] using h.2
  | cons x rest =>
    rw [restOK] at hok
    simpa [renderRest] using (hok.2.2.1 rfl).1

theorem SSelList.render_noGap (l : SSelList) (fl : Nat) (r : Str) (hok : l.ok fl r) :
    noGapStart (l.render ++ r) = true := by
  obtain ⟨first, rest⟩ := l
  rw [SSelList.ok] at hok
  rw [SSelList.render, List.append_assoc]
  by_cases he : first.isEmpty = true
  · rw [first.render_empty he, List.nil_append]
    have := hok.2.2
    rw [he] at this
    exact restOK_noGap fl rest r this
  · exact first.render_noGap _ _ hok.1 (by simpa using he)

/-! ### Frames: the abstract steps do not look at positions -/

theorem combStepG_setF (fl c : Nat) (st : LS) (p idx : Nat) (cu : Custom) :
    combStepG fl c (setF st p idx cu) = setF (combStepG fl c st) p idx cu := by
  unfold combStepG combStepR combStepF
  by_cases hr : relOf fl = true <;> by_cases h : (c == 44) = true <;>
    by_cases hs : st.hasSelector = true <;> simp [setF, combStep, hr, h, hs]

theorem foldRest_frame (B : Builtins) (fl : Nat) : ∀ (l : List (Nat × Compound)) (st : LS)
    (p idx : Nat) (c : Custom),
    foldRest B fl l (setF st p idx c) = setF (foldRest B fl l st) p idx c
  | [], _, _, _, _ => by simp [foldRest]
  | x :: rest, st, p, idx, c => by
    rw [foldRest, foldRest, ← foldRest_frame B fl rest, combStepG_setF]
    rfl

theorem initLS_frame (pos idx fl : Nat) (cust : Custom) :
    initLS pos idx fl cust = setF (initLS 0 0 fl []) pos idx cust := rfl

/-! ### Invariants of the loop state -/

/-- `b`: the slot just read is non-empty.  In a relative list `relations` is never used; elsewhere
    `relType` is never changed; at the start of a comma-separated alternative both have their initial
    values. -/
def InvG (fl : Nat) (b : Bool) (st : LS) : Prop :=
  st.hasSelector = b ∧ (relOf fl = true ∨ b = false → st.relations = []) ∧
    (relOf fl = false ∨ b = false → st.relType = .hasDesc)

theorem InvG_setF (fl : Nat) (b : Bool) (st : LS) (p idx : Nat) (c : Custom) (h : InvG fl b st) :
    InvG fl b (setF st p idx c) := h

theorem firstSt_inv (B : Builtins) (fl : Nat) (c : Compound) : InvG fl (!c.isEmpty) (firstSt B fl c) :=
  ⟨rfl, fun _ => rfl, fun _ => rfl⟩

/-- One combinator and the slot after it (empty only after a comma) keep the invariant. -/
theorem InvG_step (fl c : Nat) (b b' : Bool) (st : LS) (sel : SelB) (h : InvG fl b st)
    (hc : b' = false → c = 44) :
    InvG fl b' { combStepG fl c st with sel := sel, hasSelector := b' } := by
  obtain ⟨h1, h2, h3⟩ := h
  refine ⟨rfl, ?_, ?_⟩
  · intro hcase
    by_cases hr : relOf fl = true
    · have := h2 (Or.inl hr)
      unfold combStepG combStepR
      by_cases hc44 : (c == 44) = true <;> by_cases hs : st.hasSelector = true <;> simp [hr, hc44, hs, this]
    · have hb' : b' = false := by
        rcases hcase with h | h
        · exact absurd h hr
        · exact h
      have hc44 : (c == 44) = true := by simp [hc hb']
      have hr' : relOf fl = false := by simpa using hr
      unfold combStepG combStepF
      by_cases hs : st.hasSelector = true <;> simp [hr', hs, combStep, hc44]
  · intro hcase
    by_cases hr : relOf fl = true
    · have hb' : b' = false := by
        rcases hcase with h | h
        · rw [hr] at h; cases h
        · exact h
      have hc44 : (c == 44) = true := by simp [hc hb']
      unfold combStepG combStepR
      simp [hr, hc44]
    · have hr' : relOf fl = false := by simpa using hr
      have := h3 (Or.inl hr')
      unfold combStepG combStepF
      by_cases hc44 : (c == 44) = true <;> by_cases hs : st.hasSelector = true <;>
        simp [hr', hs, combStep, hc44, this]

/-- What the end of the list needs: a compound was read, or the list is forgiving and the last
    alternative is empty. -/
def EndOK (fl : Nat) (st : LS) : Prop :=
  st.hasSelector = true ∨ (fgOf fl = true ∧ st.relations = [])

theorem foldRest_end (B : Builtins) (fl : Nat) : ∀ (rest : List (SComb × SCompound)) (b : Bool) (r : Str)
    (st : LS), restOK fl b rest r → InvG fl b st → EndOK fl (foldRest B fl (restValue rest) st)
  | [], b, r, st, hok, hinv => by
    rw [restOK] at hok
    simp only [restValue, foldRest]
    rcases hok with h | h
    · exact Or.inl (hinv.1.trans h)
    · cases b with
      | true => exact Or.inl hinv.1
      | false => exact Or.inr ⟨h.1, hinv.2.1 (Or.inr rfl)⟩
  | x :: rest, b, r, st, hok, hinv => by
    rw [restOK] at hok
    simp only [restValue, foldRest]
    apply foldRest_end B fl rest (!x.2.isEmpty) r _ hok.2.2.2.2
    rw [SCompound.value_isEmpty]
    apply InvG_step fl _ b _ st _ hinv
    intro he
    exact (hok.2.2.2.1 (by simpa using he)).1

theorem cleanupLS_hasSelector (fl : Nat) (st : LS) (h : EndOK fl st) :
    (cleanupLS fl st).hasSelector = true := by
  unfold cleanupLS
  by_cases hs : st.hasSelector = true
  · simp only [hs, if_true]
    split <;> rfl
  · have hs' : st.hasSelector = false := by simpa using hs
    rcases h with h | ⟨hf, hr⟩
    · exact absurd h hs
    · have hf' : ((fl &&& FLG_FORGIVE) != 0) = true := hf
      simp [hs', hf', hr]

theorem EndOK_closeSt (fl : Nat) (st : LS) (h : EndOK fl st) : EndOK fl (closeSt st) := by
  unfold closeSt EndOK at *
  by_cases hs : st.hasSelector = true
  · left; simp [hs]
  · have hs' : st.hasSelector = false := by simpa using hs
    rcases h with h | h
    · exact absurd h hs
    · right; simpa [hs'] using h

/-- The part of `parse_selectors` after the loop, when it does not raise. -/
theorem finishSel_G (B : Builtins) (s : Str) (fl : Nat) (st : LS)
    (hc : ((fl &&& FLG_OPEN) != 0) = true → st.closed = true) (h : EndOK fl st) :
    finishSel pyFoldEnv Gen.lexicon B s fl st = .ok (finishG fl st, st.pos, st.custom) := by
  have h1 := cleanupLS_hasSelector fl st h
  obtain ⟨_, h2, h3⟩ := cleanupLS_frame fl st
  unfold finishSel finishG
  by_cases ho : ((fl &&& FLG_OPEN) != 0) = true
  · simp [ho, hc ho, h1, h2, h3]
  · simp [ho, h1, h2, h3]

theorem combStepG_facts (fl c : Nat) (st : LS) :
    (combStepG fl c st).hasSelector = false ∧ (combStepG fl c st).sel = SelB.empty ∧
      (combStepG fl c st).custom = st.custom := by
  unfold combStepG combStepR combStepF
  by_cases hr : relOf fl = true <;> by_cases h : (c == 44) = true <;>
    by_cases hs : st.hasSelector = true <;> simp [combStep, hr, h, hs]

theorem slot_state (X : LS) (hsel : X.sel = SelB.empty) (p₁ i₁ p₂ i₂ : Nat) (v : SelB → SelB) (b : Bool)
    (cu : Custom) :
    ({ ({ X with pos := p₁, index := i₁ } : LS) with
        pos := p₂, index := i₂, custom := cu, sel := v ({ X with pos := p₁, index := i₁ } : LS).sel,
        hasSelector := b } : LS) =
      setF { X with sel := v SelB.empty, hasSelector := b } p₂ i₂ cu := by
  simp [setF, hsel]

theorem cleanupLS_setF (fl : Nat) (st : LS) (p idx : Nat) (c : Custom) :
    cleanupLS fl (setF st p idx c) = setF (cleanupLS fl st) p idx c := by
  unfold cleanupLS
  by_cases hs : st.hasSelector = true
  · by_cases hr : ((fl &&& FLG_RELATIVE) != 0) = true <;> simp [setF, hs, hr]
  · by_cases hf : (((fl &&& FLG_FORGIVE) != 0) && (st.selectors.isEmpty || st.relations.isEmpty)) = true <;>
      simp [setF, hs, hf]

theorem finishG_setF (fl : Nat) (st : LS) (p idx : Nat) (c : Custom) :
    finishG fl (setF st p idx c) = finishG fl st := by
  unfold finishG
  rw [cleanupLS_setF]
  rfl

theorem closeSt_setF (st : LS) (p idx : Nat) (c : Custom) :
    closeSt (setF st p idx c) = setF (closeSt st) p idx c := by
  unfold closeSt
  by_cases h : st.hasSelector = true <;> simp [setF, h]

theorem EndOK_setF (fl : Nat) (st : LS) (p idx : Nat) (c : Custom) (h : EndOK fl st) :
    EndOK fl (setF st p idx c) := h

/-! ## Facts about the pseudo-class tables -/

theorem fnName2_facts (n : Str) (h : fnName2 n) :
    ((fnFlags n &&& FLG_OPEN) != 0) = true ∧
      inList Gen.lexicon.pseudoComplex n = true ∧
      Gen.lexicon.special.find? (fun e => e.1 == n) = none ∧
      n.tail.head? ≠ some 45 := by
  rcases h with h | h | h | h | h <;> subst h <;> exact ⟨by decide, by decide, by decide, by decide⟩

/-! ## The simulation: the parser loop on the text of the spelled syntax -/

section Pre
variable (B : Builtins) (s : Str)

theorem run_tag (flags : Nat) (x : STagN) (st : LS) (fuel : Nat) (R : Str)
    (hd : s.drop st.pos = x.render ++ R) (hok : x.ok R) (hR : SafeStart R) (hs : st.hasSelector = false) :
    parseLoop pyFoldEnv Gen.lexicon B s (fuel + 1) flags st =
      parseLoop pyFoldEnv Gen.lexicon B s fuel flags
        { st with pos := st.pos + x.render.length, sel := st.sel.setTag x.value, hasSelector := true,
                  index := st.pos + x.render.length } := by
  obtain ⟨ns, tg⟩ := x
  obtain ⟨ht, hns⟩ := hok
  cases ns with
  | some n =>
    simp only [STagN.render, List.append_assoc, List.cons_append] at hd
    have := step_tag_ns B s fuel flags st n tg hd hns ht hR.not_cont hs
    have e : st.pos + n.text.length + 1 + tg.render.length =
        st.pos + (STagN.render ⟨some n, tg⟩).length := by
      simp [STagN.render]; omega
    rw [this, e]
    rfl
  | none =>
    simp only [STagN.render] at hd
    cases tg with
    | star => exact step_tag_star B s fuel flags st hd hR.not_bar hs
    | name f =>
      obtain ⟨hv, hh, hcp⟩ := ht
      exact step_tag_ident B s fuel flags st hd hv hh hR.not_cont hR.not_bar hcp hs

theorem run_attr_ns (flags : Nat) (ns : SNs) (a : SAttr) (st : LS) (fuel : Nat) (r : Str)
    (hd : s.drop st.pos =
      (91 :: (a.g0 ++ (ns.text ++ 124 :: (renderIdentWith a.name ++ a.afterName)))) ++ r)
    (hok : a.ok r) (hns : ns.ok (renderIdentWith a.name ++ (a.afterName ++ r))) :
    ∃ p idx, s.drop p = r ∧
      parseLoop pyFoldEnv Gen.lexicon B s (fuel + 1) flags st =
        parseLoop pyFoldEnv Gen.lexicon B s fuel flags
          { st with pos := p, index := idx, sel := applyAttr ns.value a.value st.sel, hasSelector := true } := by
  obtain ⟨g0, name, body, g4⟩ := a
  obtain ⟨hg0, hg4, ⟨hv, hh, hcp⟩, hbody⟩ := hok
  cases body with
  | none =>
    simp only [SAttr.afterName, List.cons_append, List.append_assoc, List.nil_append] at hd hv hns
    exact step_attr_ns_noop B s fuel flags st ns hd hg0 hg4 hns hv hh hcp
  | some b =>
    obtain ⟨g1, op, g2, value, flag⟩ := b
    obtain ⟨hg1, hg2, hop, hval, hflag⟩ := hbody
    have hop' := opText_cases op hop
    cases flag with
    | none =>
      simp only [SAttr.afterName, flagText, List.cons_append, List.append_assoc,
        List.nil_append] at hd hv hval hns
      obtain ⟨h1, h2⟩ := SValue.facts s value _ hval
      exact step_attr_ns_op_noflag B s fuel flags st ns value.value hd hg0 hg1 hg2 hg4 hns hop' hv hh hcp
        (value.render_noGap _ _ hval) h1 h2
    | some gf =>
      obtain ⟨g3, f⟩ := gf
      obtain ⟨hg3, hf⟩ := hflag g3 f rfl
      simp only [SAttr.afterName, flagText, List.cons_append, List.append_assoc,
        List.nil_append] at hd hv hval hns
      obtain ⟨h1, h2⟩ := SValue.facts s value _ hval
      exact step_attr_ns_op_flag B s fuel flags st ns value.value hd hg0 hg1 hg2 hg3 hg4 hf hns hop' hv hh hcp
        (value.render_noGap _ _ hval) h1 h2

end Pre

section Run
variable (B : Builtins) (Γ : Tbl)

/-- A step that does not touch the custom map keeps its invariant. -/
theorem keep_custom (stack : List Str) (s : Str) (fuel flags : Nat) (st : LS) (r : Str) (X : SelB)
    (hcu : CuInv B Γ stack st.custom)
    (h : ∃ p idx, s.drop p = r ∧
      parseLoop pyFoldEnv Gen.lexicon B s (fuel + 1) flags st =
        parseLoop pyFoldEnv Gen.lexicon B s fuel flags
          { st with pos := p, index := idx, sel := X, hasSelector := true }) :
    ∃ p idx cu', CuInv B Γ stack cu' ∧ s.drop p = r ∧
      parseLoop pyFoldEnv Gen.lexicon B s (fuel + 1) flags st =
        parseLoop pyFoldEnv Gen.lexicon B s fuel flags
          { st with pos := p, index := idx, custom := cu', sel := X, hasSelector := true } := by
  obtain ⟨p, idx, hp, h⟩ := h
  exact ⟨p, idx, st.custom, hcu, hp, h⟩

theorem CuInv_erase {stack : List Str} {cu : Custom} (key : Str) (hinv : CuInv B Γ stack cu) :
    CuInv B Γ (key :: stack) (cu.erase key) := by
  intro k a b c hd hk
  simp only [List.mem_cons, not_or] at hk
  rw [get?_erase_ne _ _ _ hk.1]
  exact hinv k a b c hd hk.2

theorem CuInv_set {stack : List Str} {cu : Custom} {key g₁ g₂ : Str} {l : SSelList}
    (hinv : CuInv B Γ (key :: stack) cu) (hdef : defOf Γ key = some (g₁, l, g₂)) :
    CuInv B Γ stack (cu.set key (.compiled (finishG 1 (l.value.loopState B 1)))) := by
  intro k a b c hd hk
  by_cases hkk : k = key
  · subst hkk
    rw [hdef] at hd
    simp only [Option.some.injEq, Prod.mk.injEq] at hd
    obtain ⟨_, rfl, _⟩ := hd
    right
    exact get?_set_eq _ _ _
  · rw [get?_set_ne _ _ _ _ hkk]
    exact hinv k a b c hd (by simp [hkk, hk])

theorem SSelList.cost_pos (l : SSelList) : 1 ≤ l.cost := by
  obtain ⟨first, rest⟩ := l
  simp only [SSelList.cost]; omega

theorem map_nul_id (text : Str) (h : ∀ c ∈ text, c ≠ 0) :
    text.map (fun c => if c == 0 then 0xFFFD else c) = text := by
  conv => rhs; rw [← List.map_id text]
  apply List.map_congr_left
  intro c hc
  simp [h c hc]

mutual
theorem run_item : ∀ (it : SItem) (s : Str) (stack : List Str) (flags : Nat) (st : LS) (fuel : Nat) (r : Str),
    s.drop st.pos = it.render ++ r → it.ok r → SafeStart r → it.need ≤ fuel →
    it.tbl Γ → CuInv B Γ stack st.custom → StackLt Γ stack it.need →
    ∃ p idx cu', CuInv B Γ stack cu' ∧ s.drop p = r ∧
      parseLoop pyFoldEnv Gen.lexicon B s (fuel + 1) flags st =
        parseLoop pyFoldEnv Gen.lexicon B s fuel flags
          { st with pos := p, index := idx, custom := cu', sel := it.value.apply B st.sel,
                    hasSelector := true }
  | .id f, s, stack, flags, st, fuel, r, hd, hok, hr, _, _, hcu, _ => by
    rw [SItem.render] at hd
    rw [SItem.ok] at hok
    obtain ⟨hv, hh, hcp⟩ := hok
    exact keep_custom B Γ stack s fuel flags st r _ hcu
      ⟨_, _, drop_add_of_drop_append hd, step_id B s fuel flags st hd hv hh hr.not_cont hcp⟩
  | .cls f, s, stack, flags, st, fuel, r, hd, hok, hr, _, _, hcu, _ => by
    rw [SItem.render] at hd
    rw [SItem.ok] at hok
    obtain ⟨hv, hh, hcp⟩ := hok
    exact keep_custom B Γ stack s fuel flags st r _ hcu
      ⟨_, _, drop_add_of_drop_append hd, step_class B s fuel flags st hd hv hh hr.not_cont hcp⟩
  | .attr a, s, stack, flags, st, fuel, r, hd, hok, _, _, _, hcu, _ => by
    rw [SItem.render] at hd
    rw [SItem.ok] at hok
    rw [SItem.value, Item.apply, applyAttr_nil]
    exact keep_custom B Γ stack s fuel flags st r _ hcu (run_attr B s flags a st fuel r hd hok)
  | .attrNs ns a, s, stack, flags, st, fuel, r, hd, hok, _, _, _, hcu, _ => by
    rw [SItem.render] at hd
    rw [SItem.ok] at hok
    rw [SItem.value, Item.apply]
    exact keep_custom B Γ stack s fuel flags st r _ hcu (run_attr_ns B s flags ns a st fuel r hd hok.1 hok.2)
  | .pseudo f, s, stack, flags, st, fuel, r, hd, hok, hr, _, _, hcu, _ => by
    rw [SItem.render] at hd
    rw [SItem.ok] at hok
    obtain ⟨⟨hv, hh, hcp⟩, hname⟩ := hok
    obtain ⟨x, xs, hxs, hx⟩ := name_head f hh (plainName_no_dash _ hname)
    exact keep_custom B Γ stack s fuel flags st r _ hcu
      (step_pseudo_plain s B fuel flags st (by simpa using hd) hxs hx hv hh hr.not_cont
        hr.not_paren hcp hname)
  | .fn f g₁ l g₂, s, stack, flags, st, fuel, r, hd, hok, hr, hn, htbl, hcu, hstk => by
    rw [SItem.render] at hd
    simp only [List.cons_append, List.append_assoc, List.nil_append] at hd
    rw [SItem.ok] at hok
    obtain ⟨⟨hv, hh, hcp⟩, hname, hg₁, hg₂, hl⟩ := hok
    rw [SItem.tbl] at htbl
    obtain ⟨hopen, hin, hfind, hdash⟩ := fnName2_facts _ hname
    obtain ⟨x, xs, hxs, hx⟩ := name_head f hh hdash
    have hR : noGapStart (l.render ++ (g₂ ++ 41 :: r)) = true := l.render_noGap _ _ hl
    have hnt := nextToken_pseudo_open s B hd hxs hx hv hh hcp hg₁ hR hfind
    -- positions
    have hd1 : s.drop (st.pos + 1) = renderIdentWith f ++ (40 :: (g₁ ++ (l.render ++ (g₂ ++ 41 :: r)))) :=
      Refine.Ident.drop_succ_of_drop_cons hd
    have hde := drop_add_of_drop_append hd1
    have hde1 : s.drop (st.pos + 1 + (renderIdentWith f).length + 1) = g₁ ++ (l.render ++ (g₂ ++ 41 :: r)) :=
      Refine.Ident.drop_succ_of_drop_cons hde
    have hstop := drop_add_of_drop_append hde1
    -- the nested list
    rw [SItem.need] at hn hstk
    obtain ⟨k, rfl⟩ : ∃ k, fuel = k + 1 := ⟨fuel - 1, by omega⟩
    obtain ⟨p', cu', hcu', hp', hsub⟩ := run_list l s stack (fnFlags (58 :: lower (valueOf f)))
      (st.pos + 1 + (renderIdentWith f).length + 1 + g₁.length)
      (st.pos + 1 + (renderIdentWith f).length + 1 + g₁.length) st.custom k g₂ r hopen hstop hl hg₂ (by omega)
      htbl hcu (hstk.mono (by omega))
    -- the token's groups
    have hsl1 : slice s st.pos (st.pos + 1 + (renderIdentWith f).length) = 58 :: renderIdentWith f := by
      have := slice_of_drop_append (s := s) (p := st.pos) (a := 58 :: renderIdentWith f)
        (r := 40 :: (g₁ ++ (l.render ++ (g₂ ++ 41 :: r)))) (by rw [hd]; rfl)
      rw [← this]; congr 1; simp only [List.length_cons]; omega
    have hsl2 : slice s (st.pos + 1 + (renderIdentWith f).length)
        (st.pos + 1 + (renderIdentWith f).length + 1 + g₁.length) = 40 :: g₁ := by
      have := slice_of_drop_append (s := s) (p := st.pos + 1 + (renderIdentWith f).length) (a := 40 :: g₁)
        (r := l.render ++ (g₂ ++ 41 :: r)) (by rw [hde]; rfl)
      rw [← this]; congr 1; simp only [List.length_cons]; omega
    refine ⟨p', st.pos + 1 + (renderIdentWith f).length + 1 + g₁.length, cu', hcu', hp', ?_⟩
    rw [parseLoop_pseudo_open B _ _ _ (k + 1) flags st _ hnt rfl (40 :: g₁)
      (by simp [Token.group, Parser.group, pclassTok, Gen.tok_pseudo_class_groups, capSpan, hsl2]) rfl
      (58 :: lower (valueOf f))
      (by
        have : (pclassTok st.pos (st.pos + 1 + (renderIdentWith f).length + 1 + g₁.length)
            [(2, st.pos + 1 + (renderIdentWith f).length,
                st.pos + 1 + (renderIdentWith f).length + 1 + g₁.length),
             (1, st.pos, st.pos + 1 + (renderIdentWith f).length)]).group (penv B s) "name" =
            some (58 :: renderIdentWith f) := by
          simp [Token.group, Parser.group, pclassTok, Gen.tok_pseudo_class_groups, capSpan, hsl1]
        simp only [penv] at this
        rw [this]
        simp only [Option.getD_some]
        rw [unescape_colon_forms f (SpellingLemmas.validForms_nil_of f _ hv) hcp]
        rfl)
      hin (fnFlags (58 :: lower (valueOf f))) rfl _ p' cu' hsub]
    rw [SItem.value, Item.apply]
    rfl
  | .nth f g₁ a g₂, s, stack, flags, st, fuel, r, hd, hok, hr, _, _, hcu, _ => by
    rw [SItem.render] at hd
    simp only [List.cons_append, List.append_assoc, List.nil_append] at hd
    rw [SItem.ok] at hok
    obtain ⟨⟨hv, hh, hcp⟩, hname, hg₁, hg₂, ha⟩ := hok
    rw [SItem.value, Item.apply]
    rcases hname with hname | hname
    · exact keep_custom B Γ stack s fuel flags st r _ hcu
        (step_nth_type B s fuel flags st a ha hd hv hh hcp hg₁ hg₂ hname)
    · exact keep_custom B Γ stack s fuel flags st r _ hcu
        (step_nth_child B s fuel flags st a ha hd hv hh hcp hg₁ hg₂ hname)
  | .nthOf f g₁ a dg1 m dg2 l g₂, s, stack, flags, st, fuel, r, hd, hok, hr, hn, htbl, hcu, hstk => by
    rw [SItem.render] at hd
    simp only [List.cons_append, List.append_assoc, List.nil_append] at hd
    rw [SItem.ok] at hok
    obtain ⟨⟨hv, hh, hcp⟩, hname, hg₁, ha, hdg1, hdg2, hg₂, hl⟩ := hok
    rw [SItem.tbl] at htbl
    have hR : noGapStart (l.render ++ (g₂ ++ 41 :: r)) = true := l.render_noGap _ _ hl
    have hof : lower (mixCase m "of".toStr) = "of".toStr := SpellingLemmas.lower_mixCase m _ (by decide)
    have hoflen : (mixCase m "of".toStr).length = 2 := by rw [SpellingLemmas.mixCase_length]; rfl
    -- where the nested list starts
    have hd1 : s.drop (st.pos + 1) = renderIdentWith f ++ (40 :: (g₁ ++ (a.render ++ (dg1 ++
        (mixCase m "of".toStr ++ (dg2 ++ (l.render ++ (g₂ ++ 41 :: r)))))))) :=
      Refine.Ident.drop_succ_of_drop_cons hd
    have hde := drop_add_of_drop_append hd1
    have hde1 : s.drop (st.pos + 1 + (renderIdentWith f).length + 1) = g₁ ++ (a.render ++ (dg1 ++
        (mixCase m "of".toStr ++ (dg2 ++ (l.render ++ (g₂ ++ 41 :: r)))))) :=
      Refine.Ident.drop_succ_of_drop_cons hde
    have hda := drop_add_of_drop_append hde1
    have hdg := drop_add_of_drop_append hda
    have hdo := drop_add_of_drop_append hdg
    have hdo2 := drop_add_of_drop_append hdo
    have hstop := drop_add_of_drop_append hdo2
    rw [hoflen] at hdo2 hstop
    rw [SItem.need] at hn hstk
    obtain ⟨k, rfl⟩ : ∃ k, fuel = k + 1 := ⟨fuel - 1, by omega⟩
    obtain ⟨p', cu', hcu', hp', hsub⟩ := run_list l s stack 65
      (st.pos + 1 + (renderIdentWith f).length + 1 + g₁.length + a.render.length + dg1.length + 2 + dg2.length)
      (st.pos + 1 + (renderIdentWith f).length + 1 + g₁.length + a.render.length + dg1.length + 2 + dg2.length)
      st.custom k g₂ r (by decide) hstop hl hg₂ (by omega) htbl hcu (hstk.mono (by omega))
    refine ⟨p', st.pos + 1 + (renderIdentWith f).length + 1 + g₁.length + a.render.length + dg1.length + 2 +
      dg2.length, cu', hcu', hp', ?_⟩
    rw [step_nth_child_of2 s B (k + 1) flags st a ha hd hv hh hcp hg₁ hdg1 hdg2 hof hR hname _ p' cu' hsub,
      SItem.value, Item.apply]
  | .dir f g₁ ltr m g₂, s, stack, flags, st, fuel, r, hd, hok, hr, _, _, hcu, _ => by
    rw [SItem.render] at hd
    simp only [List.cons_append, List.append_assoc, List.nil_append] at hd
    rw [SItem.ok] at hok
    obtain ⟨⟨hv, hh, hcp⟩, hname, hg₁, hg₂⟩ := hok
    rw [SItem.value, Item.apply]
    exact keep_custom B Γ stack s fuel flags st r _ hcu
      (step_dir s B fuel flags st ltr hd hv hh hcp hg₁ hg₂
        (SpellingLemmas.lower_mixCase m _ (by cases ltr <;> decide)) hname)
  | .lang f g₁ V g₂, s, stack, flags, st, fuel, r, hd, hok, hr, _, _, hcu, _ => by
    rw [SItem.render] at hd
    simp only [List.cons_append, List.append_assoc, List.nil_append] at hd
    rw [SItem.ok] at hok
    obtain ⟨⟨hv, hh, hcp⟩, hname, hg₁, hg₂, hV⟩ := hok
    rw [SItem.value, Item.apply]
    exact keep_custom B Γ stack s fuel flags st r _ hcu
      (step_lang B s fuel flags st V hd hv hh hcp hg₁ hg₂ hV hname)
  | .contains f g₁ V g₂, s, stack, flags, st, fuel, r, hd, hok, hr, _, _, hcu, _ => by
    rw [SItem.render] at hd
    simp only [List.cons_append, List.append_assoc, List.nil_append] at hd
    rw [SItem.ok] at hok
    obtain ⟨⟨hv, hh, hcp⟩, hname, hg₁, hg₂, hV⟩ := hok
    rw [SItem.value, Item.apply]
    exact keep_custom B Γ stack s fuel flags st r _ hcu
      (step_contains B s fuel flags st V hd hv hh hcp hg₁ hg₂ hV hname)
  | .amp, s, stack, flags, st, fuel, r, hd, _, _, _, _, hcu, _ => by
    rw [SItem.render] at hd
    rw [SItem.value, Item.apply]
    exact keep_custom B Γ stack s fuel flags st r _ hcu (step_amp B s fuel flags st hd)
  | .custom f g₁ l g₂, s, stack, flags, st, fuel, r, hd, hok, hr, hn, htbl, hcu, hstk => by
    rw [SItem.render] at hd
    simp only [List.cons_append] at hd
    rw [SItem.ok] at hok
    obtain ⟨hid, h2, hg₁, hg₂, hl, h0⟩ := hok
    obtain ⟨f', rfl⟩ : ∃ f', f = (45, .lit) :: (45, .lit) :: f' :=
      ⟨f.drop 2, by conv => lhs; rw [← List.take_append_drop 2 f]
                    rw [h2]; rfl⟩
    obtain ⟨hv, hh, hcp⟩ := hid
    rw [SItem.tbl] at htbl
    obtain ⟨hdef, hltbl⟩ := htbl
    rw [SItem.need] at hn hstk
    have hnt := nextToken_custom s B hd hv hh hr.not_cont hr.not_paren
    have hkey := customTok_name s B hd hv hcp
    simp only [penv] at hnt hkey
    have hstop : s.drop (st.pos + 1 + (renderIdentWith ((45, .lit) :: (45, .lit) :: f')).length) = r :=
      drop_add_of_drop_append (Refine.Ident.drop_succ_of_drop_cons hd)
    -- the name is not one of those being expanded
    have hns : (58 :: lower (valueOf ((45, EscForm.lit) :: (45, EscForm.lit) :: f'))) ∉ stack := by
      intro hmem
      have := hstk _ hmem g₁ l g₂ hdef
      omega
    rw [SItem.value, Item.apply]
    rcases hcu _ g₁ l g₂ hdef hns with hsrc | hcomp
    · -- the source text of the definition: compiled now, with the name taken out of the map
      obtain ⟨k, rfl⟩ : ∃ k, fuel = k + 1 := ⟨fuel - 1, by omega⟩
      have hnul := map_nul_id (g₁ ++ l.render ++ g₂) h0
      obtain ⟨p', cu', hcu', hsub⟩ := run_top l (g₁ ++ l.render ++ g₂)
        ((58 :: lower (valueOf ((45, EscForm.lit) :: (45, EscForm.lit) :: f'))) :: stack) 1 g₁ g₂
        (st.custom.erase (58 :: lower (valueOf ((45, EscForm.lit) :: (45, EscForm.lit) :: f')))) k
        (by decide) rfl hg₁ hg₂ hl hltbl (CuInv_erase B Γ _ hcu)
        (by
          intro k' hk' a b c hd'
          simp only [List.mem_cons] at hk'
          rcases hk' with rfl | hk'
          · rw [hdef] at hd'
            simp only [Option.some.injEq, Prod.mk.injEq] at hd'
            obtain ⟨_, rfl, _⟩ := hd'
            have := l.cost_pos; omega
          · have := hstk k' hk' a b c hd'
            omega)
        (by omega)
      refine ⟨st.pos + 1 + (renderIdentWith ((45, .lit) :: (45, .lit) :: f')).length, st.pos + 1 + (renderIdentWith ((45, .lit) :: (45, .lit) :: f')).length, _, CuInv_set B Γ hcu' hdef, hstop, ?_⟩
      rw [parseLoop_custom_src B _ _ _ (k + 1) flags st _ hnt rfl _ (g₁ ++ l.render ++ g₂) hkey hsrc
        _ p' cu' (by rw [hnul]; exact hsub)]
      rfl
    · -- already compiled
      refine ⟨st.pos + 1 + (renderIdentWith ((45, .lit) :: (45, .lit) :: f')).length, st.pos + 1 + (renderIdentWith ((45, .lit) :: (45, .lit) :: f')).length, st.custom, hcu, hstop, ?_⟩
      rw [parseLoop_custom_compiled B _ _ _ fuel flags st _ hnt rfl _ (by rw [hkey]; exact hcomp)]
      rfl
theorem run_items : ∀ (items : List SItem) (s : Str) (stack : List Str) (flags : Nat) (st : LS)
    (fuel : Nat) (r : Str),
    s.drop st.pos = renderItems items ++ r → itemsOK items r → SafeStart r → itemsNeed items ≤ fuel →
    itemsTbl Γ items → CuInv B Γ stack st.custom → StackLt Γ stack (itemsNeed items) →
    ∃ p idx cu', CuInv B Γ stack cu' ∧ s.drop p = r ∧
      parseLoop pyFoldEnv Gen.lexicon B s (fuel + items.length) flags st =
        parseLoop pyFoldEnv Gen.lexicon B s fuel flags
          { st with pos := p, index := idx, custom := cu',
                    sel := applyItems B (itemsValue items) st.sel,
                    hasSelector := st.hasSelector || !items.isEmpty }
  | [], s, stack, flags, st, fuel, r, hd, _, _, _, _, hcu, _ => by
    refine ⟨st.pos, st.index, st.custom, hcu, by simpa [renderItems] using hd, ?_⟩
    simp [itemsValue, applyItems]
  | it :: rest, s, stack, flags, st, fuel, r, hd, hok, hr, hn, htbl, hcu, hstk => by
    have hsafe := safeStart_items rest r hr
    rw [itemsOK] at hok
    obtain ⟨hit, hrest⟩ := hok
    rw [itemsTbl] at htbl
    rw [renderItems, List.append_assoc] at hd
    rw [itemsNeed] at hn hstk
    obtain ⟨p₁, i₁, cu₁, hcu₁, hp₁, h1⟩ := run_item it s stack flags st (fuel + rest.length) _ hd hit hsafe
      (by omega) htbl.1 hcu (hstk.mono (by omega))
    obtain ⟨p, idx, cu', hcu', hp, h2⟩ := run_items rest s stack flags
      { st with pos := p₁, index := i₁, custom := cu₁, sel := it.value.apply B st.sel, hasSelector := true }
      fuel r hp₁ hrest hr (by omega) htbl.2 hcu₁ (hstk.mono (by omega))
    refine ⟨p, idx, cu', hcu', hp, ?_⟩
    rw [List.length_cons, ← Nat.add_assoc, h1, h2]
    simp [itemsValue, applyItems]
theorem run_compound : ∀ (c : SCompound) (s : Str) (stack : List Str) (flags : Nat) (st : LS)
    (fuel : Nat) (r : Str),
    s.drop st.pos = c.render ++ r → c.ok r → SafeStart r → c.need ≤ fuel → st.hasSelector = false →
    c.tbl Γ → CuInv B Γ stack st.custom → StackLt Γ stack c.need →
    ∃ p idx cu', CuInv B Γ stack cu' ∧ s.drop p = r ∧
      parseLoop pyFoldEnv Gen.lexicon B s (fuel + c.size) flags st =
        parseLoop pyFoldEnv Gen.lexicon B s fuel flags
          { st with pos := p, index := idx, custom := cu', sel := c.value.buildOn B st.sel,
                    hasSelector := !c.isEmpty }
  | .mk tag items, s, stack, flags, st, fuel, r, hd, hok, hr, hn, hs, htbl, hcu, hstk => by
    simp only [SCompound.ok] at hok
    obtain ⟨htag, hitems⟩ := hok
    rw [SCompound.need] at hn hstk
    rw [SCompound.tbl] at htbl
    have hsafe := safeStart_items items r hr
    cases tag with
    | none =>
      obtain ⟨p, idx, cu', hcu', hp, h⟩ := run_items items s stack flags st fuel r
        (by simpa [SCompound.render] using hd) hitems hr hn htbl hcu hstk
      refine ⟨p, idx, cu', hcu', hp, ?_⟩
      simpa [SCompound.size, SCompound.value, Compound.buildOn, SCompound.isEmpty, hs] using h
    | some tg =>
      simp only [SCompound.render, List.append_assoc] at hd
      have h1 := run_tag B s flags tg st (fuel + items.length) _ hd htag hsafe hs
      obtain ⟨p, idx, cu', hcu', hp, h2⟩ := run_items items s stack flags
        { st with pos := st.pos + tg.render.length, sel := st.sel.setTag tg.value, hasSelector := true,
                  index := st.pos + tg.render.length } fuel r (drop_add_of_drop_append hd) hitems hr hn
        htbl hcu hstk
      refine ⟨p, idx, cu', hcu', hp, ?_⟩
      have : fuel + SCompound.size (.mk (some tg) items) = fuel + items.length + 1 := by
        simp [SCompound.size]; omega
      rw [this, h1, h2]
      simp [SCompound.value, Compound.buildOn, SCompound.isEmpty]
theorem run_rest : ∀ (rest : List (SComb × SCompound)) (s : Str) (stack : List Str) (flags : Nat) (b : Bool)
    (st : LS) (fuel : Nat) (r : Str),
    s.drop st.pos = renderRest rest ++ r → restOK flags b rest r → SafeStart r → restNeed rest ≤ fuel →
    InvG flags b st →
    restTbl Γ rest → CuInv B Γ stack st.custom → StackLt Γ stack (restNeed rest) →
    ∃ p idx cu', CuInv B Γ stack cu' ∧ s.drop p = r ∧
      parseLoop pyFoldEnv Gen.lexicon B s (fuel + restSize rest) flags st =
        parseLoop pyFoldEnv Gen.lexicon B s fuel flags
          (setF (foldRest B flags (restValue rest) st) p idx cu')
  | [], s, stack, flags, b, st, fuel, r, hd, _, _, _, _, _, hcu, _ => by
    exact ⟨st.pos, st.index, st.custom, hcu, by simpa [renderRest] using hd, rfl⟩
  | (cb, c) :: rest, s, stack, flags, b, st, fuel, r, hd, hok, hr, hn, hinv, htbl, hcu, hstk => by
    rw [restOK] at hok
    obtain ⟨hcb, hc, hb, he, hrest⟩ := hok
    rw [restNeed] at hn hstk
    rw [restTbl] at htbl
    have hn' : c.need + restNeed rest ≤ fuel := hn
    have hstk' : StackLt Γ stack (c.need + restNeed rest) := hstk
    have hsafe := safeStart_rest flags _ rest r hrest hr
    -- the text after the combinator begins with no gap
    have hRng : noGapStart (c.render ++ (renderRest rest ++ r)) = true := by
      by_cases hce : c.isEmpty = true
      · rw [c.render_empty hce, List.nil_append]
        have hrest' := hrest
        simp only [hce, Bool.not_true] at hrest'
        exact restOK_noGap flags rest r hrest'
      · exact c.render_noGap _ _ hc (by simpa using hce)
    -- the combinator does not raise
    have hvalid : CombValid flags cb.value st := by
      unfold CombValid
      by_cases hrel : relOf flags = true
      · rw [if_pos hrel]
        cases b with
        | true => exact ⟨fun _ => hinv.1, fun _ => Or.inl hinv.1⟩
        | false =>
          have := (hb rfl).2
          rw [if_pos hrel] at this
          exact ⟨fun h => absurd h this.1, fun _ => Or.inr (hinv.2.2 (Or.inr rfl))⟩
      · rw [if_neg hrel]
        cases b with
        | true => exact Or.inl hinv.1
        | false =>
          have := (hb rfl).2
          rw [if_neg hrel] at this
          exact Or.inr ⟨this.2, this.1⟩
    -- the combinator token
    obtain ⟨p₁, i₁, hp₁, h₁⟩ : ∃ p idx, s.drop p = c.render ++ (renderRest rest ++ r) ∧
        parseLoop pyFoldEnv Gen.lexicon B s (fuel + restSize rest + c.size + 1) flags st =
          parseLoop pyFoldEnv Gen.lexicon B s (fuel + restSize rest + c.size) flags
            { combStepG flags cb.value st with pos := p, index := idx } := by
      cases cb with
      | sym g₁ ch g₂ =>
        obtain ⟨hg₁, hg₂, hcomb⟩ := hcb
        exact step_symG B s _ flags st (c := ch)
          (by simpa [renderRest, SComb.render, List.append_assoc] using hd) hg₁ hg₂ hcomb hRng hvalid
      | desc g =>
        have hce : c.isEmpty = false := by
          cases h : c.isEmpty with
          | false => rfl
          | true => have := (he h).1; simp [SComb.value] at this
        obtain ⟨x, xs, hx, hxw, hx47, hxc, hx41⟩ := c.render_head _ hc hce
        exact step_descG B s _ flags st
          (by simpa [renderRest, SComb.render, List.append_assoc] using hd) hcb hRng
          (by simp [hx]) (by simp [hx, hxc]) (by simp [hx, hx41]) hvalid
    -- the compound (possibly empty)
    obtain ⟨hf1, hf2, hf3⟩ := combStepG_facts flags cb.value st
    obtain ⟨p₂, i₂, cu₂, hcu₂, hp₂, h₂⟩ := run_compound c s stack flags
      { combStepG flags cb.value st with pos := p₁, index := i₁ }
      (fuel + restSize rest) (renderRest rest ++ r) hp₁ hc hsafe (by omega) hf1 htbl.1
      (by show CuInv B Γ stack (combStepG flags cb.value st).custom; rw [hf3]; exact hcu)
      (hstk'.mono (by omega))
    have hst : ({ ({ combStepG flags cb.value st with pos := p₁, index := i₁ } : LS) with
        pos := p₂, index := i₂, custom := cu₂,
        sel := c.value.buildOn B ({ combStepG flags cb.value st with pos := p₁, index := i₁ } : LS).sel,
        hasSelector := !c.isEmpty } : LS) =
        setF { combStepG flags cb.value st with
          sel := c.value.buildOn B SelB.empty, hasSelector := !c.value.isEmpty } p₂ i₂ cu₂ := by
      rw [SCompound.value_isEmpty]
      exact slot_state _ hf2 _ _ _ _ _ _ _
    rw [hst] at h₂
    -- the rest
    obtain ⟨p, idx, cu', hcu', hp, h₃⟩ := run_rest rest s stack flags (!c.isEmpty)
      (setF { combStepG flags cb.value st with
          sel := c.value.buildOn B SelB.empty, hasSelector := !c.value.isEmpty } p₂ i₂ cu₂)
      fuel r hp₂ hrest hr (by omega)
      (by
        rw [SCompound.value_isEmpty]
        apply InvG_setF
        apply InvG_step flags _ b _ st _ hinv
        intro hce
        exact (he (by simpa using hce)).1)
      htbl.2 hcu₂ (hstk'.mono (by omega))
    refine ⟨p, idx, cu', hcu', hp, ?_⟩
    have hf : fuel + restSize ((cb, c) :: rest) = fuel + restSize rest + c.size + 1 := by
      simp [restSize]; omega
    rw [hf, h₁, h₂, h₃, foldRest_frame, setF_setF, restValue, foldRest]
theorem run_list : ∀ (l : SSelList) (s : Str) (stack : List Str) (fl pos idx : Nat) (cust : Custom) (f : Nat)
    (g₂ r : Str),
    ((fl &&& FLG_OPEN) != 0) = true →
    s.drop pos = l.render ++ (g₂ ++ 41 :: r) → l.ok fl (g₂ ++ 41 :: r) → isGap g₂ →
    l.cost ≤ f → l.tbl Γ → CuInv B Γ stack cust → StackLt Γ stack (l.cost - 1) →
    ∃ p' cust', CuInv B Γ stack cust' ∧ s.drop p' = r ∧
      parseSelectors pyFoldEnv Gen.lexicon B s (f + 1) pos idx fl cust =
        .ok (finishG fl (closeSt (l.value.loopState B fl)), p', cust')
  | .mk first rest, s, stack, fl, pos, idx, cust, f, g₂, r, hopen, hd, hok, hg₂, hcost, htbl, hcu, hstk => by
    rw [SSelList.ok] at hok
    obtain ⟨hfirst, _, hrest⟩ := hok
    rw [SSelList.cost] at hcost hstk
    rw [SSelList.tbl] at htbl
    have hsafe0 := safeStart_close g₂ r hg₂
    have hsafe := safeStart_rest fl _ rest _ hrest hsafe0
    rw [SSelList.render, List.append_assoc] at hd
    rw [parseSelectors_succ, initLS_frame pos idx fl cust]
    obtain ⟨p₁, i₁, cu₁, hcu₁, hp₁, h₁⟩ := run_compound first s stack fl (setF (initLS 0 0 fl []) pos idx cust)
      (f - first.size) _ hd hfirst hsafe (by omega) rfl htbl.1 hcu (hstk.mono (by omega))
    rw [show f - first.size + first.size = f by omega] at h₁
    have h₁' : parseLoop pyFoldEnv Gen.lexicon B s f fl (setF (initLS 0 0 fl []) pos idx cust) =
        parseLoop pyFoldEnv Gen.lexicon B s (f - first.size) fl
          (setF (firstSt B fl first.value) p₁ i₁ cu₁) := by
      rw [h₁, ← SCompound.value_isEmpty]; rfl
    obtain ⟨p₂, i₂, cu₂, hcu₂, hp₂, h₂⟩ := run_rest rest s stack fl (!first.isEmpty)
      (setF (firstSt B fl first.value) p₁ i₁ cu₁)
      (f - first.size - restSize rest) _ hp₁ hrest hsafe0 (by omega)
      (by rw [← SCompound.value_isEmpty]; exact InvG_setF _ _ _ _ _ _ (firstSt_inv B fl _))
      htbl.2 hcu₁ (hstk.mono (by omega))
    rw [show f - first.size - restSize rest + restSize rest = f - first.size by omega] at h₂
    obtain ⟨k, hk⟩ : ∃ k, f - first.size - restSize rest = k + 1 :=
      ⟨f - first.size - restSize rest - 1, by omega⟩
    rw [hk] at h₂
    have hend : EndOK fl (foldRest B fl (restValue rest) (firstSt B fl first.value)) := by
      apply foldRest_end B fl rest (!first.isEmpty) _ _ hrest
      rw [← SCompound.value_isEmpty]
      exact firstSt_inv B fl _
    obtain ⟨p', hp', h₃⟩ := step_closeG B s k fl
      (setF (foldRest B fl (restValue rest) (setF (firstSt B fl first.value) p₁ i₁ cu₁)) p₂ i₂ cu₂)
      hp₂ hg₂ (by
        rw [foldRest_frame]
        rcases hend with h | h
        · exact Or.inl h
        · exact Or.inr h.1) hopen
    refine ⟨p', cu₂, hcu₂, hp', ?_⟩
    rw [h₁', h₂, h₃]
    simp only
    have e : ({ closeSt (setF (foldRest B fl (restValue rest) (setF (firstSt B fl first.value) p₁ i₁ cu₁))
          p₂ i₂ cu₂) with pos := p' } : LS) =
        setF (closeSt (foldRest B fl (restValue rest) (firstSt B fl first.value))) p' i₂ cu₂ := by
      rw [foldRest_frame, setF_setF, closeSt_setF]; rfl
    rw [e, finishSel_G B s fl _ (fun _ => rfl) (EndOK_setF fl _ _ _ _ (EndOK_closeSt fl _ hend)),
      finishG_setF, SSelList.value, loopState_eq]
    rfl
/-- A whole pattern (flags without `FLG_OPEN`): the top-level call, or the definition of a custom
    selector (`FLG_PSEUDO`). -/
theorem run_top : ∀ (l : SSelList) (s : Str) (stack : List Str) (fl : Nat) (g₁ g₂ : Str) (cu : Custom)
    (f : Nat),
    ((fl &&& FLG_OPEN) != 0) = false → s = g₁ ++ l.render ++ g₂ → isGap g₁ → isGap g₂ → l.ok fl g₂ →
    l.tbl Γ → CuInv B Γ stack cu → StackLt Γ stack (l.cost - 1) → l.cost ≤ f →
    ∃ p' cu', CuInv B Γ stack cu' ∧
      parseSelectors pyFoldEnv Gen.lexicon B s (f + 1) (startIndex (penv B s)) 0 fl cu =
        .ok (finishG fl (l.value.loopState B fl), p', cu')
  | .mk first rest, s, stack, fl, g₁, g₂, cu, f, hopen, hs, hg₁, hg₂, hok, htbl, hcu, hstk, hcost => by
    have hng := (SSelList.mk first rest).render_noGap fl g₂ hok
    rw [SSelList.ok] at hok
    obtain ⟨hfirst, _, hrest⟩ := hok
    rw [SSelList.cost] at hcost hstk
    rw [SSelList.tbl] at htbl
    have hsafe0 := safeStart_gap g₂ hg₂
    have hsafe := safeStart_rest fl _ rest g₂ hrest hsafe0
    have hstart : s.drop (startIndex (penv B s)) = first.render ++ (renderRest rest ++ g₂) := by
      rw [startIndex_drop, hs, List.append_assoc, C09.skipWSC_append_gen g₁ _ hg₁,
        SpellingLemmas.skipWSC_of_noGapStart _ hng, SSelList.render, List.append_assoc]
    rw [parseSelectors_succ, initLS_frame]
    obtain ⟨p₁, i₁, cu₁, hcu₁, hp₁, h₁⟩ := run_compound first s stack fl
      (setF (initLS 0 0 fl []) (startIndex (penv B s)) 0 cu)
      (f - first.size) _ hstart hfirst hsafe (by omega) rfl htbl.1 hcu (hstk.mono (by omega))
    rw [show f - first.size + first.size = f by omega] at h₁
    have h₁' : parseLoop pyFoldEnv Gen.lexicon B s f fl
          (setF (initLS 0 0 fl []) (startIndex (penv B s)) 0 cu) =
        parseLoop pyFoldEnv Gen.lexicon B s (f - first.size) fl
          (setF (firstSt B fl first.value) p₁ i₁ cu₁) := by
      rw [h₁, ← SCompound.value_isEmpty]; rfl
    obtain ⟨p, idx, cu₂, hcu₂, hp, h₂⟩ := run_rest rest s stack fl (!first.isEmpty)
      (setF (firstSt B fl first.value) p₁ i₁ cu₁)
      (f - first.size - restSize rest) g₂ hp₁ hrest hsafe0 (by omega)
      (by rw [← SCompound.value_isEmpty]; exact InvG_setF _ _ _ _ _ _ (firstSt_inv B fl _))
      htbl.2 hcu₁ (hstk.mono (by omega))
    rw [show f - first.size - restSize rest + restSize rest = f - first.size by omega] at h₂
    have hend : EndOK fl (foldRest B fl (restValue rest) (firstSt B fl first.value)) := by
      apply foldRest_end B fl rest (!first.isEmpty) _ _ hrest
      rw [← SCompound.value_isEmpty]
      exact firstSt_inv B fl _
    refine ⟨p, cu₂, hcu₂, ?_⟩
    rw [h₁', h₂, parseLoop_end B s _ fl _ (by show isGap (s.drop p); rw [hp]; exact hg₂),
      foldRest_frame, setF_setF]
    simp only
    rw [finishSel_G B s fl _ (fun h => by rw [hopen] at h; cases h) (EndOK_setF fl _ _ _ _ hend),
      finishG_setF, SSelList.value, loopState_eq]
    rfl
end

end Run

/-! ## The theorem -/

/-- **The compiled result, computed from the values.**  For every selector list `l` of the covered
    grammar written in any admissible spelling (`l.ok 0`: the flags of the top-level call), with arbitrary
    gaps `g₁`, `g₂` at the two ends, and every custom table `custom` that `process_custom` accepts and
    turns into a map `cu0` holding the definitions `Γ` that the `:--name` items of `l` carry
    (`l.tbl Γ`, `CuInv B Γ [] cu0`), `Parser.compile` on the text returns the structure `denote` computes
    from the VALUES of `l` alone (which include the values of the definitions of its custom selectors). -/
theorem compile_eq_denote2 (B : Builtins) (Γ : Tbl) (custom : List (Str × Str)) (cu0 : Custom)
    (hpc : processCustom pyFoldEnv Gen.lexicon custom = .ok cu0) (hcu0 : CuInv B Γ [] cu0)
    (g₁ g₂ : Str) (l : SSelList)
    (hg₁ : isGap g₁) (hg₂ : isGap g₂) (hok : l.ok 0 g₂) (htbl : l.tbl Γ)
    (h0 : ∀ x ∈ g₁ ++ l.render ++ g₂, x ≠ 0) :
    Parser.compile pyFoldEnv Gen.lexicon B (g₁ ++ l.render ++ g₂) custom 0 = .ok (denote B l.value) := by
  rw [← C06.compile_fuel_irrelevant pyFoldEnv B _ custom 0
    (C06.allotted (g₁ ++ l.render ++ g₂) custom + l.cost + 1) (by omega),
    C06.compileF_def, hpc]
  simp only [nulFix_id _ h0]
  obtain ⟨p', cu', _, h⟩ := run_top B Γ l (g₁ ++ l.render ++ g₂) [] 0 g₁ g₂ cu0
    (C06.allotted (g₁ ++ l.render ++ g₂) custom + l.cost) (by decide) rfl hg₁ hg₂ hok htbl hcu0
    (fun k hk => by cases hk) (by omega)
  have h' : parseSelectors pyFoldEnv Gen.lexicon B (g₁ ++ l.render ++ g₂)
      (C06.allotted (g₁ ++ l.render ++ g₂) custom + l.cost + 1)
      (startIndex ⟨pyFoldEnv, Gen.lexicon, B, g₁ ++ l.render ++ g₂⟩) 0 0 cu0 =
      .ok (finishG 0 (l.value.loopState B 0), p', cu') := h
  rw [h']
  rfl

/-- **Spelling invariance of the compiled result (the part of `compile_spelling_invariant` that is
    proved).**  Two texts of the covered grammar — any gaps, any escapes, any quotes, any letter case of
    keywords, any spelling of the definitions of their custom selectors — that spell the same values
    compile to the same structure. -/
theorem compile_spelling_invariant_partial2 (B : Builtins) (Γ Γ' : Tbl) (custom custom' : List (Str × Str))
    (cu0 cu0' : Custom)
    (hpc : processCustom pyFoldEnv Gen.lexicon custom = .ok cu0) (hcu0 : CuInv B Γ [] cu0)
    (hpc' : processCustom pyFoldEnv Gen.lexicon custom' = .ok cu0') (hcu0' : CuInv B Γ' [] cu0')
    (g₁ g₂ g₁' g₂' : Str) (l l' : SSelList)
    (hg₁ : isGap g₁) (hg₂ : isGap g₂) (hg₁' : isGap g₁') (hg₂' : isGap g₂')
    (hok : l.ok 0 g₂) (hok' : l'.ok 0 g₂') (htbl : l.tbl Γ) (htbl' : l'.tbl Γ')
    (h0 : ∀ x ∈ g₁ ++ l.render ++ g₂, x ≠ 0) (h0' : ∀ x ∈ g₁' ++ l'.render ++ g₂', x ≠ 0)
    (hval : l.value = l'.value) :
    Parser.compile pyFoldEnv Gen.lexicon B (g₁ ++ l.render ++ g₂) custom 0 =
      Parser.compile pyFoldEnv Gen.lexicon B (g₁' ++ l'.render ++ g₂') custom' 0 := by
  rw [compile_eq_denote2 B Γ custom cu0 hpc hcu0 g₁ g₂ l hg₁ hg₂ hok htbl h0,
    compile_eq_denote2 B Γ' custom' cu0' hpc' hcu0' g₁' g₂' l' hg₁' hg₂' hok' htbl' h0', hval]

/-- `compile_eq_denote2` for a custom dictionary given as a list of (name as written, key, definition) whose
    names pass the checks of `process_custom` (`nameOK`: decidable, name by name) and whose keys are pairwise
    different. -/
theorem compile_eq_denote2_table (B : Builtins) (entries : List (Str × Str × Str × SSelList × Str))
    (hname : ∀ x ∈ entries, nameOK x.1 x.2.1) (hnd : (entries.map (·.2.1)).Nodup)
    (g₁ g₂ : Str) (l : SSelList)
    (hg₁ : isGap g₁) (hg₂ : isGap g₂) (hok : l.ok 0 g₂) (htbl : l.tbl (entries.map (·.2)))
    (h0 : ∀ x ∈ g₁ ++ l.render ++ g₂, x ≠ 0) :
    Parser.compile pyFoldEnv Gen.lexicon B (g₁ ++ l.render ++ g₂)
      (entries.map fun x => (x.1, defText x.2.2)) 0 = .ok (denote B l.value) :=
  compile_eq_denote2 B (entries.map (·.2)) _ _ (processCustom_table entries hname hnd) (CuInv_init B _)
    g₁ g₂ l hg₁ hg₂ hok htbl h0

/-- `compile_eq_denote2` without a custom table. -/
theorem compile_eq_denote2_plain (B : Builtins) (g₁ g₂ : Str) (l : SSelList)
    (hg₁ : isGap g₁) (hg₂ : isGap g₂) (hok : l.ok 0 g₂) (htbl : l.tbl [])
    (h0 : ∀ x ∈ g₁ ++ l.render ++ g₂, x ≠ 0) :
    Parser.compile pyFoldEnv Gen.lexicon B (g₁ ++ l.render ++ g₂) [] 0 = .ok (denote B l.value) :=
  compile_eq_denote2 B [] [] [] rfl (fun k _ _ _ hd _ => by cases hd) g₁ g₂ l hg₁ hg₂ hok htbl h0

/-- `compile_spelling_invariant_partial2` without custom tables. -/
theorem compile_spelling_invariant_partial2_plain (B : Builtins) (g₁ g₂ g₁' g₂' : Str) (l l' : SSelList)
    (hg₁ : isGap g₁) (hg₂ : isGap g₂) (hg₁' : isGap g₁') (hg₂' : isGap g₂')
    (hok : l.ok 0 g₂) (hok' : l'.ok 0 g₂') (htbl : l.tbl []) (htbl' : l'.tbl [])
    (h0 : ∀ x ∈ g₁ ++ l.render ++ g₂, x ≠ 0) (h0' : ∀ x ∈ g₁' ++ l'.render ++ g₂', x ≠ 0)
    (hval : l.value = l'.value) :
    Parser.compile pyFoldEnv Gen.lexicon B (g₁ ++ l.render ++ g₂) [] 0 =
      Parser.compile pyFoldEnv Gen.lexicon B (g₁' ++ l'.render ++ g₂') [] 0 := by
  rw [compile_eq_denote2_plain B g₁ g₂ l hg₁ hg₂ hok htbl h0,
    compile_eq_denote2_plain B g₁' g₂' l' hg₁' hg₂' hok' htbl' h0', hval]

#print axioms compile_eq_denote2
#print axioms compile_spelling_invariant_partial2
#print axioms compile_eq_denote2_table

/-! ## Non-vacuity: concrete instances -/

/-- `*|p[x|y]` -/
def exampleNsA : SSelList :=
  .mk (.mk (some ⟨some .star, .name [(112, .lit)]⟩)
    [.attrNs (.name [(120, .lit)]) ⟨[], [(121, .lit)], none, []⟩]) []

/-- `*|\70 [ x|y ]` -/
def exampleNsB : SSelList :=
  .mk (.mk (some ⟨some .star, .name [(112, .hex 2 [] (some .space))]⟩)
    [.attrNs (.name [(120, .lit)]) ⟨[32], [(121, .lit)], none, [32]⟩]) []

theorem exampleNsA_ok : exampleNsA.ok 0 [] := by
  simp only [exampleNsA, SSelList.ok, SCompound.ok, restOK, SCompound.isEmpty, itemsOK, SItem.ok, STagN.ok, STag.ok, SNs.ok,
    SAttr.ok, identOK, renderRest, renderItems, SItem.render, SAttr.afterName]
  decide

theorem exampleNsB_ok : exampleNsB.ok 0 [] := by
  simp only [exampleNsB, SSelList.ok, SCompound.ok, restOK, SCompound.isEmpty, itemsOK, SItem.ok, STagN.ok, STag.ok, SNs.ok,
    SAttr.ok, identOK, renderRest, renderItems, SItem.render, SAttr.afterName]
  decide

example : ([] ++ exampleNsA.render ++ []) = "*|p[x|y]".toStr ∧
    ([] ++ exampleNsB.render ++ []) = "*|\\70 [ x|y ]".toStr := by decide

example : Parser.compile pyFoldEnv Gen.lexicon Gen.builtinsRec "*|p[x|y]".toStr [] 0 =
    Parser.compile pyFoldEnv Gen.lexicon Gen.builtinsRec "*|\\70 [ x|y ]".toStr [] 0 :=
  compile_spelling_invariant_partial2_plain Gen.builtinsRec [] [] [] [] exampleNsA exampleNsB
    (by decide) (by decide) (by decide) (by decide) exampleNsA_ok exampleNsB_ok (by simp [exampleNsA, SSelList.tbl, SCompound.tbl, itemsTbl, restTbl, SItem.tbl]) (by simp [exampleNsB, SSelList.tbl, SCompound.tbl, itemsTbl, restTbl, SItem.tbl]) (by decide) (by decide) rfl

/-- `p:lang(en , 'de'):-soup-contains-own(x)` -/
def exampleValA : SSelList :=
  .mk (.mk (some ⟨none, .name [(112, .lit)]⟩)
    [.lang [(108, .lit), (97, .lit), (110, .lit), (103, .lit)] []
        ⟨.ident [(101, .lit), (110, .lit)], [([32], [32], .str 39 [.ch 100 .lit, .ch 101 .lit])]⟩ [],
     .contains ("-soup-contains-own".toStr.map fun c => (c, .lit)) []
        ⟨.ident [(120, .lit)], []⟩ []]) []

/-- `p:LANG( "en",d\65 ):-soup-contains-own('x')` -/
def exampleValB : SSelList :=
  .mk (.mk (some ⟨none, .name [(112, .lit)]⟩)
    [.lang [(76, .lit), (65, .lit), (78, .lit), (71, .lit)] [32]
        ⟨.str 34 [.ch 101 .lit, .ch 110 .lit],
         [([], [], .ident [(100, .lit), (101, .hex 2 [] (some .space))])]⟩ [],
     .contains ("-soup-contains-own".toStr.map fun c => (c, .lit)) []
        ⟨.str 39 [.ch 120 .lit], []⟩ []]) []

theorem exampleValA_ok : exampleValA.ok 0 [] := by
  simp only [exampleValA, SSelList.ok, SCompound.ok, restOK, SCompound.isEmpty, itemsOK, SItem.ok, STagN.ok, STag.ok,
    identOK, renderRest, renderItems, SItem.render, SValues.ok, vrestOK, SValue.ok, containsName]
  decide

theorem exampleValB_ok : exampleValB.ok 0 [] := by
  simp only [exampleValB, SSelList.ok, SCompound.ok, restOK, SCompound.isEmpty, itemsOK, SItem.ok, STagN.ok, STag.ok,
    identOK, renderRest, renderItems, SItem.render, SValues.ok, vrestOK, SValue.ok, containsName]
  decide

example : ([] ++ exampleValA.render ++ []) = "p:lang(en , 'de'):-soup-contains-own(x)".toStr ∧
    ([] ++ exampleValB.render ++ []) = "p:LANG( \"en\",d\\65 ):-soup-contains-own('x')".toStr := by decide

example : Parser.compile pyFoldEnv Gen.lexicon Gen.builtinsRec
      "p:lang(en , 'de'):-soup-contains-own(x)".toStr [] 0 =
    Parser.compile pyFoldEnv Gen.lexicon Gen.builtinsRec
      "p:LANG( \"en\",d\\65 ):-soup-contains-own('x')".toStr [] 0 :=
  compile_spelling_invariant_partial2_plain Gen.builtinsRec [] [] [] [] exampleValA exampleValB
    (by decide) (by decide) (by decide) (by decide) exampleValA_ok exampleValB_ok (by simp [exampleValA, SSelList.tbl, SCompound.tbl, itemsTbl, restTbl, SItem.tbl]) (by simp [exampleValB, SSelList.tbl, SCompound.tbl, itemsTbl, restTbl, SItem.tbl]) (by decide) (by decide) rfl

/-- `:is(a, , b):where()` -/
def exampleFgA : SSelList :=
  .mk (.mk none
    [.fn [(105, .lit), (115, .lit)] []
      (.mk (.mk (some ⟨none, .name [(97, .lit)]⟩) [])
        [(.sym [] 44 [32], .mk none []), (.sym [] 44 [32], .mk (some ⟨none, .name [(98, .lit)]⟩) [])]) [],
     .fn ("where".toStr.map fun c => (c, .lit)) [] (.mk (.mk none []) []) []]) []

/-- `:IS( a,,b ):where( )` -/
def exampleFgB : SSelList :=
  .mk (.mk none
    [.fn [(73, .lit), (83, .lit)] [32]
      (.mk (.mk (some ⟨none, .name [(97, .lit)]⟩) [])
        [(.sym [] 44 [], .mk none []), (.sym [] 44 [], .mk (some ⟨none, .name [(98, .lit)]⟩) [])]) [32],
     .fn ("where".toStr.map fun c => (c, .lit)) [32] (.mk (.mk none []) []) []]) []

set_option synthInstance.maxSize 2000 in
theorem exampleFgA_ok : exampleFgA.ok 0 [] := by
  simp only [exampleFgA, SSelList.ok, SCompound.ok, restOK, SCompound.isEmpty, itemsOK, SItem.ok, STagN.ok,
    STag.ok, identOK, renderRest, renderItems, SItem.render, SSelList.render, SCompound.render, fnName2,
    SComb.ok, SComb.render, SComb.value, STagN.render, STag.render]
  decide

set_option synthInstance.maxSize 2000 in
theorem exampleFgB_ok : exampleFgB.ok 0 [] := by
  simp only [exampleFgB, SSelList.ok, SCompound.ok, restOK, SCompound.isEmpty, itemsOK, SItem.ok, STagN.ok,
    STag.ok, identOK, renderRest, renderItems, SItem.render, SSelList.render, SCompound.render, fnName2,
    SComb.ok, SComb.render, SComb.value, STagN.render, STag.render]
  decide

example : ([] ++ exampleFgA.render ++ []) = ":is(a, , b):where()".toStr ∧
    ([] ++ exampleFgB.render ++ []) = ":IS( a,,b ):where( )".toStr := by decide

example : Parser.compile pyFoldEnv Gen.lexicon Gen.builtinsRec ":is(a, , b):where()".toStr [] 0 =
    Parser.compile pyFoldEnv Gen.lexicon Gen.builtinsRec ":IS( a,,b ):where( )".toStr [] 0 :=
  compile_spelling_invariant_partial2_plain Gen.builtinsRec [] [] [] [] exampleFgA exampleFgB
    (by decide) (by decide) (by decide) (by decide) exampleFgA_ok exampleFgB_ok (by simp [exampleFgA, SSelList.tbl, SCompound.tbl, itemsTbl, restTbl, SItem.tbl]) (by simp [exampleFgB, SSelList.tbl, SCompound.tbl, itemsTbl, restTbl, SItem.tbl]) (by decide) (by decide) rfl

/-- `p&:has(> a, + b c)` -/
def exampleHasA : SSelList :=
  .mk (.mk (some ⟨none, .name [(112, .lit)]⟩)
    [.amp,
     .fn [(104, .lit), (97, .lit), (115, .lit)] []
      (.mk (.mk none [])
        [(.sym [] 62 [32], .mk (some ⟨none, .name [(97, .lit)]⟩) []),
         (.sym [] 44 [32], .mk none []),
         (.sym [] 43 [32], .mk (some ⟨none, .name [(98, .lit)]⟩) []),
         (.desc [32], .mk (some ⟨none, .name [(99, .lit)]⟩) [])]) []]) []

/-- `p&:HAS(>a ,+b  c )` -/
def exampleHasB : SSelList :=
  .mk (.mk (some ⟨none, .name [(112, .lit)]⟩)
    [.amp,
     .fn [(72, .lit), (65, .lit), (83, .lit)] []
      (.mk (.mk none [])
        [(.sym [] 62 [], .mk (some ⟨none, .name [(97, .lit)]⟩) []),
         (.sym [32] 44 [], .mk none []),
         (.sym [] 43 [], .mk (some ⟨none, .name [(98, .lit)]⟩) []),
         (.desc [32, 32], .mk (some ⟨none, .name [(99, .lit)]⟩) [])]) [32]]) []

instance : Decidable (DescGap [32]) := isTrue (.ws 32 [] rfl (by decide))
instance : Decidable (DescGap [32, 32]) := isTrue (.ws 32 [32] rfl (by decide))

set_option synthInstance.maxSize 4000 in
theorem exampleHasA_ok : exampleHasA.ok 0 [] := by
  simp only [exampleHasA, SSelList.ok, SCompound.ok, restOK, SCompound.isEmpty, itemsOK, SItem.ok, STagN.ok,
    STag.ok, identOK, renderRest, renderItems, SItem.render, SSelList.render, SCompound.render, fnName2,
    SComb.ok, SComb.render, SComb.value, STagN.render, STag.render]
  decide

set_option synthInstance.maxSize 4000 in
theorem exampleHasB_ok : exampleHasB.ok 0 [] := by
  simp only [exampleHasB, SSelList.ok, SCompound.ok, restOK, SCompound.isEmpty, itemsOK, SItem.ok, STagN.ok,
    STag.ok, identOK, renderRest, renderItems, SItem.render, SSelList.render, SCompound.render, fnName2,
    SComb.ok, SComb.render, SComb.value, STagN.render, STag.render]
  decide

example : ([] ++ exampleHasA.render ++ []) = "p&:has(> a, + b c)".toStr ∧
    ([] ++ exampleHasB.render ++ []) = "p&:HAS(>a ,+b  c )".toStr := by decide

example : Parser.compile pyFoldEnv Gen.lexicon Gen.builtinsRec "p&:has(> a, + b c)".toStr [] 0 =
    Parser.compile pyFoldEnv Gen.lexicon Gen.builtinsRec "p&:HAS(>a ,+b  c )".toStr [] 0 :=
  compile_spelling_invariant_partial2_plain Gen.builtinsRec [] [] [] [] exampleHasA exampleHasB
    (by decide) (by decide) (by decide) (by decide) exampleHasA_ok exampleHasB_ok (by simp [exampleHasA, SSelList.tbl, SCompound.tbl, itemsTbl, restTbl, SItem.tbl]) (by simp [exampleHasB, SSelList.tbl, SCompound.tbl, itemsTbl, restTbl, SItem.tbl]) (by decide) (by decide) rfl

/-! ### Custom selectors -/

def formsX : Forms := [(45, .lit), (45, .lit), (120, .lit)]
def formsY : Forms := [(45, .lit), (45, .lit), (121, .lit)]
def cmpA : SCompound := .mk (some ⟨none, .name [(97, .lit)]⟩) []
def cmpB : SCompound := .mk (some ⟨none, .name [(98, .lit)]⟩) []
def cmpC : SCompound := .mk (some ⟨none, .name [(99, .lit)]⟩) []

/-- `a > b` -/
def defX : SSelList := .mk cmpA [(.sym [32] 62 [32], cmpB)]
/-- `:--x, c` -/
def defY : SSelList := .mk (.mk none [.custom formsX [] defX []]) [(.sym [] 44 [32], cmpC)]
/-- the table `{":--x": "a > b", ":--Y": ":--x, c"}` -/
def tableA : Tbl := [(":--x".toStr, [], defX, []), (":--y".toStr, [], defY, [])]
def customA : List (Str × Str) := [(":--x".toStr, "a > b".toStr), (":--Y".toStr, ":--x, c".toStr)]
/-- `p:--y:--x` -/
def exampleCuA : SSelList :=
  .mk (.mk (some ⟨none, .name [(112, .lit)]⟩) [.custom formsY [] defY [], .custom formsX [] defX []]) []

/-- `a>b` -/
def defX' : SSelList := .mk cmpA [(.sym [] 62 [], cmpB)]
/-- `:--X ,c` -/
def defY' : SSelList :=
  .mk (.mk none [.custom [(45, .lit), (45, .lit), (88, .lit)] [] defX' []]) [(.sym [32] 44 [], cmpC)]
def tableB : Tbl := [(":--y".toStr, [32], defY', []), (":--x".toStr, [], defX', [])]
def customB : List (Str × Str) := [(":--y".toStr, " :--X ,c".toStr), (":--x".toStr, "a>b".toStr)]
/-- `p:--Y:--\78 ` -/
def exampleCuB : SSelList :=
  .mk (.mk (some ⟨none, .name [(112, .lit)]⟩)
    [.custom [(45, .lit), (45, .lit), (89, .lit)] [32] defY' [],
     .custom [(45, .lit), (45, .lit), (120, .hex 2 [] (some .space))] [] defX' []]) []

theorem customA_ok : processCustom pyFoldEnv Gen.lexicon customA =
    .ok (tableA.map fun e => (e.1, .src (e.2.1 ++ e.2.2.1.render ++ e.2.2.2))) := by
  rfl

theorem customB_ok : processCustom pyFoldEnv Gen.lexicon customB =
    .ok (tableB.map fun e => (e.1, .src (e.2.1 ++ e.2.2.1.render ++ e.2.2.2))) := by
  rfl

set_option synthInstance.maxSize 4000 in
theorem exampleCuA_ok : exampleCuA.ok 0 [] := by
  simp only [exampleCuA, defX, defY, cmpA, cmpB, cmpC, formsX, formsY, SSelList.ok, SCompound.ok, restOK,
    SCompound.isEmpty, itemsOK, SItem.ok, STagN.ok, STag.ok, identOK, renderRest, renderItems, SItem.render,
    SSelList.render, SCompound.render, SComb.ok, SComb.render, SComb.value, STagN.render, STag.render]
  decide

set_option synthInstance.maxSize 4000 in
theorem exampleCuB_ok : exampleCuB.ok 0 [] := by
  simp only [exampleCuB, defX', defY', cmpA, cmpB, cmpC, SSelList.ok, SCompound.ok, restOK,
    SCompound.isEmpty, itemsOK, SItem.ok, STagN.ok, STag.ok, identOK, renderRest, renderItems, SItem.render,
    SSelList.render, SCompound.render, SComb.ok, SComb.render, SComb.value, STagN.render, STag.render]
  decide

theorem exampleCuA_tbl : exampleCuA.tbl tableA := by
  simp only [exampleCuA, defY, SSelList.tbl, SCompound.tbl, itemsTbl, restTbl, SItem.tbl, cmpC, and_true]
  refine ⟨⟨rfl, rfl, ?_⟩, rfl, ?_⟩ <;> simp [defX, cmpA, cmpB, SSelList.tbl, SCompound.tbl, itemsTbl, restTbl]

theorem exampleCuB_tbl : exampleCuB.tbl tableB := by
  simp only [exampleCuB, defY', SSelList.tbl, SCompound.tbl, itemsTbl, restTbl, SItem.tbl, cmpC, and_true]
  refine ⟨⟨rfl, rfl, ?_⟩, rfl, ?_⟩ <;> simp [defX', cmpA, cmpB, SSelList.tbl, SCompound.tbl, itemsTbl, restTbl]

example : exampleCuA.render = "p:--y:--x".toStr ∧ exampleCuB.render = "p:--Y:--\\78 ".toStr := by decide

/-- `compile("p:--y:--x", {":--x": "a > b", ":--Y": ":--x, c"})` and
    `compile("p:--Y:--\78 ", {":--y": " :--X ,c", ":--x": "a>b"})` give the same structure. -/
example : Parser.compile pyFoldEnv Gen.lexicon Gen.builtinsRec "p:--y:--x".toStr customA 0 =
    Parser.compile pyFoldEnv Gen.lexicon Gen.builtinsRec "p:--Y:--\\78 ".toStr customB 0 :=
  compile_spelling_invariant_partial2 Gen.builtinsRec tableA tableB customA customB _ _
    customA_ok (CuInv_init _ tableA) customB_ok (CuInv_init _ tableB) [] [] [] [] exampleCuA exampleCuB
    (by decide) (by decide) (by decide) (by decide) exampleCuA_ok exampleCuB_ok exampleCuA_tbl exampleCuB_tbl
    (by decide) (by decide) rfl

/-- The same through `compile_eq_denote2_table`: the dictionary as (name as written, key, definition). -/
def entriesA : List (Str × Str × Str × SSelList × Str) :=
  [(":--x".toStr, ":--x".toStr, [], defX, []), (":--Y".toStr, ":--y".toStr, [], defY, [])]

example : Parser.compile pyFoldEnv Gen.lexicon Gen.builtinsRec "p:--y:--x".toStr
      [(":--x".toStr, "a > b".toStr), (":--Y".toStr, ":--x, c".toStr)] 0 =
    .ok (denote Gen.builtinsRec exampleCuA.value) :=
  compile_eq_denote2_table Gen.builtinsRec entriesA (by decide) (by decide) [] [] exampleCuA
    (by decide) (by decide) exampleCuA_ok exampleCuA_tbl (by decide)

end C09Compile2
end SoupVerif
