/-
  C09, end to end: the COMPILED RESULT depends only on the token values, not on their spelling.

  `Properties/C09.lean` proves the component facts for hand-written scanners, `Properties/C09Rx.lean`
  restates them about the regular expressions regenerated from `css_parser.py` (via
  `Refine/{Ident,Wsc,StringTok,Unescape}.lean`).  This file does the remaining part for a sub-grammar:
  the induction through the tokenizer (`selector_iter`: which of the thirteen token patterns matches at
  each position, in table order) and through the state machine (`parse_selectors`) of the parser model,
  down to the frozen structure `Parser.compile` returns.

  THE FULL STATEMENT (still NOT proved in full generality):

      theorem compile_spelling_invariant (T : TokenSeq) (sp₁ sp₂ : Spelling T) :
          Parser.compile pyFoldEnv Gen.lexicon Gen.builtinsRec (render T sp₁) [] 0 =
            Parser.compile pyFoldEnv Gen.lexicon Gen.builtinsRec (render T sp₂) [] 0

  WHAT IS PROVED:  `compile_eq_denote` — for every selector list `l : SSelList` of the grammar below, in
  every admissible spelling, `Parser.compile pyFoldEnv Gen.lexicon B (g₁ ++ l.render ++ g₂) [] 0 =
  .ok (denote B l.value)`, where `denote` is computed from the VALUES alone (a fold that mirrors
  `parse_selectors`, written without positions) — and its corollary
  `compile_spelling_invariant_partial`: two spellings with the same values compile to the same structure.
  `B : Builtins` is arbitrary (in particular `Gen.builtinsRec`).  Environment: `pyFoldEnv` (Python's
  IGNORECASE folding, what the driver runs the token regexes under); every regex lemma used is also
  available for `asciiEnv`, but the statements here are for `pyFoldEnv` only.

  COVERED GRAMMAR (`SSelList`, `SCompound`, `SItem`; text = `render`, values = `value`, side conditions = `ok`):

    pattern   := gap list gap                       -- gap: any `isGap` text (whitespace and complete comments)
    list      := compound (comb compound)*
    comb      := gap [,+>~] gap                     -- the comma is a combinator for the tokenizer
               | descgap                            -- `DescGap`: a gap with a whitespace unit outside comments
    compound  := tag? item*   (not both empty)
    tag       := `*` | IDENT                        -- no namespace prefix
    item      := `#` IDENT | `.` IDENT
               | `[` gap IDENT ( gap OP? `=` gap VALUE ( gap FLAG )? )? gap `]`      -- no namespace prefix
               | `:` NAME                           -- NAME in the simple / simple-no-match tables
               | `:` FN `(` gap list gap `)`        -- FN one of not, is, where, matches; lists nest
               | `:` NTH `(` gap ANB gap `)`        -- NTH one of nth-child, nth-last-child, nth-of-type,
                                                    --   nth-last-of-type
               | `:` NTHC `(` gap ANB descgap OF descgap list gap `)`   -- NTHC: nth-child, nth-last-child
               | `:` DIR `(` gap (LTR | RTL) gap `)`
    OP        := one of ! ~ ^ | * $
    VALUE     := IDENT | `"` STRBODY `"` | `'` STRBODY `'`
    FLAG      := i | I | s | S
    ANB       := EVEN | ODD | [-+]? DIGITS [nN]? | [-+]? [nN]           -- the forms with n/N optionally
                 followed by  gap [-+] gap DIGITS                        --   (`SAnB`; value: lower case, no gaps)
    EVEN, ODD, OF, LTR, RTL := the keyword in any letter case (`mixCase`)
    IDENT     := any spelling `renderIdentWith forms` with `validForms` (in its context), `headOk`, `rangeOk`:
                 literal characters, `\c`, `\` + 1..6 hex digits in either case with any zero padding and any
                 of the six whitespace terminators or none
    NAME, FN, NTH, DIR := IDENT whose code points lower-case to the name (any letter case, any escapes)
    STRBODY   := any `renderStrWith pieces` with `validStr`, `pieceRangeOk` (escapes, line continuations)

  That is: every item of C09's sentence — whitespace and comments wherever CSS allows them, identifiers and
  strings written with escapes, single / double quotes / bare identifier for the same value, letter case of
  pseudo-class names, An+B keywords, `of`, `:dir()` arguments and the `i`/`s` flags.

  NOT COVERED (each would need its own token lemma; none is known to fail): namespace prefixes (`ns|tag`,
  `[ns|attr]`), `:lang()`, `:contains()` (value lists), `:has()` (relative selectors, leading combinators),
  empty slots of the forgiving lists of `:is()` / `:where()`, custom selectors (`:--name`), `&`, and all
  patterns on which `compile` raises.

  HYPOTHESES of the theorem, all explicit:
    * `l.ok g₂`: the side conditions above (decidable, context-dependent only through the next character);
    * the text contains no NUL (`css_parser` replaces NUL by U+FFFD before tokenizing, which would change
      the values spelled);
    * error offsets (item (d) of C09's plan) do not arise: on this grammar `compile` succeeds.

  HOW: `Refine/CompileLex.lean` (first-character argument from C07's `Rx.first`, evaluated in the kernel on
  the regenerated token regexes), `CompileIdent/Tag/Comb/Attr/Pseudo/Nth/Dir*.lean` (one refinement lemma
  per token: `matchAt` on the regenerated regex = the expected end and groups, for every subject of the
  given shape; `tok_combine`'s lazy `WSC*?` and look-ahead `(?!WSC*[,+>~])` are related to `skipWSC` in
  `CompileComb.lean`; `CompileNthRx/AnB.lean` treat the An+B micro-syntax once for the token (no groups)
  and for `RE_NTH` (groups), and show that `parse_pseudo_nth` reads the lower-cased group text as it reads
  the canonical text), `Compile*Step.lean` (one loop iteration per token), and the mutual induction
  `run_item` / `run_items` / `run_compound` / `run_rest` / `run_list` below, whose invariant forgets
  `pos` and `index` (`setF`).  Fuel: the loop needs one unit per token plus what nested lists need
  (`SSelList.cost ≤ text length + 1`, `SSelList.cost_le`), well below the `2·|pattern| + 8` allotted.

  Every shape lemma is `rfl` against `Generated/Regexes.lean`; only the stable names `Gen.tok_*`, `Gen.cp_*`
  are mentioned (never the renumbered shared sub-expressions).
-/
import SoupVerif.Refine.CompileCombStep
import SoupVerif.Refine.CompileAttrStep
import SoupVerif.Refine.CompilePseudo
import SoupVerif.Refine.CompileNthStep
import SoupVerif.Refine.CompileDir
namespace SoupVerif
namespace C09Compile
open Rx SoupVerif.Parser ParserProgress Escape Spelling Refine.Compile

/-! ## The covered grammar: spelled syntax, its text, its values -/

abbrev Forms := List (Nat × EscForm)

/-- `f` is an admissible spelling of an identifier in front of the text `r`. -/
def identOK (f : Forms) (r : Str) : Prop :=
  validForms f r = true ∧ headOk f = true ∧ ∀ p ∈ f, rangeOk p.1 p.2 = true

/-! ### Attribute selectors -/

/-- The value of an attribute selector: a bare identifier, or a string in single or double quotes. -/
inductive SValue where
  | ident (f : Forms)
  | str (q : Nat) (ps : List StrPiece)

def SValue.render : SValue → Str
  | .ident f => renderIdentWith f
  | .str q ps => q :: (renderStrWith ps ++ [q])

def SValue.value : SValue → Str
  | .ident f => valueOf f
  | .str _ ps => strValue ps

/-- Admissible in front of the text `r`. -/
def SValue.ok (r : Str) : SValue → Prop
  | .ident f => identOK f r ∧ ¬ continuesIdent r
  | .str q ps => (q = 34 ∨ q = 39) ∧ validStr q ps [] = true ∧ ∀ p ∈ ps, pieceRangeOk p = true

/-- `gap op= gap value (gap flag)?` -/
structure SAttrOp where
  g1 : Str
  /-- the character in front of `=`, if any: one of `!` `~` `^` `|` `*` `$` -/
  op : Option Nat
  g2 : Str
  value : SValue
  /-- gap and flag character (`i` `I` `s` `S`) -/
  flag : Option (Str × Nat)

/-- `[ gap name (…)? gap ]` -/
structure SAttr where
  g0 : Str
  name : Forms
  body : Option SAttrOp
  g4 : Str

def opText : Option Nat → Str
  | none => [61]
  | some x => [x, 61]

def flagText : Option (Str × Nat) → Str
  | none => []
  | some (g3, f) => g3 ++ [f]

/-- The text after the attribute name, up to and including `]`. -/
def SAttr.afterName (a : SAttr) : Str :=
  match a.body with
  | none => a.g4 ++ [93]
  | some b => b.g1 ++ (opText b.op ++ (b.g2 ++ (b.value.render ++ (flagText b.flag ++ (a.g4 ++ [93])))))

def SAttr.render (a : SAttr) : Str := 91 :: (a.g0 ++ (renderIdentWith a.name ++ a.afterName))

/-- The values of an attribute selector: name, and operator text, value, lower-cased flag. -/
structure AttrV where
  name : Str
  body : Option (Str × Str × Option Nat)

def SAttr.value (a : SAttr) : AttrV :=
  ⟨valueOf a.name, a.body.map fun b => (opText b.op, b.value.value, b.flag.map fun x => lowerCp x.2)⟩

def SAttr.ok (a : SAttr) (r : Str) : Prop :=
  isGap a.g0 ∧ isGap a.g4 ∧ identOK a.name (a.afterName ++ r) ∧
  match a.body with
  | none => True
  | some b =>
    isGap b.g1 ∧ isGap b.g2 ∧ (∀ x, b.op = some x → isCmp x = true) ∧
    b.value.ok (flagText b.flag ++ (a.g4 ++ 93 :: r)) ∧
    (∀ g3 f, b.flag = some (g3, f) → isGap g3 ∧ isFlag f = true)

/-- What `parse_attribute_selector` adds to the builder, from the values. -/
def AttrV.apply (a : AttrV) (b : SelB) : SelB :=
  match a.body with
  | none => attrBuild b a.name [] [] none
  | some (op, v, fl) => attrBuild b a.name op v (fl.map fun c => [c])

/-! ### Type selectors and combinators -/

/-- A type selector: `*` or an identifier. -/
inductive STag where
  | star
  | name (f : Forms)

def STag.value : STag → Str
  | .star => [42]
  | .name f => valueOf f

def STag.render : STag → Str
  | .star => [42]
  | .name f => renderIdentWith f

def STag.ok (r : Str) : STag → Prop
  | .star => True
  | .name f => identOK f r

/-- A combinator with its spelling: `g₁ c g₂` for `c` one of `,` `+` `>` `~` (the comma is a combinator for
    the tokenizer), or a gap containing whitespace (the descendant combinator). -/
inductive SComb where
  | sym (g₁ : Str) (c : Nat) (g₂ : Str)
  | desc (g : Str)

/-- The combinator character `parse_combinator` sees (32 for the descendant combinator). -/
def SComb.value : SComb → Nat
  | .sym _ c _ => c
  | .desc _ => 32

def SComb.render : SComb → Str
  | .sym g₁ c g₂ => g₁ ++ c :: g₂
  | .desc g => g

def SComb.ok : SComb → Prop
  | .sym g₁ c g₂ => isGap g₁ ∧ isGap g₂ ∧ isComb c = true
  | .desc g => DescGap g

/-! ### Pseudo-class names -/

/-- Names (lower-cased, with the colon) of the pseudo-classes without arguments. -/
def plainName (n : Str) : Prop :=
  inList Gen.lexicon.pseudoSimple n = true ∨ inList Gen.lexicon.pseudoSimpleNoMatch n = true

/-- Names of the covered pseudo-classes that take a selector list. -/
def fnName (n : Str) : Prop :=
  n = ":not".toStr ∨ n = ":is".toStr ∨ n = ":where".toStr ∨ n = ":matches".toStr

/-! ### Simple selectors, compounds, selector lists (mutually recursive through `:not(…)` etc.) -/

mutual
/-- A simple selector other than the type selector, with its spelling. -/
inductive SItem where
  | id (f : Forms)
  | cls (f : Forms)
  | attr (a : SAttr)
  /-- `:name` -/
  | pseudo (f : Forms)
  /-- `:name(` gap list gap `)` -/
  | fn (f : Forms) (g₁ : Str) (l : SSelList) (g₂ : Str)
  /-- `:nth-…(` gap An+B gap `)` -/
  | nth (f : Forms) (g₁ : Str) (a : SAnB) (g₂ : Str)
  /-- `:nth-child(` gap An+B gap-with-ws `of` gap-with-ws list gap `)` (`of` in any letter case) -/
  | nthOf (f : Forms) (g₁ : Str) (a : SAnB) (dg1 : Str) (m : List Bool) (dg2 : Str) (l : SSelList) (g₂ : Str)
  /-- `:dir(` gap `ltr`|`rtl` gap `)`, the keyword in any letter case -/
  | dir (f : Forms) (g₁ : Str) (ltr : Bool) (m : List Bool) (g₂ : Str)
/-- Optional type selector, then simple selectors. -/
inductive SCompound where
  | mk (tag : Option STag) (items : List SItem)
/-- A selector list as the tokenizer sees it: a compound, then combinator–compound pairs (the comma
    being one of the combinators). -/
inductive SSelList where
  | mk (first : SCompound) (rest : List (SComb × SCompound))
end

mutual
/-- … and without the spelling: the values only. -/
inductive Item where
  | id (v : Str)
  | cls (v : Str)
  | attr (a : AttrV)
  | pseudo (name : Str)
  | fn (name : Str) (l : SelListV)
  /-- name, canonical An+B text (lower case, no gaps) -/
  | nth (name canon : Str)
  | nthOf (name canon : Str) (l : SelListV)
  | dir (ltr : Bool)
inductive Compound where
  | mk (tag : Option Str) (items : List Item)
inductive SelListV where
  | mk (first : Compound) (rest : List (Nat × Compound))
end

mutual
def SItem.value : SItem → Item
  | .id f => .id (valueOf f)
  | .cls f => .cls (valueOf f)
  | .attr a => .attr a.value
  | .pseudo f => .pseudo (58 :: lower (valueOf f))
  | .fn f _ l _ => .fn (58 :: lower (valueOf f)) l.value
  | .nth f _ a _ => .nth (58 :: lower (valueOf f)) a.canon
  | .nthOf f _ a _ _ _ l _ => .nthOf (58 :: lower (valueOf f)) a.canon l.value
  | .dir _ _ ltr _ _ => .dir ltr
def itemsValue : List SItem → List Item
  | [] => []
  | it :: rest => it.value :: itemsValue rest
def SCompound.value : SCompound → Compound
  | .mk tag items => .mk (tag.map STag.value) (itemsValue items)
def restValue : List (SComb × SCompound) → List (Nat × Compound)
  | [] => []
  | x :: rest => (x.1.value, x.2.value) :: restValue rest
def SSelList.value : SSelList → SelListV
  | .mk first rest => .mk first.value (restValue rest)
end

mutual
def SItem.render : SItem → Str
  | .id f => 35 :: renderIdentWith f
  | .cls f => 46 :: renderIdentWith f
  | .attr a => a.render
  | .pseudo f => 58 :: renderIdentWith f
  | .fn f g₁ l g₂ => 58 :: (renderIdentWith f ++ (40 :: (g₁ ++ (l.render ++ (g₂ ++ [41])))))
  | .nth f g₁ a g₂ => 58 :: (renderIdentWith f ++ (40 :: (g₁ ++ (a.render ++ (g₂ ++ [41])))))
  | .nthOf f g₁ a dg1 m dg2 l g₂ =>
    58 :: (renderIdentWith f ++ (40 :: (g₁ ++ (a.render ++ (dg1 ++ (mixCase m "of".toStr ++
      (dg2 ++ (l.render ++ (g₂ ++ [41])))))))))
  | .dir f g₁ ltr m g₂ =>
    58 :: (renderIdentWith f ++ (40 :: (g₁ ++ (mixCase m (dirWord ltr) ++ (g₂ ++ [41])))))
def renderItems : List SItem → Str
  | [] => []
  | it :: rest => it.render ++ renderItems rest
def SCompound.render : SCompound → Str
  | .mk tag items => (match tag with | some t => t.render | none => []) ++ renderItems items
def renderRest : List (SComb × SCompound) → Str
  | [] => []
  | x :: rest => x.1.render ++ (x.2.render ++ renderRest rest)
def SSelList.render : SSelList → Str
  | .mk first rest => first.render ++ renderRest rest
end

mutual
/-- Admissible in front of the text `r`. -/
def SItem.ok : SItem → Str → Prop
  | .id f, r => identOK f r
  | .cls f, r => identOK f r
  | .attr a, r => a.ok r
  | .pseudo f, r => identOK f r ∧ plainName (58 :: lower (valueOf f))
  | .fn f g₁ l g₂, r =>
    identOK f (40 :: (g₁ ++ (l.render ++ (g₂ ++ 41 :: r)))) ∧ fnName (58 :: lower (valueOf f)) ∧
    isGap g₁ ∧ isGap g₂ ∧ l.ok (g₂ ++ 41 :: r)
  | .nth f g₁ a g₂, r =>
    identOK f (40 :: (g₁ ++ (a.render ++ (g₂ ++ 41 :: r)))) ∧
    (nthTypeName (58 :: lower (valueOf f)) ∨ nthChildName (58 :: lower (valueOf f))) ∧
    isGap g₁ ∧ isGap g₂ ∧ a.ok
  | .nthOf f g₁ a dg1 m dg2 l g₂, r =>
    identOK f (40 :: (g₁ ++ (a.render ++ (dg1 ++ (mixCase m "of".toStr ++
      (dg2 ++ (l.render ++ (g₂ ++ 41 :: r)))))))) ∧
    nthChildName (58 :: lower (valueOf f)) ∧ isGap g₁ ∧ a.ok ∧ DescGap dg1 ∧ DescGap dg2 ∧ isGap g₂ ∧
    l.ok (g₂ ++ 41 :: r)
  | .dir f g₁ ltr m g₂, r =>
    identOK f (40 :: (g₁ ++ (mixCase m (dirWord ltr) ++ (g₂ ++ 41 :: r)))) ∧
    58 :: lower (valueOf f) = ":dir".toStr ∧ isGap g₁ ∧ isGap g₂
def itemsOK : List SItem → Str → Prop
  | [], _ => True
  | it :: rest, r => it.ok (renderItems rest ++ r) ∧ itemsOK rest r
def SCompound.ok : SCompound → Str → Prop
  | .mk tag items, r =>
    (match tag with | some t => t.ok (renderItems items ++ r) | none => True) ∧
    itemsOK items r ∧ (tag.isSome = true ∨ items ≠ [])
def restOK : List (SComb × SCompound) → Str → Prop
  | [], _ => True
  | x :: rest, r => x.1.ok ∧ x.2.ok (renderRest rest ++ r) ∧ restOK rest r
def SSelList.ok : SSelList → Str → Prop
  | .mk first rest, r => first.ok (renderRest rest ++ r) ∧ restOK rest r
end

/-- Tokens of a compound at its own level. -/
def SCompound.size : SCompound → Nat
  | .mk tag items => (if tag.isSome then 1 else 0) + items.length

def restSize : List (SComb × SCompound) → Nat
  | [] => 0
  | x :: rest => 1 + x.2.size + restSize rest

mutual
/-- Fuel the loop must still have after the token of an item (for the nested list of `:not(…)` etc.). -/
def SItem.need : SItem → Nat
  | .fn _ _ l _ => l.cost + 1
  | .nthOf _ _ _ _ _ _ l _ => l.cost + 1
  | _ => 0
def itemsNeed : List SItem → Nat
  | [] => 0
  | it :: rest => it.need + itemsNeed rest
def SCompound.need : SCompound → Nat
  | .mk _ items => itemsNeed items
def restNeed : List (SComb × SCompound) → Nat
  | [] => 0
  | x :: rest => x.2.need + restNeed rest
/-- Fuel the loop of a nested list needs: its own tokens, the closing parenthesis, and what its items need. -/
def SSelList.cost : SSelList → Nat
  | .mk first rest => first.size + restSize rest + 1 + (first.need + restNeed rest)
end

/-! ## What the parser builds, from the values alone -/

/-- Position, error index and custom map of the loop state: what the values do not determine. -/
def setF (st : LS) (p idx : Nat) (c : Custom) : LS := { st with pos := p, index := idx, custom := c }

/-- The end of `parse_selectors` for a nested list (`FLG_PSEUDO | FLG_OPEN`, with or without `FLG_NOT`,
    `FLG_FORGIVE`), for a loop state that ends in a compound. -/
def finishNested (isNot : Bool) (st : LS) : SelList :=
  .mk ((st.selectors ++ [st.sel.addRelations st.relations]).map SelB.freeze) isNot st.isHtml

/-- The end of `parse_selectors` at top level (flags 0), for a loop state that ends in a compound. -/
def finishTop (st : LS) : SelList :=
  .mk ((st.selectors ++
      [(if st.sel.tag.isNone then st.sel.setTag ⟨[42], none⟩ else st.sel).addRelations st.relations]).map
    SelB.freeze) false st.isHtml

mutual
/-- What the parser does with one simple selector. -/
def Item.apply (B : Builtins) : Item → SelB → SelB
  | .id v, b => b.addId v
  | .cls v, b => b.addClass v
  | .attr a, b => a.apply b
  | .pseudo n, b => plainPseudo B n b
  | .fn n l, b => b.addSub (finishNested (n == ":not".toStr) (l.loopState B true))
  | .nth n c, b => nthBuild B n c none b
  | .nthOf n c l, b => nthBuild B n c (some (finishNested false (l.loopState B true))) b
  | .dir ltr, b => dirBuild ltr b
def applyItems (B : Builtins) : List Item → SelB → SelB
  | [], b => b
  | it :: rest, b => applyItems B rest (it.apply B b)
/-- The builder after a compound, starting from the builder `b`. -/
def Compound.buildOn (B : Builtins) : Compound → SelB → SelB
  | .mk tag items, b => applyItems B items (match tag with | some n => b.setTag ⟨n, none⟩ | none => b)
/-- The loop over combinator–compound pairs, positions aside (`ip`: inside a pseudo-class). -/
def foldRest (B : Builtins) (ip : Bool) : List (Nat × Compound) → LS → LS
  | [], st => st
  | x :: rest, st =>
    foldRest B ip rest { combStep x.1 ip st with sel := x.2.buildOn B SelB.empty, hasSelector := true }
/-- The loop state at the end of a selector list. -/
def SelListV.loopState (B : Builtins) (ip : Bool) : SelListV → LS
  | .mk first rest => foldRest B ip rest { sel := first.buildOn B SelB.empty, hasSelector := true }
end

/-- The compiled selector list, from the values alone. -/
def denote (B : Builtins) (v : SelListV) : SelList := finishTop (v.loopState B false)

/-! ## Text facts -/

theorem SItem.render_cons (it : SItem) :
    ∃ c cs, it.render = c :: cs ∧ (c = 35 ∨ c = 46 ∨ c = 91 ∨ c = 58) := by
  cases it with
  | id f => exact ⟨35, _, by rw [SItem.render], Or.inl rfl⟩
  | cls f => exact ⟨46, _, by rw [SItem.render], Or.inr (Or.inl rfl)⟩
  | attr a => exact ⟨91, _, by rw [SItem.render, SAttr.render], Or.inr (Or.inr (Or.inl rfl))⟩
  | pseudo f => exact ⟨58, _, by rw [SItem.render], Or.inr (Or.inr (Or.inr rfl))⟩
  | fn f g₁ l g₂ => exact ⟨58, _, by rw [SItem.render], Or.inr (Or.inr (Or.inr rfl))⟩
  | nth f g₁ a g₂ => exact ⟨58, _, by rw [SItem.render], Or.inr (Or.inr (Or.inr rfl))⟩
  | nthOf f g₁ a dg1 m dg2 l g₂ => exact ⟨58, _, by rw [SItem.render], Or.inr (Or.inr (Or.inr rfl))⟩
  | dir f g₁ ltr m g₂ => exact ⟨58, _, by rw [SItem.render], Or.inr (Or.inr (Or.inr rfl))⟩

/-- Text that begins like something that may follow an identifier in the covered grammar. -/
def SafeStart (r : Str) : Prop :=
  ∀ c ∈ r.head?, identContChar c = false ∧ c ≠ 92 ∧ c ≠ 124 ∧ c ≠ 40

theorem SafeStart.not_cont {r : Str} (h : SafeStart r) : ¬ continuesIdent r := by
  cases r with
  | nil => simp [continuesIdent]
  | cons c cs =>
    have := h c (by simp)
    simp [continuesIdent, this.1, this.2.1]

theorem SafeStart.not_bar {r : Str} (h : SafeStart r) : r.head? ≠ some 124 := by
  intro e
  exact (h 124 (by simp [e])).2.2.1 rfl

theorem SafeStart.not_paren {r : Str} (h : SafeStart r) : r.head? ≠ some 40 := by
  intro e
  exact (h 40 (by simp [e])).2.2.2 rfl

theorem safeStart_cons (x : Nat) (xs : Str)
    (h : identContChar x = false ∧ x ≠ 92 ∧ x ≠ 124 ∧ x ≠ 40) : SafeStart (x :: xs) := by
  intro y hy
  simp only [List.head?_cons, Option.mem_def, Option.some.injEq] at hy
  subst hy; exact h

theorem safeStart_items (items : List SItem) (r : Str) (hr : SafeStart r) :
    SafeStart (renderItems items ++ r) := by
  cases items with
  | nil => simpa [renderItems] using hr
  | cons it rest =>
    obtain ⟨c, cs, hc, h⟩ := it.render_cons
    rw [renderItems, hc]
    apply safeStart_cons
    rcases h with h | h | h | h <;> subst h <;> decide

theorem safeStart_of_combHead (x : Nat) (xs : Str)
    (h : isCssWs x = true ∨ x = 47 ∨ isComb x = true ∨ x = 41) : SafeStart (x :: xs) := by
  apply safeStart_cons
  rcases h with h | h | h | h
  · simp only [isCssWs, Bool.or_eq_true, beq_iff_eq] at h
    rcases h with (((h | h) | h) | h) | h <;> subst h <;> decide
  · subst h; decide
  · simp only [isComb, Bool.or_eq_true, beq_iff_eq] at h
    rcases h with ((h | h) | h) | h <;> subst h <;> decide
  · subst h; decide

theorem safeStart_gap (g : Str) (hg : isGap g) : SafeStart g := by
  cases g with
  | nil => intro c hc; simp at hc
  | cons c cs =>
    rcases gap_head hg c (by simp) with h | h
    · exact safeStart_of_combHead c cs (Or.inl h)
    · exact safeStart_of_combHead c cs (Or.inr (Or.inl h))

theorem safeStart_close (g r : Str) (hg : isGap g) : SafeStart (g ++ 41 :: r) := by
  cases g with
  | nil => exact safeStart_of_combHead 41 r (Or.inr (Or.inr (Or.inr rfl)))
  | cons c cs =>
    rcases gap_head hg c (by simp) with h | h
    · exact safeStart_of_combHead c _ (Or.inl h)
    · exact safeStart_of_combHead c _ (Or.inr (Or.inl h))

theorem SComb.render_head (cb : SComb) (h : cb.ok) :
    ∃ x xs, cb.render = x :: xs ∧ (isCssWs x = true ∨ x = 47 ∨ isComb x = true) := by
  cases cb with
  | sym g₁ c g₂ =>
    cases g₁ with
    | nil => exact ⟨c, g₂, rfl, Or.inr (Or.inr h.2.2)⟩
    | cons y ys =>
      refine ⟨y, ys ++ c :: g₂, rfl, ?_⟩
      rcases gap_head h.1 y (by simp) with h | h
      · exact Or.inl h
      · exact Or.inr (Or.inl h)
  | desc g =>
    have hg : DescGap g := h
    cases g with
    | nil => exact absurd rfl hg.ne_nil
    | cons y ys =>
      refine ⟨y, ys, rfl, ?_⟩
      rcases gap_head hg.isGap y (by simp) with h | h
      · exact Or.inl h
      · exact Or.inr (Or.inl h)

theorem safeStart_rest (rest : List (SComb × SCompound)) (r : Str) (hok : restOK rest r)
    (hr : SafeStart r) : SafeStart (renderRest rest ++ r) := by
  cases rest with
  | nil => simpa [renderRest] using hr
  | cons x rest =>
    rw [restOK] at hok
    obtain ⟨y, ys, hy, h⟩ := x.1.render_head hok.1
    simp only [renderRest, hy, List.cons_append]
    apply safeStart_of_combHead
    rcases h with h | h | h
    · exact Or.inl h
    · exact Or.inr (Or.inl h)
    · exact Or.inr (Or.inr (Or.inl h))

/-- First character of a compound: no gap, no combinator, no closing parenthesis. -/
theorem SCompound.render_head (c : SCompound) (r : Str) (hok : c.ok r) :
    ∃ x xs, c.render = x :: xs ∧ isCssWs x = false ∧ x ≠ 47 ∧ isComb x = false ∧ x ≠ 41 := by
  obtain ⟨tag, items⟩ := c
  simp only [SCompound.ok] at hok
  obtain ⟨htag, _, hne⟩ := hok
  cases tag with
  | none =>
    have hne' : items ≠ [] := by simpa using hne
    cases items with
    | nil => exact absurd rfl hne'
    | cons it rest =>
      obtain ⟨x, xs, hx, h⟩ := it.render_cons
      refine ⟨x, xs ++ renderItems rest, by simp [SCompound.render, renderItems, hx], ?_⟩
      rcases h with h | h | h | h <;> subst h <;> decide
  | some tg =>
    cases tg with
    | star => exact ⟨42, renderItems items, by simp [SCompound.render, STag.render],
        by decide, by decide, by decide, by decide⟩
    | name f =>
      obtain ⟨_, hh, _⟩ := htag
      obtain ⟨x, xs, hx, h⟩ := headOk_first f hh
      refine ⟨x, xs ++ renderItems items, by simp [SCompound.render, STag.render, hx], ?_⟩
      rcases h with h | h | h
      · subst h; decide
      · subst h; decide
      · simp only [identStartChar, Bool.or_eq_true, Bool.and_eq_true, decide_eq_true_eq, beq_iff_eq] at h
        refine ⟨by simp [isCssWs]; omega, by omega, by simp [isComb]; omega, by omega⟩

theorem SCompound.render_noGap (c : SCompound) (r t : Str) (hok : c.ok r) :
    noGapStart (c.render ++ t) = true := by
  obtain ⟨x, xs, hx, hw, h47, _, _⟩ := c.render_head r hok
  simp [hx, noGapStart, hw, h47]

theorem SSelList.render_noGap (l : SSelList) (r t : Str) (hok : l.ok r) :
    noGapStart (l.render ++ t) = true := by
  obtain ⟨first, rest⟩ := l
  rw [SSelList.ok] at hok
  rw [SSelList.render, List.append_assoc]
  exact first.render_noGap _ _ hok.1

/-! ### Sizes against text lengths -/

theorem identOK_length {f : Forms} {r : Str} (h : identOK f r) : 1 ≤ (renderIdentWith f).length := by
  obtain ⟨x, xs, hx, _⟩ := headOk_first f h.2.1
  simp [hx]

mutual
theorem SItem.need_le : ∀ (it : SItem) (r : Str), it.ok r → it.need + 1 ≤ it.render.length
  | .id f, r, h => by rw [SItem.ok] at h; have := identOK_length h; simp [SItem.need, SItem.render]
  | .cls f, r, h => by rw [SItem.ok] at h; have := identOK_length h; simp [SItem.need, SItem.render]
  | .attr a, r, h => by simp [SItem.need, SItem.render, SAttr.render]
  | .pseudo f, r, h => by simp [SItem.need, SItem.render]
  | .fn f g₁ l g₂, r, h => by
    rw [SItem.ok] at h
    have h1 := identOK_length h.1
    have h2 := SSelList.cost_le l _ h.2.2.2.2
    simp only [SItem.need, SItem.render, List.length_cons, List.length_append, List.length_nil]
    omega
  | .nth f g₁ a g₂, r, h => by simp [SItem.need, SItem.render]
  | .dir f g₁ ltr m g₂, r, h => by simp [SItem.need, SItem.render]
  | .nthOf f g₁ a dg1 m dg2 l g₂, r, h => by
    rw [SItem.ok] at h
    have h1 := identOK_length h.1
    have h2 := SSelList.cost_le l _ h.2.2.2.2.2.2.2
    simp only [SItem.need, SItem.render, List.length_cons, List.length_append, List.length_nil]
    omega
theorem itemsNeed_le : ∀ (items : List SItem) (r : Str), itemsOK items r →
    itemsNeed items + items.length ≤ (renderItems items).length
  | [], _, _ => by simp [itemsNeed, renderItems]
  | it :: rest, r, h => by
    rw [itemsOK] at h
    have h1 := SItem.need_le it _ h.1
    have h2 := itemsNeed_le rest r h.2
    simp only [itemsNeed, renderItems, List.length_cons, List.length_append]
    omega
theorem SCompound.need_le : ∀ (c : SCompound) (r : Str), c.ok r → c.need + c.size ≤ c.render.length
  | .mk tag items, r, h => by
    simp only [SCompound.ok] at h
    have h1 := itemsNeed_le items r h.2.1
    cases tag with
    | none => simpa [SCompound.need, SCompound.size, SCompound.render] using h1
    | some tg =>
      have h2 : 1 ≤ tg.render.length := by
        cases tg with
        | star => simp [STag.render]
        | name f => exact identOK_length h.1
      simp only [SCompound.need, SCompound.size, SCompound.render, Option.isSome_some, if_true,
        List.length_append]
      omega
theorem restNeed_le : ∀ (rest : List (SComb × SCompound)) (r : Str), restOK rest r →
    restNeed rest + restSize rest ≤ (renderRest rest).length
  | [], _, _ => by simp [restNeed, restSize, renderRest]
  | x :: rest, r, h => by
    rw [restOK] at h
    obtain ⟨y, ys, hy, _⟩ := x.1.render_head h.1
    have h1 := SCompound.need_le x.2 _ h.2.1
    have h2 := restNeed_le rest r h.2.2
    simp only [restNeed, restSize, renderRest, List.length_append, hy, List.length_cons]
    omega
theorem SSelList.cost_le : ∀ (l : SSelList) (r : Str), l.ok r → l.cost ≤ l.render.length + 1
  | .mk first rest, r, h => by
    rw [SSelList.ok] at h
    have h1 := SCompound.need_le first _ h.1
    have h2 := restNeed_le rest r h.2
    simp only [SSelList.cost, SSelList.render, List.length_append]
    omega
end

/-! ### Frames: the abstract steps do not look at positions -/

theorem setF_setF (st : LS) (p i : Nat) (c : Custom) (p' i' : Nat) (c' : Custom) :
    setF (setF st p i c) p' i' c' = setF st p' i' c' := rfl

theorem foldRest_frame (B : Builtins) (ip : Bool) : ∀ (l : List (Nat × Compound)) (st : LS)
    (p idx : Nat) (c : Custom),
    foldRest B ip l (setF st p idx c) = setF (foldRest B ip l st) p idx c
  | [], _, _, _, _ => by simp [foldRest]
  | x :: rest, st, p, idx, c => by
    rw [foldRest, foldRest, ← foldRest_frame B ip rest]
    congr 1
    by_cases h : (x.1 == 44) = true <;> simp [setF, combStep, h]

theorem foldRest_hasSelector (B : Builtins) (ip : Bool) : ∀ (l : List (Nat × Compound)) (st : LS),
    st.hasSelector = true → (foldRest B ip l st).hasSelector = true
  | [], _, h => by simpa [foldRest] using h
  | x :: rest, st, _ => by rw [foldRest]; exact foldRest_hasSelector B ip rest _ rfl

/-! ## Facts about the pseudo-class tables -/

/-- The flags of the nested `parse_selectors` call for `:not(` (0x43), `:is(` / `:where(` (0x441),
    `:matches(` (0x41). -/
def NestedFlags (fl : Nat) : Prop := fl = 67 ∨ fl = 1089 ∨ fl = 65

theorem fnName_facts (n : Str) (h : fnName n) :
    ∃ fl, NestedFlags fl ∧
      (FLG_PSEUDO ||| FLG_OPEN |||
        (if n == ":not".toStr then FLG_NOT
         else if n == ":has".toStr then FLG_RELATIVE
         else if n == ":where".toStr || n == ":is".toStr then FLG_FORGIVE else 0)) = fl ∧
      (((fl &&& FLG_NOT) != 0) = (n == ":not".toStr)) ∧
      inList Gen.lexicon.pseudoComplex n = true ∧
      Gen.lexicon.special.find? (fun e => e.1 == n) = none ∧
      n.tail.head? ≠ some 45 := by
  rcases h with h | h | h | h <;> subst h
  · exact ⟨67, Or.inl rfl, by decide, by decide, by decide, by decide, by decide⟩
  · exact ⟨1089, Or.inr (Or.inl rfl), by decide, by decide, by decide, by decide, by decide⟩
  · exact ⟨1089, Or.inr (Or.inl rfl), by decide, by decide, by decide, by decide, by decide⟩
  · exact ⟨65, Or.inr (Or.inr rfl), by decide, by decide, by decide, by decide, by decide⟩

theorem plain_tables_no_dash : ∀ n ∈ Gen.lexicon.pseudoSimple ++ Gen.lexicon.pseudoSimpleNoMatch,
    n.tail.head? ≠ some 45 := by decide

theorem plainName_no_dash (n : Str) (h : plainName n) : n.tail.head? ≠ some 45 := by
  apply plain_tables_no_dash
  rw [List.mem_append]
  rcases h with h | h
  · left
    simp only [inList, List.any_eq_true, beq_iff_eq] at h
    obtain ⟨m, hm, rfl⟩ := h; exact hm
  · right
    simp only [inList, List.any_eq_true, beq_iff_eq] at h
    obtain ⟨m, hm, rfl⟩ := h; exact hm

/-- The text of a pseudo-class name whose value does not begin with `-` does not begin with `-`. -/
theorem name_head (f : Forms) (hh : headOk f = true)
    (hval : (58 :: lower (valueOf f)).tail.head? ≠ some 45) :
    ∃ x xs, renderIdentWith f = x :: xs ∧ x ≠ 45 := by
  cases f with
  | nil => simp [headOk] at hh
  | cons p rest =>
    obtain ⟨c, frm⟩ := p
    rw [SpellingLemmas.renderIdentWith_cons]
    cases frm with
    | lit =>
      refine ⟨c, renderIdentWith rest, by simp [renderForm], ?_⟩
      intro e; subst e
      simp [valueOf, lower, lowerCp] at hval
    | bs => exact ⟨92, c :: renderIdentWith rest, by simp [renderForm], by omega⟩
    | hex d m w =>
      exact ⟨92, hexText c d m ++ wsText w ++ renderIdentWith rest, by simp [renderForm], by omega⟩

theorem initLS_nested (pos idx fl : Nat) (cust : Custom) (h : NestedFlags fl) :
    initLS pos idx fl cust = setF ({} : LS) pos idx cust := by
  rcases h with h | h | h <;> subst h <;> rfl

theorem finishSel_nested (B : Builtins) (s : Str) (fl : Nat) (st : LS) (hfl : NestedFlags fl)
    (h : st.hasSelector = true) (hc : st.closed = true) :
    finishSel pyFoldEnv Gen.lexicon B s fl st =
      .ok (finishNested ((fl &&& FLG_NOT) != 0) st, st.pos, st.custom) := by
  rcases hfl with e | e | e <;> subst e <;>
    simp [finishSel, cleanupLS, finalSels, finishNested, h, hc, FLG_OPEN, FLG_PSEUDO, FLG_RELATIVE,
      FLG_FORGIVE, FLG_DEFAULT, FLG_INDETERMINATE, FLG_IN_RANGE, FLG_OUT_OF_RANGE, FLG_PLACEHOLDER_SHOWN,
      FLG_NOT]

theorem finishSel_top (B : Builtins) (s : Str) (st : LS) (h : st.hasSelector = true) :
    finishSel pyFoldEnv Gen.lexicon B s 0 st = .ok (finishTop st, st.pos, st.custom) := by
  simp [finishSel, cleanupLS, finalSels, finishTop, h]

theorem nested_flags_facts (fl : Nat) (h : NestedFlags fl) :
    ((fl &&& FLG_RELATIVE) != 0) = false ∧ ((fl &&& FLG_PSEUDO) != 0) = true ∧
      ((fl &&& FLG_OPEN) != 0) = true := by
  rcases h with e | e | e <;> subst e <;> decide

/-! ## The simulation: the parser loop on the text of the spelled syntax -/

section Run
variable (B : Builtins) (s : Str)

theorem opText_cases (o : Option Nat) (h : ∀ x, o = some x → isCmp x = true) :
    opText o = [61] ∨ ∃ x, isCmp x = true ∧ opText o = [x, 61] := by
  cases o with
  | none => exact Or.inl rfl
  | some x => exact Or.inr ⟨x, h x rfl, rfl⟩

theorem SValue.render_noGap (v : SValue) (r t : Str) (hok : v.ok r) : noGapStart (v.render ++ t) = true := by
  cases v with
  | ident f =>
    obtain ⟨x, xs, hxs, hx⟩ := headOk_first f hok.1.2.1
    simp only [SValue.render, hxs, List.cons_append, Spelling.noGapStart]
    rcases hx with h | h | h
    · subst h; rfl
    · subst h; rfl
    · simp only [identStartChar, Bool.or_eq_true, Bool.and_eq_true, decide_eq_true_eq, beq_iff_eq] at h
      have h1 : isCssWs x = false := by simp [isCssWs]; omega
      have h2 : x ≠ 47 := by omega
      simp [h1, h2]
  | str q ps =>
    rcases hok.1 with h | h <;> subst h <;> simp [SValue.render, Spelling.noGapStart, isCssWs]

/-- The first run of `VALUE` on a spelled value, and its decoding. -/
theorem SValue.facts (v : SValue) (t : Str) (hok : v.ok t) :
    (∀ v0 c, s.drop v0 = v.render ++ t →
      (runs pyFoldEnv s rxValue v0 c).head? = some (v0 + v.render.length, c)) ∧
    rawValue v.render = v.value := by
  cases v with
  | ident f =>
    obtain ⟨⟨hv, hh, hcp⟩, hr⟩ := hok
    exact ⟨fun v0 c hd => value_head_ident s c hd hv hh hr,
      rawValue_ident f (SpellingLemmas.validForms_nil_of f t hv) hh hcp⟩
  | str q ps =>
    obtain ⟨hq, hv, hr⟩ := hok
    refine ⟨fun v0 c hd => ?_, rawValue_quoted q ps hq hv hr⟩
    have := value_head_quoted s c hq (r := t) (by simpa [SValue.render] using hd) hv
    rw [this]
    simp only [SValue.render, List.length_cons, List.length_append, List.length_nil,
      Option.some.injEq, Prod.mk.injEq, and_true]
    omega

theorem run_attr (flags : Nat) (a : SAttr) (st : LS) (fuel : Nat) (r : Str)
    (hd : s.drop st.pos = a.render ++ r) (hok : a.ok r) :
    ∃ p idx, s.drop p = r ∧
      parseLoop pyFoldEnv Gen.lexicon B s (fuel + 1) flags st =
        parseLoop pyFoldEnv Gen.lexicon B s fuel flags
          { st with pos := p, index := idx, sel := a.value.apply st.sel, hasSelector := true } := by
  obtain ⟨g0, name, body, g4⟩ := a
  obtain ⟨hg0, hg4, ⟨hv, hh, hcp⟩, hbody⟩ := hok
  cases body with
  | none =>
    simp only [SAttr.render, SAttr.afterName, List.cons_append, List.append_assoc,
      List.nil_append] at hd hv
    exact step_attr_noop B s fuel flags st hd hg0 hg4 hv hh hcp
  | some b =>
    obtain ⟨g1, op, g2, value, flag⟩ := b
    obtain ⟨hg1, hg2, hop, hval, hflag⟩ := hbody
    have hop' := opText_cases op hop
    cases flag with
    | none =>
      simp only [SAttr.render, SAttr.afterName, flagText, List.cons_append, List.append_assoc,
        List.nil_append] at hd hv hval
      obtain ⟨h1, h2⟩ := SValue.facts s value _ hval
      exact step_attr_op_noflag B s fuel flags st value.value hd hg0 hg1 hg2 hg4 hop' hv hh hcp
        (value.render_noGap _ _ hval) h1 h2
    | some gf =>
      obtain ⟨g3, f⟩ := gf
      obtain ⟨hg3, hf⟩ := hflag g3 f rfl
      simp only [SAttr.render, SAttr.afterName, flagText, List.cons_append, List.append_assoc,
        List.nil_append] at hd hv hval
      obtain ⟨h1, h2⟩ := SValue.facts s value _ hval
      exact step_attr_op_flag B s fuel flags st value.value hd hg0 hg1 hg2 hg3 hg4 hf hop' hv hh hcp
        (value.render_noGap _ _ hval) h1 h2

mutual
theorem run_item : ∀ (it : SItem) (flags : Nat) (st : LS) (fuel : Nat) (r : Str),
    s.drop st.pos = it.render ++ r → it.ok r → SafeStart r → it.need ≤ fuel →
    ∃ p idx, s.drop p = r ∧
      parseLoop pyFoldEnv Gen.lexicon B s (fuel + 1) flags st =
        parseLoop pyFoldEnv Gen.lexicon B s fuel flags
          { st with pos := p, index := idx, sel := it.value.apply B st.sel, hasSelector := true }
  | .id f, flags, st, fuel, r, hd, hok, hr, _ => by
    rw [SItem.render] at hd
    rw [SItem.ok] at hok
    obtain ⟨hv, hh, hcp⟩ := hok
    exact ⟨_, _, drop_add_of_drop_append hd, step_id B s fuel flags st hd hv hh hr.not_cont hcp⟩
  | .cls f, flags, st, fuel, r, hd, hok, hr, _ => by
    rw [SItem.render] at hd
    rw [SItem.ok] at hok
    obtain ⟨hv, hh, hcp⟩ := hok
    exact ⟨_, _, drop_add_of_drop_append hd, step_class B s fuel flags st hd hv hh hr.not_cont hcp⟩
  | .attr a, flags, st, fuel, r, hd, hok, _, _ => by
    rw [SItem.render] at hd
    rw [SItem.ok] at hok
    exact run_attr B s flags a st fuel r hd hok
  | .pseudo f, flags, st, fuel, r, hd, hok, hr, _ => by
    rw [SItem.render] at hd
    rw [SItem.ok] at hok
    obtain ⟨⟨hv, hh, hcp⟩, hname⟩ := hok
    obtain ⟨x, xs, hxs, hx⟩ := name_head f hh (plainName_no_dash _ hname)
    exact step_pseudo_plain s B fuel flags st (by simpa using hd) hxs hx hv hh hr.not_cont
      hr.not_paren hcp hname
  | .fn f g₁ l g₂, flags, st, fuel, r, hd, hok, hr, hn => by
    rw [SItem.render] at hd
    simp only [List.cons_append, List.append_assoc, List.nil_append] at hd
    rw [SItem.ok] at hok
    obtain ⟨⟨hv, hh, hcp⟩, hname, hg₁, hg₂, hl⟩ := hok
    obtain ⟨fl, hnf, hfl, hnot, hin, hfind, hdash⟩ := fnName_facts _ hname
    obtain ⟨x, xs, hxs, hx⟩ := name_head f hh hdash
    have hR : noGapStart (l.render ++ (g₂ ++ 41 :: r)) = true := l.render_noGap _ _ hl
    have hnt := nextToken_pseudo_open s B hd hxs hx hv hh hcp hg₁ hR hfind
    -- positions
    have hd1 : s.drop (st.pos + 1) = renderIdentWith f ++ (40 :: (g₁ ++ (l.render ++ (g₂ ++ 41 :: r)))) :=
      Refine.Ident.drop_succ_of_drop_cons hd
    have hde := drop_add_of_drop_append hd1
    have hde1 : s.drop (st.pos + 1 + (renderIdentWith f).length + 1) = g₁ ++ (l.render ++ (g₂ ++ 41 :: r)) :=
      Refine.Ident.drop_succ_of_drop_cons hde
    have hstop := drop_add_of_drop_append hde1
    -- the nested list
    rw [SItem.need] at hn
    obtain ⟨k, rfl⟩ : ∃ k, fuel = k + 1 := ⟨fuel - 1, by omega⟩
    obtain ⟨p', hp', hsub⟩ := run_list l fl (st.pos + 1 + (renderIdentWith f).length + 1 + g₁.length)
      (st.pos + 1 + (renderIdentWith f).length + 1 + g₁.length) st.custom k g₂ r hnf hstop hl hg₂ (by omega)
    -- the token's groups
    have hsl1 : slice s st.pos (st.pos + 1 + (renderIdentWith f).length) = 58 :: renderIdentWith f := by
      have := slice_of_drop_append (s := s) (p := st.pos) (a := 58 :: renderIdentWith f)
        (r := 40 :: (g₁ ++ (l.render ++ (g₂ ++ 41 :: r)))) (by rw [hd]; rfl)
      rw [← this]; congr 1; simp only [List.length_cons]; omega
    have hsl2 : slice s (st.pos + 1 + (renderIdentWith f).length)
        (st.pos + 1 + (renderIdentWith f).length + 1 + g₁.length) = 40 :: g₁ := by
      have := slice_of_drop_append (s := s) (p := st.pos + 1 + (renderIdentWith f).length) (a := 40 :: g₁)
        (r := l.render ++ (g₂ ++ 41 :: r)) (by rw [hde]; rfl)
      rw [← this]; congr 1; simp only [List.length_cons]; omega
    refine ⟨p', st.pos + 1 + (renderIdentWith f).length + 1 + g₁.length, hp', ?_⟩
    rw [parseLoop_pseudo_open B _ _ _ (k + 1) flags st _ hnt rfl (40 :: g₁)
      (by simp [Token.group, Parser.group, pclassTok, Gen.tok_pseudo_class_groups, capSpan, hsl2]) rfl
      (58 :: lower (valueOf f))
      (by
        have : (pclassTok st.pos (st.pos + 1 + (renderIdentWith f).length + 1 + g₁.length)
            [(2, st.pos + 1 + (renderIdentWith f).length,
                st.pos + 1 + (renderIdentWith f).length + 1 + g₁.length),
             (1, st.pos, st.pos + 1 + (renderIdentWith f).length)]).group (penv B s) "name" =
            some (58 :: renderIdentWith f) := by
          simp [Token.group, Parser.group, pclassTok, Gen.tok_pseudo_class_groups, capSpan, hsl1]
        simp only [penv] at this
        rw [this]
        simp only [Option.getD_some]
        rw [unescape_colon_forms f (SpellingLemmas.validForms_nil_of f _ hv) hcp]
        rfl)
      hin fl hfl _ p' st.custom hsub]
    rw [SItem.value, Item.apply, hnot]
    rfl
  | .nth f g₁ a g₂, flags, st, fuel, r, hd, hok, hr, _ => by
    rw [SItem.render] at hd
    simp only [List.cons_append, List.append_assoc, List.nil_append] at hd
    rw [SItem.ok] at hok
    obtain ⟨⟨hv, hh, hcp⟩, hname, hg₁, hg₂, ha⟩ := hok
    rw [SItem.value, Item.apply]
    rcases hname with hname | hname
    · exact step_nth_type B s fuel flags st a ha hd hv hh hcp hg₁ hg₂ hname
    · exact step_nth_child B s fuel flags st a ha hd hv hh hcp hg₁ hg₂ hname
  | .nthOf f g₁ a dg1 m dg2 l g₂, flags, st, fuel, r, hd, hok, hr, hn => by
    rw [SItem.render] at hd
    simp only [List.cons_append, List.append_assoc, List.nil_append] at hd
    rw [SItem.ok] at hok
    obtain ⟨⟨hv, hh, hcp⟩, hname, hg₁, ha, hdg1, hdg2, hg₂, hl⟩ := hok
    have hR : noGapStart (l.render ++ (g₂ ++ 41 :: r)) = true := l.render_noGap _ _ hl
    have hof : lower (mixCase m "of".toStr) = "of".toStr := SpellingLemmas.lower_mixCase m _ (by decide)
    have hoflen : (mixCase m "of".toStr).length = 2 := by rw [SpellingLemmas.mixCase_length]; rfl
    -- where the nested list starts
    have hd1 : s.drop (st.pos + 1) = renderIdentWith f ++ (40 :: (g₁ ++ (a.render ++ (dg1 ++
        (mixCase m "of".toStr ++ (dg2 ++ (l.render ++ (g₂ ++ 41 :: r)))))))) :=
      Refine.Ident.drop_succ_of_drop_cons hd
    have hde := drop_add_of_drop_append hd1
    have hde1 : s.drop (st.pos + 1 + (renderIdentWith f).length + 1) = g₁ ++ (a.render ++ (dg1 ++
        (mixCase m "of".toStr ++ (dg2 ++ (l.render ++ (g₂ ++ 41 :: r)))))) :=
      Refine.Ident.drop_succ_of_drop_cons hde
    have hda := drop_add_of_drop_append hde1
    have hdg := drop_add_of_drop_append hda
    have hdo := drop_add_of_drop_append hdg
    have hdo2 := drop_add_of_drop_append hdo
    have hstop := drop_add_of_drop_append hdo2
    rw [hoflen] at hdo2 hstop
    rw [SItem.need] at hn
    obtain ⟨k, rfl⟩ : ∃ k, fuel = k + 1 := ⟨fuel - 1, by omega⟩
    obtain ⟨p', hp', hsub⟩ := run_list l 65
      (st.pos + 1 + (renderIdentWith f).length + 1 + g₁.length + a.render.length + dg1.length + 2 + dg2.length)
      (st.pos + 1 + (renderIdentWith f).length + 1 + g₁.length + a.render.length + dg1.length + 2 + dg2.length)
      st.custom k g₂ r (Or.inr (Or.inr rfl)) hstop hl hg₂ (by omega)
    refine ⟨p', st.pos + 1 + (renderIdentWith f).length + 1 + g₁.length + a.render.length + dg1.length + 2 +
      dg2.length, hp', ?_⟩
    rw [step_nth_child_of B s (k + 1) flags st a ha hd hv hh hcp hg₁ hdg1 hdg2 hof hR hname _ p' hsub,
      SItem.value, Item.apply]
    rfl
  | .dir f g₁ ltr m g₂, flags, st, fuel, r, hd, hok, hr, _ => by
    rw [SItem.render] at hd
    simp only [List.cons_append, List.append_assoc, List.nil_append] at hd
    rw [SItem.ok] at hok
    obtain ⟨⟨hv, hh, hcp⟩, hname, hg₁, hg₂⟩ := hok
    rw [SItem.value, Item.apply]
    exact step_dir s B fuel flags st ltr hd hv hh hcp hg₁ hg₂
      (SpellingLemmas.lower_mixCase m _ (by cases ltr <;> decide)) hname
theorem run_items : ∀ (items : List SItem) (flags : Nat) (st : LS) (fuel : Nat) (r : Str),
    s.drop st.pos = renderItems items ++ r → itemsOK items r → SafeStart r → itemsNeed items ≤ fuel →
    ∃ p idx, s.drop p = r ∧
      parseLoop pyFoldEnv Gen.lexicon B s (fuel + items.length) flags st =
        parseLoop pyFoldEnv Gen.lexicon B s fuel flags
          { st with pos := p, index := idx,
                    sel := applyItems B (itemsValue items) st.sel,
                    hasSelector := st.hasSelector || !items.isEmpty }
  | [], flags, st, fuel, r, hd, _, _, _ => by
    refine ⟨st.pos, st.index, by simpa [renderItems] using hd, ?_⟩
    simp [itemsValue, applyItems]
  | it :: rest, flags, st, fuel, r, hd, hok, hr, hn => by
    have hsafe := safeStart_items rest r hr
    rw [itemsOK] at hok
    obtain ⟨hit, hrest⟩ := hok
    rw [renderItems, List.append_assoc] at hd
    rw [itemsNeed] at hn
    obtain ⟨p₁, i₁, hp₁, h1⟩ := run_item it flags st (fuel + rest.length) _ hd hit hsafe (by omega)
    obtain ⟨p, idx, hp, h2⟩ := run_items rest flags
      { st with pos := p₁, index := i₁, sel := it.value.apply B st.sel, hasSelector := true }
      fuel r hp₁ hrest hr (by omega)
    refine ⟨p, idx, hp, ?_⟩
    rw [List.length_cons, ← Nat.add_assoc, h1, h2]
    simp [itemsValue, applyItems]
theorem run_compound : ∀ (c : SCompound) (flags : Nat) (st : LS) (fuel : Nat) (r : Str),
    s.drop st.pos = c.render ++ r → c.ok r → SafeStart r → c.need ≤ fuel → st.hasSelector = false →
    ∃ p idx, s.drop p = r ∧
      parseLoop pyFoldEnv Gen.lexicon B s (fuel + c.size) flags st =
        parseLoop pyFoldEnv Gen.lexicon B s fuel flags
          { st with pos := p, index := idx, sel := c.value.buildOn B st.sel, hasSelector := true }
  | .mk tag items, flags, st, fuel, r, hd, hok, hr, hn, hs => by
    simp only [SCompound.ok] at hok
    obtain ⟨htag, hitems, hne⟩ := hok
    rw [SCompound.need] at hn
    have hsafe := safeStart_items items r hr
    cases tag with
    | none =>
      have hne' : items ≠ [] := by simpa using hne
      obtain ⟨p, idx, hp, h⟩ := run_items items flags st fuel r
        (by simpa [SCompound.render] using hd) hitems hr hn
      refine ⟨p, idx, hp, ?_⟩
      have he : items.isEmpty = false := by cases items <;> simp at hne' ⊢
      simpa [SCompound.size, SCompound.value, Compound.buildOn, he] using h
    | some tg =>
      simp only [SCompound.render, List.append_assoc] at hd
      cases tg with
      | star =>
        have h1 := step_tag_star B s (fuel + items.length) flags st hd hsafe.not_bar hs
        obtain ⟨p, idx, hp, h2⟩ := run_items items flags
          { st with pos := st.pos + 1, sel := st.sel.setTag ⟨[42], none⟩, hasSelector := true,
                    index := st.pos + 1 } fuel r (drop_add_of_drop_append hd) hitems hr hn
        refine ⟨p, idx, hp, ?_⟩
        have : fuel + SCompound.size (.mk (some .star) items) = fuel + items.length + 1 := by
          simp [SCompound.size]; omega
        rw [this, h1, h2]
        simp [SCompound.value, Compound.buildOn, STag.value]
      | name f =>
        obtain ⟨hv, hh, hcp⟩ := htag
        have h1 := step_tag_ident B s (fuel + items.length) flags st hd hv hh hsafe.not_cont
          hsafe.not_bar hcp hs
        obtain ⟨p, idx, hp, h2⟩ := run_items items flags
          { st with pos := st.pos + (renderIdentWith f).length,
                    sel := st.sel.setTag ⟨valueOf f, none⟩, hasSelector := true,
                    index := st.pos + (renderIdentWith f).length } fuel r
          (drop_add_of_drop_append hd) hitems hr hn
        refine ⟨p, idx, hp, ?_⟩
        have : fuel + SCompound.size (.mk (some (.name f)) items) = fuel + items.length + 1 := by
          simp [SCompound.size]; omega
        rw [this, h1, h2]
        simp [SCompound.value, Compound.buildOn, STag.value]
theorem run_rest : ∀ (rest : List (SComb × SCompound)) (flags : Nat) (st : LS) (fuel : Nat) (r : Str),
    ((flags &&& FLG_RELATIVE) != 0) = false →
    s.drop st.pos = renderRest rest ++ r → restOK rest r → SafeStart r → restNeed rest ≤ fuel →
    st.hasSelector = true →
    ∃ p idx, s.drop p = r ∧
      parseLoop pyFoldEnv Gen.lexicon B s (fuel + restSize rest) flags st =
        parseLoop pyFoldEnv Gen.lexicon B s fuel flags
          (setF (foldRest B ((flags &&& FLG_PSEUDO) != 0) (restValue rest) st) p idx st.custom)
  | [], flags, st, fuel, r, _, hd, _, _, _, _ => by
    exact ⟨st.pos, st.index, by simpa [renderRest] using hd, rfl⟩
  | (cb, c) :: rest, flags, st, fuel, r, hrel, hd, hok, hr, hn, hs => by
    rw [restOK] at hok
    obtain ⟨hcb, hc, hrest⟩ := hok
    rw [restNeed] at hn
    have hn' : c.need + restNeed rest ≤ fuel := hn
    have hsafe := safeStart_rest rest r hrest hr
    obtain ⟨x, xs, hx, hxw, hx47, hxc, hx41⟩ := c.render_head _ hc
    have hRng : noGapStart (c.render ++ (renderRest rest ++ r)) = true := c.render_noGap _ _ hc
    -- the combinator token
    obtain ⟨p₁, i₁, hp₁, h₁⟩ : ∃ p idx, s.drop p = c.render ++ (renderRest rest ++ r) ∧
        parseLoop pyFoldEnv Gen.lexicon B s (fuel + restSize rest + c.size + 1) flags st =
          parseLoop pyFoldEnv Gen.lexicon B s (fuel + restSize rest + c.size) flags
            { combStep cb.value ((flags &&& FLG_PSEUDO) != 0) st with pos := p, index := idx } := by
      cases cb with
      | sym g₁ ch g₂ =>
        obtain ⟨hg₁, hg₂, hcomb⟩ := hcb
        exact step_comb B s _ flags st (c := ch)
          (by simpa [renderRest, SComb.render, List.append_assoc] using hd) hg₁ hg₂ hcomb hRng hrel hs
      | desc g =>
        exact step_desc B s _ flags st
          (by simpa [renderRest, SComb.render, List.append_assoc] using hd) hcb hRng
          (by simp [hx]) (by simp [hx, hxc]) (by simp [hx, hx41]) hrel hs
    -- the compound
    obtain ⟨p₂, i₂, hp₂, h₂⟩ := run_compound c flags
      { combStep cb.value ((flags &&& FLG_PSEUDO) != 0) st with pos := p₁, index := i₁ }
      (fuel + restSize rest) (renderRest rest ++ r) hp₁ hc hsafe (by omega)
      (by by_cases h : (cb.value == 44) = true <;> simp [combStep, h])
    -- the rest
    have hst : ({ ({ combStep cb.value ((flags &&& FLG_PSEUDO) != 0) st with pos := p₁, index := i₁ } : LS) with
        pos := p₂, index := i₂,
        sel := c.value.buildOn B ({ combStep cb.value ((flags &&& FLG_PSEUDO) != 0) st with
          pos := p₁, index := i₁ } : LS).sel,
        hasSelector := true } : LS) =
        setF { combStep cb.value ((flags &&& FLG_PSEUDO) != 0) st with
          sel := c.value.buildOn B SelB.empty, hasSelector := true } p₂ i₂ st.custom := by
      by_cases h : (cb.value == 44) = true <;> simp [setF, combStep, h]
    rw [hst] at h₂
    obtain ⟨p, idx, hp, h₃⟩ := run_rest rest flags
      (setF { combStep cb.value ((flags &&& FLG_PSEUDO) != 0) st with
          sel := c.value.buildOn B SelB.empty, hasSelector := true } p₂ i₂ st.custom)
      fuel r hrel hp₂ hrest hr (by omega) rfl
    refine ⟨p, idx, hp, ?_⟩
    have hf : fuel + restSize ((cb, c) :: rest) = fuel + restSize rest + c.size + 1 := by
      simp [restSize]; omega
    rw [hf, h₁, h₂, h₃, foldRest_frame, setF_setF, restValue, foldRest]
    rfl
theorem run_list : ∀ (l : SSelList) (fl pos idx : Nat) (cust : Custom) (f : Nat) (g₂ r : Str),
    NestedFlags fl → s.drop pos = l.render ++ (g₂ ++ 41 :: r) → l.ok (g₂ ++ 41 :: r) → isGap g₂ →
    l.cost ≤ f →
    ∃ p', s.drop p' = r ∧
      parseSelectors pyFoldEnv Gen.lexicon B s (f + 1) pos idx fl cust =
        .ok (finishNested ((fl &&& FLG_NOT) != 0) (l.value.loopState B true), p', cust)
  | .mk first rest, fl, pos, idx, cust, f, g₂, r, hfl, hd, hok, hg₂, hcost => by
    rw [SSelList.ok] at hok
    obtain ⟨hfirst, hrest⟩ := hok
    rw [SSelList.cost] at hcost
    obtain ⟨hrel, hps, hopen⟩ := nested_flags_facts fl hfl
    have hsafe0 := safeStart_close g₂ r hg₂
    have hsafe := safeStart_rest rest _ hrest hsafe0
    rw [SSelList.render, List.append_assoc] at hd
    rw [parseSelectors_succ, initLS_nested pos idx fl cust hfl]
    obtain ⟨p₁, i₁, hp₁, h₁⟩ := run_compound first fl (setF ({} : LS) pos idx cust)
      (f - first.size) _ hd hfirst hsafe (by omega) rfl
    rw [show f - first.size + first.size = f by omega] at h₁
    have h₁' : parseLoop pyFoldEnv Gen.lexicon B s f fl (setF ({} : LS) pos idx cust) =
        parseLoop pyFoldEnv Gen.lexicon B s (f - first.size) fl
          (setF { sel := first.value.buildOn B SelB.empty, hasSelector := true } p₁ i₁ cust) := h₁
    obtain ⟨p₂, i₂, hp₂, h₂⟩ := run_rest rest fl
      (setF { sel := first.value.buildOn B SelB.empty, hasSelector := true } p₁ i₁ cust)
      (f - first.size - restSize rest) _ hrel hp₁ hrest hsafe0 (by omega) rfl
    rw [show f - first.size - restSize rest + restSize rest = f - first.size by omega] at h₂
    obtain ⟨k, hk⟩ : ∃ k, f - first.size - restSize rest = k + 1 :=
      ⟨f - first.size - restSize rest - 1, by omega⟩
    rw [hk] at h₂
    have h₂' : parseLoop pyFoldEnv Gen.lexicon B s (f - first.size) fl
        (setF { sel := first.value.buildOn B SelB.empty, hasSelector := true } p₁ i₁ cust) =
      parseLoop pyFoldEnv Gen.lexicon B s (k + 1) fl
        (setF (foldRest B ((fl &&& FLG_PSEUDO) != 0) (restValue rest)
          (setF { sel := first.value.buildOn B SelB.empty, hasSelector := true } p₁ i₁ cust)) p₂ i₂ cust) := h₂
    obtain ⟨p', hp', h₃⟩ := step_close s B k fl
      (setF (foldRest B ((fl &&& FLG_PSEUDO) != 0) (restValue rest)
        (setF { sel := first.value.buildOn B SelB.empty, hasSelector := true } p₁ i₁ cust)) p₂ i₂ cust)
      hp₂ hg₂ (by
        rw [foldRest_frame]
        exact foldRest_hasSelector B _ _ _ rfl) hopen
    refine ⟨p', hp', ?_⟩
    rw [h₁', h₂', h₃]
    simp only
    rw [finishSel_nested B s fl _ hfl (by
      rw [foldRest_frame]
      exact foldRest_hasSelector B _ _ _ rfl) rfl]
    rw [hps, foldRest_frame, SSelList.value, SelListV.loopState]
    rfl
end

end Run

/-! ## From `compile` to the loop -/

theorem nulFix_id (pattern : Str) (h : ∀ c ∈ pattern, c ≠ 0) : nulFix pattern = pattern := by
  unfold nulFix
  conv => rhs; rw [← List.map_id pattern]
  apply List.map_congr_left
  intro c hc
  simp [h c hc]

/-- `compile` with no custom selectors and no NUL in the pattern: the loop, then `finishSel`. -/
theorem compile_unfold (B : Builtins) (pattern : Str) (flags : Nat) (h0 : ∀ c ∈ pattern, c ≠ 0) :
    Parser.compile pyFoldEnv Gen.lexicon B pattern [] flags =
      match parseLoop pyFoldEnv Gen.lexicon B pattern (2 * pattern.length + 7) flags
          (initLS (startIndex (penv B pattern)) 0 flags []) with
      | .error e => .error e
      | .ok st =>
        match finishSel pyFoldEnv Gen.lexicon B pattern flags st with
        | .error e => .error e
        | .ok r => .ok r.1 := by
  rw [C06.compile_eq, C06.compileF_def]
  have hc : processCustom pyFoldEnv Gen.lexicon [] = .ok [] := rfl
  rw [hc]
  simp only [nulFix_id pattern h0]
  have : C06.allotted pattern [] = (2 * pattern.length + 7) + 1 := by
    simp [C06.allotted, nulFix_id pattern h0]
  rw [this, parseSelectors_succ]
  cases parseLoop pyFoldEnv Gen.lexicon B pattern (2 * pattern.length + 7) flags
      (initLS (startIndex (penv B pattern)) 0 flags []) <;> rfl

/-! ## The theorem -/

/-- **The compiled result, computed from the values.**  For every selector list `l` of the covered
    grammar written in any admissible spelling (`l.ok`), with arbitrary gaps `g₁`, `g₂` at the two ends,
    `Parser.compile` on the text returns the structure `denote` computes from the VALUES of `l` alone. -/
theorem compile_eq_denote (B : Builtins) (g₁ g₂ : Str) (l : SSelList)
    (hg₁ : isGap g₁) (hg₂ : isGap g₂) (hok : l.ok g₂)
    (h0 : ∀ x ∈ g₁ ++ l.render ++ g₂, x ≠ 0) :
    Parser.compile pyFoldEnv Gen.lexicon B (g₁ ++ l.render ++ g₂) [] 0 = .ok (denote B l.value) := by
  have hcost := l.cost_le g₂ hok
  obtain ⟨first, rest⟩ := l
  rw [SSelList.ok] at hok
  obtain ⟨hfirst, hrest⟩ := hok
  rw [compile_unfold B _ 0 h0]
  generalize hs : g₁ ++ SSelList.render (.mk first rest) ++ g₂ = s
  have hsafe0 := safeStart_gap g₂ hg₂
  have hsafe := safeStart_rest rest g₂ hrest hsafe0
  have hstart : s.drop (startIndex (penv B s)) = first.render ++ (renderRest rest ++ g₂) := by
    rw [startIndex_drop, ← hs, SSelList.render, List.append_assoc, List.append_assoc,
      C09.skipWSC_append_gen g₁ _ hg₁]
    exact SpellingLemmas.skipWSC_of_noGapStart _ (first.render_noGap _ _ hfirst)
  rw [SSelList.cost] at hcost
  have hlen : (SSelList.render (.mk first rest)).length ≤ s.length := by rw [← hs]; simp; omega
  obtain ⟨p₁, i₁, hp₁, h₁⟩ := run_compound B s first 0 (initLS (startIndex (penv B s)) 0 0 [])
    (2 * s.length + 7 - first.size) _ hstart hfirst hsafe (by omega) rfl
  rw [show 2 * s.length + 7 - first.size + first.size = 2 * s.length + 7 by omega] at h₁
  have h₁' : parseLoop pyFoldEnv Gen.lexicon B s (2 * s.length + 7) 0 (initLS (startIndex (penv B s)) 0 0 []) =
      parseLoop pyFoldEnv Gen.lexicon B s (2 * s.length + 7 - first.size) 0
        (setF { sel := first.value.buildOn B SelB.empty, hasSelector := true } p₁ i₁ []) := h₁
  obtain ⟨p, idx, hp, h₂⟩ := run_rest B s rest 0
    (setF { sel := first.value.buildOn B SelB.empty, hasSelector := true } p₁ i₁ [])
    (2 * s.length + 7 - first.size - restSize rest) g₂ rfl hp₁ hrest hsafe0 (by omega) rfl
  rw [show 2 * s.length + 7 - first.size - restSize rest + restSize rest = 2 * s.length + 7 - first.size
    by omega] at h₂
  rw [h₁', h₂, parseLoop_end B s _ 0 _ (by show isGap (s.drop p); rw [hp]; exact hg₂),
    foldRest_frame]
  simp only
  rw [finishSel_top B s _ (by
    show (setF (setF (foldRest B ((0 &&& FLG_PSEUDO) != 0) (restValue rest)
      ({ sel := first.value.buildOn B SelB.empty, hasSelector := true } : LS)) p₁ i₁ []) p idx
        _).hasSelector = true
    exact foldRest_hasSelector B _ _ _ rfl)]
  rfl

/-- **Spelling invariance of the compiled result (the part of `compile_spelling_invariant` that is
    proved).**  Two texts of the covered grammar — any gaps, any escapes, any quotes, any letter case of
    keywords — that spell the same values compile to the same structure. -/
theorem compile_spelling_invariant_partial (B : Builtins) (g₁ g₂ g₁' g₂' : Str) (l l' : SSelList)
    (hg₁ : isGap g₁) (hg₂ : isGap g₂) (hg₁' : isGap g₁') (hg₂' : isGap g₂')
    (hok : l.ok g₂) (hok' : l'.ok g₂')
    (h0 : ∀ x ∈ g₁ ++ l.render ++ g₂, x ≠ 0) (h0' : ∀ x ∈ g₁' ++ l'.render ++ g₂', x ≠ 0)
    (hval : l.value = l'.value) :
    Parser.compile pyFoldEnv Gen.lexicon B (g₁ ++ l.render ++ g₂) [] 0 =
      Parser.compile pyFoldEnv Gen.lexicon B (g₁' ++ l'.render ++ g₂') [] 0 := by
  rw [compile_eq_denote B g₁ g₂ l hg₁ hg₂ hok h0, compile_eq_denote B g₁' g₂' l' hg₁' hg₂' hok' h0', hval]

#print axioms compile_eq_denote
#print axioms compile_spelling_invariant_partial

/-! ## Non-vacuity: a concrete instance -/

/-- ` d\69 v > .x` -/
def exampleA : SSelList :=
  .mk (.mk (some (.name [(100, .lit), (105, .hex 2 [] (some .space)), (118, .lit)])) [])
    [(.sym [32] 62 [32], .mk none [.cls [(120, .lit)]])]

/-- `div/**/>.\78` -/
def exampleB : SSelList :=
  .mk (.mk (some (.name [(100, .lit), (105, .lit), (118, .lit)])) [])
    [(.sym [47, 42, 42, 47] 62 [], .mk none [.cls [(120, .hex 2 [] (some .space))]])]

theorem exampleA_ok : exampleA.ok [] := by
  simp only [exampleA, SSelList.ok, SCompound.ok, restOK, itemsOK, SItem.ok, STag.ok, SComb.ok, identOK,
    renderRest, renderItems, SComb.render, SCompound.render, SItem.render]
  decide

theorem exampleB_ok : exampleB.ok [] := by
  simp only [exampleB, SSelList.ok, SCompound.ok, restOK, itemsOK, SItem.ok, STag.ok, SComb.ok, identOK,
    renderRest, renderItems, SComb.render, SCompound.render, SItem.render]
  decide

example : ([32] ++ exampleA.render ++ []) = " d\\69 v > .x".toStr ∧
    ([] ++ exampleB.render ++ []) = "div/**/>.\\78 ".toStr := by decide

example : Parser.compile pyFoldEnv Gen.lexicon Gen.builtinsRec " d\\69 v > .x".toStr [] 0 =
    Parser.compile pyFoldEnv Gen.lexicon Gen.builtinsRec "div/**/>.\\78 ".toStr [] 0 :=
  compile_spelling_invariant_partial Gen.builtinsRec [32] [] [] [] exampleA exampleB
    (by decide) (by decide) (by decide) (by decide) exampleA_ok exampleB_ok (by decide) (by decide) rfl

end C09Compile
end SoupVerif
