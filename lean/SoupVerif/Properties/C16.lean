/-
C16 -- importing works in either order.

The import-time behaviour of every bs4 / soupsieve module is the generated event graph
`Gen.Imports.graph` (rebuilt from the source text on every run); `Model/Imports.lean` executes it the
way CPython's import system does.  The theorems below are about **all** sequences of import statements
typed into one fresh interpreter: they are proved by induction over the sequence, the finitely many
facts about the generated graph being established by kernel evaluation (`decide +kernel`).
-/
import SoupVerif.Generated.Imports
import SoupVerif.Lemmas.Imports

namespace SoupVerif.C16
open SoupVerif.Imports

abbrev G : Graph := Gen.Imports.graph
abbrev all : List String := Gen.Imports.soupsieveAll

/-- One import statement in interpreter state `st`. -/
abbrev exec (st : Interp) (e : EntryPoint) : Except ImportErr Interp := execEntry G all st e

/-- A sequence of import statements, one after the other, in the same interpreter. -/
abbrev runSeq (st : Interp) (seq : List EntryPoint) : Except ImportErr Interp := run G all st seq

/-! ### Nothing untranslated -/

/-- The translator understood every top-level statement of every module (no `unknown` event). -/
theorem no_unknown_events :
    G.all (fun node => node.events.all (fun e => match e with | .unknown _ => false | _ => true)) = true := by
  decide +kernel

/-- The modules the property text names are all in the graph. -/
theorem graph_covers :
    ["bs4", "bs4.builder", "bs4.element", "bs4.css", "soupsieve", "soupsieve.__meta__", "soupsieve.util",
     "soupsieve.pretty", "soupsieve.css_types", "soupsieve.css_match", "soupsieve.css_parser"].all
      (fun m => (G.node? m).isSome) = true := by
  decide +kernel

/-! ### A fresh interpreter -/

/-- **fresh_import_ok.** Each statement, typed first into a fresh interpreter, succeeds, and every module it
touched (everything that is in `sys.modules` afterwards) is fully initialised. -/
theorem fresh_import_ok : ∀ e ∈ entryPoints,
    ∃ st, runSeq .empty [e] = .ok st ∧ st.allDone = true ∧ st.modules ≠ [] := by
  have h : entryPoints.all (fun e =>
      match runSeq .empty [e] with
      | .ok st => st.allDone && !st.modules.isEmpty
      | .error _ => false) = true := by decide +kernel
  intro e he
  have := List.all_eq_true.mp h e he
  cases hr : runSeq .empty [e] with
  | error x => simp [hr] at this
  | ok st =>
    simp [hr] at this
    exact ⟨st, rfl, this.1, by intro h0; simp [h0] at this⟩

/-! ### The reachable states form a finite set closed under every statement -/

/-- Add the successors of every state of `S` (under every entry point) that are not yet in the list. -/
def expand (S : List Interp) : List Interp :=
  S.foldl (fun acc s =>
    entryPoints.foldl (fun acc e =>
      match exec s e with
      | .ok s' => if acc.contains s' then acc else acc ++ [s']
      | .error _ => acc) acc) S

/-- Everything reachable from the fresh interpreter in at most two statements. -/
def reachable : List Interp := expand (expand [.empty])

def closedUnder (R : List Interp) : Bool :=
  R.all fun s => entryPoints.all fun e =>
    match exec s e with
    | .ok s' => R.contains s'
    | .error _ => false

/-- The inductive invariant: `reachable` contains the fresh interpreter and is closed under every statement
(in particular no statement fails in any reachable state). -/
theorem reachable_closed : (reachable.contains .empty && closedUnder reachable) = true := by
  decide +kernel

theorem empty_mem_reachable : Interp.empty ∈ reachable := by
  have := reachable_closed
  simp only [Bool.and_eq_true] at this
  simpa using this.1

theorem exec_reachable {s : Interp} (hs : s ∈ reachable) (e : EntryPoint) :
    ∃ s' ∈ reachable, exec s e = .ok s' := by
  have := reachable_closed
  simp only [Bool.and_eq_true] at this
  have h := List.all_eq_true.mp (List.all_eq_true.mp this.2 s hs) e (mem_entryPoints e)
  cases hr : exec s e with
  | error x => simp [hr] at h
  | ok s' => simp [hr] at h; exact ⟨s', h, rfl⟩

theorem runSeq_reachable (seq : List EntryPoint) : ∀ {s : Interp}, s ∈ reachable →
    ∃ s' ∈ reachable, runSeq s seq = .ok s' := by
  induction seq with
  | nil => intro s hs; exact ⟨s, hs, rfl⟩
  | cons e es ih =>
    intro s hs
    obtain ⟨s1, hs1, h1⟩ := exec_reachable hs e
    obtain ⟨s2, hs2, h2⟩ := ih hs1
    exact ⟨s2, hs2, by rw [show runSeq s (e :: es) = runSeq s1 es from run_cons_ok G all s s1 e es h1]; exact h2⟩

/-- **any_order_ok.** Every sequence of import statements -- any statements, any order, any length, with
repetitions -- succeeds in a fresh interpreter. -/
theorem any_order_ok (seq : List EntryPoint) : isOk (runSeq .empty seq) = true := by
  obtain ⟨s', _, h⟩ := runSeq_reachable seq empty_mem_reachable
  simp [h, isOk]

/-- Every reachable state has only fully initialised modules, and `canon` describes it faithfully. -/
theorem reachable_allDone : reachable.all (fun s => s.allDone && canonFaithful G s) = true := by
  decide +kernel

/-- **No partially initialised module survives**: after any successful sequence every module in `sys.modules`
is fully initialised. -/
theorem no_partial_modules (seq : List EntryPoint) (st : Interp) (h : runSeq .empty seq = .ok st) :
    st.allDone = true := by
  obtain ⟨s', hs', h'⟩ := runSeq_reachable seq empty_mem_reachable
  rw [h] at h'
  cases h'
  have := List.all_eq_true.mp reachable_allDone st hs'
  simp only [Bool.and_eq_true] at this
  exact this.1

/-! ### Re-import -/

/-- **reimport_noop** (any interpreter state whatsoever): when the modules a statement names are already in
`sys.modules` and the names it fetches are already bound, the statement succeeds and changes nothing. -/
theorem reimport_noop (st : Interp) (e : EntryPoint)
    (h : (e.events all).all (fun ev => ev.settled G st) = true) : runSeq st [e] = .ok st := by
  show run G all st [e] = .ok st
  rw [run_cons_ok G all st st e [] (execEntry_settled G all st e h)]
  rfl

/-- After the first statement everything any statement needs is there: in every reachable state other than
the fresh interpreter every entry point is settled ... -/
theorem reachable_settled :
    reachable.all (fun s => s == .empty ||
      entryPoints.all (fun e => (e.events all).all (fun ev => ev.settled G s))) = true := by
  decide +kernel

/-- ... hence a second, third, ... statement never changes `sys.modules` again. -/
theorem later_imports_noop (e₀ : EntryPoint) (st : Interp) (h : runSeq .empty [e₀] = .ok st)
    (rest : List EntryPoint) : runSeq .empty (e₀ :: rest) = .ok st := by
  have hst : st ∈ reachable ∧ st ≠ .empty := by
    obtain ⟨s', hs', h'⟩ := runSeq_reachable [e₀] empty_mem_reachable
    rw [h] at h'; cases h'
    refine ⟨hs', ?_⟩
    intro h0
    obtain ⟨s2, h2, _, hne⟩ := fresh_import_ok e₀ (mem_entryPoints e₀)
    rw [h] at h2; cases h2
    exact hne (by rw [h0]; rfl)
  have hsettled : ∀ e, (e.events all).all (fun ev => ev.settled G st) = true := by
    intro e
    have := List.all_eq_true.mp reachable_settled st hst.1
    simp only [Bool.or_eq_true, beq_iff_eq] at this
    rcases this with h0 | h1
    · exact absurd h0 hst.2
    · exact List.all_eq_true.mp h1 e (mem_entryPoints e)
  have hrest : ∀ rest : List EntryPoint, runSeq st rest = .ok st := by
    intro rest
    induction rest with
    | nil => rfl
    | cons e es ih =>
      show run G all st (e :: es) = .ok st
      rw [run_cons_ok G all st st e es (execEntry_settled G all st e (hsettled e))]
      exact ih
  have : runSeq .empty ([e₀] ++ rest) = runSeq st rest := run_append G all .empty st [e₀] rest h
  simpa using this.trans (hrest rest)

/-! ### The final state does not depend on the order -/

/-- Total version of `exec` (a failing statement leaves the state alone; by `any_order_ok` it never happens). -/
def step (s : Interp) (e : EntryPoint) : Interp :=
  match exec s e with
  | .ok s' => s'
  | .error _ => s

theorem step_mem {s : Interp} (hs : s ∈ reachable) (e : EntryPoint) : step s e ∈ reachable := by
  obtain ⟨s', hs', h⟩ := exec_reachable hs e
  simp [step, h, hs']

theorem runSeq_eq_foldl (seq : List EntryPoint) : ∀ {s : Interp}, s ∈ reachable →
    runSeq s seq = .ok (seq.foldl step s) := by
  induction seq with
  | nil => intro s _; rfl
  | cons e es ih =>
    intro s hs
    obtain ⟨s', hs', h⟩ := exec_reachable hs e
    have hstep : step s e = s' := by simp [step, h]
    show run G all s (e :: es) = _
    rw [run_cons_ok G all s s' e es h, List.foldl_cons, hstep]
    exact ih hs'

/-- On reachable states: statements respect the order-free view, and any two statements commute up to it. -/
theorem canon_congr_comm :
    (reachable.all fun s => reachable.all fun s' =>
      !(canon G s == canon G s') || entryPoints.all fun e => canon G (step s e) == canon G (step s' e)) &&
    (reachable.all fun s => entryPoints.all fun e₁ => entryPoints.all fun e₂ =>
      canon G (step (step s e₁) e₂) == canon G (step (step s e₂) e₁)) = true := by
  decide +kernel

theorem canon_congr {s s' : Interp} (hs : s ∈ reachable) (hs' : s' ∈ reachable)
    (h : canon G s = canon G s') (e : EntryPoint) : canon G (step s e) = canon G (step s' e) := by
  have := canon_congr_comm
  simp only [Bool.and_eq_true] at this
  have h1 := List.all_eq_true.mp (List.all_eq_true.mp this.1 s hs) s' hs'
  simp only [Bool.or_eq_true, Bool.not_eq_true', beq_eq_false_iff_ne, ne_eq] at h1
  rcases h1 with h1 | h1
  · exact absurd h h1
  · simpa using List.all_eq_true.mp h1 e (mem_entryPoints e)

theorem canon_comm {s : Interp} (hs : s ∈ reachable) (e₁ e₂ : EntryPoint) :
    canon G (step (step s e₁) e₂) = canon G (step (step s e₂) e₁) := by
  have := canon_congr_comm
  simp only [Bool.and_eq_true] at this
  have h := List.all_eq_true.mp (List.all_eq_true.mp (List.all_eq_true.mp this.2 s hs) e₁ (mem_entryPoints e₁))
    e₂ (mem_entryPoints e₂)
  simpa using h

theorem foldl_step_mem (seq : List EntryPoint) : ∀ {s : Interp}, s ∈ reachable → seq.foldl step s ∈ reachable := by
  induction seq with
  | nil => intro s hs; exact hs
  | cons e es ih => intro s hs; exact ih (step_mem hs e)

theorem canon_foldl_congr (seq : List EntryPoint) : ∀ {s s' : Interp}, s ∈ reachable → s' ∈ reachable →
    canon G s = canon G s' → canon G (seq.foldl step s) = canon G (seq.foldl step s') := by
  induction seq with
  | nil => intro s s' _ _ h; exact h
  | cons e es ih =>
    intro s s' hs hs' h
    exact ih (step_mem hs e) (step_mem hs' e) (canon_congr hs hs' h e)

theorem canon_foldl_perm {l₁ l₂ : List EntryPoint} (p : l₁.Perm l₂) : ∀ {s s' : Interp},
    s ∈ reachable → s' ∈ reachable → canon G s = canon G s' →
    canon G (l₁.foldl step s) = canon G (l₂.foldl step s') := by
  induction p with
  | nil => intro s s' _ _ h; exact h
  | cons x _ ih =>
    intro s s' hs hs' h
    exact ih (step_mem hs x) (step_mem hs' x) (canon_congr hs hs' h x)
  | swap x y l =>
    intro s s' hs hs' h
    simp only [List.foldl_cons]
    apply canon_foldl_congr l (step_mem (step_mem hs y) x) (step_mem (step_mem hs' x) y)
    rw [canon_comm hs y x]
    exact canon_congr (step_mem hs x) (step_mem hs' x) (canon_congr hs hs' h x) y
  | trans _ _ ih₁ ih₂ =>
    intro s s' hs hs' h
    exact (ih₁ hs hs' h).trans (ih₂ hs' hs' rfl)

/-- **final_state_order_independent.** Two sequences made of the same statements in a different order leave
the same `sys.modules` behind: the same modules, each with the same bound names, each fully initialised
(`canon` forgets only the insertion order of the dictionary entries, cf. `reachable_allDone`). -/
theorem final_state_order_independent (seq₁ seq₂ : List EntryPoint) (p : seq₁.Perm seq₂) :
    ∃ st₁ st₂, runSeq .empty seq₁ = .ok st₁ ∧ runSeq .empty seq₂ = .ok st₂ ∧ canon G st₁ = canon G st₂ :=
  ⟨_, _, runSeq_eq_foldl seq₁ empty_mem_reachable, runSeq_eq_foldl seq₂ empty_mem_reachable,
    canon_foldl_perm p empty_mem_reachable empty_mem_reachable rfl⟩

/-- On this tree the first statement already loads every module of the graph, so in fact *every* non-empty
sequence ends in the same state up to order. -/
theorem final_state_unique (seq₁ seq₂ : List EntryPoint) (h₁ : seq₁ ≠ []) (h₂ : seq₂ ≠ []) :
    ∃ st₁ st₂, runSeq .empty seq₁ = .ok st₁ ∧ runSeq .empty seq₂ = .ok st₂ ∧ canon G st₁ = canon G st₂ := by
  have key : (reachable.all fun s => reachable.all fun s' =>
      s == .empty || s' == .empty || canon G s == canon G s') = true := by decide +kernel
  have nonempty : ∀ seq : List EntryPoint, seq ≠ [] → ∃ st ∈ reachable, runSeq .empty seq = .ok st ∧ st ≠ .empty := by
    intro seq hne
    cases seq with
    | nil => exact absurd rfl hne
    | cons e rest =>
      obtain ⟨st, hst, hd, hmods⟩ := fresh_import_ok e (mem_entryPoints e)
      have := later_imports_noop e st hst rest
      obtain ⟨s', hs', h'⟩ := runSeq_reachable (e :: rest) empty_mem_reachable
      rw [this] at h'; cases h'
      exact ⟨st, hs', this, by intro h0; exact hmods (by rw [h0]; rfl)⟩
  obtain ⟨st₁, m₁, r₁, n₁⟩ := nonempty seq₁ h₁
  obtain ⟨st₂, m₂, r₂, n₂⟩ := nonempty seq₂ h₂
  refine ⟨st₁, st₂, r₁, r₂, ?_⟩
  have := List.all_eq_true.mp (List.all_eq_true.mp key st₁ m₁) st₂ m₂
  simp only [Bool.or_eq_true, beq_iff_eq] at this
  rcases this with (h | h) | h
  · exact absurd h n₁
  · exact absurd h n₂
  · exact h

/-! ### No import-time output -/

/-- No module-level or class-level call of print / warnings.warn / sys.stdout.write / logging.* in soupsieve. -/
theorem no_import_effects : Gen.Imports.importTimeOutput = [] := by decide

/-- The functions that may run at import time contain no function-local import of a bs4 / soupsieve module
(such statements are not part of the event lists). -/
theorem no_import_time_local_imports : Gen.Imports.importTimeLocalImports = [] := by decide

/-! ### The historical defect is expressible -/

/-- css_match as it was: `class _FakeParent(bs4.Tag)` evaluates `bs4.Tag` right after `import bs4`. -/
def insertAfterImportBs4 : List Event → List Event
  | [] => []
  | .importMod "bs4" :: rest => .importMod "bs4" :: .useAttr "bs4" "Tag" false :: rest
  | e :: rest => e :: insertAfterImportBs4 rest

def pinnedGraph : Graph :=
  G.map fun node =>
    if node.name == "soupsieve.css_match" then { node with events := insertAfterImportBs4 node.events } else node

/-- With the pinned css_match, `import bs4` in a fresh interpreter dies with
`AttributeError: partially initialized module 'bs4' has no attribute 'Tag'` ... -/
example : run pinnedGraph all .empty [.importBs4] = .error (.attributeError "bs4" "Tag") := by
  decide +kernel

/-- ... while `import soupsieve` first still works (which is why the test-suite never saw it). -/
example : isOk (run pinnedGraph all .empty [.importSoupsieve, .importBs4]) = true := by
  decide +kernel

end SoupVerif.C16
