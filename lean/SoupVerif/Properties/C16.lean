/-
C16 -- importing works in either order.

The import-time behaviour of every bs4 / soupsieve module is the generated event graph
`Gen.Imports.graph` (rebuilt from the source text on every run); `Model/Imports.lean` executes it the
way CPython's import system does.  The theorems below are about **all** sequences of import statements
typed into one fresh interpreter: they are proved by induction over the sequence, the finitely many
facts about the generated graph being established by kernel evaluation (`decide +kernel`).

Names are numbers in the model; `Gen.Imports.names` gives their text (`names_of_entry_ids`,
`graph_modules`).
-/
import SoupVerif.Generated.Imports
import SoupVerif.Lemmas.Imports

namespace SoupVerif.C16
open SoupVerif.Imports

abbrev G : Graph := Gen.Imports.graph
abbrev ids : EntryIds := Gen.Imports.entryIds
abbrev names : List String := Gen.Imports.names

/-- The fresh interpreter. -/
abbrev fresh : Interp := .empty Gen.Imports.width

/-- One import statement in interpreter state `st`. -/
abbrev exec (st : Interp) (e : EntryPoint) : Except ImportErr Interp := execEntry G ids st e

/-- A sequence of import statements, one after the other, in the same interpreter. -/
abbrev runSeq (st : Interp) (seq : List EntryPoint) : Except ImportErr Interp := run G ids st seq

/-! ### The generated data is what it is meant to be -/

/-- Node k is module k, parents precede children, every name id is below `width`; there is a text for
every id. -/
theorem graph_wellFormed : (G.wellFormed Gen.Imports.width && (names.length == Gen.Imports.width)) = true := by
  decide +kernel

/-- The translator understood every top-level statement of every module (no `unknown` event). -/
theorem no_unknown_events :
    G.all (fun node => node.events.all (fun e => match e with | .unknown _ => false | _ => true)) = true := by
  decide +kernel

/-- The modules of the graph, by name: the seven soupsieve modules and the bs4 modules on the import chain. -/
theorem graph_modules :
    G.map (fun node => nameOf names node.name) =
      ["bs4", "bs4.element", "soupsieve", "soupsieve.__meta__", "soupsieve.util", "soupsieve.pretty",
       "soupsieve.css_types", "soupsieve.css_match", "soupsieve.css_parser", "bs4.builder",
       "bs4.builder._htmlparser", "bs4.dammit", "bs4.css", "bs4._deprecation", "bs4.formatter", "bs4.filter",
       "bs4._typing", "bs4.exceptions", "bs4._warnings", "bs4.builder._html5lib", "bs4.builder._lxml"] := by
  decide +kernel

/-- Parent / last-component ids agree with the dotted names. -/
theorem graph_dotted_names :
    G.all (fun node =>
      match node.parent with
      | none => nameOf names node.name == nameOf names node.leaf
      | some p => nameOf names node.name == nameOf names p ++ "." ++ nameOf names node.leaf) = true := by
  decide +kernel

/-- The ids the entry points use denote "bs4", "bs4.element", "soupsieve", "soupsieve.css_match",
"soupsieve.css_parser", "soupsieve.css_types", "BeautifulSoup" and the members of `soupsieve.__all__`. -/
theorem names_of_entry_ids :
    [ids.bs4, ids.bs4Element, ids.soupsieve, ids.cssMatch, ids.cssParser, ids.cssTypes, ids.beautifulSoup].map
        (nameOf names) =
      ["bs4", "bs4.element", "soupsieve", "soupsieve.css_match", "soupsieve.css_parser", "soupsieve.css_types",
       "BeautifulSoup"] ∧
    ids.all.map (nameOf names) = Gen.Imports.soupsieveAllNames := by
  decide +kernel

/-! ### A fresh interpreter -/

/-- **fresh_import_ok.** Each statement, typed first into a fresh interpreter, succeeds; every module it
touched (everything that is in `sys.modules` afterwards) is fully initialised, and soupsieve and bs4 are among
them. -/
theorem fresh_import_ok : ∀ e ∈ entryPoints,
    ∃ st, runSeq fresh [e] = .ok st ∧ st.allDone = true ∧ st.has ids.soupsieve = true ∧ st.has ids.bs4 = true := by
  have h : entryPoints.all (fun e =>
      match runSeq fresh [e] with
      | .ok st => st.allDone && st.has ids.soupsieve && st.has ids.bs4
      | .error _ => false) = true := by decide +kernel
  intro e he
  have := List.all_eq_true.mp h e he
  cases hr : runSeq fresh [e] with
  | error x => simp [hr] at this
  | ok st =>
    simp only [hr, Bool.and_eq_true] at this
    exact ⟨st, rfl, this.1.1, this.1.2, this.2⟩

/-! ### The reachable states form a finite set closed under every statement -/

/-- Add the successors of every state of `S` (under every entry point) that are not yet in the list. -/
def expand (S : List Interp) : List Interp :=
  S.foldl (fun acc s =>
    entryPoints.foldl (fun acc e =>
      match exec s e with
      | .ok s' => if acc.contains s' then acc else acc ++ [s']
      | .error _ => acc) acc) S

/-- Everything reachable from the fresh interpreter in at most two statements. -/
def reachable : List Interp := expand (expand [fresh])

def closedUnder (R : List Interp) : Bool :=
  R.all fun s => entryPoints.all fun e =>
    match exec s e with
    | .ok s' => R.contains s'
    | .error _ => false

/-- The inductive invariant: `reachable` contains the fresh interpreter and is closed under every statement
(in particular no statement fails in any reachable state). -/
theorem reachable_closed : (reachable.contains fresh && closedUnder reachable) = true := by
  decide +kernel

theorem fresh_mem_reachable : fresh ∈ reachable := by
  have := reachable_closed
  simp only [Bool.and_eq_true] at this
  simpa using this.1

theorem exec_reachable {s : Interp} (hs : s ∈ reachable) (e : EntryPoint) :
    ∃ s' ∈ reachable, exec s e = .ok s' := by
  have := reachable_closed
  simp only [Bool.and_eq_true] at this
  have h := List.all_eq_true.mp (List.all_eq_true.mp this.2 s hs) e (mem_entryPoints e)
  cases hr : exec s e with
  | error x => simp [hr] at h
  | ok s' => simp [hr] at h; exact ⟨s', h, rfl⟩

theorem runSeq_reachable (seq : List EntryPoint) : ∀ {s : Interp}, s ∈ reachable →
    ∃ s' ∈ reachable, runSeq s seq = .ok s' := by
  induction seq with
  | nil => intro s hs; exact ⟨s, hs, rfl⟩
  | cons e es ih =>
    intro s hs
    obtain ⟨s1, hs1, h1⟩ := exec_reachable hs e
    obtain ⟨s2, hs2, h2⟩ := ih hs1
    exact ⟨s2, hs2, by rw [show runSeq s (e :: es) = runSeq s1 es from run_cons_ok G ids s s1 e es h1]; exact h2⟩

/-- **any_order_ok.** Every sequence of import statements -- any statements, any order, any length, with
repetitions -- succeeds in a fresh interpreter. -/
theorem any_order_ok (seq : List EntryPoint) : isOk (runSeq fresh seq) = true := by
  obtain ⟨s', _, h⟩ := runSeq_reachable seq fresh_mem_reachable
  simp [h, isOk]

/-- Every reachable state has only fully initialised modules. -/
theorem reachable_allDone : reachable.all (fun s => s.allDone) = true := by
  decide +kernel

/-- **No partially initialised module survives**: after any sequence every module in `sys.modules` is fully
initialised. -/
theorem no_partial_modules (seq : List EntryPoint) (st : Interp) (h : runSeq fresh seq = .ok st) :
    st.allDone = true := by
  obtain ⟨s', hs', h'⟩ := runSeq_reachable seq fresh_mem_reachable
  rw [h] at h'
  cases h'
  exact List.all_eq_true.mp reachable_allDone st hs'

/-! ### Re-import -/

/-- **reimport_noop** (any interpreter state whatsoever): when the modules a statement names are already in
`sys.modules` -- in whatever state of initialisation -- and the names it fetches are already bound, the
statement succeeds and changes nothing. -/
theorem reimport_noop (st : Interp) (e : EntryPoint)
    (h : (e.events ids).all (fun ev => ev.settled G st) = true) : runSeq st [e] = .ok st := by
  show run G ids st [e] = .ok st
  rw [run_cons_ok G ids st st e [] (execEntry_settled G ids st e h)]
  rfl

/-- In every reachable state other than the fresh interpreter every entry point is settled ... -/
theorem reachable_settled :
    reachable.all (fun s => s == fresh ||
      entryPoints.all (fun e => (e.events ids).all (fun ev => ev.settled G s))) = true := by
  decide +kernel

theorem settled_after_first {e₀ : EntryPoint} {st : Interp} (h : runSeq fresh [e₀] = .ok st) (e : EntryPoint) :
    (e.events ids).all (fun ev => ev.settled G st) = true := by
  obtain ⟨s', hs', h'⟩ := runSeq_reachable [e₀] fresh_mem_reachable
  rw [h] at h'; cases h'
  have hne : st ≠ fresh := by
    intro h0
    obtain ⟨s2, h2, _, hsv, _⟩ := fresh_import_ok e₀ (mem_entryPoints e₀)
    rw [h] at h2; cases h2
    rw [h0] at hsv
    revert hsv
    decide +kernel
  have := List.all_eq_true.mp reachable_settled st hs'
  simp only [Bool.or_eq_true, beq_iff_eq] at this
  rcases this with h0 | h1
  · exact absurd h0 hne
  · exact List.all_eq_true.mp h1 e (mem_entryPoints e)

/-- ... hence the second, third, ... statement never changes `sys.modules` again: the whole sequence ends in
the state the first statement produced. -/
theorem later_imports_noop (e₀ : EntryPoint) (st : Interp) (h : runSeq fresh [e₀] = .ok st)
    (rest : List EntryPoint) : runSeq fresh (e₀ :: rest) = .ok st := by
  have hrest : ∀ rest : List EntryPoint, runSeq st rest = .ok st := by
    intro rest
    induction rest with
    | nil => rfl
    | cons e es ih =>
      show run G ids st (e :: es) = .ok st
      rw [run_cons_ok G ids st st e es (execEntry_settled G ids st e (settled_after_first h e))]
      exact ih
  have : runSeq fresh ([e₀] ++ rest) = runSeq st rest := run_append G ids fresh st [e₀] rest h
  simpa using this.trans (hrest rest)

/-! ### The final state does not depend on the order

The model's state does not record the insertion order of `sys.modules`, so "the same final state" is plain
equality: the same modules, each with the same bound names, each fully initialised. -/

/-- Total version of `exec` (a failing statement leaves the state alone; by `any_order_ok` it never happens). -/
def step (s : Interp) (e : EntryPoint) : Interp :=
  match exec s e with
  | .ok s' => s'
  | .error _ => s

theorem step_mem {s : Interp} (hs : s ∈ reachable) (e : EntryPoint) : step s e ∈ reachable := by
  obtain ⟨s', hs', h⟩ := exec_reachable hs e
  simp [step, h, hs']

theorem runSeq_eq_foldl (seq : List EntryPoint) : ∀ {s : Interp}, s ∈ reachable →
    runSeq s seq = .ok (seq.foldl step s) := by
  induction seq with
  | nil => intro s _; rfl
  | cons e es ih =>
    intro s hs
    obtain ⟨s', hs', h⟩ := exec_reachable hs e
    have hstep : step s e = s' := by simp [step, h]
    show run G ids s (e :: es) = _
    rw [run_cons_ok G ids s s' e es h, List.foldl_cons, hstep]
    exact ih hs'

/-- On reachable states any two statements commute. -/
theorem step_comm_reachable :
    (reachable.all fun s => entryPoints.all fun e₁ => entryPoints.all fun e₂ =>
      step (step s e₁) e₂ == step (step s e₂) e₁) = true := by
  decide +kernel

theorem step_comm {s : Interp} (hs : s ∈ reachable) (e₁ e₂ : EntryPoint) :
    step (step s e₁) e₂ = step (step s e₂) e₁ := by
  have h := List.all_eq_true.mp
    (List.all_eq_true.mp (List.all_eq_true.mp step_comm_reachable s hs) e₁ (mem_entryPoints e₁))
    e₂ (mem_entryPoints e₂)
  simpa using h

theorem foldl_step_perm {l₁ l₂ : List EntryPoint} (p : l₁.Perm l₂) : ∀ {s : Interp}, s ∈ reachable →
    l₁.foldl step s = l₂.foldl step s := by
  induction p with
  | nil => intro s _; rfl
  | cons x _ ih => intro s hs; exact ih (step_mem hs x)
  | swap x y l => intro s hs; simp only [List.foldl_cons]; rw [step_comm hs y x]
  | trans _ _ ih₁ ih₂ => intro s hs; exact (ih₁ hs).trans (ih₂ hs)

/-- **final_state_order_independent.** Two sequences made of the same statements in a different order leave
the same `sys.modules` behind. -/
theorem final_state_order_independent (seq₁ seq₂ : List EntryPoint) (p : seq₁.Perm seq₂) :
    ∃ st, runSeq fresh seq₁ = .ok st ∧ runSeq fresh seq₂ = .ok st :=
  ⟨_, runSeq_eq_foldl seq₁ fresh_mem_reachable,
    by rw [foldl_step_perm p fresh_mem_reachable]; exact runSeq_eq_foldl seq₂ fresh_mem_reachable⟩

/-- On this tree the first statement already loads every module of the graph ... -/
theorem first_import_loads_everything :
    entryPoints.all (fun e => exec fresh e == exec fresh .importBs4) = true := by
  decide +kernel

/-- ... so *every* non-empty sequence, whatever it is made of, ends in one and the same state. -/
theorem final_state_unique (seq₁ seq₂ : List EntryPoint) (h₁ : seq₁ ≠ []) (h₂ : seq₂ ≠ []) :
    ∃ st, runSeq fresh seq₁ = .ok st ∧ runSeq fresh seq₂ = .ok st := by
  have one : ∀ seq : List EntryPoint, seq ≠ [] → runSeq fresh seq = exec fresh .importBs4 := by
    intro seq hne
    cases seq with
    | nil => exact absurd rfl hne
    | cons e rest =>
      obtain ⟨st, hst, _⟩ := fresh_import_ok e (mem_entryPoints e)
      rw [later_imports_noop e st hst rest]
      have he := List.all_eq_true.mp first_import_loads_everything e (mem_entryPoints e)
      have he' : exec fresh e = exec fresh .importBs4 := by simpa using he
      rw [← he']
      have : runSeq fresh [e] = exec fresh e := by
        show run G ids fresh [e] = execEntry G ids fresh e
        cases hx : execEntry G ids fresh e <;> simp [run, hx]
      rw [← this, hst]
  obtain ⟨st, hst, _⟩ := fresh_import_ok .importBs4 (mem_entryPoints _)
  refine ⟨st, ?_, ?_⟩
  · rw [one seq₁ h₁, ← hst]; show _ = run G ids fresh [.importBs4]
    cases hx : execEntry G ids fresh .importBs4 <;> simp [run, hx]
  · rw [one seq₂ h₂, ← hst]; show _ = run G ids fresh [.importBs4]
    cases hx : execEntry G ids fresh .importBs4 <;> simp [run, hx]

/-! ### No import-time output -/

/-- No module-level or class-level call of print / warnings.warn / sys.stdout.write / logging.* in soupsieve. -/
theorem no_import_effects : Gen.Imports.importTimeOutput = [] := by decide

/-- The functions that may run at import time contain no function-local import of a bs4 / soupsieve module
(such statements are not part of the event lists). -/
theorem no_import_time_local_imports : Gen.Imports.importTimeLocalImports = [] := by decide

/-! ### The historical defect is expressible -/

/-- css_match as it was: `class _FakeParent(bs4.Tag)` evaluates `bs4.Tag` right after `import bs4`. -/
def insertAfterImportBs4 (tag : Name) : List Event → List Event
  | [] => []
  | .importMod m :: rest =>
    if m == ids.bs4 then .importMod m :: .useAttr ids.bs4 tag false :: rest
    else .importMod m :: insertAfterImportBs4 tag rest
  | e :: rest => e :: insertAfterImportBs4 tag rest

def pinnedGraph : Graph :=
  G.map fun node =>
    if node.name == ids.cssMatch then
      { node with events := insertAfterImportBs4 (idOf names "Tag") node.events }
    else node

/-- With the pinned css_match, `import bs4` in a fresh interpreter dies with
`AttributeError: partially initialized module 'bs4' has no attribute 'Tag'` ... -/
example : run pinnedGraph ids fresh [.importBs4] =
    .error (.attributeError (idOf names "bs4") (idOf names "Tag")) := by
  decide +kernel

/-- ... and so do `from bs4 import BeautifulSoup` and `import bs4.element` ... -/
example : run pinnedGraph ids fresh [.fromBs4ImportBeautifulSoup] =
      .error (.attributeError (idOf names "bs4") (idOf names "Tag")) ∧
    run pinnedGraph ids fresh [.importBs4Element] =
      .error (.attributeError (idOf names "bs4") (idOf names "Tag")) := by
  decide +kernel

/-- ... while `import soupsieve` first still works (which is why the test-suite never saw it). -/
example : isOk (run pinnedGraph ids fresh [.importSoupsieve, .importBs4]) = true := by
  decide +kernel

end SoupVerif.C16
