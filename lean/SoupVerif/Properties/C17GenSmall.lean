/-
  C17 — the small `CSSMatch` tests `match_defined`, `match_placeholder_shown`, `match_scope`, TRANSLATED FROM THE
  SOURCE on every run (`gen/gen_py_smallfn.py` → `Generated/PySmallFn.lean`, over the dynamic values of
  `Model/SmallFnDyn.lean`), are the hand models `matchDefined`, `matchPlaceholderShown`, `matchScope`
  (Model/Match.lean) that the state-selector theorems of `Properties/C17.lean` (`placeholder_def`,
  `placeholder_text_not_cut`), `Properties/C19.lean` and `Properties/C03.lean` (`matchScope_iff`) are about —
  FOR ALL contexts and elements, and with a `bool` result (so nothing raises on the way).
-/
import SoupVerif.Generated.PySmallFn
import SoupVerif.Properties.C17
namespace SoupVerif
namespace C17GenSmall
open PySmallFn StateLaws C11 Names

/-! ### `str.find` with a one-character needle -/

theorem strFindFrom_single_nonneg (ch : Nat) (s : Str) (i : Nat) :
    strFindFrom [ch] s i = -1 ∨ (i : Int) ≤ strFindFrom [ch] s i := by
  induction s generalizing i with
  | nil => left; simp [strFindFrom]
  | cons x xs ih =>
    unfold strFindFrom
    split
    · right; exact Int.le_refl _
    · rcases ih (i + 1) with h | h
      · left; exact h
      · right; omega

/-- `s.find(ch) == -1` iff `ch` does not occur in `s`. -/
theorem strFind_single (ch : Nat) (s : Str) : (strFind s [ch] == -1) = !s.contains ch := by
  unfold strFind
  suffices h : ∀ i : Nat, (strFindFrom [ch] s i == -1) = !s.contains ch from h 0
  induction s with
  | nil => intro i; simp [strFindFrom]
  | cons x xs ih =>
    intro i
    unfold strFindFrom
    by_cases hx : ch = x
    · subst hx
      have hp : ([ch] : Str).isPrefixOf (ch :: xs) = true := by simp [List.isPrefixOf]
      rw [if_pos hp]
      have : ((i : Int) == -1) = false := by
        rw [beq_eq_false_iff_ne]; omega
      rw [this]; simp
    · have hp : ¬ (([ch] : Str).isPrefixOf (x :: xs) = true) := by
        simp [List.isPrefixOf, hx]
      rw [if_neg hp, ih (i + 1)]
      simp [hx]

/-! ### The tie -/

/-- **`match_defined`** translated from the source = the hand model, for every context and element. -/
theorem match_defined_eq (c : Ctx) (l : Loc) (e : Elem) :
    Gen.PySmallFn.match_defined c l e = .bool (matchDefined c e) := by
  unfold Gen.PySmallFn.match_defined matchDefined
  simp only [pyGetTag, pyGetPrefix, pyFind, pyIsNotNone, pyAnd, V.truthy, pyEq, pyNe, pyNot, if_true]
  have h1 := strFind_single 45 (c.tagName e)
  have h2 := strFind_single 58 (c.tagName e)
  cases hp : c.prefixName e with
  | none =>
    simp only [V.ofOptStr, pyOr, V.truthy, h1, h2, Option.isSome_none, Bool.or_false]
    cases (c.tagName e).contains 45 <;> cases (c.tagName e).contains 58 <;> rfl
  | some p =>
    simp only [V.ofOptStr, pyOr, V.truthy, h1, h2, Option.isSome_some, Bool.or_true]
    cases (c.tagName e).contains 45 <;> cases (c.tagName e).contains 58 <;> rfl

/-- **`match_placeholder_shown`** translated from the source = the hand model. -/
theorem match_placeholder_shown_eq (c : Ctx) (l : Loc) (e : Elem) :
    Gen.PySmallFn.match_placeholder_shown c l e = .bool (matchPlaceholderShown c l) := by
  unfold Gen.PySmallFn.match_placeholder_shown matchPlaceholderShown
  simp only [pyGetText, pyInTuple, V.isErr, List.any_cons, List.any_nil, Bool.or_false, Bool.false_eq_true,
    if_false, pyInList, pyEq]
  cases (c.text l false == []) <;> cases (c.text l false == [10]) <;>
    simp [V.ite, V.truthy]

/-- **`match_scope`** translated from the source = the hand model. -/
theorem match_scope_eq (c : Ctx) (l : Loc) (e : Elem) :
    Gen.PySmallFn.match_scope c l e = .bool (matchScope c l) := by
  unfold Gen.PySmallFn.match_scope matchScope pyScope pyEl
  cases c.scope <;> rfl

/-! ### The property theorems, about the regenerated definitions -/

/-- `placeholder_text_not_cut` (C17 §3): the content test of `:placeholder-shown` as the source has it reads
    `get_text(el)` with `no_iframe=False` and accepts exactly `''` and `'\n'`. -/
theorem gen_placeholder_text (c : Ctx) (l : Loc) (e : Elem) :
    Gen.PySmallFn.match_placeholder_shown c l e = .bool (c.text l false == [] || c.text l false == [10]) :=
  match_placeholder_shown_eq c l e

/-- `placeholder_def` (C17) with the content test replaced by the translated function: `:placeholder-shown`
    matches iff … or a `textarea` with a non-empty placeholder on which the TRANSLATED `match_placeholder_shown`
    returns `True`. -/
theorem gen_placeholder_def (c : Ctx) (l : Loc) (e : Elem) (hc : c.isHtml = true) :
    matchList c l e Gen.CSS_PLACEHOLDER_SHOWN =
      (c.isHtmlTag e && C17.placeholderNonEmpty c e &&
        ((tagIs c e "input" && C17.placeholderInputType c e &&
            (!hasAttr c e "value" || attrEmpty c e "value")) ||
         (tagIs c e "textarea" && (Gen.PySmallFn.match_placeholder_shown c l e).truthy))) := by
  rw [match_placeholder_shown_eq, C17.placeholder_def c l e hc]
  rfl

/-- `matchScope_iff` (C03): the translated `match_scope` returns `True` iff the element is the scope object. -/
theorem gen_match_scope_iff (c : Ctx) (l : Loc) (e : Elem) :
    Gen.PySmallFn.match_scope c l e = .bool true ↔ ∃ s, c.scope = some s ∧ s.pos = l.pos := by
  rw [match_scope_eq]
  unfold matchScope
  cases h : c.scope with
  | none => simp
  | some s => simp [Loc.same_iff]

/-- `:defined` as the source has it: a name without `-`, or with `:`, or an element with a prefix. -/
theorem gen_match_defined_iff (c : Ctx) (l : Loc) (e : Elem) :
    Gen.PySmallFn.match_defined c l e = .bool true ↔
      ((c.tagName e).contains 45 = false ∨ (c.tagName e).contains 58 = true ∨ (c.prefixName e).isSome = true) := by
  rw [match_defined_eq]
  unfold matchDefined
  simp [or_assoc]

end C17GenSmall
end SoupVerif
