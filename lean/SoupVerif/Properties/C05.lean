/-
  C05 — Selector lists and the logical pseudo-classes form a Boolean algebra.

  IR reading: a comma list `A, B` is `SelList.mk (A ++ B) isNot isHtml`; `:is(L)` / `:where(L)` /
  `:matches(L)` all put the *same* entry `SelList.mk L false h` into the `subs` field of the
  enclosing compound (so "`:where` and `:matches` behave as `:is`" is an identity of IRs, checked
  by the parser correspondence, and nothing is left to prove on the matcher side); `:not(L)` puts
  `SelList.mk L true h`.
-/
import SoupVerif.Model.Api
import SoupVerif.Lemmas.MatchAlgebra
namespace SoupVerif.C05
open SoupVerif

variable (c : Ctx) (l : Loc) (e : Elem)

/-! ### Alternatives: union -/

/-- The alternatives loop over `A ++ B` is the disjunction of the two loops. -/
theorem any_append (A B : List Sel) :
    matchAny c l e (A ++ B) = (matchAny c l e A || matchAny c l e B) :=
  matchAny_append c l e A B

/-- `A, B` matches exactly where `A` or `B` does; `:is(A, B)` = `:is(A)` ∪ `:is(B)`. -/
theorem list_union (A B : List Sel) (h : Bool) :
    matchList c l e (.mk (A ++ B) false h) =
      (matchList c l e (.mk A false h) || matchList c l e (.mk B false h)) := by
  simp only [matchList_pos, matchAny_append, Bool.and_or_distrib_left]

/-- The matcher never accepts `SelectorNull`. -/
theorem null_never : matchSel c l e .null = false := by
  unfold matchSel; rfl

/-- "First matching alternative wins" is unobservable: the order of the alternatives is
    irrelevant. -/
theorem any_perm {A B : List Sel} (hp : List.Perm A B) : matchAny c l e A = matchAny c l e B :=
  matchAny_perm c l e hp

/-- … and so is it for a whole list (negated or not, HTML-only or not). -/
theorem list_perm {A B : List Sel} (hp : List.Perm A B) (n h : Bool) :
    matchList c l e (.mk A n h) = matchList c l e (.mk B n h) := by
  have he : A.isEmpty = B.isEmpty := by
    have := hp.length_eq
    cases A <;> cases B <;> simp_all
  simp only [matchList_mk, matchAny_perm _ l e hp, he]

/-- A `SelectorNull` alternative can be dropped from a list that is not negated, or that has
    another alternative. -/
theorem null_alternative (A : List Sel) (n h : Bool) (hA : A ≠ [] ∨ n = false) :
    matchList c l e (.mk (.null :: A) n h) = matchList c l e (.mk A n h) := by
  simp only [matchList_mk, matchAny_cons]
  cases A with
  | nil =>
    rcases hA with hA | hA
    · exact absurd rfl hA
    · subst hA; split <;> simp [matchSel, matchAny_nil]
  | cons s rest => split <;> simp [matchSel]

/-- `:not(<SelectorNull>)` (what a forgiving empty `:not()` would compile to) matches every
    element of an admissible document; `:is(<SelectorNull>)` (what `:is()` compiles to) nothing. -/
theorem null_only (n h : Bool) :
    matchList c l e (.mk [.null] n h) = ((!h || c.isHtml) && n) := by
  simp only [matchList_mk, matchAny_cons, matchAny_nil]
  split <;> simp_all [matchSel]

/-- The empty list of alternatives matches nothing — *also when negated*: Python's
    `match = False` is only overwritten inside the loop. -/
theorem empty_list (n h : Bool) : matchList c l e (.mk [] n h) = false := by
  simp [matchList_mk]

/-! ### Negation: complement -/

/-- `:not(A)` is the complement of `:is(A)` — for a non-empty list that is admissible in this
    document (not HTML-only, or the document is HTML). -/
theorem not_compl_html (A : List Sel) (h : Bool) (hA : A ≠ []) (hg : (!h || c.isHtml) = true) :
    matchList c l e (.mk A true h) = !matchList c l e (.mk A false h) := by
  rw [matchList_neg, matchList_pos, hg]
  cases A with
  | nil => exact absurd rfl hA
  | cons s rest => simp

/-- … and the exact statement of what happens otherwise: an HTML-only list never matches in a
    non-HTML document, negated or not.  (So there `:not(A)` is *not* the complement of `:is(A)`:
    both are empty.) -/
theorem html_only_never_in_xml (A : List Sel) (n h : Bool) (hh : h = true) (hx : c.isHtml = false) :
    matchList c l e (.mk A n h) = false := by
  simp [matchList_mk, hh, hx]

/-- All cases in one equation. -/
theorem not_compl_general (A : List Sel) (h : Bool) :
    matchList c l e (.mk A true h) =
      ((!h || c.isHtml) && !A.isEmpty && !matchList c l e (.mk A false h)) := by
  rw [matchList_neg, matchList_pos]
  cases (!h || c.isHtml) <;> simp

/-- `:not(A, B)` is the complement of `:is(A) ∪ :is(B)` (De Morgan). -/
theorem not_list_compl (A B : List Sel) (h : Bool) (hAB : A ++ B ≠ []) (hg : (!h || c.isHtml) = true) :
    matchList c l e (.mk (A ++ B) true h) =
      !(matchList c l e (.mk A false h) || matchList c l e (.mk B false h)) := by
  rw [not_compl_html c l e (A ++ B) h hAB hg, list_union]

/-- De Morgan, second form: `:not(A, B)` = `:not(A)` ∩ `:not(B)` (both parts non-empty). -/
theorem not_list_inter (A B : List Sel) (h : Bool) (hA : A ≠ []) (hB : B ≠ [])
    (hg : (!h || c.isHtml) = true) :
    matchList c l e (.mk (A ++ B) true h) =
      (matchList c l e (.mk A true h) && matchList c l e (.mk B true h)) := by
  rw [not_list_compl c l e A B h (by simp [hA]) hg, not_compl_html c l e A h hA hg,
    not_compl_html c l e B h hB hg, Bool.not_or]

/-- Double negation: `:not(:not(A))` is `:is(A)` (for a non-empty admissible inner list; the outer
    wrapper list is not HTML-only). -/
theorem not_not (rel : SelList) (rt : Rel) (A : List Sel) (h : Bool) (hA : A ≠ [])
    (hg : (!h || c.isHtml) = true) (hrel : rel.nonEmpty = false) :
    matchList c l e (.mk [.mk none [] [] [] [] [.mk A true h] rel rt [] [] 0] true false) =
      matchList c l e (.mk A false h) := by
  have e1 := matchSel_mk_subs c l e none [] [] [] [] [.mk A true h] rel rt [] [] 0
  rw [matchList_mk]
  simp only [Bool.not_false, Bool.true_or, if_true, Bool.false_eq_true, if_false, matchAny_cons,
    matchAny_nil, Bool.or_false, e1, matchSubs_cons, matchSubs_nil, Bool.and_true,
    not_compl_html c l e A h hA hg, List.isEmpty_cons]
  have e2 : matchSel c l e (.mk none [] [] [] [] [] rel rt [] [] 0) = true := by
    unfold matchSel
    simp [matchTag, hasFlag, hrel, matchNths, matchAttributes, SEL_DEFINED, SEL_ROOT, SEL_SCOPE,
      SEL_PLACEHOLDER_SHOWN, SEL_EMPTY, RANGES, SEL_IN_RANGE, SEL_OUT_OF_RANGE, SEL_DEFAULT,
      SEL_INDETERMINATE, DIR_FLAGS, SEL_DIR_LTR, SEL_DIR_RTL]
  rw [e2]
  cases matchList c l e (.mk A false h) <;> rfl

/-! ### Monotonicity -/

/-- Adding alternatives never removes a result. -/
theorem monotone (A B : List Sel) (h : Bool) (hm : matchList c l e (.mk A false h) = true) :
    matchList c l e (.mk (A ++ B) false h) = true := by
  rw [list_union, hm, Bool.true_or]

theorem monotone_right (A B : List Sel) (h : Bool) (hm : matchList c l e (.mk B false h) = true) :
    matchList c l e (.mk (A ++ B) false h) = true := by
  rw [list_union, hm, Bool.or_true]

/-- Dually, adding alternatives to a non-empty `:not(…)` never adds a result. -/
theorem antitone_not (A B : List Sel) (h : Bool) (hA : A ≠ [])
    (hm : matchList c l e (.mk (A ++ B) true h) = true) :
    matchList c l e (.mk A true h) = true := by
  rw [not_compl_general] at hm ⊢
  rw [list_union] at hm
  have hne : A.isEmpty = false := by cases A <;> simp_all
  rw [hne]
  revert hm
  cases (!h || c.isHtml) <;> cases matchList c l e (.mk A false h) <;> simp

/-! ### Sub-selector lists: intersection -/

/-- `match_subselectors` over `S ++ T` is the conjunction. -/
theorem subs_append (S T : List SelList) :
    matchSubs c l e (S ++ T) = (matchSubs c l e S && matchSubs c l e T) :=
  matchSubs_append c l e S T

/-- `X:is(L)` (resp. `X:not(L)`) is the intersection of `X` and `:is(L)` (resp. `:not(L)`):
    appending one more sub-list to a compound conjoins its verdict.  The `subs = []` case is the
    one where the `if selector.selectors and …` guard of `match_selectors` short-circuits. -/
theorem is_conj (tag : Option SelTag) (ids classes : List Str) (attrs : List AttrSel)
    (nth : List NthSel) (subs : List SelList) (relation : SelList) (relType : Rel)
    (contains : List ContainsSel) (lang : List LangSel) (flags : Nat) (L : SelList) :
    matchSel c l e (.mk tag ids classes attrs nth (subs ++ [L]) relation relType contains lang flags) =
      (matchSel c l e (.mk tag ids classes attrs nth subs relation relType contains lang flags) &&
        matchList c l e L) := by
  rw [matchSel_mk_subs c l e tag ids classes attrs nth (subs ++ [L]),
    matchSel_mk_subs c l e tag ids classes attrs nth subs, matchSubs_append, matchSubs_cons,
    matchSubs_nil, Bool.and_true, Bool.and_assoc]

/-- General form: sub-lists `S ++ T` on one compound = the compound with `S`, and all of `T`. -/
theorem subs_conj (tag : Option SelTag) (ids classes : List Str) (attrs : List AttrSel)
    (nth : List NthSel) (S T : List SelList) (relation : SelList) (relType : Rel)
    (contains : List ContainsSel) (lang : List LangSel) (flags : Nat) :
    matchSel c l e (.mk tag ids classes attrs nth (S ++ T) relation relType contains lang flags) =
      (matchSel c l e (.mk tag ids classes attrs nth S relation relType contains lang flags) &&
        matchSubs c l e T) := by
  rw [matchSel_mk_subs c l e tag ids classes attrs nth (S ++ T),
    matchSel_mk_subs c l e tag ids classes attrs nth S, matchSubs_append, Bool.and_assoc]

/-- The order of the sub-lists of a compound is irrelevant (`:is(A):not(B)` = `:not(B):is(A)`). -/
theorem subs_perm {S T : List SelList} (hp : List.Perm S T) :
    matchSubs c l e S = matchSubs c l e T := by
  rw [matchSubs_eq_all, matchSubs_eq_all]
  induction hp with
  | nil => rfl
  | cons x _ ih => simp [ih]
  | swap x y t =>
    simp only [List.all_cons]
    cases matchList c l e x <;> cases matchList c l e y <;> rfl
  | trans _ _ ih1 ih2 => exact ih1.trans ih2

/-! ### The context swap of an HTML-only list is local to that list -/

/-- A list that is not HTML-only is evaluated under the caller's context, unchanged. -/
theorem matchList_plain_ctx (A : List Sel) (n : Bool) :
    matchList c l e (.mk A n false) = (!A.isEmpty && (matchAny c l e A != n)) := by
  simp [matchList_mk]

/-- An HTML-only list is evaluated under `{'html': NS_XHTML}` / `iframe_restrict = True`, and only
    it: the function result does not carry a context, so nothing outside the list sees the swap
    (Python: the `namespaces` / `iframe_restrict` attributes are restored before `return`). -/
theorem matchList_html_ctx (A : List Sel) (n : Bool) :
    matchList c l e (.mk A n true) =
      (if c.isHtml then
        (!A.isEmpty &&
          (matchAny { c with namespaces := [("html".toStr, NS_XHTML)], iframeRestrict := true } l e A != n))
       else false) := by
  rw [matchList_mk]
  simp only [Bool.not_true, Bool.false_or, if_true]
  rfl

/-- `ctx_restored`: the verdict of a sub-list followed by further sub-lists is the conjunction of
    the verdict of the first and of the rest *under the original context* — whatever the first
    one's HTML flag was. -/
theorem ctx_restored (L : SelList) (rest : List SelList) :
    matchSubs c l e (L :: rest) = (matchList c l e L && matchSubs c l e rest) :=
  matchSubs_cons c l e L rest

/-- The swap is idempotent: an HTML-only list nested in an HTML-only list sees the same context. -/
theorem htmlOnly_idem : c.htmlOnly.htmlOnly = c.htmlOnly := rfl

/-! ### Lifting to the API -/

/-- `CSSMatch.match` on a union. -/
theorem matchEl_union (A B : List Sel) (h : Bool) (x : Loc) :
    matchEl c (.mk (A ++ B) false h) x = (matchEl c (.mk A false h) x || matchEl c (.mk B false h) x) := by
  simp only [matchEl_eq]
  split
  · rw [list_union, Bool.and_or_distrib_left]
  · rfl

/-- `select('A, B')` is the document-order merge of `select('A')` and `select('B')`. -/
theorem select_union_merge (A B : List Sel) (h : Bool) (tag : Loc) :
    selectIn c (.mk (A ++ B) false h) tag 0 =
      (c.tagDescendants tag false).filter
        (fun x => matchEl c (.mk A false h) x || matchEl c (.mk B false h) x) := by
  unfold selectIn
  simp only [show (0 : Int) < 1 by decide, if_true]
  congr 1
  funext x
  exact matchEl_union c A B h x

/-- Without a limit, `select('A, B')` returns exactly the union of the results. -/
theorem select_union (A B : List Sel) (h : Bool) (tag : Loc) (limit : Int) (hl : limit < 1) (x : Loc) :
    x ∈ selectIn c (.mk (A ++ B) false h) tag limit ↔
      x ∈ selectIn c (.mk A false h) tag limit ∨ x ∈ selectIn c (.mk B false h) tag limit := by
  unfold selectIn
  simp only [hl, if_true, List.mem_filter, matchEl_union, Bool.or_eq_true]
  constructor
  · rintro ⟨hd, hm | hm⟩
    · exact Or.inl ⟨hd, hm⟩
    · exact Or.inr ⟨hd, hm⟩
  · rintro (⟨hd, hm⟩ | ⟨hd, hm⟩)
    · exact ⟨hd, Or.inl hm⟩
    · exact ⟨hd, Or.inr hm⟩

/-- Adding an alternative never removes a result of `select` (no limit). -/
theorem select_monotone (A B : List Sel) (h : Bool) (tag : Loc) (limit : Int) (hl : limit < 1) (x : Loc)
    (hx : x ∈ selectIn c (.mk A false h) tag limit) :
    x ∈ selectIn c (.mk (A ++ B) false h) tag limit :=
  (select_union c A B h tag limit hl x).mpr (Or.inl hx)

/-- `select(':not(A)')` and `select(':is(A)')` partition the non-document element descendants
    (non-empty admissible list). -/
theorem select_not_compl (A : List Sel) (h : Bool) (hA : A ≠ []) (hg : (!h || c.isHtml) = true) (tag : Loc)
    (limit : Int) (hl : limit < 1) (x : Loc)
    (hd : x ∈ c.tagDescendants tag false) (hdoc : x.isDoc = false) :
    x ∈ selectIn c (.mk A true h) tag limit ↔ x ∉ selectIn c (.mk A false h) tag limit := by
  unfold selectIn
  simp only [hl, if_true, List.mem_filter, hd, true_and, matchEl_eq]
  unfold Loc.isDoc at hdoc
  split
  · rename_i e' ks hf
    rw [hf] at hdoc
    simp only at hdoc
    rw [not_compl_html c x e' A h hA hg, hdoc]
    cases matchList c x e' (.mk A false h) <;> simp
  · rename_i hne
    have : x.isTag = true := (List.mem_filter.mp hd).2
    unfold Loc.isTag Node.isTag at this
    split at this
    · rename_i e' ks hf; exact absurd hf (hne e' ks)
    · simp at this

end SoupVerif.C05
