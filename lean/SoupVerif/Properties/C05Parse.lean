/-
  C05, tied to the PARSER by proof: the Boolean algebra of selector lists and the logical pseudo-classes, from
  the selector TEXT.

  `Properties/C05.lean` proves the laws on the IR (`list_union`, `not_compl_html`, `not_list_compl`, `is_conj`,
  `monotone`, `matchEl_union`, `select_union`).  `Properties/C09Compile2.lean` proves which IR the parser model
  builds from the text of a selector list in any spelling (`compile_eq_denote2_plain`: `denote` of the VALUES).
  This file proves the structural facts about `denote` that connect the two, and composes:

  STRUCTURE (`Refine/C05ParseBase.lean`, `Refine/C05ParseImpl.lean`, and below)
    * `commaS A g₁ g₂ B`  the spelled comma of two spelled lists (`commaS_render`: the text is `A g₁ , g₂ B`;
                         `commaS_value`: the values are `commaV`; `commaS_ok` / `ListText.comma`: its side
                         conditions from those of `A` in front of the comma text and of `B`);
    * `loopState_comma`  the loop state of `parse_selectors` (any flags without `FLG_RELATIVE`) after `A , B` is
                         the loop state after `B` with `A`'s finished complex selectors in front;
    * `alts_comma`, `denote_comma`   `denote B (A ,, B)` = `.mk ((denote B A).sels ++ (denote B B).sels) false false`;
    * `subList_eq`       `:is(L)` / `:where(L)` / `:matches(L)` add the nested list `.mk (alts 1 L) false false` to
                         the `selectors` of their compound, `:not(L)` adds `.mk (alts 1 L) true false` — the SAME
                         alternatives `alts 1 L` (`L` read with `FLG_PSEUDO`), never HTML-only, never empty
                         (`alts_ne_nil`);
    * `matchSel_withFn`  the frozen builder of `X:n(L)` matches iff that of `X` does and the nested list does;
    * `endSels_loopState_impl`, `matchList_impl`   `alts 0 L` (top level) is `alts 1 L` with the implied `*` on
                         every compound of every complex selector, and the implied `*` tests only the default
                         namespace.

  LAWS ON TEXT.  `ListText g₁ L g₂` bundles the hypotheses of `compile_eq_denote2_plain` for the pattern text
  `g₁ ++ L.render ++ g₂` (gaps = whitespace and comments; `L.ok 0 g₂`; no custom selector; no NUL); `one cp` is the
  list of one compound, `withItem X it` the compound `X` followed by the simple selector `it`.  `A`, `B`, `L` range
  over ALL selector lists of the grammar of `C09Compile2` (combinators, namespaces, attribute selectors,
  `:nth-*( … of S)`, `:has()`, `:lang()`, `:contains()`, nested `:is()` / `:not()`, …), `X` over all compounds,
  in every spelling.  `c : Ctx` arbitrary unless stated, `l` any node (`e` its element).
  Each theorem says: the parser model accepts the texts, and the verdicts `b…` of the matcher model satisfy

    comma_text             `A , B`  vs  `A`, `B`:                      bAB = bA || bB           (any node, any c)
    comma_monotone_text, comma_monotone_right_text                     bA = true → bAB = true
    comma_compile_text     the compiled list of `A , B` is the append of the compiled lists of `A` and `B`
    select_comma_text      `select('A , B')` = `select('A')` ∪ `select('B')` (no limit), for `SoupSieve.select`
    is_comma_text          `X:is(A , B)`  vs  `X:is(A)`, `X:is(B)`:      bAB = bA || bB   (names: is / where / matches)
    is_monotone_text                                                    bA = true → bAB = true
    is_where_matches_text  `X:n(L)` vs `X:n'(L')`, `n`, `n'` ∈ {is, where, matches}, `L.value = L'.value`: equal
    not_text               `X:not(L)`  vs  `X`, `X:is(L)`:              bN = bX && !bI            (X non-empty)
    not_compl_text         `:not(L)`  vs  `:is(L)`:   bN = !bI on elements that are not the document object and
                           pass the implied `*` (`TagCond c e none`: the default namespace, if declared); on the
                           others both are false
    not_comma_text         `X:not(A , B)` vs `X`, `X:is(A)`, `X:is(B)`:  bN = bX && !(bA || bB)     (De Morgan)
    is_inter_text          `X:n(L)` vs `X`, `:n(L)` (n ∈ {is, where, matches, not}):  bXL = bX && bL, under
                           `InterSide c e X`: `X` has no type selector, or one without a namespace prefix, or the
                           element passes the implied `*`
    is_eq_list_text        `:is(L)` vs `L` (so `:is(A , B)` vs `A , B`): equal verdicts, under `c.nsGet [] = none`
                           (no default namespace declared)

  SIDE CONDITIONS, all needed (`Examples.inter_needs_side`, `is_list_needs_no_default`,
  `not_compl_needs_tagcond`: evaluated on the model, and confirmed on the real library):
    * HTML-only lists do not occur: `fnFlags` never sets `FLG_HTML`, so the nested lists of `:is()` / `:not()` are
      never HTML-only and `C05.not_compl_html`'s guard is vacuous (`subList_eq`); HTML-only sub-lists that `X`
      itself contains (`:dir()`, `:defined`, …) are inside the verdict of `X` on both sides;
    * the default namespace enters only through the implied `*` of a compound WITHOUT a type selector at the top
      level: in `not_compl_text`, `is_inter_text`, `is_eq_list_text` as stated; not at all in the others;
    * `SoupSieve.match` is `matchTextApi E isXml ns = matchText (mkCtx E isXml ns l)` (definitionally): every
      theorem applies with `c := mkCtx E isXml ns l`; then `c.nsGet [] = none` says the caller's map `ns` has no
      `''` key.
  NOT COVERED: `:has(A , B)` (relative lists: `FLG_RELATIVE`, every structural lemma here assumes
  `relOf fl = false`); custom selectors (`tbl []`).
-/
import SoupVerif.Refine.C05ParseBase
import SoupVerif.Refine.C05ParseImpl
import SoupVerif.Properties.C01Parse
import SoupVerif.Refine.NsParseBase
import SoupVerif.Properties.C12Parse
import SoupVerif.Properties.C05
namespace SoupVerif
namespace C05Parse
open SoupVerif.Parser ParserProgress Refine.Compile Spelling
open C09Compile (SComb Forms)
open C09Compile2
open C01Parse (implB implTag)
open C05ParseBase C05ParseImpl
open C01Parse (selectText)
open C12Parse (matchText matchTextApi TagCond)

/-! ## The alternatives of a list, from the values -/

/-- The alternatives (frozen complex selectors) of a list parsed with the flags `fl`. -/
def alts (B : Builtins) (fl : Nat) (V : SelListV) : List Sel :=
  (endSels fl (V.loopState B fl)).map SelB.freeze

theorem alts_ne_nil (B : Builtins) (fl : Nat) (V : SelListV) : alts B fl V ≠ [] := by
  simp [alts, endSels]

/-- **Structural step: the alternatives of `A , B` are those of `A` followed by those of `B`** (flags
    without `FLG_RELATIVE`; `A` ended properly). -/
theorem alts_comma (B : Builtins) (fl : Nat) (hrel : relOf fl = false) (X Y : SelListV)
    (h : EndOK fl (X.loopState B fl)) :
    alts B fl (commaV X Y) = alts B fl X ++ alts B fl Y := by
  rw [alts, loopState_comma B fl hrel X Y h, endSels_addSels, List.map_append]
  rfl

/-- The loop looks at three bits of the flag word only. -/
theorem loopState_congr (B : Builtins) (fl fl' : Nat) (h1 : relOf fl = relOf fl') (h2 : ipOf fl = ipOf fl')
    (h3 : ((fl &&& FLG_HTML) != 0) = ((fl' &&& FLG_HTML) != 0)) (V : SelListV) :
    V.loopState B fl = V.loopState B fl' := by
  have hstep : ∀ c st, combStepG fl c st = combStepG fl' c st := by
    intro c st
    unfold combStepG
    rw [h1, h2]
  have hfold : ∀ (rest : List (Nat × Compound)) (st : LS), foldRest B fl rest st = foldRest B fl' rest st := by
    intro rest
    induction rest with
    | nil => intro st; simp [foldRest]
    | cons x rest ih => intro st; rw [foldRest, foldRest, hstep, ih]
  have hrel : ((fl &&& FLG_RELATIVE) != 0) = ((fl' &&& FLG_RELATIVE) != 0) := h1
  obtain ⟨a, ra⟩ := V
  rw [loopState_eq, loopState_eq, hfold]
  congr 1
  simp only [firstSt, initLS, h3, hrel]

theorem alts_congr (B : Builtins) (fl fl' : Nat) (h1 : relOf fl = relOf fl') (h2 : ipOf fl = ipOf fl')
    (h3 : ((fl &&& FLG_HTML) != 0) = ((fl' &&& FLG_HTML) != 0)) (V : SelListV) :
    alts B fl V = alts B fl' V := by
  rw [alts, alts, loopState_congr B fl fl' h1 h2 h3, endSels, endSels, h2]

/-- **`denote` of a top-level list**: its alternatives, not negated, not HTML-only. -/
theorem denote_eq_alts (B : Builtins) (V : SelListV) (h : EndOK 0 (V.loopState B 0)) :
    denote B V = .mk (alts B 0 V) false false := by
  rw [denote, finishG_eq 0 (by decide) (fun s => by simp [finalSels]) _ h,
    (loopState_fields B 0 (by decide) V).2.2]
  rfl

/-- **`denote` on the comma of two top-level lists: the append of the two denoted lists.** -/
theorem denote_comma (B : Builtins) (X Y : SelListV) (hX : EndOK 0 (X.loopState B 0))
    (hXY : EndOK 0 ((commaV X Y).loopState B 0)) (hY : EndOK 0 (Y.loopState B 0)) :
    denote B (commaV X Y) = .mk ((denote B X).sels ++ (denote B Y).sels) false false := by
  rw [denote_eq_alts B _ hXY, denote_eq_alts B _ hX, denote_eq_alts B _ hY, alts_comma B 0 (by decide) X Y hX]
  rfl

/-! ## The list a functional pseudo-class adds -/

/-- `:is`, `:where`, `:matches`. -/
def isName (n : Str) : Prop := n = ":is".toStr ∨ n = ":where".toStr ∨ n = ":matches".toStr

instance (n : Str) : Decidable (isName n) := by unfold isName; infer_instance

/-- The selector list `:n(L)` appends to the `selectors` of its compound. -/
def subList (B : Builtins) (n : Str) (V : SelListV) : SelList :=
  finishG (fnFlags n) (closeSt (V.loopState B (fnFlags n)))

theorem apply_fn (B : Builtins) (n : Str) (V : SelListV) (b : SelB) :
    Item.apply B (.fn n V) b = b.addSub (subList B n V) := by
  rw [Item.apply]; rfl

theorem fnFlags_facts (n : Str) (h : isName n ∨ n = ":not".toStr) :
    relOf (fnFlags n) = false ∧ ipOf (fnFlags n) = true ∧ (((fnFlags n) &&& FLG_HTML) != 0) = false ∧
    (∀ s, finalSels (fnFlags n) s = s) ∧
    (((fnFlags n) &&& FLG_NOT) != 0) = (n == ":not".toStr) := by
  rcases h with (h | h | h) | h <;> subst h <;>
    exact ⟨by decide, by decide, by decide, fun s => by simp +decide [finalSels], by decide⟩

theorem closeSt_isHtml (st : LS) : (closeSt st).isHtml = st.isHtml := by
  unfold closeSt
  by_cases h : st.hasSelector = true <;> simp [h]

/-- **`:is(L)` / `:where(L)` / `:matches(L)` / `:not(L)` wrap the alternatives of `L` (read with
    `FLG_PSEUDO`: no implied `*`) in a nested list — negated for `:not`, never HTML-only.** -/
theorem subList_eq (B : Builtins) (n : Str) (hn : isName n ∨ n = ":not".toStr) (V : SelListV)
    (h : EndOK (fnFlags n) (V.loopState B (fnFlags n))) :
    subList B n V = .mk (alts B 1 V) (n == ":not".toStr) false := by
  obtain ⟨h1, h2, h3, h4, h5⟩ := fnFlags_facts n hn
  rw [subList, finishG_eq _ h1 h4 _ (EndOK_closeSt _ _ h), endSels_closeSt, closeSt_isHtml,
    (loopState_fields B _ h1 V).2.2, h3, h5]
  have := alts_congr B (fnFlags n) 1 (by rw [h1]; decide) (by rw [h2]; decide) (by rw [h3]; decide) V
  rw [alts] at this
  rw [this]

/-- In the list of `:n(A , B)`, `A` ended properly. -/
theorem endOK_comma_left (B : Builtins) (fl : Nat) (hrel : relOf fl = false) (g₁ g₂ : Str) (b : SCompound)
    (rb : List (SComb × SCompound)) (r : Str) :
    ∀ (ra : List (SComb × SCompound)) (x : Bool) (st : LS),
      restOK fl x (ra ++ (.sym g₁ 44 g₂, b) :: rb) r → InvG fl x st →
      EndOK fl (foldRest B fl (restValue ra) st)
  | [], x, st, hok, hinv => by
    rw [List.nil_append, restOK] at hok
    simp only [restValue, foldRest]
    cases x with
    | true => exact Or.inl hinv.1
    | false =>
      have := (hok.2.2.1 rfl).2
      rw [hrel] at this
      exact Or.inr ⟨this.2, hinv.2.1 (Or.inr rfl)⟩
  | y :: ra, x, st, hok, hinv => by
    rw [List.cons_append, restOK] at hok
    simp only [restValue, foldRest]
    apply endOK_comma_left B fl hrel g₁ g₂ b rb r ra (!y.2.isEmpty) _ hok.2.2.2.2
    rw [SCompound.value_isEmpty]
    apply InvG_step fl _ x _ st _ hinv
    intro he
    exact (hok.2.2.2.1 (by simpa using he)).1

theorem commaS_endOK (B : Builtins) (fl : Nat) (hrel : relOf fl = false) (X Y : SSelList) (g₁ g₂ r : Str)
    (hok : (commaS X g₁ g₂ Y).ok fl r) : EndOK fl (X.value.loopState B fl) := by
  obtain ⟨a, ra⟩ := X
  obtain ⟨b, rb⟩ := Y
  rw [commaS, SSelList.ok] at hok
  rw [SSelList.value, loopState_eq]
  apply endOK_comma_left B fl hrel g₁ g₂ b rb r ra (!a.isEmpty) _ hok.2.2
  have := firstSt_inv B fl a.value
  rwa [SCompound.value_isEmpty] at this

/-! ## The builder of a compound with one more functional pseudo-class -/

/-- `X` followed by one more simple selector. -/
def withItem : SCompound → SItem → SCompound
  | .mk tag items, it => .mk tag (items ++ [it])

theorem itemsValue_append : ∀ (xs ys : List SItem), itemsValue (xs ++ ys) = itemsValue xs ++ itemsValue ys
  | [], ys => by simp [itemsValue]
  | x :: xs, ys => by simp [itemsValue, itemsValue_append xs ys]

theorem renderItems_append : ∀ (xs ys : List SItem), renderItems (xs ++ ys) = renderItems xs ++ renderItems ys
  | [], ys => by simp [renderItems]
  | x :: xs, ys => by simp [renderItems, renderItems_append xs ys]

theorem applyItems_append (B : Builtins) : ∀ (xs ys : List Item) (b : SelB),
    applyItems B (xs ++ ys) b = applyItems B ys (applyItems B xs b)
  | [], ys, b => by simp [applyItems]
  | x :: xs, ys, b => by simp [applyItems, applyItems_append B xs ys]

/-- The text of `X` followed by `it`. -/
theorem withItem_render (X : SCompound) (it : SItem) : (withItem X it).render = X.render ++ it.render := by
  obtain ⟨tag, items⟩ := X
  simp [withItem, SCompound.render, renderItems_append, renderItems]

theorem withItem_isEmpty (X : SCompound) (it : SItem) : (withItem X it).isEmpty = false := by
  obtain ⟨tag, items⟩ := X
  simp [withItem, SCompound.isEmpty]

theorem itemsOK_last : ∀ (items : List SItem) (it : SItem) (r : Str), itemsOK (items ++ [it]) r → it.ok r
  | [], it, r, h => by
    rw [List.nil_append, itemsOK] at h
    simpa [renderItems] using h.1
  | x :: items, it, r, h => by
    rw [List.cons_append, itemsOK] at h
    exact itemsOK_last items it r h.2

theorem withItem_ok_last (X : SCompound) (it : SItem) (r : Str) (h : (withItem X it).ok r) : it.ok r := by
  obtain ⟨tag, items⟩ := X
  simp only [withItem, SCompound.ok] at h
  exact itemsOK_last items it r h.2

/-- The frozen builder of a compound at the top level (with the implied `*`). -/
def selOf (B : Builtins) (cp : SCompound) : Sel := (implB false (cp.value.buildOn B SelB.empty)).freeze

theorem implB_addSub (ip : Bool) (b : SelB) (L : SelList) : implB ip (b.addSub L) = (implB ip b).addSub L := by
  obtain ⟨tag, a, b, c, d, e, f, g, h, i, j, k⟩ := b
  cases tag <;> cases ip <;> rfl

/-- One more sub-list on the builder conjoins its verdict. -/
theorem matchSel_freeze_addSub (c : Ctx) (l : Loc) (e : Elem) (b : SelB) (L : SelList) :
    matchSel c l e (b.addSub L).freeze = (matchSel c l e b.freeze && matchList c l e L) := by
  obtain ⟨tag, a, b', c', d, sels, rels, g, h, i, j, nm⟩ := b
  cases nm with
  | true =>
    simp only [SelB.addSub, SelB.freeze, SelB.freezeF, if_true]
    simp [matchSel]
  | false =>
    simp only [SelB.addSub, SelB.freeze, SelB.size, SelB.freezeF, Bool.false_eq_true, if_false]
    exact C05.is_conj c l e tag a b' c' d sels _ g h i j L

/-- **`X:n(L)` at the top level: the compound `X`, and the list `:n(L)` adds.** -/
theorem matchSel_withFn (B : Builtins) (c : Ctx) (l : Loc) (e : Elem) (X : SCompound) (f : Forms) (i₁ : Str)
    (L : SSelList) (i₂ : Str) :
    matchSel c l e (selOf B (withItem X (.fn f i₁ L i₂))) =
      (matchSel c l e (selOf B X) && matchList c l e (subList B (58 :: lower (valueOf f)) L.value)) := by
  obtain ⟨tag, items⟩ := X
  have : (withItem (.mk tag items) (.fn f i₁ L i₂)).value.buildOn B SelB.empty =
      ((SCompound.mk tag items).value.buildOn B SelB.empty).addSub
        (subList B (58 :: lower (valueOf f)) L.value) := by
    simp only [withItem, SCompound.value, itemsValue_append, itemsValue, SItem.value, Compound.buildOn,
      applyItems_append, applyItems, apply_fn]
  rw [selOf, this, implB_addSub, matchSel_freeze_addSub]
  rfl

/-- `:n(L)` alone carries the implied `*`. -/
theorem matchSel_selOf_empty (B : Builtins) (c : Ctx) (l : Loc) (e : Elem) :
    matchSel c l e (selOf B (.mk none [])) = matchTag c e (some ⟨[42], none⟩) := by
  have : selOf B (.mk none []) = .mk (some ⟨[42], none⟩) [] [] [] [] [] (.mk [] false false) .none [] [] 0 := by
    simp [selOf, SCompound.value, itemsValue, Compound.buildOn, applyItems, implB, SelB.empty, SelB.tag,
      SelB.setTag, SelB.freeze, SelB.size, SelB.sizeList, SelB.freezeF]
  rw [this]
  conv => lhs; unfold matchSel
  simp [hasFlag, SatCore.matchNths_nil, matchAttributes, SelList.nonEmpty, SelList.sels]

/-! ### The type test of a compound is part of its verdict -/

theorem tag_addSub (b : SelB) (x : SelList) : (b.addSub x).tag = b.tag := by cases b; rfl
theorem tag_addNth (b : SelB) (x : List NthSel) : (b.addNth x).tag = b.tag := by cases b; rfl
theorem tag_addAttr (b : SelB) (x : AttrSel) : (b.addAttr x).tag = b.tag := by cases b; rfl
theorem tag_addId (b : SelB) (x : Str) : (b.addId x).tag = b.tag := by cases b; rfl
theorem tag_addClass (b : SelB) (x : Str) : (b.addClass x).tag = b.tag := by cases b; rfl
theorem tag_addLang (b : SelB) (x : LangSel) : (b.addLang x).tag = b.tag := by cases b; rfl
theorem tag_addContains (b : SelB) (x : ContainsSel) : (b.addContains x).tag = b.tag := by cases b; rfl
theorem tag_orFlags (b : SelB) (x : Nat) : (b.orFlags x).tag = b.tag := by cases b; rfl
theorem tag_setNoMatch (b : SelB) : b.setNoMatch.tag = b.tag := by cases b; rfl

theorem tag_plainPseudo (B : Builtins) (n : Str) (b : SelB) : (plainPseudo B n b).tag = b.tag := by
  unfold plainPseudo applySimplePseudo
  simp only [apply_ite SelB.tag, tag_addSub, tag_addNth, tag_orFlags, tag_setNoMatch, ite_self]

theorem tag_apply (B : Builtins) (it : Item) (b : SelB) : (it.apply B b).tag = b.tag := by
  cases it with
  | id v => rw [Item.apply, tag_addId]
  | cls v => rw [Item.apply, tag_addClass]
  | attr ns a =>
    rw [Item.apply]
    unfold applyAttr attrBuildNs
    cases a.body with
    | none => simp only [apply_ite SelB.tag, tag_addSub, tag_addAttr, ite_self]
    | some x => simp only [apply_ite SelB.tag, tag_addSub, tag_addAttr, ite_self]
  | pseudo n => rw [Item.apply, tag_plainPseudo]
  | fn n l => rw [Item.apply, tag_addSub]
  | nth n c =>
    rw [Item.apply]
    unfold nthBuild
    simp only [apply_ite SelB.tag, tag_addNth, ite_self]
  | nthOf n c l =>
    rw [Item.apply]
    unfold nthBuild
    simp only [apply_ite SelB.tag, tag_addNth, ite_self]
  | dir ltr => rw [Item.apply, dirBuild, tag_addSub]
  | lang vs => rw [Item.apply, tag_addLang]
  | contains own vs => rw [Item.apply, tag_addContains]
  | amp => rw [Item.apply, tag_orFlags]
  | custom n l => rw [Item.apply, tag_addSub]

theorem tag_applyItems (B : Builtins) : ∀ (its : List Item) (b : SelB), (applyItems B its b).tag = b.tag
  | [], b => by simp [applyItems]
  | it :: its, b => by rw [applyItems, tag_applyItems B its, tag_apply]

theorem matchSel_freeze_tag (c : Ctx) (l : Loc) (e : Elem) (b : SelB) (h : matchSel c l e b.freeze = true) :
    matchTag c e b.tag = true := by
  obtain ⟨tag, a, b', c', d, sels, rels, g, h', i, j, nm⟩ := b
  cases nm with
  | true => simp [SelB.freeze, SelB.freezeF, matchSel] at h
  | false =>
    simp only [SelB.freeze, SelB.size, SelB.freezeF, Bool.false_eq_true, if_false] at h
    unfold matchSel at h
    simp only [Bool.and_eq_true] at h
    exact h.1.1.1.1.1.1.1.1.1.1.1.1.1.1.1.1.1

theorem tag_implB (ip : Bool) (b : SelB) : (implB ip b).tag = implTag ip b.tag := by
  obtain ⟨tag, a, b, c, d, e, f, g, h, i, j, k⟩ := b
  cases tag <;> cases ip <;> rfl

/-- The type test (with the implied `*`) of the compound `X` is part of its verdict. -/
theorem matchSel_selOf_tag (B : Builtins) (c : Ctx) (l : Loc) (e : Elem) (tag : Option STagN)
    (items : List SItem) (h : matchSel c l e (selOf B (.mk tag items)) = true) :
    matchTag c e (implTag false (tag.map STagN.value)) = true := by
  have := matchSel_freeze_tag c l e _ h
  have ht : (implB false ((SCompound.mk tag items).value.buildOn B SelB.empty)).tag =
      implTag false (tag.map STagN.value) := by
    have h1 : ((SCompound.mk tag items).value.buildOn B SelB.empty).tag = tag.map STagN.value := by
      simp only [SCompound.value, Compound.buildOn]
      rw [tag_applyItems]
      cases tag <;> rfl
    rw [tag_implB, h1]
  rwa [ht] at this

/-! ## Admissible pattern texts -/

/-- `g₁ ++ L.render ++ g₂` is a pattern text covered by `C09Compile2.compile_eq_denote2_plain`: the
    hypotheses of that theorem (gaps, the side conditions `ok` of the spelling at the top level, no custom
    selector, no NUL). -/
structure ListText (g₁ : Str) (L : SSelList) (g₂ : Str) : Prop where
  gap₁ : isGap g₁
  gap₂ : isGap g₂
  ok : L.ok 0 g₂
  tbl : L.tbl []
  nonul : ∀ x ∈ g₁ ++ L.render ++ g₂, x ≠ 0

/-- The list that consists of one compound. -/
def one (cp : SCompound) : SSelList := .mk cp []

theorem one_render (cp : SCompound) : (one cp).render = cp.render := by
  simp [one, SSelList.render, renderRest]

theorem one_value (cp : SCompound) : (one cp).value = .mk cp.value [] := by
  simp [one, SSelList.value, restValue]

/-- The parser on an admissible text, then the matcher. -/
theorem ListText.matchText_eq {g₁ g₂ : Str} {L : SSelList} (h : ListText g₁ L g₂) (c : Ctx) (l : Loc) :
    matchText c (g₁ ++ L.render ++ g₂) l = .ok (matchEl c (denote Gen.builtinsRec L.value) l) := by
  rw [matchText, compile_eq_denote2_plain Gen.builtinsRec g₁ g₂ L h.gap₁ h.gap₂ h.ok h.tbl h.nonul]

theorem ListText.endOK {g₁ g₂ : Str} {L : SSelList} (h : ListText g₁ L g₂) (B : Builtins) :
    EndOK 0 (L.value.loopState B 0) := endOK_of_ok B 0 L g₂ h.ok

/-- One non-empty compound between two gaps. -/
theorem ListText.of_compound {g₁ g₂ : Str} {cp : SCompound} (hg₁ : isGap g₁) (hg₂ : isGap g₂)
    (hok : cp.ok g₂) (hne : cp.isEmpty = false) (htbl : cp.tbl [])
    (h0 : ∀ x ∈ g₁ ++ cp.render ++ g₂, x ≠ 0) : ListText g₁ (one cp) g₂ where
  gap₁ := hg₁
  gap₂ := hg₂
  ok := by
    rw [one, SSelList.ok]
    refine ⟨by simpa [renderRest] using hok, by simp [hne], ?_⟩
    rw [restOK]; left; simp [hne]
  tbl := by rw [one, SSelList.tbl]; exact ⟨htbl, by simp [restTbl]⟩
  nonul := by rw [one_render]; exact h0

/-- `A gc₁ , gc₂ B` between two gaps, from its parts: `A` admissible in front of the comma text, `B` in front
    of the final gap. -/
theorem ListText.comma {g₁ g₂ gc₁ gc₂ : Str} {A B : SSelList} (hg₁ : isGap g₁) (hg₂ : isGap g₂)
    (hc₁ : isGap gc₁) (hc₂ : isGap gc₂) (hA : A.ok 0 (gc₁ ++ 44 :: (gc₂ ++ (B.render ++ g₂))))
    (hB : B.ok 0 g₂) (htA : A.tbl []) (htB : B.tbl [])
    (h0 : ∀ x ∈ g₁ ++ (A.render ++ (gc₁ ++ 44 :: gc₂) ++ B.render) ++ g₂, x ≠ 0) :
    ListText g₁ (commaS A gc₁ gc₂ B) g₂ where
  gap₁ := hg₁
  gap₂ := hg₂
  ok := commaS_ok 0 (by decide) A B gc₁ gc₂ g₂ hc₁ hc₂ hA hB
  tbl := commaS_tbl [] A B gc₁ gc₂ htA htB
  nonul := by rw [commaS_render]; exact h0

theorem ListText.one_facts {g₁ g₂ : Str} {cp : SCompound} (h : ListText g₁ (one cp) g₂) :
    cp.isEmpty = false ∧ cp.ok g₂ := by
  have hok := h.ok
  rw [one, SSelList.ok] at hok
  refine ⟨?_, by simpa [renderRest] using hok.1⟩
  cases he : cp.isEmpty with
  | false => rfl
  | true =>
    have := hok.2.1 he
    revert this; decide

/-- The verdict on the text of one compound. -/
theorem ListText.one_verdict {g₁ g₂ : Str} {cp : SCompound} (h : ListText g₁ (one cp) g₂) (c : Ctx) (l : Loc)
    (e : Elem) (kids : List Node) (hf : l.focus = .elem e kids) :
    matchText c (g₁ ++ cp.render ++ g₂) l = .ok (!e.isDoc && matchSel c l e (selOf Gen.builtinsRec cp)) := by
  have := h.matchText_eq c l
  rw [one_render] at this
  rw [this, one_value, NsParse.denote_one _ _ (by rw [SCompound.value_isEmpty]; exact h.one_facts.1),
    NsParse.matchEl_one c l e kids hf]
  rfl

/-- The verdict on the text of `X:n(L)`, `n` one of `is`, `where`, `matches`, `not`: the verdict of the
    builder of `X` (for an empty `X`: of the implied `*`), and the nested list of the alternatives of `L`. -/
theorem ListText.fn_verdict {g₁ g₂ : Str} {X : SCompound} {f : Forms} {i₁ i₂ : Str} {L : SSelList}
    (h : ListText g₁ (one (withItem X (.fn f i₁ L i₂))) g₂)
    (hn : isName (58 :: lower (valueOf f)) ∨ 58 :: lower (valueOf f) = ":not".toStr)
    (c : Ctx) (l : Loc) (e : Elem) (kids : List Node) (hf : l.focus = .elem e kids) :
    L.ok (fnFlags (58 :: lower (valueOf f))) (i₂ ++ 41 :: g₂) ∧
    matchText c (g₁ ++ (withItem X (.fn f i₁ L i₂)).render ++ g₂) l =
      .ok (!e.isDoc && (matchSel c l e (selOf Gen.builtinsRec X) &&
        matchList c l e (.mk (alts Gen.builtinsRec 1 L.value) (58 :: lower (valueOf f) == ":not".toStr) false))) := by
  have hok := withItem_ok_last X _ g₂ h.one_facts.2
  rw [SItem.ok] at hok
  refine ⟨hok.2.2.2.2, ?_⟩
  rw [h.one_verdict c l e kids hf, matchSel_withFn,
    subList_eq _ _ hn _ (endOK_of_ok _ _ L _ hok.2.2.2.2)]

/-- The alternatives of the list of `:n(A , B)`. -/
theorem alts_comma_nested (B : Builtins) (n : Str) (hn : isName n ∨ n = ":not".toStr) (X Y : SSelList)
    (g₁ g₂ r : Str) (hok : (commaS X g₁ g₂ Y).ok (fnFlags n) r) :
    alts B 1 (commaS X g₁ g₂ Y).value = alts B 1 X.value ++ alts B 1 Y.value := by
  obtain ⟨h1, h2, h3, _, _⟩ := fnFlags_facts n hn
  have hc := fun V => alts_congr B (fnFlags n) 1 (by rw [h1]; decide) (by rw [h2]; decide) (by rw [h3]; decide) V
  rw [← hc, ← hc, ← hc, commaS_value, alts_comma B _ h1 _ _ (commaS_endOK B _ h1 X Y g₁ g₂ r hok)]

theorem isName_ne_not {n : Str} (h : isName n) : (n == ":not".toStr) = false := by
  rcases h with h | h | h <;> rw [h] <;> decide

/-! ## C05 on selector TEXT -/

section Laws
variable (c : Ctx) (l : Loc)

/-- **`A , B` selects the union of what `A` and `B` select** — from the TEXT: for selector lists `A`, `B` of
    the grammar of `C09Compile2` in any spelling, any gaps (with comments) around the comma and around the
    three patterns: the parser model accepts the three texts, and the matcher model run on the compiled
    `A , B` accepts a node iff run on the compiled `A` or on the compiled `B` it does.  No condition on the
    context (namespaces, document kind). -/
theorem comma_text (A B : SSelList) (gc₁ gc₂ g₁ g₂ gA₁ gA₂ gB₁ gB₂ : Str)
    (hAB : ListText g₁ (commaS A gc₁ gc₂ B) g₂) (hA : ListText gA₁ A gA₂) (hB : ListText gB₁ B gB₂) :
    ∃ bAB bA bB,
      matchText c (g₁ ++ (A.render ++ (gc₁ ++ 44 :: gc₂) ++ B.render) ++ g₂) l = .ok bAB ∧
      matchText c (gA₁ ++ A.render ++ gA₂) l = .ok bA ∧
      matchText c (gB₁ ++ B.render ++ gB₂) l = .ok bB ∧ bAB = (bA || bB) := by
  refine ⟨_, _, _, by rw [← commaS_render]; exact hAB.matchText_eq c l, hA.matchText_eq c l,
    hB.matchText_eq c l, ?_⟩
  have hX := hA.endOK Gen.builtinsRec
  have hY := hB.endOK Gen.builtinsRec
  have hXY := hAB.endOK Gen.builtinsRec
  rw [commaS_value] at hXY ⊢
  rw [denote_comma _ _ _ hX hXY hY, denote_eq_alts _ _ hX, denote_eq_alts _ _ hY]
  exact C05.matchEl_union c _ _ false l

/-- **Adding an alternative never removes a result** (from the text). -/
theorem comma_monotone_text (A B : SSelList) (gc₁ gc₂ g₁ g₂ gA₁ gA₂ : Str)
    (hAB : ListText g₁ (commaS A gc₁ gc₂ B) g₂) (hA : ListText gA₁ A gA₂)
    (hm : matchText c (gA₁ ++ A.render ++ gA₂) l = .ok true) :
    matchText c (g₁ ++ (A.render ++ (gc₁ ++ 44 :: gc₂) ++ B.render) ++ g₂) l = .ok true := by
  have h1 := hAB.matchText_eq c l
  have h2 := hA.matchText_eq c l
  rw [commaS_render] at h1
  rw [h2] at hm
  rw [h1]
  have hX := hA.endOK Gen.builtinsRec
  have hXY := hAB.endOK Gen.builtinsRec
  rw [commaS_value] at hXY ⊢
  rw [denote_eq_alts _ _ hXY, alts_comma _ 0 (by decide) _ _ hX, C05.matchEl_union]
  rw [denote_eq_alts _ _ hX] at hm
  injection hm with hm
  rw [hm, Bool.true_or]

/-- … on the right as well. -/
theorem comma_monotone_right_text (A B : SSelList) (gc₁ gc₂ g₁ g₂ gB₁ gB₂ : Str)
    (hAB : ListText g₁ (commaS A gc₁ gc₂ B) g₂) (hB : ListText gB₁ B gB₂)
    (hm : matchText c (gB₁ ++ B.render ++ gB₂) l = .ok true) :
    matchText c (g₁ ++ (A.render ++ (gc₁ ++ 44 :: gc₂) ++ B.render) ++ g₂) l = .ok true := by
  have h1 := hAB.matchText_eq c l
  have h2 := hB.matchText_eq c l
  rw [commaS_render] at h1
  rw [h2] at hm
  rw [h1]
  have hX := commaS_endOK Gen.builtinsRec 0 (by decide) A B gc₁ gc₂ g₂ hAB.ok
  have hY := hB.endOK Gen.builtinsRec
  have hXY := hAB.endOK Gen.builtinsRec
  rw [commaS_value] at hXY ⊢
  rw [denote_eq_alts _ _ hXY, alts_comma _ 0 (by decide) _ _ hX, C05.matchEl_union]
  rw [denote_eq_alts _ _ hY] at hm
  injection hm with hm
  rw [hm, Bool.or_true]

variable (e : Elem) (kids : List Node) (hf : l.focus = .elem e kids)
include hf

/-- **`X:is(A , B)` is the union of `X:is(A)` and `X:is(B)`** — from the TEXT; `X` any compound of the
    grammar (possibly empty: `:is(A , B)` itself), each of the three names one of `is`, `where`, `matches`
    in any spelling.  No condition on the context. -/
theorem is_comma_text (X : SCompound) (f fA fB : Forms) (i₁ i₂ iA₁ iA₂ iB₁ iB₂ : Str) (A B : SSelList)
    (gc₁ gc₂ g₁ g₂ gA₁ gA₂ gB₁ gB₂ : Str)
    (hn : isName (58 :: lower (valueOf f))) (hnA : isName (58 :: lower (valueOf fA)))
    (hnB : isName (58 :: lower (valueOf fB)))
    (hAB : ListText g₁ (one (withItem X (.fn f i₁ (commaS A gc₁ gc₂ B) i₂))) g₂)
    (hA : ListText gA₁ (one (withItem X (.fn fA iA₁ A iA₂))) gA₂)
    (hB : ListText gB₁ (one (withItem X (.fn fB iB₁ B iB₂))) gB₂) :
    ∃ bAB bA bB,
      matchText c (g₁ ++ (withItem X (.fn f i₁ (commaS A gc₁ gc₂ B) i₂)).render ++ g₂) l = .ok bAB ∧
      matchText c (gA₁ ++ (withItem X (.fn fA iA₁ A iA₂)).render ++ gA₂) l = .ok bA ∧
      matchText c (gB₁ ++ (withItem X (.fn fB iB₁ B iB₂)).render ++ gB₂) l = .ok bB ∧
      bAB = (bA || bB) := by
  obtain ⟨hok, h1⟩ := hAB.fn_verdict (Or.inl hn) c l e kids hf
  obtain ⟨_, h2⟩ := hA.fn_verdict (Or.inl hnA) c l e kids hf
  obtain ⟨_, h3⟩ := hB.fn_verdict (Or.inl hnB) c l e kids hf
  refine ⟨_, _, _, h1, h2, h3, ?_⟩
  have e1 : ((58 :: lower (valueOf f)) == ":not".toStr) = false := by
    rcases hn with h | h | h <;> rw [h] <;> decide
  have e2 : ((58 :: lower (valueOf fA)) == ":not".toStr) = false := by
    rcases hnA with h | h | h <;> rw [h] <;> decide
  have e3 : ((58 :: lower (valueOf fB)) == ":not".toStr) = false := by
    rcases hnB with h | h | h <;> rw [h] <;> decide
  rw [e1, e2, e3, alts_comma_nested _ _ (Or.inl hn) A B gc₁ gc₂ _ hok, C05.list_union]
  cases e.isDoc <;> cases matchSel c l e (selOf Gen.builtinsRec X) <;> simp

/-- **`X:is(A , B)` keeps every result of `X:is(A)`** (adding an alternative never removes a result). -/
theorem is_monotone_text (X : SCompound) (f fA : Forms) (i₁ i₂ iA₁ iA₂ : Str) (A B : SSelList)
    (gc₁ gc₂ g₁ g₂ gA₁ gA₂ : Str)
    (hn : isName (58 :: lower (valueOf f))) (hnA : isName (58 :: lower (valueOf fA)))
    (hAB : ListText g₁ (one (withItem X (.fn f i₁ (commaS A gc₁ gc₂ B) i₂))) g₂)
    (hA : ListText gA₁ (one (withItem X (.fn fA iA₁ A iA₂))) gA₂)
    (hm : matchText c (gA₁ ++ (withItem X (.fn fA iA₁ A iA₂)).render ++ gA₂) l = .ok true) :
    matchText c (g₁ ++ (withItem X (.fn f i₁ (commaS A gc₁ gc₂ B) i₂)).render ++ g₂) l = .ok true := by
  obtain ⟨hok, h1⟩ := hAB.fn_verdict (Or.inl hn) c l e kids hf
  obtain ⟨_, h2⟩ := hA.fn_verdict (Or.inl hnA) c l e kids hf
  rw [h2] at hm
  have hm := Except.ok.inj hm
  rw [isName_ne_not hnA] at hm
  simp only [Bool.and_eq_true] at hm
  obtain ⟨hd, hx, hu⟩ := hm
  rw [h1, isName_ne_not hn, alts_comma_nested _ _ (Or.inl hn) A B gc₁ gc₂ _ hok, C05.list_union, hd, hx, hu]
  rfl

/-- **`:where` and `:matches` behave as `:is`** — from the TEXT: `X:n(L)` and `X:n'(L')` with `n`, `n'` among
    `is`, `where`, `matches` (any spelling) and `L`, `L'` two spellings of the same list (equal VALUES) have
    the same verdict.  (Which spellings are admissible differs: `:matches()` takes no empty alternative;
    that is in `ListText`.) -/
theorem is_where_matches_text (X : SCompound) (f f' : Forms) (i₁ i₂ i₁' i₂' : Str) (L L' : SSelList)
    (g₁ g₂ g₁' g₂' : Str) (hv : L.value = L'.value)
    (hn : isName (58 :: lower (valueOf f))) (hn' : isName (58 :: lower (valueOf f')))
    (h : ListText g₁ (one (withItem X (.fn f i₁ L i₂))) g₂)
    (h' : ListText g₁' (one (withItem X (.fn f' i₁' L' i₂'))) g₂') :
    ∃ b, matchText c (g₁ ++ (withItem X (.fn f i₁ L i₂)).render ++ g₂) l = .ok b ∧
      matchText c (g₁' ++ (withItem X (.fn f' i₁' L' i₂')).render ++ g₂') l = .ok b := by
  obtain ⟨_, h1⟩ := h.fn_verdict (Or.inl hn) c l e kids hf
  obtain ⟨_, h2⟩ := h'.fn_verdict (Or.inl hn') c l e kids hf
  refine ⟨_, h1, ?_⟩
  rw [h2, isName_ne_not hn, isName_ne_not hn', hv]

/-- **`X:not(L)` selects exactly the elements `X` selects and `X:is(L)` does not** — from the TEXT; `X` a
    non-empty compound, `L` a selector list (one or several alternatives: `:not(A , B)` is the complement
    of `:is(A , B)` within `X`), the name of the second pattern one of `is`, `where`, `matches`.  No condition
    on the context: the lists of `:not()` / `:is()` are never HTML-only. -/
theorem not_text (X : SCompound) (f fi : Forms) (i₁ i₂ j₁ j₂ : Str) (L : SSelList)
    (g₁ g₂ gi₁ gi₂ gX₁ gX₂ : Str)
    (hn : 58 :: lower (valueOf f) = ":not".toStr) (hni : isName (58 :: lower (valueOf fi)))
    (hN : ListText g₁ (one (withItem X (.fn f i₁ L i₂))) g₂)
    (hI : ListText gi₁ (one (withItem X (.fn fi j₁ L j₂))) gi₂)
    (hX : ListText gX₁ (one X) gX₂) :
    ∃ bN bI bX,
      matchText c (g₁ ++ (withItem X (.fn f i₁ L i₂)).render ++ g₂) l = .ok bN ∧
      matchText c (gi₁ ++ (withItem X (.fn fi j₁ L j₂)).render ++ gi₂) l = .ok bI ∧
      matchText c (gX₁ ++ X.render ++ gX₂) l = .ok bX ∧
      bN = (bX && !bI) := by
  obtain ⟨_, h1⟩ := hN.fn_verdict (Or.inr hn) c l e kids hf
  obtain ⟨_, h2⟩ := hI.fn_verdict (Or.inl hni) c l e kids hf
  refine ⟨_, _, _, h1, h2, hX.one_verdict c l e kids hf, ?_⟩
  rw [isName_ne_not hni, hn, beq_self_eq_true,
    C05.not_compl_html c l e _ false (alts_ne_nil _ _ _) rfl]
  cases e.isDoc <;> cases matchSel c l e (selOf Gen.builtinsRec X) <;> simp

/-- **`:not(L)` is the complement of `:is(L)`** on the elements: for every element that is not the document
    object and passes the implied `*` (`TagCond c e none`: it is in the default namespace when the caller's
    map declares one — always true without a default namespace).  On the others BOTH are false. -/
theorem not_compl_text (f fi : Forms) (i₁ i₂ j₁ j₂ : Str) (L : SSelList) (g₁ g₂ gi₁ gi₂ : Str)
    (hn : 58 :: lower (valueOf f) = ":not".toStr) (hni : isName (58 :: lower (valueOf fi)))
    (hN : ListText g₁ (one (.mk none [.fn f i₁ L i₂])) g₂)
    (hI : ListText gi₁ (one (.mk none [.fn fi j₁ L j₂])) gi₂) :
    ∃ bN bI,
      matchText c (g₁ ++ (SItem.fn f i₁ L i₂).render ++ g₂) l = .ok bN ∧
      matchText c (gi₁ ++ (SItem.fn fi j₁ L j₂).render ++ gi₂) l = .ok bI ∧
      (e.isDoc = false ∧ TagCond c e none → bN = !bI) ∧
      (¬ (e.isDoc = false ∧ TagCond c e none) → bN = false ∧ bI = false) := by
  have hr : ∀ it : SItem, (withItem (.mk none []) it).render = it.render := by
    intro it; simp [withItem, SCompound.render, renderItems]
  obtain ⟨_, h1⟩ := ListText.fn_verdict (X := .mk none []) hN (Or.inr hn) c l e kids hf
  obtain ⟨_, h2⟩ := ListText.fn_verdict (X := .mk none []) hI (Or.inl hni) c l e kids hf
  rw [hr] at h1 h2
  refine ⟨_, _, h1, h2, ?_⟩
  have ht := C12Parse.matchTag_implTag_iff c e none
  rw [show implTag false none = some ⟨[42], none⟩ from rfl] at ht
  rw [isName_ne_not hni, hn, beq_self_eq_true, matchSel_selOf_empty,
    C05.not_compl_html c l e _ false (alts_ne_nil _ _ _) rfl, ← ht]
  cases e.isDoc <;> cases matchTag c e (some ⟨[42], none⟩) <;> simp

/-- **`X:not(A , B)` is the complement, within `X`, of `X:is(A)` ∪ `X:is(B)`** (De Morgan, from the TEXT). -/
theorem not_comma_text (X : SCompound) (f fA fB : Forms) (i₁ i₂ iA₁ iA₂ iB₁ iB₂ : Str) (A B : SSelList)
    (gc₁ gc₂ g₁ g₂ gA₁ gA₂ gB₁ gB₂ gX₁ gX₂ : Str)
    (hn : 58 :: lower (valueOf f) = ":not".toStr) (hnA : isName (58 :: lower (valueOf fA)))
    (hnB : isName (58 :: lower (valueOf fB)))
    (hN : ListText g₁ (one (withItem X (.fn f i₁ (commaS A gc₁ gc₂ B) i₂))) g₂)
    (hA : ListText gA₁ (one (withItem X (.fn fA iA₁ A iA₂))) gA₂)
    (hB : ListText gB₁ (one (withItem X (.fn fB iB₁ B iB₂))) gB₂)
    (hX : ListText gX₁ (one X) gX₂) :
    ∃ bN bA bB bX,
      matchText c (g₁ ++ (withItem X (.fn f i₁ (commaS A gc₁ gc₂ B) i₂)).render ++ g₂) l = .ok bN ∧
      matchText c (gA₁ ++ (withItem X (.fn fA iA₁ A iA₂)).render ++ gA₂) l = .ok bA ∧
      matchText c (gB₁ ++ (withItem X (.fn fB iB₁ B iB₂)).render ++ gB₂) l = .ok bB ∧
      matchText c (gX₁ ++ X.render ++ gX₂) l = .ok bX ∧
      bN = (bX && !(bA || bB)) := by
  obtain ⟨hok, h1⟩ := hN.fn_verdict (Or.inr hn) c l e kids hf
  obtain ⟨_, h2⟩ := hA.fn_verdict (Or.inl hnA) c l e kids hf
  obtain ⟨_, h3⟩ := hB.fn_verdict (Or.inl hnB) c l e kids hf
  refine ⟨_, _, _, _, h1, h2, h3, hX.one_verdict c l e kids hf, ?_⟩
  rw [isName_ne_not hnA, isName_ne_not hnB, alts_comma_nested _ _ (Or.inr hn) A B gc₁ gc₂ _ hok, hn,
    beq_self_eq_true,
    C05.not_list_compl c l e _ _ false (by simp [alts_ne_nil]) rfl]
  cases e.isDoc <;> cases matchSel c l e (selOf Gen.builtinsRec X) <;> simp

/-- The side condition of `is_inter_text`: `X` has no type selector, or one without a namespace prefix, or
    the element passes the implied `*` (it is in the default namespace, if the caller's map declares one). -/
def InterSide (c : Ctx) (e : Elem) : SCompound → Prop
  | .mk tag _ => ∀ t, tag = some t → t.ns = none ∨ TagCond c e none

/-- **`X:is(L)` is the intersection of `X` and `:is(L)`** (likewise `X:not(L)` of `X` and `:not(L)`) — from the
    TEXT, under `InterSide`: `:is(L)` ALONE carries the implied `*`, which tests the default namespace; `X`
    tests it too unless its type selector has an explicit prefix (`ns|E`, `*|E`, `|E`).  Then, for an element
    outside the default namespace, `ns|E:is(L)` can match where `:is(L)` alone does not
    (`Examples.inter_needs_side`). -/
theorem is_inter_text (X : SCompound) (f f' : Forms) (i₁ i₂ j₁ j₂ : Str) (L : SSelList)
    (g₁ g₂ g₁' g₂' gX₁ gX₂ : Str)
    (hn : isName (58 :: lower (valueOf f)) ∨ 58 :: lower (valueOf f) = ":not".toStr)
    (hn' : isName (58 :: lower (valueOf f')) ∨ 58 :: lower (valueOf f') = ":not".toStr)
    (hpol : (58 :: lower (valueOf f) == ":not".toStr) = (58 :: lower (valueOf f') == ":not".toStr))
    (hXL : ListText g₁ (one (withItem X (.fn f i₁ L i₂))) g₂)
    (hL : ListText g₁' (one (.mk none [.fn f' j₁ L j₂])) g₂')
    (hX : ListText gX₁ (one X) gX₂) (hside : InterSide c e X) :
    ∃ bXL bL bX,
      matchText c (g₁ ++ (withItem X (.fn f i₁ L i₂)).render ++ g₂) l = .ok bXL ∧
      matchText c (g₁' ++ (SItem.fn f' j₁ L j₂).render ++ g₂') l = .ok bL ∧
      matchText c (gX₁ ++ X.render ++ gX₂) l = .ok bX ∧
      bXL = (bX && bL) := by
  have hr : ∀ it : SItem, (withItem (.mk none []) it).render = it.render := by
    intro it; simp [withItem, SCompound.render, renderItems]
  obtain ⟨_, h1⟩ := hXL.fn_verdict hn c l e kids hf
  obtain ⟨_, h2⟩ := ListText.fn_verdict (X := .mk none []) hL hn' c l e kids hf
  rw [hr] at h2
  refine ⟨_, _, _, h1, h2, hX.one_verdict c l e kids hf, ?_⟩
  rw [matchSel_selOf_empty, hpol]
  have key : matchSel c l e (selOf Gen.builtinsRec X) = true → matchTag c e (some ⟨[42], none⟩) = true := by
    intro hm
    obtain ⟨tag, items⟩ := X
    have ht := matchSel_selOf_tag _ c l e tag items hm
    cases tag with
    | none => exact ht
    | some t =>
      rcases hside t rfl with hs | hs
      · obtain ⟨ns, tg⟩ := t
        simp only at hs
        subst hs
        simp only [implTag, Option.map_some, Option.isNone_some, Bool.false_and, Bool.false_eq_true,
          if_false, STagN.value, Option.map_none, matchTag, Bool.and_eq_true] at ht
        have hstar : matchTagname c e ⟨[42], none⟩ = true := by
          have hl : lower [42] = [42] := by decide
          unfold matchTagname
          cases c.isXml <;> simp [hl]
        simp only [matchTag, matchNamespace, Bool.and_eq_true] at ht ⊢
        exact ⟨ht.1, hstar⟩
      · exact (C12Parse.matchTag_implTag_iff c e none).mpr hs
  revert key
  cases e.isDoc <;> cases matchSel c l e (selOf Gen.builtinsRec X) <;>
    cases matchTag c e (some ⟨[42], none⟩) <;> simp

/-- **`:is(L)` selects what `L` selects — when no default namespace is declared** (`c.nsGet [] = none`: the
    caller's map has no `''` entry), from the TEXT: `:is(A , B)` is then the same set as `A , B`
    (`L := commaS A g₁ g₂ B`).  The two compiled structures differ: read at the top level EVERY compound of
    `L` carries the implied `*`, read inside `:is()` (`FLG_PSEUDO`) none does and the one compound `:is(L)`
    carries it; the implied `*` tests the default namespace.  With a default namespace the two differ on
    relation chains (`Examples.is_list_needs_no_default`). -/
theorem is_eq_list_text (f : Forms) (i₁ i₂ : Str) (L : SSelList) (g₁ g₂ g₁' g₂' : Str)
    (hn : isName (58 :: lower (valueOf f)))
    (hI : ListText g₁ (one (.mk none [.fn f i₁ L i₂])) g₂) (hL : ListText g₁' L g₂')
    (hns : c.nsGet [] = none) :
    ∃ b, matchText c (g₁ ++ (SItem.fn f i₁ L i₂).render ++ g₂) l = .ok b ∧
      matchText c (g₁' ++ L.render ++ g₂') l = .ok b := by
  have hr : ∀ it : SItem, (withItem (.mk none []) it).render = it.render := by
    intro it; simp [withItem, SCompound.render, renderItems]
  obtain ⟨_, h1⟩ := ListText.fn_verdict (X := .mk none []) hI (Or.inl hn) c l e kids hf
  rw [hr] at h1
  refine ⟨_, h1, ?_⟩
  have ht := matchTag_implTag c e hns none
  rw [show implTag false none = some ⟨[42], none⟩ from rfl, show matchTag c e none = true from rfl] at ht
  have ha : alts Gen.builtinsRec 0 L.value = implSels (alts Gen.builtinsRec 1 L.value) :=
    endSels_loopState_impl _ _ (nonEmptyV_of_ok L g₂' hL.ok)
  have hm := matchList_impl (.mk (alts Gen.builtinsRec 1 L.value) false false) c l e hns
  rw [implList] at hm
  rw [hL.matchText_eq c l, denote_eq_alts _ _ (hL.endOK _), ha, matchEl_eq, hf]
  simp only
  rw [hm, isName_ne_not hn, matchSel_selOf_empty, ht, Bool.true_and]

end Laws

/-! ## The compiled structures, and `select` -/

/-- **The parser on `A , B`: the compiled list is the append of the two compiled lists.** -/
theorem comma_compile_text (A B : SSelList) (gc₁ gc₂ g₁ g₂ gA₁ gA₂ gB₁ gB₂ : Str)
    (hAB : ListText g₁ (commaS A gc₁ gc₂ B) g₂) (hA : ListText gA₁ A gA₂) (hB : ListText gB₁ B gB₂) :
    ∃ SA SB,
      Parser.compile pyFoldEnv Gen.lexicon Gen.builtinsRec
        (g₁ ++ (A.render ++ (gc₁ ++ 44 :: gc₂) ++ B.render) ++ g₂) [] 0 = .ok (.mk (SA ++ SB) false false) ∧
      Parser.compile pyFoldEnv Gen.lexicon Gen.builtinsRec (gA₁ ++ A.render ++ gA₂) [] 0 =
        .ok (.mk SA false false) ∧
      Parser.compile pyFoldEnv Gen.lexicon Gen.builtinsRec (gB₁ ++ B.render ++ gB₂) [] 0 =
        .ok (.mk SB false false) := by
  have hX := hA.endOK Gen.builtinsRec
  have hY := hB.endOK Gen.builtinsRec
  have hXY := hAB.endOK Gen.builtinsRec
  rw [commaS_value] at hXY
  refine ⟨alts Gen.builtinsRec 0 A.value, alts Gen.builtinsRec 0 B.value, ?_, ?_, ?_⟩
  · rw [← commaS_render, compile_eq_denote2_plain _ _ _ _ hAB.gap₁ hAB.gap₂ hAB.ok hAB.tbl hAB.nonul,
      commaS_value, denote_comma _ _ _ hX hXY hY, denote_eq_alts _ _ hX, denote_eq_alts _ _ hY]
    rfl
  · rw [compile_eq_denote2_plain _ _ _ _ hA.gap₁ hA.gap₂ hA.ok hA.tbl hA.nonul, denote_eq_alts _ _ hX]
  · rw [compile_eq_denote2_plain _ _ _ _ hB.gap₁ hB.gap₂ hB.ok hB.tbl hB.nonul, denote_eq_alts _ _ hY]

/-- **`select('A , B')` (no limit) returns exactly the union of `select('A')` and `select('B')`** —
    `SoupSieve.select` on the three TEXTS.  (Order: `comma_compile_text` + `C05.select_union_merge`.) -/
theorem select_comma_text (E : Env) (isXml : Bool) (ns : List (Str × Str)) (tag : Loc) (limit : Int)
    (hl : limit < 1) (A B : SSelList) (gc₁ gc₂ g₁ g₂ gA₁ gA₂ gB₁ gB₂ : Str)
    (hAB : ListText g₁ (commaS A gc₁ gc₂ B) g₂) (hA : ListText gA₁ A gA₂) (hB : ListText gB₁ B gB₂) :
    ∃ rAB rA rB,
      selectText E isXml ns (g₁ ++ (A.render ++ (gc₁ ++ 44 :: gc₂) ++ B.render) ++ g₂) tag limit = .ok rAB ∧
      selectText E isXml ns (gA₁ ++ A.render ++ gA₂) tag limit = .ok rA ∧
      selectText E isXml ns (gB₁ ++ B.render ++ gB₂) tag limit = .ok rB ∧
      (∀ x, x ∈ rAB ↔ x ∈ rA ∨ x ∈ rB) := by
  obtain ⟨SA, SB, h1, h2, h3⟩ := comma_compile_text A B gc₁ gc₂ g₁ g₂ gA₁ gA₂ gB₁ gB₂ hAB hA hB
  refine ⟨select E isXml ns (.mk (SA ++ SB) false false) tag limit,
    select E isXml ns (.mk SA false false) tag limit, select E isXml ns (.mk SB false false) tag limit,
    by unfold selectText; rw [h1], by unfold selectText; rw [h2], by unfold selectText; rw [h3], ?_⟩
  intro x
  exact C05.select_union (mkCtx E isXml ns tag) SA SB false tag limit hl x

/-! ## Non-vacuity: concrete texts on small trees, and the side conditions are needed -/

namespace Examples
open C12 (cxml u1 u2 circle)

def lits (s : String) : Forms := s.toStr.map fun c => (c, EscForm.lit)

def E0 : Env := ⟨asciiEnv, fun _ => 0, id⟩
def divE : Elem := ⟨false, "div".toStr, none, none, []⟩
def pE : Elem := ⟨false, "p".toStr, none, none, []⟩
def spanE : Elem := ⟨false, "span".toStr, none, none, []⟩

/-- `<div><p/><span/></div>`, at the `p` and at the `span`. -/
def locP : Loc := ⟨.elem pE [], [⟨[], divE, [.elem spanE []]⟩]⟩
def locS : Loc := ⟨.elem spanE [], [⟨[.elem pE []], divE, []⟩]⟩
def ctxP : Ctx := mkCtx E0 false [] locP
def ctxS : Ctx := mkCtx E0 false [] locS

def cmp (n : String) : SCompound := .mk (some ⟨none, .name (lits n)⟩) []

/-- `p` -/
def lA : SSelList := one (cmp "p")
/-- `div > span` -/
def lB : SSelList := .mk (cmp "div") [(.sym [32] 62 [32], cmp "span")]

def isOk (x : Except Parser.Err Bool) (b : Bool) : Bool :=
  match x with
  | .ok b' => b == b'
  | .error _ => false

set_option synthInstance.maxSize 2000

theorem lA_text : ListText [] lA [] :=
  ListText.of_compound (by decide) (by decide)
    (by simp only [cmp, SCompound.ok, itemsOK, STagN.ok, C09Compile.STag.ok, C09Compile.identOK, renderItems]
        decide)
    rfl (by simp [cmp, SCompound.tbl, itemsTbl]) (by decide)

theorem lB_ok : lB.ok 0 [] := by
  simp only [lB, cmp, SSelList.ok, SCompound.ok, restOK, SCompound.isEmpty, itemsOK, STagN.ok,
    C09Compile.STag.ok, C09Compile.identOK, renderRest, renderItems, SCompound.render, SComb.ok, SComb.render,
    SComb.value, STagN.render, C09Compile.STag.render]
  decide

theorem lB_text : ListText [32] lB [] :=
  ⟨by decide, by decide, lB_ok, by simp [lB, cmp, SSelList.tbl, SCompound.tbl, itemsTbl, restTbl], by decide⟩

/-- `p/**/, div > span ` from its parts. -/
theorem lAB_text : ListText [] (commaS lA "/**/".toStr [32] lB) [32] :=
  ListText.comma (by decide) (by decide) (by decide) (by decide)
    (by simp only [lA, lB, one, cmp, SSelList.ok, SCompound.ok, restOK, SCompound.isEmpty, itemsOK, STagN.ok,
          C09Compile.STag.ok, C09Compile.identOK, renderRest, renderItems, SCompound.render, SSelList.render]
        decide)
    (by simp only [lB, cmp, SSelList.ok, SCompound.ok, restOK, SCompound.isEmpty, itemsOK, STagN.ok,
          C09Compile.STag.ok, C09Compile.identOK, renderRest, renderItems, SCompound.render, SComb.ok,
          SComb.render, SComb.value, STagN.render, C09Compile.STag.render]
        decide)
    (by simp [lA, one, cmp, SSelList.tbl, SCompound.tbl, itemsTbl, restTbl])
    (by simp [lB, cmp, SSelList.tbl, SCompound.tbl, itemsTbl, restTbl]) (by decide)

example : ([] ++ (lA.render ++ ("/**/".toStr ++ 44 :: [32]) ++ lB.render) ++ [32]) = "p/**/, div > span ".toStr ∧
    ([] ++ lA.render ++ []) = "p".toStr ∧ ([32] ++ lB.render ++ []) = " div > span".toStr := by decide

/-- Instance of `comma_text`: `p/**/, div > span ` against `p` and ` div > span`, at the `span`. -/
example : ∃ bAB bA bB, matchText ctxS "p/**/, div > span ".toStr locS = .ok bAB ∧
    matchText ctxS "p".toStr locS = .ok bA ∧ matchText ctxS " div > span".toStr locS = .ok bB ∧
    bAB = (bA || bB) :=
  comma_text ctxS locS lA lB "/**/".toStr [32] [] [32] [] [] [32] [] lAB_text lA_text lB_text

#guard isOk (matchText ctxS "p/**/, div > span ".toStr locS) true
#guard isOk (matchText ctxS "p".toStr locS) false
#guard isOk (matchText ctxS " div > span".toStr locS) true
#guard isOk (matchText ctxP "p/**/, div > span ".toStr locP) true

/-- `:IS(`, `:where(`, `:not(` around a list. -/
def fnC (name : String) (L : SSelList) : SCompound := withItem (.mk none []) (.fn (lits name) [32] L [])
def fnX (name : String) (L : SSelList) : SCompound := withItem (cmp "span") (.fn (lits name) [32] L [])

theorem fn_text (X : SCompound) (hX : X = .mk none [] ∨ X = cmp "span") (name : String)
    (hn : name = "IS" ∨ name = "where" ∨ name = "not" ∨ name = "matches") (L : SSelList)
    (hL : L = lA ∨ L = lB ∨ L = commaS lA "/**/".toStr [32] lB) :
    ListText [] (one (withItem X (.fn (lits name) [32] L []))) [] := by
  apply ListText.of_compound (by decide) (by decide) _ (withItem_isEmpty _ _)
  · rcases hX with rfl | rfl <;> rcases hL with rfl | rfl | rfl <;>
      simp [withItem, cmp, lA, lB, one, commaS, SCompound.tbl, itemsTbl, SItem.tbl, SSelList.tbl, restTbl]
  · rcases hX with rfl | rfl <;> rcases hn with rfl | rfl | rfl | rfl <;> rcases hL with rfl | rfl | rfl <;> decide
  · rcases hX with rfl | rfl <;> rcases hn with rfl | rfl | rfl | rfl <;> rcases hL with rfl | rfl | rfl <;>
    · simp only [withItem, cmp, lA, lB, one, commaS, List.nil_append, List.cons_append, SSelList.ok, SCompound.ok,
        restOK, SCompound.isEmpty, itemsOK, SItem.ok, STagN.ok, C09Compile.STag.ok, C09Compile.identOK, renderRest,
        renderItems, SItem.render, SSelList.render, SCompound.render, fnName2, SComb.ok, SComb.render,
        SComb.value, STagN.render, C09Compile.STag.render]
      decide

example : ([] ++ (withItem (cmp "span") (.fn (lits "IS") [32] (commaS lA "/**/".toStr [32] lB) [])).render ++ []) =
    "span:IS( p/**/, div > span)".toStr := by decide

/-- Instance of `is_comma_text`: `span:IS( p/**/, div > span)` against `span:where( p)`, `span:matches( div > span)`. -/
example : ∃ bAB bA bB, matchText ctxS "span:IS( p/**/, div > span)".toStr locS = .ok bAB ∧
    matchText ctxS "span:where( p)".toStr locS = .ok bA ∧
    matchText ctxS "span:matches( div > span)".toStr locS = .ok bB ∧ bAB = (bA || bB) :=
  is_comma_text ctxS locS spanE [] rfl (cmp "span") (lits "IS") (lits "where") (lits "matches") [32] [] [32] []
    [32] [] lA lB "/**/".toStr [32] [] [] [] [] [] [] (by decide) (by decide) (by decide)
    (fn_text _ (Or.inr rfl) "IS" (by simp) _ (by simp))
    (fn_text _ (Or.inr rfl) "where" (by simp) _ (by simp))
    (fn_text _ (Or.inr rfl) "matches" (by simp) _ (by simp))

/-- Instance of `not_comma_text` / `not_text`. -/
example : ∃ bN bI bX, matchText ctxS "span:not( p/**/, div > span)".toStr locS = .ok bN ∧
    matchText ctxS "span:IS( p/**/, div > span)".toStr locS = .ok bI ∧
    matchText ctxS "span".toStr locS = .ok bX ∧ bN = (bX && !bI) :=
  not_text ctxS locS spanE [] rfl (cmp "span") (lits "not") (lits "IS") [32] [] [32] []
    (commaS lA "/**/".toStr [32] lB) [] [] [] [] [] [] (by decide) (by decide)
    (fn_text _ (Or.inr rfl) "not" (by simp) _ (by simp))
    (fn_text _ (Or.inr rfl) "IS" (by simp) _ (by simp))
    (ListText.of_compound (by decide) (by decide)
      (by simp only [cmp, SCompound.ok, itemsOK, STagN.ok, C09Compile.STag.ok, C09Compile.identOK, renderItems]
          decide)
      rfl (by simp [cmp, SCompound.tbl, itemsTbl]) (by decide))

#guard isOk (matchText ctxS "span:not( p/**/, div > span)".toStr locS) false
#guard isOk (matchText ctxS "span:IS( p/**/, div > span)".toStr locS) true
#guard isOk (matchText ctxS "span:not( p)".toStr locS) true

/-- Instance of `is_eq_list_text` (the map `[]` declares no default namespace). -/
example : ∃ b, matchText ctxS ":IS( div > span)".toStr locS = .ok b ∧
    matchText ctxS " div > span".toStr locS = .ok b :=
  is_eq_list_text ctxS locS spanE [] rfl (lits "IS") [32] [] lB [] [] [32] [] (by decide)
    (fn_text _ (Or.inl rfl) "IS" (by simp) _ (by simp)) lB_text rfl

/-! ### The side conditions are needed (a default namespace `u1`, the prefix `s ↦ u2`) -/

def cDef : Ctx := { cxml with namespaces := [([], u1), ("s".toStr, u2)] }
/-- `<circle xmlns="u2"><circle xmlns="u1"/></circle>`: at the inner and at the outer element. -/
def inner : Loc := ⟨.elem (circle none (some u1) []) [], [⟨[], circle none (some u2) [], []⟩]⟩
def outer : Loc := ⟨.elem (circle none (some u2) []) [.elem (circle none (some u1) []) []], []⟩

/-- `InterSide` is needed: under a default namespace, `s|circle:is(*|*)` matches an element outside it,
    `s|circle` does, `:is(*|*)` ALONE (the implied `*`) does not. -/
theorem inter_needs_side :
    isOk (matchText cDef "s|circle:is(*|*)".toStr outer) true = true ∧
    isOk (matchText cDef "s|circle".toStr outer) true = true ∧
    isOk (matchText cDef ":is(*|*)".toStr outer) false = true := by decide +kernel

/-- `c.nsGet [] = none` is needed in `is_eq_list_text`: under a default namespace the implied `*` of the
    PARENT compound of `:is(*|*) > :is(*|*)` fails on a parent outside it; inside `:is( … )` no compound has
    an implied `*`. -/
theorem is_list_needs_no_default :
    isOk (matchText cDef ":is(:is(*|*) > :is(*|*))".toStr inner) true = true ∧
    isOk (matchText cDef ":is(*|*) > :is(*|*)".toStr inner) false = true := by decide +kernel

/-- `not_compl_text`'s guard is needed: outside the default namespace `:not(L)` and `:is(L)` are BOTH false. -/
theorem not_compl_needs_tagcond :
    isOk (matchText cDef ":not(s|nope)".toStr outer) false = true ∧
    isOk (matchText cDef ":is(s|nope)".toStr outer) false = true := by decide +kernel

end Examples

#print axioms alts_comma
#print axioms denote_comma
#print axioms subList_eq
#print axioms comma_text
#print axioms comma_monotone_text
#print axioms comma_monotone_right_text
#print axioms comma_compile_text
#print axioms select_comma_text
#print axioms is_comma_text
#print axioms is_monotone_text
#print axioms is_where_matches_text
#print axioms not_text
#print axioms not_compl_text
#print axioms not_comma_text
#print axioms is_inter_text
#print axioms is_eq_list_text

end C05Parse
end SoupVerif
