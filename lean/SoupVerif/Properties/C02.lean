/-
  C02 — `:nth-child(An+B [of S])`, `:nth-last-child`, `:nth-of-type`, `:nth-last-of-type`.

  `Nth.matchOne` is the loop-for-loop model of `CSSMatch.match_nth` for one nth record on the
  sibling walk of the subject element.  The theorems below say that, for EVERY integer `A`, `B`
  and every walk, it returns `true` exactly when some integer `n ≥ 0` has `A*n + B = pos`, where
  `pos` is the 1-based position of the element among the counted siblings in walk order.

  Well-formedness hypothesis (holds at every call site: `el` is a child of its parent, passes the
  `of S` pre-check and has its own type):
      `walk = pre ++ e :: post`, `isEl e`, `counted e`, no node of `pre` is `el`.
  Nothing is assumed about `post` (the model never looks past `el`), so these statements are
  slightly stronger than "exactly one node of `walk` is `el`"; the latter form is `matchOne_iff'`.

  All statements are full (no `_partial`): every sign of `A` and `B`, every walk length, every
  interleaving of uncounted nodes, with the fuel that `matchOne` itself supplies.
-/
import SoupVerif.Lemmas.Nth

namespace SoupVerif
namespace C02
open Nth NthSpec NthLemmas

variable {α : Type} (counted isEl : α → Bool) (a b : Int)

/-- The spec position of a well-formed walk. -/
theorem posOf_wellformed (walk pre : List α) (e : α) (post : List α)
    (hwalk : walk = pre ++ e :: post) (hpre : ∀ x ∈ pre, isEl x = false)
    (he : isEl e = true) (hc : counted e = true) :
    posOf counted isEl walk = some ((pre.filter counted).length + 1) := by
  subst hwalk; exact posOf_split counted isEl pre e post hpre he hc

/-- **C02, main theorem** (`An+B` form, all `a b : Int`). -/
theorem matchOne_iff (walk pre : List α) (e : α) (post : List α)
    (hwalk : walk = pre ++ e :: post) (hpre : ∀ x ∈ pre, isEl x = false)
    (he : isEl e = true) (hc : counted e = true) :
    Nth.matchOne counted isEl a b true walk = true ↔
      ∃ n : Nat, a * (n : Int) + b = (((pre.filter counted).length + 1 : Nat) : Int) := by
  subst hwalk; exact matchOne_var counted isEl a b pre e post hpre he hc

/-- The same with the literal "exactly one node of `walk` is `el`" hypothesis. -/
theorem matchOne_iff' (walk pre : List α) (e : α) (post : List α)
    (hwalk : walk = pre ++ e :: post) (hone : ∀ x ∈ pre ++ post, isEl x = false)
    (he : isEl e = true) (hc : counted e = true) :
    Nth.matchOne counted isEl a b true walk = true ↔
      ∃ n : Nat, a * (n : Int) + b = (((pre.filter counted).length + 1 : Nat) : Int) :=
  matchOne_iff counted isEl a b walk pre e post hwalk
    (fun x hx => hone x (List.mem_append_left _ hx)) he hc

/-- **C02, constant form** (`var = false`: `:first-child`, `:last-child`, … with `idx = a`). -/
theorem matchOne_const (walk pre : List α) (e : α) (post : List α)
    (hwalk : walk = pre ++ e :: post) (hpre : ∀ x ∈ pre, isEl x = false)
    (he : isEl e = true) (hc : counted e = true) :
    Nth.matchOne counted isEl a b false walk = true ↔
      a = (((pre.filter counted).length + 1 : Nat) : Int) := by
  subst hwalk; exact matchOne_nonvar counted isEl a b pre e post hpre he hc

/-- The model against the spec, phrased with `posOf` / `nthSat`: whenever the walk is well-formed,
    `posOf` is defined and `matchOne` decides `nthSat` at that position. -/
theorem matchOne_spec (walk pre : List α) (e : α) (post : List α)
    (hwalk : walk = pre ++ e :: post) (hpre : ∀ x ∈ pre, isEl x = false)
    (he : isEl e = true) (hc : counted e = true) :
    ∃ pos, posOf counted isEl walk = some pos ∧
      (Nth.matchOne counted isEl a b true walk = true ↔ nthSat a b pos) ∧
      Nth.matchOne counted isEl a b true walk = nthSatB a b pos ∧
      (Nth.matchOne counted isEl a b false walk = true ↔ a = (pos : Int)) := by
  refine ⟨(pre.filter counted).length + 1,
    posOf_wellformed counted isEl walk pre e post hwalk hpre he hc,
    matchOne_iff counted isEl a b walk pre e post hwalk hpre he hc, ?_,
    matchOne_const counted isEl a b walk pre e post hwalk hpre he hc⟩
  rw [Bool.eq_iff_iff, nthSatB_iff]
  exact matchOne_iff counted isEl a b walk pre e post hwalk hpre he hc

/-- **Uncounted nodes are irrelevant.**  Two walks that agree after deleting every node that is
    neither counted nor `el` (text, comments, elements failing `of S`, elements of another type)
    give the same answer — although the model's `last_index = len(parent) - 1` counts all nodes. -/
theorem uncounted_irrelevant (var : Bool) (walk walk' pre : List α) (e : α) (post : List α)
    (hwalk : walk = pre ++ e :: post) (hpre : ∀ x ∈ pre, isEl x = false)
    (he : isEl e = true) (hc : counted e = true)
    (hsame : walk'.filter (fun x => counted x || isEl x)
           = walk.filter (fun x => counted x || isEl x)) :
    Nth.matchOne counted isEl a b var walk' = Nth.matchOne counted isEl a b var walk := by
  subst hwalk
  obtain ⟨pre', post', rfl, hpre', hlen⟩ :=
    split_of_filter_eq counted isEl walk' pre e post hpre he hsame
  rw [Bool.eq_iff_iff]
  cases var with
  | true =>
    rw [matchOne_var counted isEl a b pre' e post' hpre' he hc,
      matchOne_var counted isEl a b pre e post hpre he hc, hlen]
  | false =>
    rw [matchOne_nonvar counted isEl a b pre' e post' hpre' he hc,
      matchOne_nonvar counted isEl a b pre e post hpre he hc, hlen]

/-- Inserting (read right-to-left: deleting) one uncounted node anywhere in a well-formed walk. -/
theorem uncounted_insert (var : Bool) (l1 l2 : List α) (x : α) (pre : List α) (e : α)
    (post : List α) (hwalk : l1 ++ l2 = pre ++ e :: post) (hpre : ∀ y ∈ pre, isEl y = false)
    (he : isEl e = true) (hc : counted e = true)
    (hx : counted x = false) (hx' : isEl x = false) :
    Nth.matchOne counted isEl a b var (l1 ++ x :: l2)
      = Nth.matchOne counted isEl a b var (l1 ++ l2) := by
  apply uncounted_irrelevant counted isEl a b var (l1 ++ l2) (l1 ++ x :: l2) pre e post hwalk hpre
    he hc
  simp [List.filter_append, hx, hx']

/-- **Keyword forms.**  `:first-child` & co. are `a = 1, b = 0, var = false`; this is position 1,
    and agrees with `:nth-child(1)` written as `0n+1`. -/
theorem keyword_forms (walk pre : List α) (e : α) (post : List α)
    (hwalk : walk = pre ++ e :: post) (hpre : ∀ x ∈ pre, isEl x = false)
    (he : isEl e = true) (hc : counted e = true) :
    (Nth.matchOne counted isEl 1 0 false walk = true ↔ (pre.filter counted).length + 1 = 1) ∧
    Nth.matchOne counted isEl 1 0 false walk = Nth.matchOne counted isEl 0 1 true walk := by
  have h1 := matchOne_const counted isEl 1 0 walk pre e post hwalk hpre he hc
  have h2 := matchOne_iff counted isEl 0 1 walk pre e post hwalk hpre he hc
  refine ⟨?_, ?_⟩
  · rw [h1]; omega
  · rw [Bool.eq_iff_iff, h1, h2]
    constructor
    · intro h; exact ⟨0, by omega⟩
    · rintro ⟨n, h⟩; omega

/-! ### Non-vacuity: concrete walks (nodes are `(counted, isEl)` pairs) -/

section Examples

/-- Two counted elements; the subject is the second. -/
def w2 : List (Bool × Bool) := [(true, false), (true, true)]
/-- Text / comment / foreign-type nodes interleaved; the subject is the 3rd counted of 4. -/
def wMixed : List (Bool × Bool) :=
  [(false, false), (true, false), (false, false), (false, false), (true, false), (false, false),
   (true, true), (false, false), (true, false)]

-- the hypotheses of the theorems are satisfiable
example : ∃ pre e post, w2 = pre ++ e :: post ∧ (∀ x ∈ pre, Prod.snd x = false) ∧
    Prod.snd e = true ∧ Prod.fst e = true ∧ (pre.filter Prod.fst).length + 1 = 2 :=
  ⟨[(true, false)], (true, true), [], rfl, by decide, rfl, rfl, rfl⟩
example : posOf Prod.fst Prod.snd w2 = some 2 := by decide
example : posOf Prod.fst Prod.snd wMixed = some 3 := by decide

-- `n+2` (the formerly broken case), second element
example : Nth.matchOne Prod.fst Prod.snd 1 2 true w2 = true := by decide
-- `2n-2`, second element (n = 2)
example : Nth.matchOne Prod.fst Prod.snd 2 (-2) true w2 = true := by decide
-- `-n+3`, second element (n = 1)
example : Nth.matchOne Prod.fst Prod.snd (-1) 3 true w2 = true := by decide
-- `2n+1` does not select the second element
example : Nth.matchOne Prod.fst Prod.snd 2 1 true w2 = false := by decide
-- `n+3` does not select the second element
example : Nth.matchOne Prod.fst Prod.snd 1 3 true w2 = false := by decide
-- interleaved uncounted nodes: the subject is at position 3
example : Nth.matchOne Prod.fst Prod.snd 2 1 true wMixed = true := by decide
example : Nth.matchOne Prod.fst Prod.snd (-1) 3 true wMixed = true := by decide
example : Nth.matchOne Prod.fst Prod.snd (-2) 9 true wMixed = true := by decide
example : Nth.matchOne Prod.fst Prod.snd 1 3 true wMixed = true := by decide
example : Nth.matchOne Prod.fst Prod.snd 0 3 true wMixed = true := by decide
example : Nth.matchOne Prod.fst Prod.snd 2 0 true wMixed = false := by decide
example : Nth.matchOne Prod.fst Prod.snd (-1) 2 true wMixed = false := by decide
example : Nth.matchOne Prod.fst Prod.snd 3 0 false wMixed = true := by decide
example : Nth.matchOne Prod.fst Prod.snd 1 0 false wMixed = false := by decide
-- and the spec side agrees
example : nthSatB 1 2 2 = true ∧ nthSatB 2 (-2) 2 = true ∧ nthSatB (-1) 3 2 = true ∧
    nthSatB 2 1 2 = false ∧ nthSatB (-2) 9 3 = true ∧ nthSatB 2 0 3 = false := by decide

end Examples

end C02
end SoupVerif
