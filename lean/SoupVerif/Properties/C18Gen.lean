/-
  C18 — the calendar / clock validators of `css_match.Inputs`, tied to the SOURCE by translation + proof.

  `Generated/PyInputs.lean` is regenerated on every run by `gen/gen_py_inputs.py` from the source text (ast) of
  `Inputs.validate_day / validate_week / validate_month / validate_year / validate_hour / validate_minutes`:
  one Lean definition over `Int` per function, the same branches in the same order, the same arithmetic
  (`%` = `Int.fmod`, `//` = `Int.fdiv`: Python's floor operations for every sign), the constants translated from
  their module-level assignments.

  Here: for ALL natural-number arguments (what `int(m.group(..), 10)` of a digit string can be) each regenerated
  definition is equal to the hand-written model function of `Model/Inputs.lean` that `Properties/C18.lean` is about;
  for all integer arguments the obvious extension (`*_int`, `*_neg`).  Hence every C18 theorem about the hand model
  holds of the code as it is written now; the main ones are restated about `Gen.PyInputs.*` below.
  An edit of the Python that changes a branch, a constant or an operator changes the regenerated term and breaks
  an equation here.

  The proofs unfold the generated definitions by their (function) names only; the names of locals and of the
  module constants (`@[simp]`) do not occur.

  Part B: `Inputs._parse_value` is regenerated as the program `Gen.PyInputs.parseValueProg` of the small branch
  language of `Model/PyProg.lean` (which regex NAME each branch matches with, which groups it converts with
  `int(.., 10)` into which variables, which validators it calls on which variables, which tuple it returns),
  with the tables that instantiate the regex names by the REGENERATED expressions of `Generated/Regexes.lean`
  and the validator names by the REGENERATED validators above.  `parseValueProg_eq`: for every `itype` and every
  string, running that program with the regex-engine model gives `RefineInputs.parseValueRx` (hence, by
  `RefineInputs.parseValueRx_eq`, the hand model `Inputs.parseValue` all C18 `parse_*` theorems are about).
  The proof selects the branch of an `itype` by evaluation (`List.find?`), so it does not depend on the order of
  the `elif`s, and evaluates variable look-ups away, so it does not depend on the names of the locals.
-/
import SoupVerif.Generated.PyInputs
import SoupVerif.Properties.C18
import SoupVerif.Properties.C18Rx
set_option linter.unusedSimpArgs false

namespace SoupVerif
namespace C18Gen
open Gen.PyInputs

/-! ## generated definition = hand model, for all natural arguments -/

theorem validate_month_eq (m : Nat) : validate_month m = Inputs.validateMonth m := by
  rw [Bool.eq_iff_iff]; simp [validate_month, Inputs.validateMonth]; omega

theorem validate_year_eq (y : Nat) : validate_year y = Inputs.validateYear y := by
  rw [Bool.eq_iff_iff]; simp [validate_year, Inputs.validateYear]; omega

theorem validate_hour_eq (h : Nat) : validate_hour h = Inputs.validateHour h := by
  rw [Bool.eq_iff_iff]; simp [validate_hour, Inputs.validateHour]; omega

theorem validate_minutes_eq (m : Nat) : validate_minutes m = Inputs.validateMinutes m := by
  rw [Bool.eq_iff_iff]; simp [validate_minutes, Inputs.validateMinutes]; omega

theorem validate_day_eq (y m d : Nat) : validate_day y m d = Inputs.validateDay y m d := by
  rw [Bool.eq_iff_iff]
  simp [validate_day, Inputs.validateDay, Int.fmod_eq_emod_of_nonneg]
  repeat' split
  all_goals omega

theorem validate_week_eq (y w : Nat) : validate_week y w = Inputs.validateWeek y w := by
  -- the one truncated subtraction of the hand model (`year + year / 4 - year / 100` on `Nat`) is exact
  have hc : ((y : Int) + (y : Int) / 4 - (y : Int) / 100 + (y : Int) / 400) =
      ((y + y / 4 - y / 100 + y / 400 : Nat) : Int) := by omega
  rw [Bool.eq_iff_iff]
  simp [validate_week, Inputs.validateWeek, Inputs.maxWeek, Inputs.dec31, Inputs.isLeap, PyExpr.intOr,
    Int.fmod_eq_emod_of_nonneg, Int.fdiv_eq_ediv_of_nonneg]
  simp only [hc]
  generalize y + y / 4 - y / 100 + y / 400 = r
  repeat' split
  all_goals omega

/-! ## all integer arguments -/

private theorem nat_of_nonneg {x : Int} (h : 0 ≤ x) : x = ((x.toNat : Nat) : Int) := (Int.toNat_of_nonneg h).symm

theorem validate_day_int (y m d : Int) (hy : 0 ≤ y) (hm : 0 ≤ m) (hd : 0 ≤ d) :
    validate_day y m d = Inputs.validateDay y.toNat m.toNat d.toNat := by
  rw [← validate_day_eq, ← nat_of_nonneg hy, ← nat_of_nonneg hm, ← nat_of_nonneg hd]

theorem validate_week_int (y w : Int) (hy : 0 ≤ y) (hw : 0 ≤ w) :
    validate_week y w = Inputs.validateWeek y.toNat w.toNat := by
  rw [← validate_week_eq, ← nat_of_nonneg hy, ← nat_of_nonneg hw]

/-- A day / week number below 1 is rejected whatever the other (possibly negative) arguments are. -/
theorem validate_day_neg (y m d : Int) (hd : d ≤ 0) : validate_day y m d = false := by
  rw [Bool.eq_false_iff]; simp [validate_day]; omega

theorem validate_week_neg (y w : Int) (hw : w ≤ 0) : validate_week y w = false := by
  rw [Bool.eq_false_iff]; simp [validate_week]; omega

theorem validate_month_int (m : Int) : validate_month m = true ↔ 1 ≤ m ∧ m ≤ 12 := by simp [validate_month]
theorem validate_year_int (y : Int) : validate_year y = true ↔ 1 ≤ y := by simp [validate_year]
theorem validate_hour_int (h : Int) : validate_hour h = true ↔ 0 ≤ h ∧ h ≤ 23 := by simp [validate_hour]
theorem validate_minutes_int (m : Int) : validate_minutes m = true ↔ 0 ≤ m ∧ m ≤ 59 := by simp [validate_minutes]

/-! ## the C18 statements, about the regenerated definitions -/

/-- Days: for a real month, the code (as written now) accepts a day number exactly when it exists in that month
    of that year (proleptic Gregorian, leap years included). -/
theorem day_valid (y m d : Nat) (h1 : 1 ≤ m) (h12 : m ≤ 12) :
    validate_day y m d = true ↔ 1 ≤ d ∧ d ≤ Spec.daysInMonth y m := by
  rw [validate_day_eq]; exact C18.day_valid y m d h1 h12

theorem day_valid_bad_month (y m d : Nat) (h : m = 0 ∨ 13 ≤ m) :
    validate_day y m d = true ↔ 1 ≤ d ∧ d ≤ 31 := by
  rw [validate_day_eq]; exact C18.day_valid_bad_month y m d h

theorem month_valid (m : Nat) : validate_month m = true ↔ 1 ≤ m ∧ m ≤ 12 := by
  rw [validate_month_eq]; exact C18.month_valid m

theorem year_valid (y : Nat) : validate_year y = true ↔ 1 ≤ y := by
  rw [validate_year_eq]; exact C18.year_valid y

theorem hour_valid (h : Nat) : validate_hour h = true ↔ h ≤ 23 := by
  rw [validate_hour_eq]; exact C18.hour_valid h

theorem minutes_valid (m : Nat) : validate_minutes m = true ↔ m ≤ 59 := by
  rw [validate_minutes_eq]; exact C18.minutes_valid m

/-- `maxWeek_char` about the code: the weeks accepted for year `y` are `1 ..` the true ISO week count, except
    that 53 is also accepted when 31 December lies in ISO week 1 of the following year (the recorded finding). -/
theorem maxWeek_char (y w : Nat) (h : 1 ≤ y) :
    validate_week y w = true ↔
      1 ≤ w ∧ w ≤ (if Spec.dec31InNextWeek1 y then 53 else Spec.isoWeeksInYear y) := by
  rw [validate_week_eq, ← C18.maxWeek_char y h]
  simp [Inputs.validateWeek]

/-- The local `max_week` of the code is 53 exactly in the long years and in the years of the finding. -/
theorem week53_iff (y : Nat) (h : 1 ≤ y) :
    validate_week y 53 = true ↔ Spec.dec31InNextWeek1 y ∨ Spec.isoWeeksInYear y = 53 := by
  have h52 := C18.isoWeeks_52_or_53 y h
  have hm : validate_week y 53 = true ↔ _ := maxWeek_char y 53 h
  rw [hm]
  by_cases hx : Spec.dec31InNextWeek1 y <;> simp [hx] <;> omega

theorem week_valid_partial (y w : Nat) (h : 1 ≤ y) (hg : ¬ (Spec.dec31InNextWeek1 y ∧ w = 53)) :
    validate_week y w = true ↔ 1 ≤ w ∧ w ≤ Spec.isoWeeksInYear y := by
  rw [validate_week_eq]; exact C18.week_valid_partial y w h hg

theorem week_finding_exact (y : Nat) (h : 1 ≤ y) :
    (∀ w : Nat, validate_week y w = true ↔ 1 ≤ w ∧ w ≤ Spec.isoWeeksInYear y) ↔ ¬ Spec.dec31InNextWeek1 y := by
  simp only [validate_week_eq]; exact C18.week_finding_exact y h

theorem week_valid_never_rejects_valid (y w : Nat) (h : 1 ≤ y) (h1 : 1 ≤ w) (h2 : w ≤ Spec.isoWeeksInYear y) :
    validate_week y w = true := by
  rw [validate_week_eq]; exact C18.week_valid_never_rejects_valid y w h h1 h2

/-- The full-strength week statement is false of the code as written (witness 2019-W53). -/
theorem week_valid_false :
    ¬ ∀ y w : Nat, 1 ≤ y → (validate_week y w = true ↔ 1 ≤ w ∧ w ≤ Spec.isoWeeksInYear y) := by
  simp only [validate_week_eq]; exact C18.week_valid_false

-- non-vacuity: the regenerated definitions evaluate (also on negative and huge arguments)
example : validate_day 2024 2 29 = true ∧ validate_day 2023 2 29 = false ∧ validate_day 1900 2 29 = false ∧
    validate_day 2000 2 29 = true ∧ validate_day 2024 4 31 = false ∧ validate_day (-4) 2 29 = true := by decide
example : validate_week 2020 53 = true ∧ validate_week 2021 53 = false ∧ validate_week 2019 53 = true ∧
    validate_week 123456789012 53 = true ∧ validate_week 2023 53 = false ∧ validate_week 2020 0 = false := by decide
example : validate_hour 23 = true ∧ validate_hour 24 = false ∧ validate_hour (-1) = false ∧
    validate_minutes 59 = true ∧ validate_minutes 60 = false ∧ validate_month 0 = false ∧ validate_month 12 = true ∧
    validate_year 0 = false := by decide

/-! ## `_parse_value`: the regenerated program = `parseValueRx` = the hand model -/

open RefineInputs PyProg

/-- the evaluator's `m.group(i)` is the one of the regex refinement proofs -/
theorem groupText_eq : @groupText = @grp := rfl

private theorem s_date : "date".toStr = [100, 97, 116, 101] := by decide
private theorem s_month : "month".toStr = [109, 111, 110, 116, 104] := by decide
private theorem s_week : "week".toStr = [119, 101, 101, 107] := by decide
private theorem s_time : "time".toStr = [116, 105, 109, 101] := by decide
private theorem s_dt : "datetime-local".toStr =
    [100, 97, 116, 101, 116, 105, 109, 101, 45, 108, 111, 99, 97, 108] := by decide
private theorem s_number : "number".toStr = [110, 117, 109, 98, 101, 114] := by decide
private theorem s_range : "range".toStr = [114, 97, 110, 103, 101] := by decide

/-- One concrete `itype`: reduce `parseValueRx` to its branch; select the program's branch by evaluating
    `List.find?` (whatever its position); look the regex up by name; case on the engine's result; evaluate the
    assignments, the validator calls (rewritten to the hand validators by part A) and the result tuple. -/
local macro "prog_branch" rx:term : tactic => `(tactic| (
  unfold parseValueRx
  simp only [s_date, s_month, s_week, s_time, s_dt, s_number, s_range, beq_iff_eq, List.cons.injEq,
    Nat.reduceEqDiff, false_and, and_false, if_false, and_self, if_true, reduceCtorEq, Bool.or_eq_true, or_false,
    false_or, or_true, true_or]
  simp [PyProg.eval, parseValueProg, selects, s_date, s_month, s_week, s_time, s_dt, s_number, s_range]
  simp [evalBranch, config, regexes, List.lookup]
  cases Rx.matchAt _ $rx _ 0 with
  | none => rfl
  | some p =>
    simp [evalBody, bindVars, evalConds, evalCall, lookupAll, validators, named, namedInt, groupText_eq, List.lookup,
      Gen.cm_RE_DATE_groups, Gen.cm_RE_MONTH_groups, Gen.cm_RE_WEEK_groups, Gen.cm_RE_TIME_groups,
      Gen.cm_RE_DATETIME_groups, Gen.cm_RE_NUM_groups,
      validate_day_eq, validate_week_eq, validate_month_eq, validate_year_eq, validate_hour_eq, validate_minutes_eq]
    try (repeat' split) <;> simp_all))

/-- For every `itype` and every string: the program regenerated from `Inputs._parse_value`, run with the
    regex-engine model on the regenerated regular expressions and with the regenerated validators, never gets
    stuck and returns what `parseValueRx` returns. -/
theorem parseValueProg_eq (env : CharEnv) (itype value : Str) :
    PyProg.eval (config env) parseValueProg itype value = some (parseValueRx env itype value) := by
  by_cases h1 : itype = "date".toStr
  · subst h1; prog_branch Gen.cm_RE_DATE
  by_cases h2 : itype = "month".toStr
  · subst h2; prog_branch Gen.cm_RE_MONTH
  by_cases h3 : itype = "week".toStr
  · subst h3; prog_branch Gen.cm_RE_WEEK
  by_cases h4 : itype = "time".toStr
  · subst h4; prog_branch Gen.cm_RE_TIME
  by_cases h5 : itype = "datetime-local".toStr
  · subst h5; prog_branch Gen.cm_RE_DATETIME
  by_cases h6 : itype = "number".toStr
  · subst h6; prog_branch Gen.cm_RE_NUM
  by_cases h7 : itype = "range".toStr
  · subst h7; prog_branch Gen.cm_RE_NUM
  · unfold parseValueRx
    simp [PyProg.eval, parseValueProg, selects, h1, h2, h3, h4, h5, h6, h7]

/-- ... and that is the hand model `Inputs.parseValue`. -/
theorem parseValueProg_eq_model (env : CharEnv) (itype value : Str) :
    PyProg.eval (config env) parseValueProg itype value = some (Inputs.parseValue itype value) := by
  rw [parseValueProg_eq, parseValueRx_eq]

/-- `_parse_value` as regenerated returns a value `v` for `(itype, s)`. -/
def Parses (env : CharEnv) (itype s : Str) (v : Inputs.PVal) : Prop :=
  PyProg.eval (config env) parseValueProg itype s = some (some v)

theorem parses_iff (env : CharEnv) (itype s : Str) (v : Inputs.PVal) :
    Parses env itype s v ↔ Inputs.parseValue itype s = some v := by
  simp [Parses, parseValueProg_eq_model]

variable (env : CharEnv)

theorem prog_date_spec (s : Str) (v : Inputs.PVal) :
    Parses env "date".toStr s v ↔ ∃ y m d, Spec.validDateStr s y m d ∧ v = .ints [y, m, d] := by
  rw [parses_iff]; exact C18.parse_date_spec s v

theorem prog_month_spec (s : Str) (v : Inputs.PVal) :
    Parses env "month".toStr s v ↔ ∃ y m, Spec.validMonthStr s y m ∧ v = .ints [y, m] := by
  rw [parses_iff]; exact C18.parse_month_spec s v

/-- Weeks: what the code accepts (the recorded finding included). -/
theorem prog_week_char (s : Str) (v : Inputs.PVal) :
    Parses env "week".toStr s v ↔
      ∃ y w, Inputs.shapeWeek s = some (y, w) ∧ 1 ≤ y ∧ 1 ≤ w ∧ w ≤ Inputs.maxWeek y ∧ v = .ints [y, w] := by
  rw [parses_iff]; exact C18.parse_week_char s v

theorem prog_week_valid_partial (s : Str) (v : Inputs.PVal)
    (hg : ∀ y, Inputs.shapeWeek s = some (y, 53) → ¬ Spec.dec31InNextWeek1 y) :
    Parses env "week".toStr s v ↔ ∃ y w, Spec.validWeekStr s y w ∧ v = .ints [y, w] := by
  rw [parses_iff]; exact C18.parse_week_valid_partial s v hg

theorem prog_week_never_rejects_valid (s : Str) (y w : Nat) (h : Spec.validWeekStr s y w) :
    Parses env "week".toStr s (.ints [y, w]) := by
  rw [parses_iff]; exact C18.parse_week_never_rejects_valid s y w h

theorem prog_time_spec (s : Str) (v : Inputs.PVal) :
    Parses env "time".toStr s v ↔ ∃ h mi, Spec.validTimeStr s h mi ∧ v = .ints [h, mi] := by
  rw [parses_iff]; exact C18.parse_time_spec s v

theorem prog_datetime_spec (s : Str) (v : Inputs.PVal) :
    Parses env "datetime-local".toStr s v ↔
      ∃ y m d h mi, Spec.validDateTimeStr s y m d h mi ∧ v = .ints [y, m, d, h, mi] := by
  rw [parses_iff]; exact C18.parse_datetime_spec s v

theorem prog_number_spec (s : Str) (v : Inputs.PVal) :
    (Parses env "number".toStr s v ↔ ∃ neg mant exp, Spec.numShape s neg mant exp ∧ v = .num neg mant exp) ∧
    (Parses env "range".toStr s v ↔ ∃ neg mant exp, Spec.numShape s neg mant exp ∧ v = .num neg mant exp) := by
  rw [parses_iff, parses_iff]; exact C18.parse_number_spec s v

theorem prog_other_type (t s : Str)
    (h : ∀ k ∈ ["date", "month", "week", "time", "datetime-local", "number", "range"], t ≠ k.toStr) :
    PyProg.eval (config env) parseValueProg t s = some none := by
  rw [parseValueProg_eq_model, C18.parse_other_type t s h]

-- non-vacuity: the regenerated program runs in the kernel
example : PyProg.eval (config asciiEnv) parseValueProg "date".toStr "2024-02-29".toStr = some (some (.ints [2024, 2, 29])) := by
  decide +kernel
example : PyProg.eval (config asciiEnv) parseValueProg "date".toStr "2023-02-29".toStr = some none := by decide +kernel
example : PyProg.eval (config asciiEnv) parseValueProg "week".toStr "2019-W53".toStr = some (some (.ints [2019, 53])) := by
  decide +kernel
example : PyProg.eval (config asciiEnv) parseValueProg "datetime-local".toStr "2024-02-29T23:59".toStr =
    some (some (.ints [2024, 2, 29, 23, 59])) := by decide +kernel
example : PyProg.eval (config asciiEnv) parseValueProg "text".toStr "5".toStr = some none := by decide +kernel

end C18Gen
end SoupVerif
