/-
  C19, tied to the PARSER by proof: `:-soup-contains(v1, …, vk)`, `:-soup-contains-own(…)` and the deprecated
  alias `:contains(…)` from the selector TEXT.

  `Properties/C09Compile2.lean`: the parser model on the text of `:NAME(` gap VALUES gap `)` in any spelling
  (values quoted or bare, escapes, gaps and comments around the commas, the name in any letter case or with
  escapes) adds ONE `SelectorContains` record — the VALUES in source order, `own` iff the name is
  `:-soup-contains-own` — to the compound (`Item.contains`, `SelB.addContains`).  `Properties/C19.lean`:
  `match_contains` on such a record is the structural specification of `Spec/Text.lean`
  (`contains_iff_prop`, `containsOwn_iff_prop`: `Spec.Contains` / `Spec.ContainsOwn` — some value occurs in the
  concatenation, in document order, of the text nodes among the descendants / within a single text node that
  is a direct child; comments, CDATA, processing instructions, declarations and doctypes are not text; the
  content of an `iframe` is cut in an HTML document: `cutOf c c.isHtml`).  Composed here, with `ListText`,
  `one`, `withItem`, `selOf` of `Properties/C05Parse.lean`:

    * `matchSel_withContains`   the frozen builder of `X:NAME(V)` (any compound `X` of the grammar) matches iff
                                that of `X` does and `match_contains` accepts the ONE new record — each record
                                of a compound is tested on its own kind of content (`C19.matchContains_cons`);
    * `TextCond c l own vs`     `Spec.ContainsOwn (cutOf c c.isHtml) vs l.focus` if `own`, else `Spec.Contains …`;
    * `contains_compound_text`  `X:NAME(V)` vs `X`, `X` any non-empty compound (so also `E:-soup-contains(a)
                                :-soup-contains-own(b)`, in either order):  bXC = true ↔ bX = true ∧ TextCond;
    * `contains_type_text`      `E:NAME(V)`, `E` an optional type selector:  b = true ↔ the element is not the
                                document object ∧ `TagCond` (`Properties/C12Parse.lean`; without a type selector
                                the implied `*`: the default namespace) ∧ `TextCond` with the VALUES;
    * `soup_contains_text`, `soup_contains_own_text`, `contains_alias_text`   the three names;
    * `contains_spelling_text`  `:contains(V)` and `:-soup-contains(V')` with equal VALUES (and the same type
                                selector values) have the same verdict: the alias behaves as the new name.

  Hypotheses: `ListText` (the side conditions of `C09Compile2`: gaps, `ok`, no custom selector, no NUL).  No
  hypothesis on the context or the tree; `l` is the location of an element `e` (for the document object the
  verdict is false).  Nothing had to be bridged between `denote` and `C19`: `denote` builds
  `⟨V.values, own⟩ : ContainsSel`, which is the argument of `C19.contains_iff_prop` / `containsOwn_iff_prop`.
-/
import SoupVerif.Properties.C05Parse
import SoupVerif.Properties.C19
namespace SoupVerif
namespace C19Parse
open SoupVerif.Parser ParserProgress Refine.Compile Spelling
open C09Compile (Forms)
open C09Compile2
open C01Parse (implB implTag)
open C05Parse (ListText one withItem selOf one_render withItem_render withItem_isEmpty itemsValue_append
  applyItems_append)
open C12Parse (matchText matchTextApi TagCond)
open TextLemmas (cutOf)

/-! ## The builder of a compound with one more text pseudo-class -/

theorem apply_contains (B : Builtins) (own : Bool) (vs : List Str) (b : SelB) :
    Item.apply B (.contains own vs) b = b.addContains ⟨vs, own⟩ := by
  rw [Item.apply]

theorem implB_addContains (ip : Bool) (b : SelB) (x : ContainsSel) :
    implB ip (b.addContains x) = (implB ip b).addContains x := by
  obtain ⟨tag, a, b, c, d, e, f, g, h, i, j, k⟩ := b
  cases tag <;> cases ip <;> rfl

theorem contains_guard (c : Ctx) (l : Loc) (cs : List ContainsSel) :
    (cs.isEmpty || matchContains c l cs) = matchContains c l cs := by
  cases cs with
  | nil => rfl
  | cons x rest => rfl

/-- One more `SelectorContains` record on a selector conjoins its verdict. -/
theorem matchSel_mk_contains (c : Ctx) (l : Loc) (e : Elem) (tag : Option SelTag) (ids classes : List Str)
    (attrs : List AttrSel) (nth : List NthSel) (subs : List SelList) (relation : SelList) (relType : Rel)
    (contains : List ContainsSel) (lang : List LangSel) (flags : Nat) (x : ContainsSel) :
    matchSel c l e (.mk tag ids classes attrs nth subs relation relType (contains ++ [x]) lang flags) =
      (matchSel c l e (.mk tag ids classes attrs nth subs relation relType contains lang flags) &&
        matchContains c l [x]) := by
  conv => lhs; unfold matchSel
  conv => rhs; unfold matchSel
  rw [contains_guard, contains_guard, C19.matchContains_append]
  simp only [Bool.and_assoc]

theorem matchSel_freeze_addContains (c : Ctx) (l : Loc) (e : Elem) (b : SelB) (x : ContainsSel) :
    matchSel c l e (b.addContains x).freeze = (matchSel c l e b.freeze && matchContains c l [x]) := by
  obtain ⟨tag, a, b', c', d, sels, rels, g, h, i, j, nm⟩ := b
  cases nm with
  | true =>
    simp only [SelB.addContains, SelB.freeze, SelB.freezeF, if_true]
    simp [matchSel]
  | false =>
    simp only [SelB.addContains, SelB.freeze, SelB.size, SelB.freezeF, Bool.false_eq_true, if_false]
    exact matchSel_mk_contains c l e tag a b' c' d sels _ g h i j x

/-- `own` of the record: the name is `:-soup-contains-own`. -/
def ownOf (f : Forms) : Bool := 58 :: lower (valueOf f) == ":-soup-contains-own".toStr

/-- **`X:NAME(V)` at the top level: the compound `X`, and `match_contains` on the one record
    `⟨VALUES, own⟩`.** -/
theorem matchSel_withContains (B : Builtins) (c : Ctx) (l : Loc) (e : Elem) (X : SCompound) (f : Forms)
    (i₁ : Str) (V : SValues) (i₂ : Str) :
    matchSel c l e (selOf B (withItem X (.contains f i₁ V i₂))) =
      (matchSel c l e (selOf B X) && matchContains c l [⟨V.values, ownOf f⟩]) := by
  obtain ⟨tag, items⟩ := X
  have : (withItem (.mk tag items) (.contains f i₁ V i₂)).value.buildOn B SelB.empty =
      ((SCompound.mk tag items).value.buildOn B SelB.empty).addContains ⟨V.values, ownOf f⟩ := by
    simp only [withItem, SCompound.value, itemsValue_append, itemsValue, SItem.value, Compound.buildOn,
      applyItems_append, applyItems, apply_contains, ownOf]
  rw [selOf, this, implB_addContains, matchSel_freeze_addContains]
  rfl

/-- A type selector alone (or nothing: the implied `*`). -/
theorem matchSel_selOf_tagOnly (B : Builtins) (c : Ctx) (l : Loc) (e : Elem) (tag : Option STagN) :
    matchSel c l e (selOf B (.mk tag [])) = matchTag c e (implTag false (tag.map STagN.value)) := by
  have : selOf B (.mk tag []) =
      .mk (implTag false (tag.map STagN.value)) [] [] [] [] [] (.mk [] false false) .none [] [] 0 := by
    cases tag <;>
      simp [selOf, SCompound.value, itemsValue, Compound.buildOn, applyItems, implB, implTag, SelB.empty,
        SelB.tag, SelB.setTag, SelB.freeze, SelB.size, SelB.sizeList, SelB.freezeF]
  rw [this]
  conv => lhs; unfold matchSel
  simp [hasFlag, SatCore.matchNths_nil, matchAttributes, SelList.nonEmpty, SelList.sels]

/-! ## C19 on selector TEXT -/

/-- What `:-soup-contains(vs)` (`own = false`) / `:-soup-contains-own(vs)` (`own = true`) says about the node
    at `l`, by the structural specification of `Spec/Text.lean`: some value occurs in the concatenation, in
    document order, of the text nodes among the descendants / within a single text node that is a direct
    child.  Only `.text` strings are text; the content of an `iframe` is cut in an HTML document. -/
def TextCond (c : Ctx) (l : Loc) (own : Bool) (vs : List Str) : Prop :=
  if own = true then Spec.ContainsOwn (cutOf c c.isHtml) vs l.focus
  else Spec.Contains (cutOf c c.isHtml) vs l.focus

theorem matchContains_one (c : Ctx) (l : Loc) (own : Bool) (vs : List Str) :
    matchContains c l [⟨vs, own⟩] = true ↔ TextCond c l own vs := by
  cases own with
  | false => simpa [TextCond] using C19.contains_iff_prop c l vs
  | true => simpa [TextCond] using C19.containsOwn_iff_prop c l vs

section Laws
variable (c : Ctx) (l : Loc) (e : Elem) (kids : List Node) (hf : l.focus = .elem e kids)
include hf

/-- **`X:NAME(v1, …, vk)`** — `NAME` one of `-soup-contains`, `-soup-contains-own`, `contains`, in any spelling;
    `X` ANY non-empty compound of the grammar of `C09Compile2` (it may itself contain text pseudo-classes, of
    either kind) — **matches exactly when `X` matches and `TextCond` holds of the VALUES**, from the TEXT. -/
theorem contains_compound_text (X : SCompound) (f : Forms) (i₁ i₂ : Str) (V : SValues) (g₁ g₂ gX₁ gX₂ : Str)
    (hXC : ListText g₁ (one (withItem X (.contains f i₁ V i₂))) g₂) (hX : ListText gX₁ (one X) gX₂) :
    ∃ bXC bX,
      matchText c (g₁ ++ (X.render ++ (SItem.contains f i₁ V i₂).render) ++ g₂) l = .ok bXC ∧
      matchText c (gX₁ ++ X.render ++ gX₂) l = .ok bX ∧
      (bXC = true ↔ bX = true ∧ TextCond c l (ownOf f) V.values) := by
  refine ⟨_, _, by rw [← withItem_render]; exact hXC.one_verdict c l e kids hf, hX.one_verdict c l e kids hf, ?_⟩
  rw [matchSel_withContains, ← matchContains_one]
  simp only [Bool.and_eq_true, and_assoc]

/-- **`E:NAME(v1, …, vk)`, `E` an optional type selector (`ns|E`, `*|E`, `|E`, `E`, `*`, or none), in EVERY
    spelling**: the parser model accepts the text, and the matcher model run on the result accepts the element
    iff it is not the document object, its type passes (`TagCond`; without a type selector the implied `*`,
    i.e. the default namespace) and `TextCond` holds of the VALUES. -/
theorem contains_type_text (tag : Option STagN) (f : Forms) (i₁ i₂ : Str) (V : SValues) (g₁ g₂ : Str)
    (h : ListText g₁ (one (.mk tag [.contains f i₁ V i₂])) g₂) :
    ∃ b, matchText c (g₁ ++ (SCompound.mk tag [.contains f i₁ V i₂]).render ++ g₂) l = .ok b ∧
      (b = true ↔ e.isDoc = false ∧ TagCond c e (tag.map STagN.value) ∧ TextCond c l (ownOf f) V.values) := by
  refine ⟨_, h.one_verdict c l e kids hf, ?_⟩
  have := matchSel_withContains Gen.builtinsRec c l e (.mk tag []) f i₁ V i₂
  simp only [withItem, List.nil_append] at this
  rw [this, matchSel_selOf_tagOnly, ← matchContains_one, ← C12Parse.matchTag_implTag_iff]
  simp only [Bool.and_eq_true, Bool.not_eq_true']

/-- **`E:-soup-contains(v1, …, vk)`**: some `vi` occurs in the concatenation, in document order, of the text
    nodes among the descendants of the element. -/
theorem soup_contains_text (tag : Option STagN) (f : Forms) (i₁ i₂ : Str) (V : SValues) (g₁ g₂ : Str)
    (hn : 58 :: lower (valueOf f) = ":-soup-contains".toStr)
    (h : ListText g₁ (one (.mk tag [.contains f i₁ V i₂])) g₂) :
    ∃ b, matchText c (g₁ ++ (SCompound.mk tag [.contains f i₁ V i₂]).render ++ g₂) l = .ok b ∧
      (b = true ↔ e.isDoc = false ∧ TagCond c e (tag.map STagN.value) ∧
        Spec.Contains (cutOf c c.isHtml) V.values l.focus) := by
  obtain ⟨b, h1, h2⟩ := contains_type_text c l e kids hf tag f i₁ i₂ V g₁ g₂ h
  refine ⟨b, h1, h2.trans ?_⟩
  have : ownOf f = false := by rw [ownOf, hn]; decide
  simp [TextCond, this]

/-- **`E:contains(v1, …, vk)`** (the deprecated alias): as `:-soup-contains`. -/
theorem contains_alias_text (tag : Option STagN) (f : Forms) (i₁ i₂ : Str) (V : SValues) (g₁ g₂ : Str)
    (hn : 58 :: lower (valueOf f) = ":contains".toStr)
    (h : ListText g₁ (one (.mk tag [.contains f i₁ V i₂])) g₂) :
    ∃ b, matchText c (g₁ ++ (SCompound.mk tag [.contains f i₁ V i₂]).render ++ g₂) l = .ok b ∧
      (b = true ↔ e.isDoc = false ∧ TagCond c e (tag.map STagN.value) ∧
        Spec.Contains (cutOf c c.isHtml) V.values l.focus) := by
  obtain ⟨b, h1, h2⟩ := contains_type_text c l e kids hf tag f i₁ i₂ V g₁ g₂ h
  refine ⟨b, h1, h2.trans ?_⟩
  have : ownOf f = false := by rw [ownOf, hn]; decide
  simp [TextCond, this]

/-- **`E:-soup-contains-own(v1, …, vk)`**: some `vi` occurs within a single text node that is a direct child
    of the element. -/
theorem soup_contains_own_text (tag : Option STagN) (f : Forms) (i₁ i₂ : Str) (V : SValues) (g₁ g₂ : Str)
    (hn : 58 :: lower (valueOf f) = ":-soup-contains-own".toStr)
    (h : ListText g₁ (one (.mk tag [.contains f i₁ V i₂])) g₂) :
    ∃ b, matchText c (g₁ ++ (SCompound.mk tag [.contains f i₁ V i₂]).render ++ g₂) l = .ok b ∧
      (b = true ↔ e.isDoc = false ∧ TagCond c e (tag.map STagN.value) ∧
        Spec.ContainsOwn (cutOf c c.isHtml) V.values l.focus) := by
  obtain ⟨b, h1, h2⟩ := contains_type_text c l e kids hf tag f i₁ i₂ V g₁ g₂ h
  refine ⟨b, h1, h2.trans ?_⟩
  have : ownOf f = true := by rw [ownOf, hn]; decide
  simp [TextCond, this]

/-- **Only the VALUES and the kind count**: two texts `X:NAME(V)`, `X:NAME'(V')` with equal VALUES and the same
    kind (`:contains` and `:-soup-contains` are one kind) have the same verdict — any spelling of the names,
    of the values (quoted, bare, escaped), of the gaps. -/
theorem contains_spelling_text (X : SCompound) (f f' : Forms) (i₁ i₂ i₁' i₂' : Str) (V V' : SValues)
    (g₁ g₂ g₁' g₂' : Str) (hv : V.values = V'.values) (hk : ownOf f = ownOf f')
    (h : ListText g₁ (one (withItem X (.contains f i₁ V i₂))) g₂)
    (h' : ListText g₁' (one (withItem X (.contains f' i₁' V' i₂'))) g₂') :
    ∃ b, matchText c (g₁ ++ (X.render ++ (SItem.contains f i₁ V i₂).render) ++ g₂) l = .ok b ∧
      matchText c (g₁' ++ (X.render ++ (SItem.contains f' i₁' V' i₂').render) ++ g₂') l = .ok b := by
  refine ⟨_, by rw [← withItem_render]; exact h.one_verdict c l e kids hf, ?_⟩
  rw [← withItem_render, h'.one_verdict c l e kids hf, matchSel_withContains, matchSel_withContains, hv, hk]

end Laws

/-- `SoupSieve.match` on the text (`matchTextApi E isXml ns = matchText (mkCtx E isXml ns l)`). -/
theorem contains_type_text_api (E : Env) (isXml : Bool) (ns : List (Str × Str)) (l : Loc) (e : Elem)
    (kids : List Node) (hf : l.focus = .elem e kids) (tag : Option STagN) (f : Forms) (i₁ i₂ : Str)
    (V : SValues) (g₁ g₂ : Str) (h : ListText g₁ (one (.mk tag [.contains f i₁ V i₂])) g₂) :
    ∃ b, matchTextApi E isXml ns (g₁ ++ (SCompound.mk tag [.contains f i₁ V i₂]).render ++ g₂) l = .ok b ∧
      (b = true ↔ e.isDoc = false ∧ TagCond (mkCtx E isXml ns l) e (tag.map STagN.value) ∧
        TextCond (mkCtx E isXml ns l) l (ownOf f) V.values) :=
  contains_type_text (mkCtx E isXml ns l) l e kids hf tag f i₁ i₂ V g₁ g₂ h

/-! ## Non-vacuity: concrete texts on the tree of `Properties/C19.lean` -/

namespace Examples
open C19 (chtml sample sampleLoc)

def lits (s : String) : Forms := s.toStr.map fun c => (c, EscForm.lit)
def divE : Elem := { isDoc := false, name := "div".toStr, pfx := none, ns := none, attrs := [] }

theorem sample_focus : sampleLoc.focus = .elem divE sample.kids := rfl

/-- `div:-soup-CONTAINS( "zz" , b\63 )` (the second value is `bc`, spelled with an escape) -/
def cA : SCompound :=
  .mk (some ⟨none, .name (lits "div")⟩)
    [.contains (lits "-soup-CONTAINS") [32]
      ⟨.str 34 ("zz".toStr.map fun c => .ch c .lit), [([32], [32], .ident [(98, .lit), (99, .hex 2 [] none)])]⟩ []]

/-- `:-soup-contains-own(ab)` -/
def cB : SCompound := .mk none [.contains (lits "-soup-contains-own") [] ⟨.ident (lits "ab"), []⟩ []]

/-- `div:contains('cd')` -/
def cC : SCompound :=
  .mk (some ⟨none, .name (lits "div")⟩)
    [.contains (lits "contains") [] ⟨.str 39 ("cd".toStr.map fun c => .ch c .lit), []⟩ []]

theorem cA_text : ListText [] (one cA) [32] :=
  ListText.of_compound (by decide) (by decide)
    (by simp +decide [cA, SCompound.ok, itemsOK, SItem.ok, STagN.ok, C09Compile.STag.ok, C09Compile.identOK,
          SValues.ok, vrestOK, C09Compile.SValue.ok, containsName])
    rfl (by simp [cA, SCompound.tbl, itemsTbl, SItem.tbl]) (by decide)

theorem cB_text : ListText [] (one cB) [] :=
  ListText.of_compound (by decide) (by decide)
    (by simp +decide [cB, SCompound.ok, itemsOK, SItem.ok, C09Compile.identOK, SValues.ok, vrestOK, containsName,
          C09Compile.SValue.ok])
    rfl (by simp [cB, SCompound.tbl, itemsTbl, SItem.tbl]) (by decide)

theorem cC_text : ListText [] (one cC) [] :=
  ListText.of_compound (by decide) (by decide)
    (by simp +decide [cC, SCompound.ok, itemsOK, SItem.ok, STagN.ok, C09Compile.STag.ok, C09Compile.identOK,
          SValues.ok, vrestOK, C09Compile.SValue.ok, containsName])
    rfl (by simp [cC, SCompound.tbl, itemsTbl, SItem.tbl]) (by decide)

example : ([] ++ cA.render ++ [32]) = "div:-soup-CONTAINS( \"zz\" , b\\63) ".toStr ∧
    ([] ++ cB.render ++ []) = ":-soup-contains-own(ab)".toStr ∧
    ([] ++ cC.render ++ []) = "div:contains('cd')".toStr := by decide

/-- `bc` occurs across two text nodes (`a`,`b` | `c`): instance of `soup_contains_text`. -/
example : matchText chtml "div:-soup-CONTAINS( \"zz\" , b\\63) ".toStr sampleLoc = .ok true :=
  C12Parse.ok_true_of (soup_contains_text chtml sampleLoc divE _ sample_focus _ _ _ _ _ [] [32] (by decide) cA_text)
    ⟨rfl, ⟨Or.inl rfl, Or.inr (by unfold C12.NameEq; decide)⟩,
      (C19.contains_spec _ _ _).mp (by decide)⟩

/-- `ab` is in no SINGLE direct text child: instance of `soup_contains_own_text`. -/
example : matchText chtml ":-soup-contains-own(ab)".toStr sampleLoc = .ok false :=
  C12Parse.ok_false_of (soup_contains_own_text chtml sampleLoc divE _ sample_focus _ _ _ _ _ [] [] (by decide) cB_text)
    (by
      rintro ⟨_, _, h⟩
      exact absurd ((C19.containsOwn_spec _ _ _).mpr h) (by decide))

/-- `cd` lies around the cut `iframe`: instance of `contains_alias_text`. -/
example : matchText chtml "div:contains('cd')".toStr sampleLoc = .ok true :=
  C12Parse.ok_true_of (contains_alias_text chtml sampleLoc divE _ sample_focus _ _ _ _ _ [] [] (by decide) cC_text)
    ⟨rfl, ⟨Or.inl rfl, Or.inr (by unfold C12.NameEq; decide)⟩,
      (C19.contains_spec _ _ _).mp (by decide)⟩

def isOk (x : Except Parser.Err Bool) (b : Bool) : Bool :=
  match x with
  | .ok b' => b == b'
  | .error _ => false

-- the model evaluated directly on the same texts (and a few more), as a cross-check
#guard isOk (matchText chtml "div:-soup-CONTAINS( \"zz\" , b\\63) ".toStr sampleLoc) true
#guard isOk (matchText chtml ":-soup-contains-own(ab)".toStr sampleLoc) false
#guard isOk (matchText chtml "div:contains('cd')".toStr sampleLoc) true
#guard isOk (matchText chtml ":-soup-contains(I)".toStr sampleLoc) false          -- inside the iframe
#guard isOk (matchText C19.cxml ":-soup-contains(cIJd)".toStr sampleLoc) true     -- XML: no cut
#guard isOk (matchText chtml ":-soup-contains(X)".toStr sampleLoc) false          -- a comment is not text
#guard isOk (matchText chtml ":-soup-contains-own(b):-soup-contains(cd)".toStr sampleLoc) true
#guard isOk (matchText chtml ":-soup-contains(cd):-soup-contains-own(b)".toStr sampleLoc) true

end Examples

#print axioms matchSel_withContains
#print axioms contains_compound_text
#print axioms contains_type_text
#print axioms soup_contains_text
#print axioms contains_alias_text
#print axioms soup_contains_own_text
#print axioms contains_spelling_text
#print axioms contains_type_text_api

end C19Parse
end SoupVerif
