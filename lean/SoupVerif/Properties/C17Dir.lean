/-
  C17 (addendum) — the text scan of `dir=auto` (`find_bidi`) is local to the element's own document.

  After fix 3d120b6 `find_bidi(el)` iterates `self.get_children(el, no_iframe=True)`; the model is
  `findBidi c l = if c.locIsIframe l then none else findBidiKids c l.focus.kids` (Model/Match.lean).

  (a) `findBidi_iframe`            an iframe element has no scanned text: `findBidi c l = none`
  (b) `findBidiKids_skip_iframe`   a child named `iframe` is skipped without being entered
      `findBidiKids_skip_isIframe` … in particular a child that `is_iframe` holds for
  (c) `findBidiKids_outside`       the scan of a child list depends only on what lies OUTSIDE iframe
                                   contents: two child lists that are `EqOutL` (equal except for the
                                   subtrees below elements named `iframe`, at any depth) give the same
                                   result; `findBidi_outside` is the same for `findBidi` at an element.
      `findBidi_replace_iframe_content`   replacing the content of one iframe child by anything
                                   (`plugKids`: at any path of element children) changes nothing.

  The name test is the model's (`c.tagName e = "iframe"`, the `name in (…, 'iframe')` of the source);
  `isIframe_tagName` relates it to `is_iframe`.
-/
import SoupVerif.Model.Match
namespace SoupVerif.C17Dir
open SoupVerif

variable (c : Ctx)

/-! ## (a) an iframe element itself -/

/-- `find_bidi(el)` of an iframe element is `None`: `get_children(el, no_iframe=True)` is empty. -/
theorem findBidi_iframe (l : Loc) (h : c.locIsIframe l = true) : findBidi c l = none := by
  unfold findBidi; rw [if_pos h]

/-- The same, on the element: whatever the children `kids` (the embedded document) are. -/
theorem findBidi_iframe_elem (e : Elem) (kids : List Node) (up : List Frame) (h : c.isIframe e = true) :
    findBidi c ⟨.elem e kids, up⟩ = none :=
  findBidi_iframe c _ (by simpa [Ctx.locIsIframe, Loc.elem?, Node.elem?] using h)

/-- Otherwise it is the scan of the children. -/
theorem findBidi_not_iframe (l : Loc) (h : c.locIsIframe l = false) :
    findBidi c l = findBidiKids c l.focus.kids := by
  unfold findBidi; rw [h]; rfl

/-! ## (b) an iframe child is not entered -/

/-- `is_iframe(el)` implies the name test of `find_bidi`. -/
theorem isIframe_tagName (e : Elem) (h : c.isIframe e = true) : c.tagName e = "iframe".toStr := by
  unfold Ctx.isIframe at h
  unfold Ctx.tagName
  cases hx : c.isXml <;> simp [hx] at h ⊢ <;> exact h.1

/-- A child named `iframe` is skipped; its subtree `sub` is not looked at. -/
theorem findBidiKids_skip_iframe (e : Elem) (sub ks : List Node) (h : c.tagName e = "iframe".toStr) :
    findBidiKids c (.elem e sub :: ks) = findBidiKids c ks := by
  rw [findBidiKids]
  refine if_pos ?_
  rw [h]; rfl

theorem findBidiKids_skip_isIframe (e : Elem) (sub ks : List Node) (h : c.isIframe e = true) :
    findBidiKids c (.elem e sub :: ks) = findBidiKids c ks :=
  findBidiKids_skip_iframe c e sub ks (isIframe_tagName c e h)

/-! ## (c) equal outside iframe contents -/

mutual
/-- Two nodes are equal outside iframe contents: the same string node; or the same element with
    children equal outside iframe contents; or the same element named `iframe` with ANY children. -/
inductive EqOut (c : Ctx) : Node → Node → Prop
  | str (k : StrKind) (s : Str) : EqOut c (.str k s) (.str k s)
  | iframe (e : Elem) (sub sub' : List Node) : c.tagName e = "iframe".toStr →
      EqOut c (.elem e sub) (.elem e sub')
  | elem (e : Elem) (sub sub' : List Node) : EqOutL c sub sub' → EqOut c (.elem e sub) (.elem e sub')
/-- Pointwise `EqOut` on child lists. -/
inductive EqOutL (c : Ctx) : List Node → List Node → Prop
  | nil : EqOutL c [] []
  | cons (k k' : Node) (ks ks' : List Node) : EqOut c k k' → EqOutL c ks ks' →
      EqOutL c (k :: ks) (k' :: ks')
end

/-- **(c)** The scan depends only on what lies outside iframe contents. -/
theorem findBidiKids_outside (ks : List Node) :
    ∀ ks', EqOutL c ks ks' → findBidiKids c ks = findBidiKids c ks' := by
  fun_induction findBidiKids c ks with
  | case1 => intro ks' h; cases h; rw [findBidiKids]
  | case2 ks e sub direction name hcond ih =>
    intro ks' h
    cases h with
    | cons _ k' _ ks'' hk hks =>
      have key : ∀ sub', findBidiKids c (.elem e sub' :: ks'') = findBidiKids c ks'' := by
        intro sub'; rw [findBidiKids]; exact if_pos hcond
      cases hk with
      | iframe _ _ sub' _ => rw [key]; exact ih _ hks
      | elem _ _ sub' _ => rw [key]; exact ih _ hks
  | case3 ks e sub direction name hcond v hv ih1 =>
    intro ks' h
    cases h with
    | cons _ k' _ ks'' hk hks =>
      cases hk with
      | iframe _ _ sub' hn =>
        exfalso; apply hcond
        show (["bdi", "script", "style", "textarea", "iframe"].any (fun t => t.toStr == c.tagName e)
          || !c.isHtmlTag e || direction.isSome) = true
        rw [hn]; rfl
      | elem _ _ sub' hsub =>
        rw [findBidiKids]
        refine ((if_neg hcond).trans ?_).symm
        rw [← ih1 _ hsub, hv]
  | case4 ks e sub direction name hcond hn ih1 ih2 =>
    intro ks' h
    cases h with
    | cons _ k' _ ks'' hk hks =>
      cases hk with
      | iframe _ _ sub' hnm =>
        exfalso; apply hcond
        show (["bdi", "script", "style", "textarea", "iframe"].any (fun t => t.toStr == c.tagName e)
          || !c.isHtmlTag e || direction.isSome) = true
        rw [hnm]; rfl
      | elem _ _ sub' hsub =>
        rw [findBidiKids]
        refine ((if_neg hcond).trans ?_).symm
        rw [← ih1 _ hsub, hn]
        exact (ih2 _ hks).symm
  | case5 ks kind s hk ih =>
    intro ks' h
    cases h with
    | cons _ k' _ ks'' hk' hks =>
      cases hk'
      rw [findBidiKids]
      simp only [hk, if_true]
      exact ih _ hks
  | case6 ks kind s hk v hv =>
    intro ks' h
    cases h with
    | cons _ k' _ ks'' hk' hks =>
      cases hk'
      rw [findBidiKids]
      simp only [hk, hv, Bool.false_eq_true, if_false]
  | case7 ks kind s hk hn ih =>
    intro ks' h
    cases h with
    | cons _ k' _ ks'' hk' hks =>
      cases hk'
      rw [findBidiKids]
      simp only [hk, hn, Bool.false_eq_true, if_false]
      exact ih _ hks

/-- `find_bidi(el)` at an element: the result does not depend on the content of iframes, neither on
    the content of `el` when `el` is itself an iframe (first alternative) nor on the content of
    iframes among its descendants (second alternative). The position of the element plays no role. -/
theorem findBidi_outside (e : Elem) (kids kids' : List Node) (up up' : List Frame)
    (h : c.isIframe e = true ∨ EqOutL c kids kids') :
    findBidi c ⟨.elem e kids, up⟩ = findBidi c ⟨.elem e kids', up'⟩ := by
  rcases h with h | h
  · rw [findBidi_iframe_elem c e kids up h, findBidi_iframe_elem c e kids' up' h]
  · unfold findBidi
    have : ∀ ks u, c.locIsIframe ⟨.elem e ks, u⟩ = c.isIframe e := fun _ _ => rfl
    rw [this, this]
    cases c.isIframe e with
    | true => rfl
    | false => exact findBidiKids_outside c kids kids' h

/-! ### The relation is what it should be -/

mutual
theorem EqOut.refl : ∀ n : Node, EqOut c n n
  | .str k s => .str k s
  | .elem e sub => .elem e sub sub (EqOutL.refl sub)
theorem EqOutL.refl : ∀ ks : List Node, EqOutL c ks ks
  | [] => .nil
  | k :: ks => .cons k k ks ks (EqOut.refl k) (EqOutL.refl ks)
end

/-- An element for which `is_iframe` holds, with any two contents. -/
theorem EqOut.of_isIframe (e : Elem) (sub sub' : List Node) (h : c.isIframe e = true) :
    EqOut c (.elem e sub) (.elem e sub') :=
  .iframe e sub sub' (isIframe_tagName c e h)

/-- Replace one child. -/
theorem EqOutL.replace (pre post : List Node) (k k' : Node) (h : EqOut c k k') :
    EqOutL c (pre ++ k :: post) (pre ++ k' :: post) := by
  induction pre with
  | nil => exact .cons k k' post post h (EqOutL.refl c post)
  | cons p pre ih => exact .cons p p _ _ (EqOut.refl c p) ih

/-- A path of element children from a child list down to one node: at each level the siblings to the
    left, the element entered, the siblings to the right. -/
abbrev Path := List (List Node × Elem × List Node)

/-- The child list obtained by putting node `n` at the end of the path. -/
def plugKids : Path → List Node → List Node → Node → List Node
  | [], pre, post, n => pre ++ n :: post
  | (pre', e, post') :: rest, pre, post, n => pre' ++ .elem e (plugKids rest pre post n) :: post'

theorem EqOutL.plug (path : Path) (pre post : List Node) (k k' : Node) (h : EqOut c k k') :
    EqOutL c (plugKids path pre post k) (plugKids path pre post k') := by
  induction path with
  | nil => exact EqOutL.replace c pre post k k' h
  | cons f rest ih =>
    obtain ⟨pre', e, post'⟩ := f
    exact EqOutL.replace c pre' post' _ _ (.elem e _ _ ih)

/-- **(c), concretely.** Replacing the content `sub` of an iframe that sits anywhere below `el`
    (at the end of any path of element children) by any other content `sub'` does not change
    `find_bidi(el)`: the direction of `dir=auto` is computed from the element's own document. -/
theorem findBidi_replace_iframe_content (el : Elem) (up : List Frame) (path : Path)
    (pre post : List Node) (fr : Elem) (sub sub' : List Node) (h : c.isIframe fr = true) :
    findBidi c ⟨.elem el (plugKids path pre post (.elem fr sub)), up⟩ =
    findBidi c ⟨.elem el (plugKids path pre post (.elem fr sub')), up⟩ :=
  findBidi_outside c el _ _ up up
    (.inr (EqOutL.plug c path pre post _ _ (EqOut.of_isIframe c fr sub sub' h)))

end SoupVerif.C17Dir
