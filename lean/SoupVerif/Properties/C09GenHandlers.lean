/-
  C09 / C06 about the Lean terms TRANSLATED from the source text of the small token handlers of `CSSParser`:
  `parse_tag_pattern`, `parse_class_id`, `parse_pseudo_dir`, `parse_pseudo_lang`, `parse_pseudo_contains`.

  In the hand model these handlers are the branches of `ParseDisp.runCall` (= the branches of `Parser.parseLoop`,
  `C06GenDispatch.stepOf_eq_runAction`), and the value loop is `Parser.parseValues` (the object of
  `Refine/Compile2ValuesStep.lean` / C09Compile2).  `gen/gen_py_handlers.py` translates the handler BODIES on every run
  (`Generated/PyHandlers.lean`): each handler as a function of `css_unescape`, `finditer`, `m.group(0)` and
  `m.group(name)` returning, in the `Except` monad of the Python exceptions, the one write to `sel` it makes
  (`PyHandlers.Add`: which field, which value) and whether the deprecation warning is issued; the loop body as a
  separate step function.  The frame (`has_selector = True; return has_selector`, the `for … in RE.finditer(e)` shape,
  `if …: continue`, the final `append`) is checked by the translator, which fails closed.

  Proved here, for ALL arguments:
  * `gen_tag`, `gen_classId`, `gen_dir`, `gen_lang`, `gen_contains`: each regenerated handler in closed form (what it
    writes, and exactly when it raises which exception);
  * `gen_langStep`, `gen_containsStep`: the two regenerated loop bodies are the same step `stepSpec`
    (`continue` on a non-empty `split`; quoted value → `css_unescape(value[1:-1], True)`; bare → `css_unescape(value)`);
  * `parseValues_gen` (**the value loop**): the hand model's value list = the regenerated step, exceptions erased,
    over the `finditer` model (`finditerOf`: the engine scan on the lexicon's `RE_VALUES`, groups BY NAME through the
    regenerated group table); `forAppend_lang` / `forAppend_contains`: if the regenerated loop does not raise, the list
    it builds is the hand model's;
  * `runCall_tag_gen`, `runCall_classId_gen`, `runCall_dir_gen`, `runCall_lang_gen`, `runCall_contains_gen`
    (**the tie**): whenever the regenerated handler run on the model's token (`genRun`) does not raise, the hand
    model's handler is exactly its result followed by the checked frame — so every theorem about `runCall` /
    `parseLoop` holds of the regenerated handlers; `parse_class_id` never raises (equality outright);
    `genRun_tag_isSome`, `genRun_dir_isSome`, `step_ok`: when they do not raise;
  * `finditerOf_gen`: on the regenerated lexicon the loop runs over `Gen.cp_RE_VALUES` with `Gen.cp_RE_VALUES_groups`;
    `gen_dir_flag`, `gen_step_value`, `gen_step_split`: the rules restated about the regenerated definitions.
  DIFFERENCE found (not reachable from a token match): where Python raises (`m.group('tag_name')` / `'dir'` / `'values'`
  / `'name'` is `None`: `TypeError`; a `RE_VALUES` match with falsy `split` and `value` `None`: `AttributeError`) the hand
  model goes on with `''` / skips the match.  NOT proved: that a `RE_VALUES` match always has one of the two groups, and
  that `finditerCaps` is CPython's `finditer` for regular expressions with empty matches (`RE_VALUES` has none).
-/
import SoupVerif.Generated.PyHandlers
import SoupVerif.Generated.Lexicon
import SoupVerif.Model.ParseDispatch
namespace SoupVerif
namespace C09GenHandlers
open Rx Parser ParserProgress ParseDisp PyHandlers

/-! ## the handlers without a loop -/

theorem slice_init (ns : Str) :
    PyStr.slice (some ns) none (some (-1)) = .ok (ns.take (ns.length - 1)) := by
  simp [PyStr.slice, PyStr.sliceIdx]

theorem slice_tail (s : Str) : PyStr.slice (some s) (some 1) none = .ok (s.drop 1) := by
  cases s <;> simp [PyStr.slice, PyStr.sliceIdx]

theorem slice_inner (s : Str) :
    PyStr.slice (some s) (some 1) (some (-1)) = .ok (Parser.slice s 1 (s.length - 1)) := by
  cases s <;> simp [PyStr.slice, PyStr.sliceIdx, Parser.slice, List.drop_take]

/-- `parse_tag_pattern`, for ALL arguments. -/
theorem gen_tag (U : Str → Bool → Str) (fi : String → Str → List (String → Option Str)) (g0 : Str)
    (g : String → Option Str) :
    Gen.PyHandlers.parse_tag_pattern U fi g0 g =
      match g "tag_name" with
      | none => .error .typeError
      | some n =>
        .ok (.tag (U n false)
          (match g "tag_ns" with
           | some ns => if ns.isEmpty then none else some (U (ns.take (ns.length - 1)) false)
           | none => none), false) := by
  unfold Gen.PyHandlers.parse_tag_pattern
  generalize g "tag_ns" = a
  generalize g "tag_name" = b
  cases a with
  | none => cases b <;> simp [PyStr.truthy, req, bind, Except.bind, pure, Except.pure]
  | some ns =>
    by_cases h : ns = []
    · cases b <;> simp [PyStr.truthy, req, bind, Except.bind, pure, Except.pure, h]
    · cases b <;> simp [PyStr.truthy, req, bind, Except.bind, pure, Except.pure, h, slice_init]

theorem sw1 (c k : Nat) (rest : Str) : ([k] : Str).isPrefixOf (c :: rest) = (k == c) := by
  simp [List.isPrefixOf]

/-- `parse_class_id`, for ALL arguments: never raises. -/
theorem gen_classId (U : Str → Bool → Str) (fi : String → Str → List (String → Option Str)) (g0 : Str)
    (g : String → Option Str) :
    Gen.PyHandlers.parse_class_id U fi g0 g =
      .ok (if g0.head? == some 46 then .classes (U (g0.drop 1) false) else .ids (U (g0.drop 1) false), false) := by
  unfold Gen.PyHandlers.parse_class_id
  cases g0 with
  | nil => simp [startswithAny, bind, Except.bind, pure, Except.pure, slice_tail]
  | cons c rest =>
    by_cases h : c = 46 <;>
      simp [startswithAny, bind, Except.bind, pure, Except.pure, slice_tail, h, sw1]
    · have h2 : ¬ (46 = c) := fun e => h e.symm
      simp [h2]

/-- `parse_pseudo_dir`, for ALL arguments. -/
theorem gen_dir (U : Str → Bool → Str) (fi : String → Str → List (String → Option Str)) (g0 : Str)
    (g : String → Option Str) :
    Gen.PyHandlers.parse_pseudo_dir U fi g0 g =
      match g "dir" with
      | none => .error .typeError
      | some d => .ok (.flagList (if lower d == "ltr".toStr then SEL_DIR_LTR else SEL_DIR_RTL) false true, false) := by
  unfold Gen.PyHandlers.parse_pseudo_dir
  have hl : "ltr".toStr = [108, 116, 114] := by decide
  rw [hl]
  generalize g "dir" = a
  cases a with
  | none => simp [req, bind, Except.bind]
  | some d =>
    by_cases h : lower d = [108, 116, 114] <;>
      simp [req, bind, Except.bind, pure, Except.pure, h, Gen.gen_SEL_DIR_LTR, Gen.gen_SEL_DIR_RTL, SEL_DIR_LTR, SEL_DIR_RTL]

/-! ## the value loop of `parse_pseudo_lang` / `parse_pseudo_contains` -/

/-- What one iteration does with the value group: `AttributeError` on `None.startswith`. -/
def valueSpec (U : Str → Bool → Str) (g : String → Option Str) : PyStr.M (Option Str) :=
  match g "value" with
  | none => .error .attributeError
  | some v =>
    .ok (some (match v.head? with
      | some q => if q == 34 || q == 39 then U (Parser.slice v 1 (v.length - 1)) true else U v false
      | none => U v false))

/-- One iteration of the loop: `continue` on a non-empty `split` group. -/
def stepSpec (U : Str → Bool → Str) (g : String → Option Str) : PyStr.M (Option Str) :=
  match g "split" with
  | some sp => if !sp.isEmpty then .ok none else valueSpec U g
  | none => valueSpec U g

theorem gen_langStep (U : Str → Bool → Str) (g : String → Option Str) :
    Gen.PyHandlers.parse_pseudo_lang_step U g = stepSpec U g := by
  unfold Gen.PyHandlers.parse_pseudo_lang_step stepSpec valueSpec
  generalize g "split" = sp
  generalize g "value" = v
  rcases sp with _ | sp <;> rcases v with _ | (_ | ⟨c, rest⟩) <;> try rcases sp with _ | ⟨d, sp⟩
  all_goals simp [PyStr.truthy, startswithAny, req, bind, Except.bind, pure, Except.pure, slice_inner, sw1]
  all_goals by_cases h1 : c = 34 <;> by_cases h2 : c = 39 <;> simp [h1, h2, eq_comm]

theorem gen_containsStep (U : Str → Bool → Str) (g : String → Option Str) :
    Gen.PyHandlers.parse_pseudo_contains_step U g = stepSpec U g := by
  unfold Gen.PyHandlers.parse_pseudo_contains_step stepSpec valueSpec
  generalize g "split" = sp
  generalize g "value" = v
  rcases sp with _ | sp <;> rcases v with _ | (_ | ⟨c, rest⟩) <;> try rcases sp with _ | ⟨d, sp⟩
  all_goals simp [PyStr.truthy, startswithAny, req, bind, Except.bind, pure, Except.pure, slice_inner, sw1]
  all_goals by_cases h1 : c = 34 <;> by_cases h2 : c = 39 <;> simp [h1, h2, eq_comm]

/-- Exceptions erased: what the hand model does where Python would raise (it skips the match). -/
def erase : PyStr.M (Option Str) → Option Str
  | .ok r => r
  | .error _ => none

/-- The `finditer` model: the scan `Parser.parseValues` makes with the regex engine (`Rx.search` from the end of the
    previous match), each match as its captures. -/
def finditerCaps (env : CharEnv) (r : Rx) (s : Str) : Nat → Nat → List Caps
  | 0, _ => []
  | fuel + 1, i =>
    if i > s.length then [] else
    match Rx.search env r s i with
    | none => []
    | some (_, j, caps) => caps :: finditerCaps env r s fuel (if j > i then j else i + 1)

/-- `RE_VALUES.finditer(s)` on the lexicon's `RE_VALUES`, each match as its `group(name)` function
    (names resolved through the regenerated group table); other regex names: no model. -/
def finditerOf (env : CharEnv) (L : Lexicon) (name : String) (s : Str) : List (String → Option Str) :=
  if name == "RE_VALUES" then
    (finditerCaps env L.reValues.rx s (s.length + 1) 0).map (fun caps n => Parser.group s L.reValues caps n)
  else []

theorem go_eq (P : PEnv) (values : Str) : ∀ fuel i,
    parseValues.go P values fuel i =
      (finditerCaps P.env P.L.reValues.rx values fuel i).filterMap (fun caps =>
        erase (stepSpec (fun c b => cssUnescape P.env P.L c b) (fun n => Parser.group values P.L.reValues caps n))) := by
  intro fuel
  induction fuel with
  | zero => intro i; simp [parseValues.go, finditerCaps]
  | succ fuel ih =>
    intro i
    rw [parseValues.go, finditerCaps]
    by_cases hi : i > values.length
    · simp [hi]
    · simp only [hi, if_false]
      rcases Rx.search P.env P.L.reValues.rx values i with _ | ⟨a, j, caps⟩
      · simp
      · simp only [List.filterMap_cons, parseValues.valueOf, ih]
        generalize List.filterMap _ (finditerCaps P.env P.L.reValues.rx values fuel _) = T
        simp only [stepSpec, valueSpec]
        rcases Parser.group values P.L.reValues caps "split" with _ | sp <;>
          rcases Parser.group values P.L.reValues caps "value" with _ | (_ | ⟨c, v⟩)
        · simp [erase]
        · simp [erase]
        · by_cases h : c = 34 ∨ c = 39 <;> simp [erase, h]
        · by_cases hs : sp = [] <;> simp [erase, hs]
        · by_cases hs : sp = [] <;> simp [erase, hs]
        · by_cases hs : sp = [] <;> by_cases h : c = 34 ∨ c = 39 <;> simp [erase, hs, h]

/-- **The value loop.**  The hand model's value list is the regenerated step (exceptions erased) over the `finditer`
    model on the lexicon's `RE_VALUES`, for ALL texts. -/
theorem parseValues_gen (P : PEnv) (values : Str) :
    parseValues P values =
      (finditerOf P.env P.L "RE_VALUES" values).filterMap (fun g =>
        erase (Gen.PyHandlers.parse_pseudo_lang_step (fun c b => cssUnescape P.env P.L c b) g)) := by
  unfold parseValues finditerOf
  simp [go_eq, gen_langStep, List.filterMap_map, Function.comp_def]

theorem forAppend_ok {α} (step : α → PyStr.M (Option Str)) : ∀ (l : List α) (r : List Str),
    forAppend step l = .ok r → r = l.filterMap (fun m => erase (step m)) := by
  intro l
  induction l with
  | nil => intro r h; simp [forAppend] at h; simp [h]
  | cons m rest ih =>
    intro r h
    rw [forAppend] at h
    rcases hs : step m with e | o
    · simp [hs] at h
    · rcases hr : forAppend step rest with e | l
      · simp [hs, hr] at h
      · simp [hs, hr] at h
        have := ih l hr
        subst h
        cases o <;> simp [erase, hs] <;> exact this

/-- No exception in the loop ⇒ the list it builds is the hand model's. -/
theorem forAppend_lang (P : PEnv) (values : Str) (r : List Str)
    (h : forAppend (fun g => Gen.PyHandlers.parse_pseudo_lang_step (fun c b => cssUnescape P.env P.L c b) g)
      (finditerOf P.env P.L "RE_VALUES" values) = .ok r) : r = parseValues P values := by
  rw [parseValues_gen]; exact forAppend_ok _ _ _ h

theorem forAppend_contains (P : PEnv) (values : Str) (r : List Str)
    (h : forAppend (fun g => Gen.PyHandlers.parse_pseudo_contains_step (fun c b => cssUnescape P.env P.L c b) g)
      (finditerOf P.env P.L "RE_VALUES" values) = .ok r) : r = parseValues P values := by
  simp only [gen_containsStep, ← gen_langStep] at h
  exact forAppend_lang P values r h

/-- `parse_pseudo_lang`, for ALL arguments. -/
theorem gen_lang (U : Str → Bool → Str) (fi : String → Str → List (String → Option Str)) (g0 : Str)
    (g : String → Option Str) :
    Gen.PyHandlers.parse_pseudo_lang U fi g0 g =
      match g "values" with
      | none => .error .typeError
      | some vs =>
        match forAppend (fun m => Gen.PyHandlers.parse_pseudo_lang_step U m) (fi "RE_VALUES" vs) with
        | .error e => .error e
        | .ok l => .ok (.lang l, false) := by
  unfold Gen.PyHandlers.parse_pseudo_lang
  generalize g "values" = a
  cases a with
  | none => simp [req, bind, Except.bind]
  | some vs =>
    simp only [req, bind, Except.bind, pure, Except.pure]
    cases forAppend (fun m => Gen.PyHandlers.parse_pseudo_lang_step U m) (fi "RE_VALUES" vs) <;> rfl

/-- `parse_pseudo_contains`, for ALL arguments: the own flag, the deprecation warning, the value loop. -/
theorem gen_contains (U : Str → Bool → Str) (fi : String → Str → List (String → Option Str)) (g0 : Str)
    (g : String → Option Str) :
    Gen.PyHandlers.parse_pseudo_contains U fi g0 g =
      match g "name" with
      | none => .error .typeError
      | some n =>
        match g "values" with
        | none => .error .typeError
        | some vs =>
          match forAppend (fun m => Gen.PyHandlers.parse_pseudo_contains_step U m) (fi "RE_VALUES" vs) with
          | .error e => .error e
          | .ok l => .ok (.contains l (lower (U n false) == ":-soup-contains-own".toStr),
                          lower (U n false) == ":contains".toStr) := by
  unfold Gen.PyHandlers.parse_pseudo_contains
  have h1 : ":-soup-contains-own".toStr = [58, 45, 115, 111, 117, 112, 45, 99, 111, 110, 116, 97, 105, 110, 115, 45, 111, 119, 110] := by decide
  have h2 : ":contains".toStr = [58, 99, 111, 110, 116, 97, 105, 110, 115] := by decide
  rw [h1, h2]
  generalize g "values" = a
  generalize g "name" = b
  cases b with
  | none => simp [req, bind, Except.bind]
  | some n =>
    cases a with
    | none => simp [req, bind, Except.bind]
    | some vs =>
      simp only [req, bind, Except.bind, pure, Except.pure]
      cases forAppend (fun m => Gen.PyHandlers.parse_pseudo_contains_step U m) (fi "RE_VALUES" vs) <;> rfl

/-! ## the tie to the hand model's handlers (`ParseDisp.runCall`, the meaning of the dispatch table's calls) -/

/-- A regenerated handler run on the model's token: `css_unescape` is the model's, `finditer` the model's scan on the
    lexicon's `RE_VALUES`, `m.group(0)` the token text, `m.group(name)` the token's named group; followed by the FRAME
    the translator checked (`has_selector = True; return has_selector`) and `index = m.end(0)`.  `none`: Python raises. -/
def genRun (env : CharEnv) (L : Lexicon) (B : Builtins) (pattern : Str) (s : LS) (t : Token)
    (h : (Str → Bool → Str) → (String → Str → List (String → Option Str)) → Str → (String → Option Str) →
      PyStr.M (Add × Bool)) : Option Step :=
  match h (fun c b => cssUnescape env L c b) (finditerOf env L) (Parser.slice pattern t.start t.stop)
      (t.group ⟨env, L, B, pattern⟩) with
  | .ok (a, _) => some (.cont { s with sel := a.apply s.sel, hasSelector := true, index := t.stop })
  | .error _ => none

theorem runCall_tag_gen (env : CharEnv) (L : Lexicon) (B : Builtins) (pattern : Str) (s : LS) (t : Token) (st : Step)
    (h : genRun env L B pattern s t Gen.PyHandlers.parse_tag_pattern = some st) :
    runCall env L B pattern s t ("parse_tag_pattern", [], ["has_selector"]) = st := by
  unfold genRun at h
  rw [gen_tag] at h
  rcases hn : t.group ⟨env, L, B, pattern⟩ "tag_name" with _ | n
  · simp [hn] at h
  · simp only [hn, Option.some.injEq] at h
    subst h
    rcases hns : t.group ⟨env, L, B, pattern⟩ "tag_ns" with _ | ns
    · simp [runCall, Add.apply, hn, hns]
    · by_cases he : ns = [] <;> simp [runCall, Add.apply, hn, hns, he]

/-- `parse_class_id` never raises: the hand model's handler IS the regenerated one. -/
theorem runCall_classId_gen (env : CharEnv) (L : Lexicon) (B : Builtins) (pattern : Str) (s : LS) (t : Token) :
    genRun env L B pattern s t Gen.PyHandlers.parse_class_id =
      some (runCall env L B pattern s t ("parse_class_id", [], ["has_selector"])) := by
  unfold genRun
  rw [gen_classId]
  by_cases h : (Parser.slice pattern t.start t.stop).head? = some 46 <;> simp [runCall, Add.apply, h]

theorem runCall_dir_gen (env : CharEnv) (L : Lexicon) (B : Builtins) (pattern : Str) (s : LS) (t : Token) (st : Step)
    (h : genRun env L B pattern s t Gen.PyHandlers.parse_pseudo_dir = some st) :
    runCall env L B pattern s t ("parse_pseudo_dir", [], ["has_selector"]) = st := by
  unfold genRun at h
  rw [gen_dir] at h
  rcases hn : t.group ⟨env, L, B, pattern⟩ "dir" with _ | d
  · simp [hn] at h
  · simp only [hn, Option.some.injEq] at h
    subst h
    by_cases hd : lower d = "ltr".toStr <;> simp [runCall, Add.apply, hn, hd]

theorem runCall_lang_gen (env : CharEnv) (L : Lexicon) (B : Builtins) (pattern : Str) (s : LS) (t : Token) (st : Step)
    (h : genRun env L B pattern s t Gen.PyHandlers.parse_pseudo_lang = some st) :
    runCall env L B pattern s t ("parse_pseudo_lang", [], ["has_selector"]) = st := by
  unfold genRun at h
  rw [gen_lang] at h
  rcases hn : t.group ⟨env, L, B, pattern⟩ "values" with _ | vs
  · simp [hn] at h
  · simp only [hn] at h
    rcases hf : forAppend (fun m => Gen.PyHandlers.parse_pseudo_lang_step (fun c b => cssUnescape env L c b) m)
        (finditerOf env L "RE_VALUES" vs) with e | l
    · simp [hf] at h
    · simp only [hf, Option.some.injEq] at h
      subst h
      have := forAppend_lang ⟨env, L, B, pattern⟩ vs l hf
      simp [runCall, Add.apply, hn, this]

theorem runCall_contains_gen (env : CharEnv) (L : Lexicon) (B : Builtins) (pattern : Str) (s : LS) (t : Token) (st : Step)
    (h : genRun env L B pattern s t Gen.PyHandlers.parse_pseudo_contains = some st) :
    runCall env L B pattern s t ("parse_pseudo_contains", [], ["has_selector"]) = st := by
  unfold genRun at h
  rw [gen_contains] at h
  rcases hm : t.group ⟨env, L, B, pattern⟩ "name" with _ | nm
  · simp [hm] at h
  rcases hn : t.group ⟨env, L, B, pattern⟩ "values" with _ | vs
  · simp [hm, hn] at h
  · simp only [hm, hn] at h
    rcases hf : forAppend (fun m => Gen.PyHandlers.parse_pseudo_contains_step (fun c b => cssUnescape env L c b) m)
        (finditerOf env L "RE_VALUES" vs) with e | l
    · simp [hf] at h
    · simp only [hf, Option.some.injEq] at h
      subst h
      have := forAppend_contains ⟨env, L, B, pattern⟩ vs l hf
      simp [runCall, Add.apply, hm, hn, this]

/-! ## when the regenerated handlers do not raise -/

theorem genRun_tag_isSome (env : CharEnv) (L : Lexicon) (B : Builtins) (pattern : Str) (s : LS) (t : Token)
    (h : (t.group ⟨env, L, B, pattern⟩ "tag_name").isSome) :
    (genRun env L B pattern s t Gen.PyHandlers.parse_tag_pattern).isSome := by
  unfold genRun
  rw [gen_tag]
  rcases hn : t.group ⟨env, L, B, pattern⟩ "tag_name" with _ | n
  · simp [hn] at h
  · simp

theorem genRun_dir_isSome (env : CharEnv) (L : Lexicon) (B : Builtins) (pattern : Str) (s : LS) (t : Token)
    (h : (t.group ⟨env, L, B, pattern⟩ "dir").isSome) :
    (genRun env L B pattern s t Gen.PyHandlers.parse_pseudo_dir).isSome := by
  unfold genRun
  rw [gen_dir]
  rcases hn : t.group ⟨env, L, B, pattern⟩ "dir" with _ | n
  · simp [hn] at h
  · simp

/-- The step does not raise on a match in which `split` is non-empty or `value` took part (every match of an
    alternation of the two groups — not proved here for `RE_VALUES`). -/
theorem step_ok (U : Str → Bool → Str) (g : String → Option Str)
    (h : PyStr.truthy (g "split") = true ∨ (g "value").isSome) :
    ∃ r, Gen.PyHandlers.parse_pseudo_lang_step U g = .ok r ∧ Gen.PyHandlers.parse_pseudo_contains_step U g = .ok r := by
  rw [gen_langStep, gen_containsStep]
  unfold stepSpec valueSpec
  rcases hs : g "split" with _ | sp <;> rcases hv : g "value" with _ | v
  · simp [hs, hv, PyStr.truthy] at h
  · exact ⟨_, rfl, rfl⟩
  · by_cases he : sp = []
    · simp [hs, hv, PyStr.truthy, he] at h
    · exact ⟨none, by simp [he], by simp [he]⟩
  · by_cases he : sp = []
    · subst he; exact ⟨_, rfl, rfl⟩
    · exact ⟨none, by simp [he], by simp [he]⟩

/-! ## on the regenerated lexicon; corollaries -/

/-- The loop runs over the regular expression `gen_regexes.py` regenerates for `RE_VALUES`, with its group table. -/
theorem finditerOf_gen (env : CharEnv) (s : Str) :
    finditerOf env Gen.lexicon "RE_VALUES" s =
      (finditerCaps env Gen.cp_RE_VALUES s (s.length + 1) 0).map
        (fun caps n => Parser.group s ⟨"RE_VALUES", Gen.cp_RE_VALUES, Gen.cp_RE_VALUES_groups⟩ caps n) := by
  simp [finditerOf, Gen.lexicon]

theorem handlers_list : Gen.PyHandlers.handlers =
    ["parse_tag_pattern", "parse_class_id", "parse_pseudo_dir", "parse_pseudo_lang", "parse_pseudo_contains"] := by decide

/-- `:dir(ltr)` and nothing else selects the left-to-right flag (any case of the keyword). -/
theorem gen_dir_flag (U : Str → Bool → Str) (fi : String → Str → List (String → Option Str)) (g0 : Str)
    (g : String → Option Str) (d : Str) (h : g "dir" = some d) :
    Gen.PyHandlers.parse_pseudo_dir U fi g0 g =
      .ok (.flagList (if lower d = "ltr".toStr then 32 else 64) false true, false) := by
  rw [gen_dir, h]
  by_cases hd : lower d = "ltr".toStr <;> simp [hd, SEL_DIR_LTR, SEL_DIR_RTL]

/-- A quoted value loses exactly its two quotes and is unescaped as a string; a bare one is unescaped as an identifier. -/
theorem gen_step_value (U : Str → Bool → Str) (g : String → Option Str) (c : Nat) (v : Str)
    (hs : g "split" = none) (hv : g "value" = some (c :: v)) :
    Gen.PyHandlers.parse_pseudo_lang_step U g =
      .ok (some (if c = 34 ∨ c = 39 then U (v.take (v.length - 1)) true else U (c :: v) false)) := by
  rw [gen_langStep]
  unfold stepSpec valueSpec
  by_cases h : c = 34 ∨ c = 39 <;> simp [hs, hv, h, Parser.slice]

/-- A separator match adds nothing. -/
theorem gen_step_split (U : Str → Bool → Str) (g : String → Option Str) (sp : Str)
    (hs : g "split" = some sp) (hne : sp ≠ []) :
    Gen.PyHandlers.parse_pseudo_lang_step U g = .ok none ∧ Gen.PyHandlers.parse_pseudo_contains_step U g = .ok none := by
  rw [gen_langStep, gen_containsStep]
  unfold stepSpec
  simp [hs, hne]

end C09GenHandlers
end SoupVerif
