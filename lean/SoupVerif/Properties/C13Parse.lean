/-
  C13, tied to the PARSER by proof: `:lang(r1, …, rk)` from the selector TEXT.

  `Properties/C09Compile2.lean`: the parser model on the text of `:lang(` gap VALUES gap `)` in any spelling
  (ranges quoted or bare, escapes, gaps and comments around the commas, the name in any letter case) builds the
  IR `denote` computes from the VALUES.  `Properties/C13.lean` / `C13Rx.lean`: `extended_language_filter` with
  the regex-level wildcard strip (`wildStripRx`: the engine on `RE_WILD_TAIL`, `RE_WILD_STRIP` regenerated from
  `css_match.py`) is `Spec.c13Match` (RFC 4647 extended filtering + the two edge rules) on the lower-cased
  subtag lists.  `Model/Match.lean`: `matchLang` = the language `langOf` determines (nearest `lang` /
  `xml:lang`, `<meta http-equiv="content-language">` fallback) against the ranges.  Composed here:

    * `denote_lang`   `denote` on the one-compound list `tag? :lang(v1, …)`: one selector, the tag (the implied
                      `*` when none is written) and ONE `SelectorLang` record holding the values;
    * `lang_text`     for every `c : Ctx` with `c.wildStrip = wildStripRx`, every element and every spelling:
                      the parser accepts, and the matcher run on the result accepts `e` iff
                      `e` is not the document object ∧ `TagCond` (`Properties/C12Parse.lean`) ∧ `LangCond`:
                      `langOf c l = some v` and SOME range VALUE `ri` has
                      `Spec.c13Match (subtags of ri, lower-cased) (subtags of the language, lower-cased)`;
    * `lang_text_api` the same for `SoupSieve.match` (`matchTextApi`, `mkCtx`) with `E.wildStrip = wildStripRx`.

  Hypotheses: the side conditions of `C09Compile2` (`….ok g₂`, gaps, no NUL), `c.wildStrip = wildStripRx`, and
  `hne` — the hypothesis of `C13Rx.extendedFilter_rx_eq_c13`, for every range value: no empty subtag after the
  first (`de--DE`: there the model's loop fails where the bare algorithm would match an empty subtag, see
  `C13.filterLoop_empty_subtag`).  The type selector part is `C12Parse.TagCond` (without a type selector: the
  implied `*`, i.e. the default namespace).

  Composition: nothing had to be bridged.  `denote` builds `⟨vs⟩ : LangSel` with `vs` the value list in source
  order, `matchLang` takes a list of such records and `C13Rx.extendedFilter_rx_eq_c13` is about one
  (range, tag) pair: `matchLang_one` is the glue (`List.all` over one record, `List.any` over the ranges;
  the language value joined as `nvalJoin` does, as in `matchLang`).
-/
import SoupVerif.Properties.C12Parse
import SoupVerif.Properties.C13Rx
namespace SoupVerif
namespace C13Parse
open SoupVerif.Parser Refine.Compile Spelling LangLemmas
open C09Compile2 (STagN SItem SCompound itemsOK renderItems itemsValue applyItems Item)
open C01Parse (mkB implB implTag)
open Css (emptyList)
open NsParse C12Parse

/-- The selector a compound `tag? :lang(…)` freezes to. -/
def langSel (tag : Option SelTag) (vs : List Str) : Sel :=
  .mk tag [] [] [] [] [] emptyList .none [] [⟨vs⟩] 0

theorem matchSel_langSel (c : Ctx) (l : Loc) (e : Elem) (tag : Option SelTag) (vs : List Str) :
    matchSel c l e (langSel tag vs) = (matchTag c e tag && matchLang c l [⟨vs⟩]) := by
  unfold langSel
  conv => lhs; unfold matchSel
  simp [hasFlag, SatCore.matchNths_nil, matchAttributes, emptyList, SelList.nonEmpty, SelList.sels]

open C09Compile2 (Compound) in
theorem freeze_lang (B : Builtins) (tagv : Option SelTag) (vs : List Str) :
    (implB false ((Compound.mk tagv [.lang vs]).buildOn B SelB.empty)).freeze =
      langSel (implTag false tagv) vs := by
  cases tagv <;>
    simp [Compound.buildOn, applyItems, Item.apply, SelB.empty, SelB.setTag, SelB.addLang, implB, SelB.tag,
      implTag, SelB.freeze, SelB.size, SelB.sizeList, SelB.freezeF, langSel, emptyList]

open C09Compile2 (Compound denote) in
/-- `denote` on `tag? :lang(v1, …)`: one selector with the tag (the implied `*` when none is written) and one
    `SelectorLang` record holding the VALUES. -/
theorem denote_lang (B : Builtins) (tagv : Option SelTag) (vs : List Str) :
    denote B (.mk (.mk tagv [.lang vs]) []) = .mk [langSel (implTag false tagv) vs] false false := by
  rw [denote_one B _ (by cases tagv <;> simp [Compound.isEmpty]), freeze_lang]

/-- `match_lang` for one `:lang(…)`: the element has a language (`langOf`: nearest `lang` / `xml:lang`, else the
    `<meta http-equiv="content-language">` fallback) and SOME range passes `extended_language_filter`. -/
theorem matchLang_one (c : Ctx) (l : Loc) (vs : List Str) :
    matchLang c l [⟨vs⟩] = true ↔
      ∃ v, langOf c l = some v ∧ ∃ r ∈ vs, Lang.extendedFilter c.wildStrip r (nvalJoin v) = true := by
  unfold matchLang
  cases h : langOf c l with
  | none => simp
  | some v =>
    cases v <;> simp [nvalJoin]

/-- The element's language passes the range list `vs` under RFC 4647 extended filtering with the two edge rules
    of C13 (`Spec.c13Match` on the lower-cased subtag lists): the language `match_lang` determines exists and
    SOME range matches it. -/
def LangCond (c : Ctx) (l : Loc) (vs : List Str) : Prop :=
  ∃ v, langOf c l = some v ∧
    ∃ r ∈ vs, Spec.c13Match ((splitOn 45 r).map lower) ((splitOn 45 (nvalJoin v)).map lower) = true

/-- **C13 on selector TEXT.**  `:lang(r1, …, rk)` — optionally behind a type selector — in EVERY spelling (ranges
    quoted or bare, any escapes, any gaps and comments, the name in any letter case), for a matcher whose
    wildcard strip is the regex-level one (`wildStripRx`: the engine on `RE_WILD_STRIP`, `RE_WILD_TAIL`
    regenerated from the source): the parser model accepts the text, and the matcher model run on the result
    accepts `e` iff `e` is not the document object, its type passes, and some range `ri` (a VALUE) matches the
    element's language under `Spec.c13Match`.  `hne` is the hypothesis of
    `C13Rx.extendedFilter_rx_eq_c13`, for every range. -/
theorem lang_text (c : Ctx) (hw : c.wildStrip = wildStripRx) (l : Loc) (e : Elem) (kids : List Node)
    (hf : l.focus = .elem e kids) (tag : Option STagN) (f : C09Compile.Forms) (i₁ : Str) (V : SValues) (i₂ : Str)
    (g₁ g₂ : Str) (hg₁ : isGap g₁) (hg₂ : isGap g₂) (hok : (SCompound.mk tag [.lang f i₁ V i₂]).ok g₂)
    (h0 : ∀ y ∈ g₁ ++ (SCompound.mk tag [.lang f i₁ V i₂]).render ++ g₂, y ≠ 0)
    (hne : ∀ r ∈ V.values, ∀ x ∈ (splitOn 45 r).tail, x ≠ []) :
    ∃ b, matchText c (g₁ ++ (SCompound.mk tag [.lang f i₁ V i₂]).render ++ g₂) l = .ok b ∧
      (b = true ↔ e.isDoc = false ∧ TagCond c e (tag.map STagN.value) ∧ LangCond c l V.values) := by
  have hc := compile_one Gen.builtinsRec g₁ g₂ (SCompound.mk tag [.lang f i₁ V i₂]) hg₁ hg₂ hok
    (by cases tag <;> simp [SCompound.isEmpty])
    (by simp [SCompound.tbl, C09Compile2.itemsTbl, SItem.tbl]) h0
  have hv : (SCompound.mk tag [.lang f i₁ V i₂]).value = .mk (tag.map STagN.value) [.lang V.values] := by
    simp only [SCompound.value, itemsValue, SItem.value]
  rw [hv, freeze_lang] at hc
  refine ⟨_, by rw [matchText, hc], ?_⟩
  rw [matchEl_one c l e kids hf, matchSel_langSel, Bool.and_eq_true, Bool.and_eq_true,
    matchTag_implTag_iff, matchLang_one, hw]
  simp only [Bool.not_eq_true', LangCond]
  refine and_congr_right fun _ => and_congr_right fun _ => exists_congr fun v => and_congr_right fun _ => ?_
  constructor
  · rintro ⟨r, hr, h⟩
    exact ⟨r, hr, by rw [← C13Rx.extendedFilter_rx_eq_c13 r _ (hne r hr)]; exact h⟩
  · rintro ⟨r, hr, h⟩
    exact ⟨r, hr, by rw [C13Rx.extendedFilter_rx_eq_c13 r _ (hne r hr)]; exact h⟩

/-- `SoupSieve.match` on the text, for the driver's environment (`E.wildStrip = wildStripRx`). -/
theorem lang_text_api (E : Env) (hw : E.wildStrip = wildStripRx) (isXml : Bool) (ns : List (Str × Str))
    (l : Loc) (e : Elem) (kids : List Node)
    (hf : l.focus = .elem e kids) (tag : Option STagN) (f : C09Compile.Forms) (i₁ : Str) (V : SValues) (i₂ : Str)
    (g₁ g₂ : Str) (hg₁ : isGap g₁) (hg₂ : isGap g₂) (hok : (SCompound.mk tag [.lang f i₁ V i₂]).ok g₂)
    (h0 : ∀ y ∈ g₁ ++ (SCompound.mk tag [.lang f i₁ V i₂]).render ++ g₂, y ≠ 0)
    (hne : ∀ r ∈ V.values, ∀ x ∈ (splitOn 45 r).tail, x ≠ []) :
    ∃ b, matchTextApi E isXml ns (g₁ ++ (SCompound.mk tag [.lang f i₁ V i₂]).render ++ g₂) l = .ok b ∧
      (b = true ↔ e.isDoc = false ∧ TagCond (mkCtx E isXml ns l) e (tag.map STagN.value) ∧
        LangCond (mkCtx E isXml ns l) l V.values) :=
  lang_text (mkCtx E isXml ns l) hw l e kids hf tag f i₁ V i₂ g₁ g₂ hg₁ hg₂ hok h0 hne

/-! ## Non-vacuity -/

namespace Examples

def E0 : Env := ⟨asciiEnv, fun _ => 0, wildStripRx⟩

def htmlE : Elem := ⟨false, "html".toStr, none, none, [⟨"LANG".toStr, none, none, .str "de-Latn-DE".toStr⟩]⟩
def pE : Elem := ⟨false, "p".toStr, none, none, []⟩

/-- `<html LANG="de-Latn-DE"><p/></html>`, at the `p`. -/
def loc : Loc := ⟨.elem pE [], [⟨[], htmlE, []⟩]⟩
def ctx : Ctx := mkCtx E0 false [] loc

theorem lang_loc : langOf ctx loc = some (.str "de-Latn-DE".toStr) := by decide

def lits (s : String) : C09Compile.Forms := s.toStr.map fun c => (c, EscForm.lit)

/-- `p:LANG( fr , "DE-*-de" )` -/
def langP : SCompound :=
  .mk (some ⟨none, .name (lits "p")⟩)
    [.lang (lits "LANG") [32] ⟨.ident (lits "fr"), [([32], [32], .str 34 ("DE-*-de".toStr.map fun c => .ch c .lit))]⟩ [32]]

/-- `p:lang(\66r)` -/
def langFr : SCompound :=
  .mk (some ⟨none, .name (lits "p")⟩)
    [.lang (lits "lang") [] ⟨.ident [(102, .hex 2 [] none), (114, .lit)], []⟩ []]

theorem langP_ok : langP.ok [] := by
  simp +decide [langP, SCompound.ok, itemsOK, SItem.ok, STagN.ok, C09Compile.STag.ok, C09Compile.identOK,
    SValues.ok, vrestOK, C09Compile.SValue.ok]

theorem langFr_ok : langFr.ok [] := by
  simp +decide [langFr, SCompound.ok, itemsOK, SItem.ok, STagN.ok, C09Compile.STag.ok, C09Compile.identOK,
    SValues.ok, vrestOK, C09Compile.SValue.ok]

/-- The second range `DE-*-de` matches the inherited language `de-Latn-DE`: instance of `lang_text`. -/
example : matchText ctx "p:LANG( fr , \"DE-*-de\" )".toStr loc = .ok true :=
  ok_true_of (lang_text ctx rfl loc pE [] rfl _ _ _ _ _ [] [] (by decide) (by decide) langP_ok (by decide)
    (by decide))
    ⟨rfl, ⟨Or.inl rfl, Or.inr (by unfold C12.NameEq; decide)⟩,
      .str "de-Latn-DE".toStr, lang_loc, "DE-*-de".toStr, by decide, by decide⟩

/-- `p:lang(\66r)` (= `fr`) does not. -/
example : matchText ctx "p:lang(\\66r)".toStr loc = .ok false :=
  ok_false_of (lang_text ctx rfl loc pE [] rfl _ _ _ _ _ [] [] (by decide) (by decide) langFr_ok (by decide)
    (by decide))
    (by
      rintro ⟨_, _, v, hv, r, hr, h⟩
      rw [lang_loc] at hv
      cases hv
      have : r = [102, 114] := by simpa [langFr, SValues.values, vrestValues, C09Compile.SValue.value, valueOf] using hr
      subst this
      revert h; decide)

def isOk (x : Except Parser.Err Bool) (b : Bool) : Bool :=
  match x with
  | .ok b' => b == b'
  | .error _ => false

-- the model evaluated directly on the same texts, as a cross-check
#guard isOk (matchText ctx "p:LANG( fr , \"DE-*-de\" )".toStr loc) true
#guard isOk (matchText ctx "p:lang(\\66r)".toStr loc) false
#guard isOk (matchText ctx ":lang('*-de')".toStr loc) true
#guard isOk (matchText ctx ":lang('')".toStr loc) false

end Examples

#print axioms denote_lang
#print axioms lang_text
#print axioms lang_text_api

end C13Parse
end SoupVerif
