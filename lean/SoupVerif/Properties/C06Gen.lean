/-
  C06 (`css_unescape` cannot leave the code-point range) about the Lean term TRANSLATED from the source text of the
  replacement function `replace(m)` nested in `css_parser.css_unescape`.

  The parser model's `Parser.cssUnescape` contains a hand-written copy of that closure (`C06.unescRepl`, with the
  clamp `C06.clampCp`).  `gen/gen_py_strings.py` translates the Python closure — the if/elif chain on
  `m.group(1)`, `m.group(2)`, `m.group(3)`, `int(m.group(1)[1:], 16)`, the clamp
  `if codepoint == 0 or codepoint > 0x10FFFF: codepoint = UNICODE_REPLACEMENT_CHAR` (constant translated from its
  module-level assignment), `chr`, `m.group(2)[1:]`, `'\ufffd'`, `''` — into `Gen.PyStrings.replace : Groups → Str`, a
  function of what `m.group` returns.  Proved here:

    * `gen_replace_group1/2/3/none`  what the translated closure returns, for EVERY match object (the clamp is
                                     `C06.clampCp`);
    * `gen_replace_eq`               on every match object whose participating groups are non-empty spans of the
                                     content it equals the hand model's closure;
    * `realGroups_of_matchAt`        the engine only produces such match objects for expressions all of whose groups
                                     consume (`Lemmas/CapsReal.lean`), which the two expressions regenerated from the
                                     source do (`gen_escapes_consume`, by evaluation);
    * `cssUnescape_generated`        hence `Parser.cssUnescape` IS `RE.sub(<translated replace>, content)` on the
                                     regenerated expressions, for every environment / content / `string` flag;
    * `unescape_total`, `gen_replace_group1_FFFD`   the C06 statements about the translated closure.

  An edit of the clamp bounds, of the replacement constant, of the base-16 parse, of the `[1:]` slices, of which group
  is tested in which order or of what a branch returns changes `Generated/PyStrings.lean` and breaks
  `gen_replace_group*` / `gen_replace_eq` (or makes the translator fail).
-/
import SoupVerif.Properties.C06
import SoupVerif.Lemmas.CapsReal
import SoupVerif.Generated.PyStrings
namespace SoupVerif
namespace C06Gen
open Rx SoupVerif.Parser ParserProgress PyStrings

/-! ### The translated closure, branch by branch — for EVERY match object -/

/-- Group 1 truthy (a hex escape): the result is the one character `clampCp (int(m.group(1)[1:], 16))`, with the
    hand model's clamp `C06.clampCp`. -/
theorem gen_replace_group1 (m : Groups) (h : truthy (m 1) = true) :
    Gen.PyStrings.replace m = [C06.clampCp (intHex ((text (m 1)).drop 1))] := by
  simp only [Gen.PyStrings.replace, h, C06.clampCp, Gen.PyStrings.UNICODE_REPLACEMENT_CHAR]
  repeat' split
  all_goals simp_all

theorem gen_replace_group2 (m : Groups) (h1 : truthy (m 1) = false) (h2 : truthy (m 2) = true) :
    Gen.PyStrings.replace m = (text (m 2)).drop 1 := by
  simp [Gen.PyStrings.replace, h1, h2]

theorem gen_replace_group3 (m : Groups) (h1 : truthy (m 1) = false) (h2 : truthy (m 2) = false)
    (h3 : truthy (m 3) = true) : Gen.PyStrings.replace m = [0xFFFD] := by
  simp [Gen.PyStrings.replace, h1, h2, h3]

theorem gen_replace_none (m : Groups) (h1 : truthy (m 1) = false) (h2 : truthy (m 2) = false)
    (h3 : truthy (m 3) = false) : Gen.PyStrings.replace m = [] := by
  simp [Gen.PyStrings.replace, h1, h2, h3]

/-! ### The match objects of the regex-engine model -/

theorem groupsOf_none (content : Str) (caps : Caps) (k : Nat) (h : capSpan caps k = none) :
    groupsOf content caps k = none := by
  simp [groupsOf, h]

theorem groupsOf_some (content : Str) (caps : Caps) (k a b : Nat) (h : capSpan caps k = some (a, b)) :
    groupsOf content caps k = some (slice content a b) := by
  simp [groupsOf, h]

theorem truthy_none : truthy none = false := rfl

/-- A span `a < b ≤ |content|` is a non-empty text. -/
theorem truthy_slice (content : Str) (a b : Nat) (hab : a < b) (hb : b ≤ content.length) :
    truthy (some (slice content a b)) = true := by
  have hl : 0 < (slice content a b).length := by
    unfold slice; simp only [List.length_take, List.length_drop]; omega
  cases hs : slice content a b with
  | nil => rw [hs] at hl; cases hl
  | cons _ _ => rfl

/-- `m.group(k)[1:]` is the span without its first character. -/
theorem slice_drop_one (content : Str) (a b : Nat) : (slice content a b).drop 1 = slice content (a + 1) b := by
  unfold slice
  rw [List.drop_take, List.drop_drop]
  congr 1

/-- Every group among 1, 2, 3 that took part in the match is a non-empty span inside the subject — what
    CPython's `re` guarantees for `RE_CSS_ESC` / `RE_CSS_STR_ESC`, each of whose groups starts with a backslash. -/
def RealGroups (content : Str) (caps : Caps) : Prop :=
  ∀ k a b, (k = 1 ∨ k = 2 ∨ k = 3) → capSpan caps k = some (a, b) → a < b ∧ b ≤ content.length

/-- **The tie.**  On every match object whose groups are real (non-empty, inside the subject) the closure
    translated from the current source is the hand model's closure `C06.unescRepl` (the text of
    `Parser.cssUnescape`), whatever the content and whichever groups took part. -/
theorem gen_replace_eq (content : Str) (caps : Caps) (h : RealGroups content caps) :
    Gen.PyStrings.replace (groupsOf content caps) = C06.unescRepl content caps := by
  unfold C06.unescRepl
  split
  · rename_i a b h1
    obtain ⟨hab, hb⟩ := h 1 a b (Or.inl rfl) h1
    rw [gen_replace_group1 _ (by rw [groupsOf_some _ _ _ _ _ h1]; exact truthy_slice _ _ _ hab hb),
      groupsOf_some _ _ _ _ _ h1, if_pos hab]
    simp only [text, Option.getD_some, slice_drop_one, intHex]
  · rename_i h1
    have t1 : truthy (groupsOf content caps 1) = false := by rw [groupsOf_none _ _ _ h1]; rfl
    split
    · rename_i a b h2
      obtain ⟨hab, hb⟩ := h 2 a b (Or.inr (Or.inl rfl)) h2
      rw [gen_replace_group2 _ t1 (by rw [groupsOf_some _ _ _ _ _ h2]; exact truthy_slice _ _ _ hab hb),
        groupsOf_some _ _ _ _ _ h2]
      simp only [text, Option.getD_some, slice_drop_one]
    · rename_i h2
      have t2 : truthy (groupsOf content caps 2) = false := by rw [groupsOf_none _ _ _ h2]; rfl
      split
      · rename_i ab h3
        obtain ⟨hab, hb⟩ := h 3 ab.1 ab.2 (Or.inr (Or.inr rfl)) h3
        rw [gen_replace_group3 _ t1 t2 (by rw [groupsOf_some _ _ _ _ _ h3]; exact truthy_slice _ _ _ hab hb)]
      · rename_i h3
        have t3 : truthy (groupsOf content caps 3) = false := by rw [groupsOf_none _ _ _ h3]; rfl
        rw [gen_replace_none _ t1 t2 t3]

/-! ### `css_unescape` with the translated closure -/

/-- `css_unescape(content, string)` as the regex-engine model runs it, but with the replacement function TRANSLATED
    from the source: `RE.sub(replace, content)` where `replace` sees the match object `groupsOf content caps`. -/
def cssUnescapeGen (env : CharEnv) (L : Lexicon) (content : Str) (string : Bool) : Str :=
  subWith env (if string then L.reCssStrEsc else L.reCssEsc)
    (fun caps => Gen.PyStrings.replace (groupsOf content caps)) content

/-- `pattern.sub(f, s)` depends on `f` only through the match objects the engine actually produces on `s`. -/
theorem subWith_go_congr (env : CharEnv) (r : Rx) (f g : Caps → Str) (s : Str)
    (h : ∀ i j caps, i ≤ s.length → matchAt env r s i = some (j, caps) → f caps = g caps) :
    ∀ fuel i, subWith.go env r f s fuel i = subWith.go env r g s fuel i := by
  intro fuel
  induction fuel with
  | zero => intro i; simp [subWith.go]
  | succ n ih =>
    intro i
    unfold subWith.go
    by_cases hi : i > s.length
    · simp [hi]
    · simp only [hi, if_false]
      cases hm : matchAt env r s i with
      | none => simp only [ih]
      | some jc =>
        obtain ⟨j, caps⟩ := jc
        simp only [h i j caps (by omega) hm, ih]

/-- The engine's match objects for an expression all of whose groups consume are real. -/
theorem realGroups_of_matchAt {env : CharEnv} {r : Rx} {content : Str} {i j : Nat} {caps : Caps}
    (hg : CapsReal.groupsConsume r = true) (hi : i ≤ content.length)
    (hm : matchAt env r content i = some (j, caps)) : RealGroups content caps := by
  intro k a b _ hk
  have h1 := CapsReal.matchAt_capSpan_pos hg hm hk
  have h2 := matchAt_le_length hm hi
  omega

/-- For every lexicon whose two escape expressions have only consuming groups, every character environment, every
    content: the parser model's `css_unescape` IS `RE.sub` with the translated closure. -/
theorem cssUnescape_eq_gen (env : CharEnv) (L : Lexicon) (content : Str) (string : Bool)
    (h1 : CapsReal.groupsConsume L.reCssEsc = true) (h2 : CapsReal.groupsConsume L.reCssStrEsc = true) :
    Parser.cssUnescape env L content string = cssUnescapeGen env L content string := by
  rw [C06.cssUnescape_eq]
  unfold cssUnescapeGen subWith
  apply subWith_go_congr
  intro i j caps hi hm
  have hg : CapsReal.groupsConsume (if string then L.reCssStrEsc else L.reCssEsc) = true := by
    cases string <;> simpa
  exact (gen_replace_eq content caps (realGroups_of_matchAt hg hi hm)).symm

/-- Both escape expressions REGENERATED from the source have only consuming groups (each group starts with `\\`). -/
theorem gen_escapes_consume :
    CapsReal.groupsConsume Gen.lexicon.reCssEsc = true ∧ CapsReal.groupsConsume Gen.lexicon.reCssStrEsc = true := by
  decide

/-- **The tie, end to end.**  With the regular expressions regenerated from the source and the replacement function
    translated from the source, `css_unescape` of the parser model — the function every C06 / C07 / C10 theorem about
    unescaping speaks of — is `RE.sub(replace, content)` of exactly those two, for every environment and content. -/
theorem cssUnescape_generated (env : CharEnv) (content : Str) (string : Bool) :
    Parser.cssUnescape env Gen.lexicon content string = cssUnescapeGen env Gen.lexicon content string :=
  cssUnescape_eq_gen env Gen.lexicon content string gen_escapes_consume.1 gen_escapes_consume.2

/-! ### C06 `unescape_total`, about the translated closure -/

/-- Whatever the match object, the translated closure returns characters of one of its groups, or code points in
    `1..0x10FFFF` (U+FFFD included): the `chr(codepoint)` of the source cannot raise. -/
theorem gen_replace_valid (m : Groups) :
    ∀ cp ∈ Gen.PyStrings.replace m, (∃ k t, m k = some t ∧ cp ∈ t) ∨ (0 < cp ∧ cp ≤ 0x10FFFF) := by
  intro cp h
  cases h1 : truthy (m 1) with
  | true =>
    rw [gen_replace_group1 m h1, List.mem_singleton] at h
    subst h; exact Or.inr (C06.clampCp_valid _)
  | false =>
    cases h2 : truthy (m 2) with
    | true =>
      rw [gen_replace_group2 m h1 h2] at h
      cases hm : m 2 with
      | none => rw [hm] at h2; cases h2
      | some t =>
        rw [hm] at h
        exact Or.inl ⟨2, t, hm, List.mem_of_mem_drop h⟩
    | false =>
      cases h3 : truthy (m 3) with
      | true =>
        rw [gen_replace_group3 m h1 h2 h3, List.mem_singleton] at h
        subst h; exact Or.inr (by decide)
      | false => rw [gen_replace_none m h1 h2 h3] at h; cases h

/-- On the engine's match objects: characters of the content, or code points in `1..0x10FFFF`. -/
theorem gen_replace_valid_content (content : Str) (caps : Caps) :
    ∀ cp ∈ Gen.PyStrings.replace (groupsOf content caps), cp ∈ content ∨ (0 < cp ∧ cp ≤ 0x10FFFF) := by
  intro cp h
  rcases gen_replace_valid _ cp h with ⟨k, t, hk, ht⟩ | h
  · left
    unfold groupsOf at hk
    cases hc : capSpan caps k with
    | none => rw [hc] at hk; cases hk
    | some ab =>
      rw [hc] at hk
      simp only [Option.map_some, Option.some.injEq] at hk
      subst hk
      exact C06.mem_slice ht
  · exact Or.inr h

/-- **`unescape_total` for the translated closure**: for ANY regular expressions in the two slots, any environment
    and any content, every code point `RE.sub(replace, content)` returns is a code point of the content or lies in
    `1..0x10FFFF`. -/
theorem unescape_total (env : CharEnv) (L : Lexicon) (content : Str) (string : Bool) :
    ∀ cp ∈ cssUnescapeGen env L content string, cp ∈ content ∨ (0 < cp ∧ cp ≤ 0x10FFFF) :=
  C06.subWith_go_mem env _ _ content _ (gen_replace_valid_content content) (fun _ hx => Or.inl hx) _ _

/-- The repaired site, about the translated closure: a hex escape whose value is 0 or above U+10FFFF yields U+FFFD. -/
theorem gen_replace_group1_FFFD (m : Groups) (h : truthy (m 1) = true)
    (hbad : intHex ((text (m 1)).drop 1) = 0 ∨ intHex ((text (m 1)).drop 1) > 0x10FFFF) :
    Gen.PyStrings.replace m = [0xFFFD] := by
  rw [gen_replace_group1 m h, C06.clampCp_replaces _ hbad]

/-! ### Where the hand model and the translation differ: match objects no `re` match produces

  `C06.unescRepl` tests "group k took part" (`capSpan caps k ≠ none`, and `b > a` for group 1), the Python tests the
  truth value of the group's text.  They differ only on captures with an EMPTY participating group, which
  `realGroups_of_matchAt` excludes for the expressions of the source. -/

-- group 1 took part but is empty, group 3 is `\`: Python falls through to the `elif m.group(3)` branch
example : Gen.PyStrings.replace (groupsOf [92] [(1, 0, 0), (3, 0, 1)]) = [0xFFFD] ∧
    C06.unescRepl [92] [(1, 0, 0), (3, 0, 1)] = [] := by decide

/-! ### Non-vacuity: the translated closure on concrete match objects -/

-- `\41 ` : group 1 = "\41 "  →  "A"
example : Gen.PyStrings.replace (groupsOf [92, 52, 49, 32] [(1, 0, 4)]) = [0x41] := by decide
-- `\0` → U+FFFD,  `\110000` → U+FFFD,  `\10FFFF` → U+10FFFF
example : Gen.PyStrings.replace (groupsOf [92, 48] [(1, 0, 2)]) = [0xFFFD] := by decide
example : Gen.PyStrings.replace (groupsOf [92, 49, 49, 48, 48, 48, 48] [(1, 0, 7)]) = [0xFFFD] := by decide
example : Gen.PyStrings.replace (groupsOf [92, 49, 48, 70, 70, 70, 70] [(1, 0, 7)]) = [0x10FFFF] := by decide
-- `\g` : group 2 → "g";  `\` at the end : group 3 → U+FFFD;  group 4 (escaped newline in a string) → ""
example : Gen.PyStrings.replace (groupsOf [92, 103] [(2, 0, 2)]) = [103] := by decide
example : Gen.PyStrings.replace (groupsOf [92] [(3, 0, 1)]) = [0xFFFD] := by decide
example : Gen.PyStrings.replace (groupsOf [92, 10] [(4, 0, 2)]) = [] := by decide
-- end to end with the regenerated expression and the engine
example : cssUnescapeGen asciiEnv Gen.lexicon [97, 92, 52, 49, 32, 92, 103, 92] false = [97, 0x41, 103, 0xFFFD] := by
  decide +kernel

end C06Gen
end SoupVerif
