/-
  C07, parser level — "the time compile takes on any pattern, valid or not, grows at most
  polynomially with the input length", for the loop around the tokens.

  Object of the theorems: `ParseCost.compileCost env L B pattern custom flags`
  (Spec/ParseCost.lean), the regular-expression work that the run
  `Parser.compile env L B pattern custom flags` of the parser model triggers, and
  `ParseCost.compileSteps`, its number of iterations of the `parse_selectors` loop.  Both are
  read off the twins `selRun` / `loopRun` / `compileRun` of the model's `parseSelectors` /
  `parseLoop` / `compile` (same recursion, same fuel, the custom-selector table threaded the same
  way), whose result component IS the model's result (`twin_*` below, proved for every lexicon,
  environment, fuel and weight).

  What is proved, for ALL patterns, ALL custom maps, ALL flags, ANY table of built-in selectors,
  and any environment whose case folding is Python's on ASCII and the four special code points
  (`pyFoldEnv`, `asciiEnv` instances at the end):

  * `lexicon_in_allRegexes`: every expression the parser can hand to the engine is one of
    `Gen.allRegexes` (kernel evaluation of `Rx.beq` + `beq_sound`), so `C07.tokenize_poly` applies.
  * `compile_steps_le`: iterations ≤ `|pattern| + Σ (|definition| + 1) + 1`.  (A token consumes
    ≥ 1 character, `C06.token_progress`; positions only advance; a definition is parsed at most
    once because its table entry becomes `.compiled`.  This is a bound on the TOTAL number of
    iterations; the fuel argument of C06 bounds the depth of the recursion only.)
  * `compile_cost_poly`:
        `compileCost … ≤ costK · (N + 1)^(workK + 2)`,
    `N = inputSize pattern custom = |pattern| + Σ (|name| + |definition| + 1)`,
    `costK = (3·|css_tokens| + 13)·(workC + 1)`, `workC`, `workK` the constants of `C07.tokenize_poly`.
    The exponent: `workK` for one engine call, `+1` for the calls a `sub` / `search` / `finditer`
    makes over a token's text (one per position), `+1` for the number of loop iterations.

  What the cost counts and what it does not: see the header of Spec/ParseCost.lean (regular-
  expression work only; `Rx.work` is the cost of an exhaustive search).

  Link to the real parser: the driver answers `(19 pattern ((name def) …))` with
  `(compileSteps compileCost)` for `pyFoldEnv`; `tools/parsecost_diff.py` compares `compileSteps`
  with the number of `next(iselector)` calls of `CSSParser.process_selectors()` (9500 random valid
  and invalid patterns with custom maps, cyclic ones included: no difference).
-/
import SoupVerif.Lemmas.ParseCost
import SoupVerif.Properties.C06
import SoupVerif.Properties.C07
set_option autoImplicit false
namespace SoupVerif
namespace C07Parse
open Rx SoupVerif.Parser ParserProgress ParseCost

/-! ## The twins compute the model -/

/-- The result component of the twin of `parseSelectors` is `parseSelectors` (any weight). -/
theorem twin_parseSelectors (w : Weight) (env : CharEnv) (L : Lexicon) (B : Builtins) (pattern : Str)
    (fuel pos idx fl : Nat) (c : Custom) :
    (selRun w env L B pattern fuel pos idx fl c).1 = parseSelectors env L B pattern fuel pos idx fl c :=
  selRun_fst w env L B pattern fuel pos idx fl c

/-- The result component of the twin of `parseLoop` is `parseLoop`. -/
theorem twin_parseLoop (w : Weight) (env : CharEnv) (L : Lexicon) (B : Builtins) (pattern : Str)
    (fuel flags : Nat) (s : LS) :
    (loopRun w env L B pattern fuel flags s).1 = parseLoop env L B pattern fuel flags s :=
  loopRun_fst w env L B pattern fuel flags s

/-- The result component of the twin of `compile` is `compile`: the cost is the cost of THE
    model's run. -/
theorem twin_compile (w : Weight) (env : CharEnv) (L : Lexicon) (B : Builtins) (pattern : Str)
    (custom : List (Str × Str)) (flags : Nat) :
    (compileRun w env L B pattern custom flags).1 = compile env L B pattern custom flags :=
  compileRun_fst w env L B pattern custom flags

/-! ## The generated lexicon -/

/-- Every expression of the generated lexicon occurs (syntactically) in `Gen.allRegexes`. -/
theorem lexicon_beq_allRegexes :
    (lexRegexes Gen.lexicon).all (fun r => Gen.allRegexes.any (fun p => Rx.beq p.2 r)) = true := by
  decide +kernel

/-- Every expression the parser hands to the engine is one of the library's expressions. -/
theorem lexicon_in_allRegexes : ∀ r ∈ lexRegexes Gen.lexicon, ∃ p ∈ Gen.allRegexes, p.2 = r := by
  intro r hr
  have h := List.all_eq_true.mp lexicon_beq_allRegexes r hr
  obtain ⟨p, hp, hb⟩ := List.any_eq_true.mp h
  exact ⟨p, hp, beq_sound _ _ hb⟩

/-- `C07.tokenize_poly` for the lexicon. -/
theorem lexicon_rx_bound {env : CharEnv} (ok : EnvOK foldSpecials env) :
    RxBound env Gen.lexicon C07.workC C07.workK := by
  intro r hr s i
  obtain ⟨p, hp, rfl⟩ := lexicon_in_allRegexes r hr
  exact (C07.tokenize_poly ok p hp s i).1

/-- The same for environments without special code points (`asciiEnv`). -/
theorem lexicon_rx_bound_nosp {env : CharEnv} (ok : EnvOK [] env) :
    RxBound env Gen.lexicon C07.workC C07.workK := by
  intro r hr s i
  obtain ⟨p, hp, rfl⟩ := lexicon_in_allRegexes r hr
  exact (C07.tokenize_poly_nosp ok p hp s i).1

/-- `RE_CSS_ESC` and `RE_CSS_STR_ESC` cannot match the empty string. -/
theorem lexicon_esc_ok : EscOK Gen.lexicon := ⟨by decide +kernel, by decide +kernel⟩

/-! ## Counting -/

/-- **Counting bound.** A whole `compile` executes at most
    `|pattern| + Σ (|definition| + 1) + 1` iterations of the `parse_selectors` loop (calls of
    `next(iselector)`), nested lists and custom-selector definitions included. -/
theorem compile_steps_le (env : CharEnv) (B : Builtins) (pattern : Str) (custom : List (Str × Str))
    (flags : Nat) :
    compileSteps env Gen.lexicon B pattern custom flags ≤ pattern.length + defLen custom + 1 :=
  compileSteps_le env Gen.lexicon B C06.lexicon_ok pattern custom flags

/-- … in particular at most `inputSize + 1`. -/
theorem compile_steps_le_input (env : CharEnv) (B : Builtins) (pattern : Str)
    (custom : List (Str × Str)) (flags : Nat) :
    compileSteps env Gen.lexicon B pattern custom flags ≤ inputSize pattern custom + 1 :=
  Nat.le_trans (compile_steps_le env B pattern custom flags)
    (Nat.succ_le_succ (defLen_le_inputSize pattern custom))

/-! ## The polynomial bound -/

/-- Number of slots of `CSSParser.css_tokens` (`#eval` gives 12). -/
def nTokens : Nat := Gen.lexicon.tokens.length

/-- The constant of the bound, from the generated data: `(3·|css_tokens| + 13)·(workC + 1)`
    (`#eval` gives `49 · 2312 = 113288`).  For evaluation only: the theorems below spell the
    expression out instead of using this name, because relating the two in the kernel (`rfl`,
    `unfold`) makes it evaluate `C07.workC`, which takes more than a minute. -/
def costK : Nat := (3 * nTokens + 13) * (C07.workC + 1)

/-- **C07 for the parser.** The regular-expression work of `compile` on any pattern with any
    custom-selector map is at most `costK · (N + 1)^(workK + 2)`, `N` the total input length,
    `costK = (3·|css_tokens| + 13)·(workC + 1)`. -/
theorem compile_cost_poly {env : CharEnv} (ok : EnvOK foldSpecials env) (B : Builtins) (pattern : Str)
    (custom : List (Str × Str)) (flags : Nat) :
    compileCost env Gen.lexicon B pattern custom flags ≤
      (3 * Gen.lexicon.tokens.length + 13) * (C07.workC + 1) *
        (inputSize pattern custom + 1) ^ (C07.workK + 2) :=
  compileCost_le env Gen.lexicon B C06.lexicon_ok lexicon_esc_ok (lexicon_rx_bound ok) pattern custom flags

/-- The statement of the task: Python's folding, the generated built-ins. -/
theorem compile_cost_poly_py (pattern : Str) (custom : List (Str × Str)) (flags : Nat) :
    compileCost pyFoldEnv Gen.lexicon Gen.builtinsRec pattern custom flags ≤
      (3 * Gen.lexicon.tokens.length + 13) * (C07.workC + 1) *
        (inputSize pattern custom + 1) ^ (C07.workK + 2) :=
  compile_cost_poly C07.pyFoldEnv_ok Gen.builtinsRec pattern custom flags

/-- The same for environments without special code points … -/
theorem compile_cost_poly_nosp {env : CharEnv} (ok : EnvOK [] env) (B : Builtins) (pattern : Str)
    (custom : List (Str × Str)) (flags : Nat) :
    compileCost env Gen.lexicon B pattern custom flags ≤
      (3 * Gen.lexicon.tokens.length + 13) * (C07.workC + 1) *
        (inputSize pattern custom + 1) ^ (C07.workK + 2) :=
  compileCost_le env Gen.lexicon B C06.lexicon_ok lexicon_esc_ok (lexicon_rx_bound_nosp ok) pattern custom flags

/-- … in particular the ASCII environment. -/
theorem compile_cost_poly_ascii (pattern : Str) (custom : List (Str × Str)) (flags : Nat) :
    compileCost asciiEnv Gen.lexicon Gen.builtinsRec pattern custom flags ≤
      (3 * Gen.lexicon.tokens.length + 13) * (C07.workC + 1) *
        (inputSize pattern custom + 1) ^ (C07.workK + 2) :=
  compile_cost_poly_nosp C07.asciiEnv_ok Gen.builtinsRec pattern custom flags

/-- The cost dominates the number of iterations (every iteration weighs ≥ 1), so
    `compile_cost_poly` bounds the loop as well. -/
theorem steps_le_cost (env : CharEnv) (L : Lexicon) (B : Builtins) (pattern : Str)
    (custom : List (Str × Str)) (flags : Nat) :
    compileSteps env L B pattern custom flags ≤ compileCost env L B pattern custom flags :=
  compileSteps_le_cost env L B pattern custom flags

/-! ## Non-vacuity: the cost of concrete patterns (kernel evaluation of the twins)

The step counts below coincide with the number of `next(iselector)` calls of the real parser
(counted by wrapping `CSSParser.selector_iter`). -/

section examples
/-- `div > p.a` -/
def exDiv : Str := [100, 105, 118, 32, 62, 32, 112, 46, 97]
/-- `:is(a, b)` -/
def exIs : Str := [58, 105, 115, 40, 97, 44, 32, 98, 41]
/-- `:--x` -/
def exX : Str := [58, 45, 45, 120]
/-- `a.b` -/
def exAB : Str := [97, 46, 98]
/-- `:--x :--x` -/
def exXX : Str := exX ++ [32] ++ exX
/-- `:--x :--x :--x` -/
def exXXX : Str := exX ++ [32] ++ exX ++ [32] ++ exX

/-- `div`, ` > `, `p`, `.a`, end: 5 iterations. -/
example : compileSteps pyFoldEnv Gen.lexicon Gen.builtinsRec exDiv [] = 5 ∧
    compileCost pyFoldEnv Gen.lexicon Gen.builtinsRec exDiv [] = 495 := by decide +kernel

/-- `:is(`, `a`, `, `, `b`, `)` in the nested list, end: 6 iterations for 9 characters. -/
example : compileSteps pyFoldEnv Gen.lexicon Gen.builtinsRec exIs [] = 6 ∧
    compileCost pyFoldEnv Gen.lexicon Gen.builtinsRec exIs [] = 524 := by decide +kernel

/-- A custom selector used once, twice, three times: the definition (`a`, `.b`, end = 3
    iterations) is charged ONCE; every further reference costs 2 iterations (the combinator and
    the reference), not 2 + 3. -/
example : compileSteps pyFoldEnv Gen.lexicon Gen.builtinsRec exX [(exX, exAB)] = 5 ∧
    compileSteps pyFoldEnv Gen.lexicon Gen.builtinsRec exXX [(exX, exAB)] = 7 ∧
    compileSteps pyFoldEnv Gen.lexicon Gen.builtinsRec exXXX [(exX, exAB)] = 9 := by decide +kernel

example : compileCost pyFoldEnv Gen.lexicon Gen.builtinsRec exX [(exX, exAB)] = 399 ∧
    compileCost pyFoldEnv Gen.lexicon Gen.builtinsRec exXX [(exX, exAB)] = 681 ∧
    compileCost pyFoldEnv Gen.lexicon Gen.builtinsRec exXXX [(exX, exAB)] = 963 := by decide +kernel

/-- The counting bound on these: `|pattern| + Σ(|definition| + 1) + 1`. -/
example : exXXX.length + defLen [(exX, exAB)] + 1 = 19 := by decide

/-- Invalid patterns are covered: `:is(a` (unclosed) stops after 3 iterations, the empty pattern
    after 1. -/
example : compileSteps pyFoldEnv Gen.lexicon Gen.builtinsRec [58, 105, 115, 40, 97] [] = 3 ∧
    compileSteps pyFoldEnv Gen.lexicon Gen.builtinsRec [] [] = 1 := by decide +kernel
end examples

/-! ## The table threading matters

A variant of the twin that does NOT store the compiled definition back (after a reference the
table is what it was before it) parses a definition at every reference.  On the doubling chain
`:--a ↦ ":--b :--b"`, `:--b ↦ ":--c :--c"`, `:--c ↦ ":--d :--d"`, `:--d ↦ "p"` the model needs 16
iterations (each definition once; the real parser too), the variant 46 — more than the counting
bound `37`, and doubling with every further level. -/

namespace NoStore

mutual
/-- `selRun unitWeight`, except that … -/
def selSteps (env : CharEnv) (L : Lexicon) (B : Builtins) (pattern : Str) :
    Nat → Nat → Nat → Nat → Custom → M SelRes × Nat
  | 0, _, _, _, _ => (.error { kind := .pyBug "RecursionError", pattern := pattern, offset := 0 }, 0)
  | fuel + 1, pos, index, flags, custom =>
    let r := loopSteps env L B pattern fuel flags (initLS pos index flags custom)
    match r.1 with
    | .error e => (.error e, r.2)
    | .ok s => (finishSel env L B pattern flags s, r.2)
/-- … after the definition of a custom selector has been parsed (`idx = 0`: the nested call is on
    another pattern) the loop continues with the table it had BEFORE the reference. -/
def loopSteps (env : CharEnv) (L : Lexicon) (B : Builtins) (pattern : Str) :
    Nat → Nat → LS → M LS × Nat
  | 0, _, s => (.ok s, 0)
  | fuel + 1, flags, s =>
    match stepOf env L B pattern flags s with
    | .done r => (r, 1)
    | .cont s' =>
      let r := loopSteps env L B pattern fuel flags s'
      (r.1, 1 + r.2)
    | .nest pat pos idx fl c k =>
      let r1 := selSteps env L B pat fuel pos idx fl (if idx == 0 then s.custom else c)
      match r1.1 with
      | .error e => (.error e, 1 + r1.2)
      | .ok x =>
        let s' := if idx == 0 then { k x with custom := s.custom } else k x
        let r2 := loopSteps env L B pattern fuel flags s'
        (r2.1, 1 + r1.2 + r2.2)
end

def compileSteps (env : CharEnv) (L : Lexicon) (B : Builtins) (pattern : Str) (custom : List (Str × Str)) : Nat :=
  match processCustom env L custom with
  | .error _ => 0
  | .ok c => (selSteps env L B pattern 200 (startIndex ⟨env, L, B, pattern⟩) 0 0 c).2

/-- `:--a` … `:--d` -/
def nm (c : Nat) : Str := [58, 45, 45, c]
/-- `:--y :--y` -/
def twice (c : Nat) : Str := nm c ++ [32] ++ nm c
def chain : List (Str × Str) := [(nm 97, twice 98), (nm 98, twice 99), (nm 99, twice 100), (nm 100, [112])]

/-- The model: 16 iterations, within the bound 37. -/
example : ParseCost.compileSteps pyFoldEnv Gen.lexicon Gen.builtinsRec (nm 97) chain = 16 ∧
    (nm 97).length + defLen chain + 1 = 37 := by decide +kernel

/-- Recompiling at every reference: 46 iterations. -/
example : compileSteps pyFoldEnv Gen.lexicon Gen.builtinsRec (nm 97) chain = 46 := by decide +kernel

/-- One level less: 22 (the variant doubles per level, the model adds 4: 12). -/
example : compileSteps pyFoldEnv Gen.lexicon Gen.builtinsRec (nm 98) chain.tail = 22 ∧
    ParseCost.compileSteps pyFoldEnv Gen.lexicon Gen.builtinsRec (nm 98) chain.tail = 12 := by
  decide +kernel

end NoStore

end C07Parse
end SoupVerif
