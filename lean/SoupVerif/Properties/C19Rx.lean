/-
  C19 / C01 at the level of the regular expressions of the SOURCE (document-side regexes).

  `match_empty` tests text children with `RE_NOT_EMPTY.search(child)`, `get_classes` splits a string-valued
  `class` attribute with `RE_NOT_WS.findall(classes)`.  The matcher model writes these as
  `strVal.any (fun x => !isCssWs x)` and `splitWs`.  `Refine/Misc.lean` proves, for ALL strings, that the
  regex-engine model on the expressions REGENERATED from `css_match.py` computes exactly that.
-/
import SoupVerif.Properties.C19
import SoupVerif.Refine.Misc
namespace SoupVerif
namespace C19Rx

/-- `:empty` as the model computes it, with the text test done by `RE_NOT_EMPTY.search` in the engine. -/
def matchEmptyRx (env : CharEnv) (l : Loc) : Bool :=
  !(l.children.any fun ch => ch.isTag ||
      (ch.focus.isContentString && (Rx.search env Gen.cm_RE_NOT_EMPTY ch.focus.strVal).isSome))

theorem matchEmptyRx_eq (env : CharEnv) (l : Loc) : matchEmptyRx env l = matchEmpty l := by
  unfold matchEmptyRx matchEmpty
  simp only [Refine.Misc.not_empty_search]

/-- The whitespace notion of `:empty` and of class splitting is the one class `[^ \t\r\n\f]` of the source. -/
theorem text_test_rx (env : CharEnv) (s : Str) :
    (Rx.search env Gen.cm_RE_NOT_EMPTY s).isSome = s.any (fun x => !isCssWs x) :=
  Refine.Misc.not_empty_search env s

theorem class_split_rx (env : CharEnv) (s : Str) :
    Refine.Misc.findall env Gen.cm_RE_NOT_WS s = splitWs s :=
  Refine.Misc.not_ws_findall env s

end C19Rx
end SoupVerif
