/-
  C18 — `:in-range` / `:out-of-range`: a min, max or value string counts as valid exactly when
  it is a valid HTML date, month, week, time, local date-time or number string
  (proleptic-Gregorian days per month including leap years, ISO-8601 week counts (52 or 53) for
  every year of four or more digits, hours 0-23, minutes 0-59); valid values are compared in
  calendar/numeric order.

  Model: `SoupVerif.Model.Inputs` (transcription of `css_match.Inputs`).
  Spec : `SoupVerif.Spec.Calendar` (first-principles calendar; no formula shared with the model).

  All statements quantify over unbounded `Nat` years (below 1000 and above 9999 included).

  KNOWN FINDING (pinned by the repository's own tests): `Inputs.maxWeek y` is 53 also when
  31 December of `y` is a Monday, Tuesday or Wednesday, i.e. lies in ISO week 1 of `y+1`
  (e.g. 2019).  The full-strength week statement is therefore FALSE on this tree; see
  `week_valid` (comment), `week_valid_false`, `maxWeek_char`, `week_valid_partial`.
-/
import SoupVerif.Lemmas.Calendar
import SoupVerif.Lemmas.C18Inputs
import SoupVerif.Lemmas.C18Num

namespace SoupVerif
namespace C18
open Inputs

/-! ## Days of the month -/

/-- Days: for a real month, a day number is accepted exactly when it exists in that month of
    that year (proleptic Gregorian, leap years included). -/
theorem day_valid (y m d : Nat) (h1 : 1 ≤ m) (h12 : m ≤ 12) :
    Inputs.validateDay y m d = true ↔ 1 ≤ d ∧ d ≤ Spec.daysInMonth y m := by
  have hl := Inputs.isLeap_eq y
  have hm : m = 1 ∨ m = 2 ∨ m = 3 ∨ m = 4 ∨ m = 5 ∨ m = 6 ∨ m = 7 ∨ m = 8 ∨ m = 9 ∨ m = 10 ∨
      m = 11 ∨ m = 12 := by omega
  rcases hm with rfl | rfl | rfl | rfl | rfl | rfl | rfl | rfl | rfl | rfl | rfl | rfl
  case inr.inl =>
    have : Inputs.validateDay y 2 d = (decide (1 ≤ d) && decide (d ≤ if Inputs.isLeap y then 29 else 28)) := rfl
    rw [this, hl]
    cases hl' : Spec.leap y <;> simp [Spec.daysInMonth, hl']
  all_goals simp [Inputs.validateDay, Spec.daysInMonth]

/-- Outside `1..12` the code treats the month as a 31-day month (never reached by `parseValue`,
    which checks `validateMonth` first). -/
theorem day_valid_bad_month (y m d : Nat) (h : m = 0 ∨ 13 ≤ m) :
    Inputs.validateDay y m d = true ↔ 1 ≤ d ∧ d ≤ 31 := by
  have h2 : (m == 2) = false := by simp; omega
  have h4 : (m == 4) = false := by simp; omega
  have h6 : (m == 6) = false := by simp; omega
  have h9 : (m == 9) = false := by simp; omega
  have h11 : (m == 11) = false := by simp; omega
  simp [Inputs.validateDay, h2, h4, h6, h9, h11]

theorem month_valid (m : Nat) : Inputs.validateMonth m = true ↔ 1 ≤ m ∧ m ≤ 12 := by
  simp [Inputs.validateMonth]

theorem year_valid (y : Nat) : Inputs.validateYear y = true ↔ 1 ≤ y := by
  simp [Inputs.validateYear]

theorem hour_valid (h : Nat) : Inputs.validateHour h = true ↔ h ≤ 23 := by
  simp [Inputs.validateHour]

theorem minutes_valid (m : Nat) : Inputs.validateMinutes m = true ↔ m ≤ 59 := by
  simp [Inputs.validateMinutes]

/-! ## ISO weeks -/

/-- Every year ≥ 1 has 52 or 53 ISO weeks. -/
theorem isoWeeks_52_or_53 (y : Nat) (h : 1 ≤ y) :
    Spec.isoWeeksInYear y = 52 ∨ Spec.isoWeeksInYear y = 53 :=
  Spec.isoWeeksInYear_52_or_53 y h

/-- The ISO week count is 400-year periodic, so "every year of four or more digits" reduces
    to one Gregorian cycle. -/
theorem isoWeeks_period (y : Nat) (h : 1 ≤ y) :
    Spec.isoWeeksInYear (y + 400) = Spec.isoWeeksInYear y := Spec.isoWeeksInYear_period y h

/-- Long years: 1 January is a Thursday, or a leap year starting on a Wednesday. -/
theorem isoWeeks_53_iff (y : Nat) (h : 1 ≤ y) :
    Spec.isoWeeksInYear y = 53 ↔
      Spec.weekday (Spec.dayNumber y 1 1) = 4 ∨
        (Spec.leap y = true ∧ Spec.weekday (Spec.dayNumber y 1 1) = 3) :=
  Spec.isoWeeksInYear_53_iff_jan1 y h

/-- The model's `dec31` really is the weekday of 31 December. -/
theorem dec31_is_weekday (y : Nat) (h : 1 ≤ y) :
    Inputs.dec31 y = Spec.weekday (Spec.dayNumber y 12 31) := Inputs.dec31_eq y h

/-- "31 December lies in ISO week 1 of the next year" is "31 December is Mon, Tue or Wed". -/
theorem dec31InNextWeek1_iff (y : Nat) (h : 1 ≤ y) :
    Spec.dec31InNextWeek1 y ↔ Spec.weekday (Spec.dayNumber y 12 31) ≤ 3 :=
  Spec.dec31InNextWeek1_iff y h

/-- Exact behaviour of the code: the maximum accepted week is the true ISO week count, except
    that 53 is also accepted when 31 December lies in ISO week 1 of the following year. -/
theorem maxWeek_char (y : Nat) (h : 1 ≤ y) :
    Inputs.maxWeek y = if Spec.dec31InNextWeek1 y then 53 else Spec.isoWeeksInYear y := by
  have h53 := Spec.isoWeeksInYear_53_iff_dec31 y h
  have h52 := Spec.isoWeeksInYear_52_or_53 y h
  have hn := Spec.dec31InNextWeek1_iff y h
  have hw : 1 ≤ Spec.weekday (Spec.dayNumber y 12 31) ∧ Spec.weekday (Spec.dayNumber y 12 31) ≤ 7 := by
    simp only [Spec.weekday]; omega
  unfold Inputs.maxWeek
  rw [Inputs.dec31_eq y h, Inputs.isLeap_eq]
  generalize Spec.weekday (Spec.dayNumber y 12 31) = w at *
  by_cases hx : Spec.dec31InNextWeek1 y
  · have : w ≤ 3 := hn.1 hx
    have h4 : w ≤ 4 := by omega
    simp [hx, h4]
  · have h3 : ¬ w ≤ 3 := fun h' => hx (hn.2 h')
    simp only [hx, if_false]
    cases hl : Spec.leap y
    · simp only [hl, Bool.false_eq_true, false_and, or_false] at h53
      simp only [Bool.and_false, Bool.or_false, decide_eq_true_eq]
      split <;> omega
    · simp only [hl, true_and] at h53
      simp only [Bool.and_true, Bool.or_eq_true, decide_eq_true_eq, beq_iff_eq]
      split <;> omega

/-- The same, phrased with the weekday of 31 December. -/
theorem maxWeek_char_weekday (y : Nat) (h : 1 ≤ y) :
    Inputs.maxWeek y =
      if Spec.weekday (Spec.dayNumber y 12 31) ≤ 3 then 53 else Spec.isoWeeksInYear y := by
  rw [maxWeek_char y h]
  have hn := Spec.dec31InNextWeek1_iff y h
  by_cases hx : Spec.dec31InNextWeek1 y
  · simp [hx, hn.1 hx]
  · have : ¬ Spec.weekday (Spec.dayNumber y 12 31) ≤ 3 := fun h' => hx (hn.2 h')
    simp [hx, this]

/-
  FULL-STRENGTH STATEMENT — FALSE ON THIS TREE (known finding, pinned by the repository's tests):

  theorem week_valid (y w : Nat) (h : 1 ≤ y) :
      Inputs.validateWeek y w = true ↔ 1 ≤ w ∧ w ≤ Spec.isoWeeksInYear y

  Witness: year 2019 has 52 ISO weeks (31 December 2019 is a Tuesday, in week 1 of 2020) but the
  code accepts week 53.
-/
example : Inputs.validateWeek 2019 53 = true ∧ Spec.isoWeeksInYear 2019 = 52 :=
  ⟨by decide, Spec.isoWeeksInYear_of_fast (by decide) (by decide)⟩
-- (the same by brute evaluation of the recursive specification, year by year from year 1)
example : Inputs.validateWeek 2019 53 = true ∧ Spec.isoWeeksInYear 2019 = 52 := by
  decide +kernel

/-- The negation of the full-strength statement, from the witness (2019, 53). -/
theorem week_valid_false :
    ¬ ∀ y w : Nat, 1 ≤ y →
      (Inputs.validateWeek y w = true ↔ 1 ≤ w ∧ w ≤ Spec.isoWeeksInYear y) := by
  intro h
  have h1 : Inputs.validateWeek 2019 53 = true := by decide
  have h2 : Spec.isoWeeksInYear 2019 = 52 := Spec.isoWeeksInYear_of_fast (by decide) (by decide)
  have := (h 2019 53 (by omega)).1 h1
  omega

/-- Weeks, outside the known finding: whenever it is not the case that 31 December lies in
    week 1 of the next year *and* the week asked about is 53, the code accepts exactly the ISO
    weeks of the year. -/
theorem week_valid_partial (y w : Nat) (h : 1 ≤ y)
    (hg : ¬ (Spec.dec31InNextWeek1 y ∧ w = 53)) :
    Inputs.validateWeek y w = true ↔ 1 ≤ w ∧ w ≤ Spec.isoWeeksInYear y := by
  have h52 := Spec.isoWeeksInYear_52_or_53 y h
  unfold Inputs.validateWeek
  rw [maxWeek_char y h]
  by_cases hx : Spec.dec31InNextWeek1 y
  · simp only [hx, if_true, Bool.and_eq_true, decide_eq_true_eq]
    have : w ≠ 53 := fun hw => hg ⟨hx, hw⟩
    have h31 := (Spec.dec31InNextWeek1_iff y h).1 hx
    have h53 := Spec.isoWeeksInYear_53_iff_dec31 y h
    omega
  · simp only [hx, if_false, Bool.and_eq_true, decide_eq_true_eq]

/-- The guard of `week_valid_partial` is exact: the code agrees with ISO 8601 on *all* weeks of
    year `y` iff 31 December of `y` does not lie in week 1 of the next year. -/
theorem week_finding_exact (y : Nat) (h : 1 ≤ y) :
    (∀ w, Inputs.validateWeek y w = true ↔ 1 ≤ w ∧ w ≤ Spec.isoWeeksInYear y) ↔
      ¬ Spec.dec31InNextWeek1 y := by
  constructor
  · intro hall hx
    have h31 := (Spec.dec31InNextWeek1_iff y h).1 hx
    have h53 := Spec.isoWeeksInYear_53_iff_dec31 y h
    have h52 := Spec.isoWeeksInYear_52_or_53 y h
    have hv : Inputs.validateWeek y 53 = true := by
      unfold Inputs.validateWeek; rw [maxWeek_char y h]; simp [hx]
    have := (hall 53).1 hv
    omega
  · intro hx w
    exact week_valid_partial y w h (fun hh => hx hh.1)

/-- The code never rejects a genuine ISO week. -/
theorem week_valid_never_rejects_valid (y w : Nat) (h : 1 ≤ y) (h1 : 1 ≤ w)
    (h2 : w ≤ Spec.isoWeeksInYear y) : Inputs.validateWeek y w = true := by
  have h52 := Spec.isoWeeksInYear_52_or_53 y h
  unfold Inputs.validateWeek
  rw [maxWeek_char y h]
  by_cases hx : Spec.dec31InNextWeek1 y
  · simp only [hx, if_true, Bool.and_eq_true, decide_eq_true_eq]; omega
  · simp only [hx, if_false, Bool.and_eq_true, decide_eq_true_eq]; omega

/-- The code never accepts a week number above 53 (nor 0), for any year whatsoever. -/
theorem week_valid_max53 (y w : Nat) (h : Inputs.validateWeek y w = true) : 1 ≤ w ∧ w ≤ 53 := by
  unfold Inputs.validateWeek Inputs.maxWeek at h
  simp only [Bool.and_eq_true, decide_eq_true_eq] at h
  split at h <;> omega

/-- The only week the code can wrongly accept is 53, and only in a 52-week year. -/
theorem week_valid_overaccepts_only_53 (y w : Nat) (h : 1 ≤ y)
    (hv : Inputs.validateWeek y w = true) (hw : ¬ (1 ≤ w ∧ w ≤ Spec.isoWeeksInYear y)) :
    w = 53 ∧ Spec.isoWeeksInYear y = 52 ∧ Spec.dec31InNextWeek1 y := by
  have h52 := Spec.isoWeeksInYear_52_or_53 y h
  have hm := week_valid_max53 y w hv
  by_cases hx : Spec.dec31InNextWeek1 y ∧ w = 53
  · exact ⟨hx.2, by omega, hx.1⟩
  · exact absurd ((week_valid_partial y w h hx).1 hv) hw

/-! ## `parseValue`: which strings are valid -/

/-- `type=date`: accepted exactly for `YYYY…-MM-DD` shapes denoting a real calendar day. -/
theorem parse_date_valid (s : Str) (v : PVal) :
    Inputs.parseValue "date".toStr s = some v ↔
      ∃ y m d, Inputs.shapeDate s = some (y, m, d) ∧ 1 ≤ y ∧ 1 ≤ m ∧ m ≤ 12 ∧
        1 ≤ d ∧ d ≤ Spec.daysInMonth y m ∧ v = .ints [y, m, d] := by
  unfold Inputs.parseValue
  simp only [beq_self_eq_true, if_true]
  cases hs : Inputs.shapeDate s with
  | none => simp
  | some p =>
    obtain ⟨y, m, d⟩ := p
    simp only [Option.some.injEq, Prod.mk.injEq]
    constructor
    · intro h
      split at h
      · rename_i hv
        simp only [Bool.and_eq_true, year_valid, month_valid] at hv
        obtain ⟨⟨hy, hm⟩, hd⟩ := hv
        rw [day_valid y m d hm.1 hm.2] at hd
        exact ⟨y, m, d, ⟨rfl, rfl, rfl⟩, hy, hm.1, hm.2, hd.1, hd.2, ((some_ints_eq _ _).1 (by rw [h]))⟩
      · cases h
    · rintro ⟨y', m', d', ⟨rfl, rfl, rfl⟩, hy, hm1, hm2, hd1, hd2, rfl⟩
      have hd := (day_valid y m d hm1 hm2).2 ⟨hd1, hd2⟩
      have hy' := (year_valid y).2 hy
      have hm' := (month_valid m).2 ⟨hm1, hm2⟩
      simp [hd, hy', hm']

/-- `type=date` against the declarative grammar: valid HTML date strings, and only those. -/
theorem parse_date_spec (s : Str) (v : PVal) :
    Inputs.parseValue "date".toStr s = some v ↔
      ∃ y m d, Spec.validDateStr s y m d ∧ v = .ints [y, m, d] := by
  rw [parse_date_valid]
  simp only [Inputs.shapeDate_iff, Spec.validDateStr, Spec.validDate]
  constructor
  · rintro ⟨y, m, d, h, a, b, c, e, f, g⟩; exact ⟨y, m, d, ⟨h, a, b, c, e, f⟩, g⟩
  · rintro ⟨y, m, d, ⟨h, a, b, c, e, f⟩, g⟩; exact ⟨y, m, d, h, a, b, c, e, f, g⟩

/-- `type=month`. -/
theorem parse_month_valid (s : Str) (v : PVal) :
    Inputs.parseValue "month".toStr s = some v ↔
      ∃ y m, Inputs.shapeMonth s = some (y, m) ∧ 1 ≤ y ∧ 1 ≤ m ∧ m ≤ 12 ∧ v = .ints [y, m] := by
  unfold Inputs.parseValue
  simp only [ne_month_date, beq_self_eq_true, if_true, Bool.false_eq_true, if_false]
  cases hs : Inputs.shapeMonth s with
  | none => simp
  | some p =>
    obtain ⟨y, m⟩ := p
    simp only [Option.some.injEq, Prod.mk.injEq]
    constructor
    · intro h
      split at h
      · rename_i hv
        simp only [Bool.and_eq_true, year_valid, month_valid] at hv
        exact ⟨y, m, ⟨rfl, rfl⟩, hv.1, hv.2.1, hv.2.2, ((some_ints_eq _ _).1 (by rw [h]))⟩
      · cases h
    · rintro ⟨y', m', ⟨rfl, rfl⟩, hy, hm1, hm2, rfl⟩
      have hy' := (year_valid y).2 hy
      have hm' := (month_valid m).2 ⟨hm1, hm2⟩
      simp [hy', hm']

theorem parse_month_spec (s : Str) (v : PVal) :
    Inputs.parseValue "month".toStr s = some v ↔
      ∃ y m, Spec.validMonthStr s y m ∧ v = .ints [y, m] := by
  rw [parse_month_valid]
  simp only [Inputs.shapeMonth_iff, Spec.validMonthStr]
  constructor
  · rintro ⟨y, m, h, a, b, c, g⟩; exact ⟨y, m, ⟨h, a, b, c⟩, g⟩
  · rintro ⟨y, m, ⟨h, a, b, c⟩, g⟩; exact ⟨y, m, h, a, b, c, g⟩

/-- `type=week`: exact behaviour of the code, in terms of `maxWeek` (see `maxWeek_char`). -/
theorem parse_week_char (s : Str) (v : PVal) :
    Inputs.parseValue "week".toStr s = some v ↔
      ∃ y w, Inputs.shapeWeek s = some (y, w) ∧ 1 ≤ y ∧ 1 ≤ w ∧ w ≤ Inputs.maxWeek y ∧
        v = .ints [y, w] := by
  unfold Inputs.parseValue
  simp only [ne_week_date, ne_week_month, beq_self_eq_true, if_true, Bool.false_eq_true, if_false]
  cases hs : Inputs.shapeWeek s with
  | none => simp
  | some p =>
    obtain ⟨y, w⟩ := p
    simp only [Option.some.injEq, Prod.mk.injEq]
    constructor
    · intro h
      split at h
      · rename_i hv
        simp only [Bool.and_eq_true, year_valid, Inputs.validateWeek, decide_eq_true_eq] at hv
        exact ⟨y, w, ⟨rfl, rfl⟩, hv.1, hv.2.1, hv.2.2, ((some_ints_eq _ _).1 (by rw [h]))⟩
      · cases h
    · rintro ⟨y', w', ⟨rfl, rfl⟩, hy, hw1, hw2, rfl⟩
      have hy' := (year_valid y).2 hy
      have hw' : Inputs.validateWeek y w = true := by simp [Inputs.validateWeek, hw1, hw2]
      simp [hy', hw']

/-
  FULL-STRENGTH STATEMENT — FALSE ON THIS TREE (same known finding as `week_valid`):

  theorem parse_week_spec (s : Str) (v : PVal) :
      Inputs.parseValue "week".toStr s = some v ↔ ∃ y w, Spec.validWeekStr s y w ∧ v = .ints [y, w]

  Witness below: "2019-W53" is accepted although 2019 has 52 ISO weeks.
-/
example : Inputs.parseValue "week".toStr "2019-W53".toStr = some (.ints [2019, 53]) ∧
    Spec.isoWeeksInYear 2019 = 52 :=
  ⟨by decide, Spec.isoWeeksInYear_of_fast (by decide) (by decide)⟩

/-- `type=week`, outside the known finding: if the string does not ask for week 53 of a year
    whose 31 December lies in week 1 of the next year, it is accepted exactly when it is a valid
    HTML week string (ISO 8601 week count of that year). -/
theorem parse_week_valid_partial (s : Str) (v : PVal)
    (hg : ∀ y, Inputs.shapeWeek s = some (y, 53) → ¬ Spec.dec31InNextWeek1 y) :
    Inputs.parseValue "week".toStr s = some v ↔
      ∃ y w, Spec.validWeekStr s y w ∧ v = .ints [y, w] := by
  rw [parse_week_char]
  simp only [Spec.validWeekStr, ← Inputs.shapeWeek_iff]
  constructor
  · rintro ⟨y, w, hs, hy, hw1, hw2, rfl⟩
    have hv : Inputs.validateWeek y w = true := by simp [Inputs.validateWeek, hw1, hw2]
    have hgd : ¬ (Spec.dec31InNextWeek1 y ∧ w = 53) := by
      rintro ⟨hx, rfl⟩; exact hg y hs hx
    have := (week_valid_partial y w hy hgd).1 hv
    exact ⟨y, w, ⟨hs, hy, this.1, this.2⟩, rfl⟩
  · rintro ⟨y, w, ⟨hs, hy, hw1, hw2⟩, rfl⟩
    have hv := week_valid_never_rejects_valid y w hy hw1 hw2
    simp only [Inputs.validateWeek, Bool.and_eq_true, decide_eq_true_eq] at hv
    exact ⟨y, w, hs, hy, hv.1, hv.2, rfl⟩

/-- Valid HTML week strings are never rejected (no guard needed). -/
theorem parse_week_never_rejects_valid (s : Str) (y w : Nat) (h : Spec.validWeekStr s y w) :
    Inputs.parseValue "week".toStr s = some (.ints [y, w]) := by
  rw [parse_week_char]
  obtain ⟨hs, hy, hw1, hw2⟩ := h
  have hv := week_valid_never_rejects_valid y w hy hw1 hw2
  simp only [Inputs.validateWeek, Bool.and_eq_true, decide_eq_true_eq] at hv
  exact ⟨y, w, (Inputs.shapeWeek_iff _ _ _).2 hs, hy, hv.1, hv.2, rfl⟩

/-- `type=time`: hours 0-23, minutes 0-59. -/
theorem parse_time_valid (s : Str) (v : PVal) :
    Inputs.parseValue "time".toStr s = some v ↔
      ∃ h mi, Inputs.shapeTime s = some (h, mi) ∧ h ≤ 23 ∧ mi ≤ 59 ∧ v = .ints [h, mi] := by
  unfold Inputs.parseValue
  simp only [ne_time_date, ne_time_month, ne_time_week, beq_self_eq_true, if_true,
    Bool.false_eq_true, if_false]
  cases hs : Inputs.shapeTime s with
  | none => simp
  | some p =>
    obtain ⟨h, mi⟩ := p
    simp only [Option.some.injEq, Prod.mk.injEq]
    constructor
    · intro hh
      split at hh
      · rename_i hv
        simp only [Bool.and_eq_true, hour_valid, minutes_valid] at hv
        exact ⟨h, mi, ⟨rfl, rfl⟩, hv.1, hv.2, ((some_ints_eq _ _).1 (by rw [hh]))⟩
      · cases hh
    · rintro ⟨h', mi', ⟨rfl, rfl⟩, hh, hm, rfl⟩
      have hh' := (hour_valid h).2 hh
      have hm' := (minutes_valid mi).2 hm
      simp [hh', hm']

theorem parse_time_spec (s : Str) (v : PVal) :
    Inputs.parseValue "time".toStr s = some v ↔
      ∃ h mi, Spec.validTimeStr s h mi ∧ v = .ints [h, mi] := by
  rw [parse_time_valid]
  simp only [Inputs.shapeTime_iff, Spec.validTimeStr]
  constructor
  · rintro ⟨h, m, hs, a, b, g⟩; exact ⟨h, m, ⟨hs, a, b⟩, g⟩
  · rintro ⟨h, m, ⟨hs, a, b⟩, g⟩; exact ⟨h, m, hs, a, b, g⟩

/-- `type=datetime-local`. -/
theorem parse_datetime_valid (s : Str) (v : PVal) :
    Inputs.parseValue "datetime-local".toStr s = some v ↔
      ∃ y m d h mi, Inputs.shapeDateTime s = some (y, m, d, h, mi) ∧ 1 ≤ y ∧ 1 ≤ m ∧ m ≤ 12 ∧
        1 ≤ d ∧ d ≤ Spec.daysInMonth y m ∧ h ≤ 23 ∧ mi ≤ 59 ∧ v = .ints [y, m, d, h, mi] := by
  unfold Inputs.parseValue
  simp only [ne_dt_date, ne_dt_month, ne_dt_week, ne_dt_time, beq_self_eq_true, if_true,
    Bool.false_eq_true, if_false]
  cases hs : Inputs.shapeDateTime s with
  | none => simp
  | some p =>
    obtain ⟨y, m, d, h, mi⟩ := p
    simp only [Option.some.injEq, Prod.mk.injEq]
    constructor
    · intro hh
      split at hh
      · rename_i hv
        simp only [Bool.and_eq_true, year_valid, month_valid, hour_valid, minutes_valid] at hv
        obtain ⟨⟨⟨⟨hy, hm⟩, hd⟩, hh'⟩, hmi⟩ := hv
        rw [day_valid y m d hm.1 hm.2] at hd
        exact ⟨y, m, d, h, mi, ⟨rfl, rfl, rfl, rfl, rfl⟩, hy, hm.1, hm.2, hd.1, hd.2, hh', hmi,
          ((some_ints_eq _ _).1 (by rw [hh]))⟩
      · cases hh
    · rintro ⟨y', m', d', h', mi', ⟨rfl, rfl, rfl, rfl, rfl⟩, hy, hm1, hm2, hd1, hd2, hh, hmi, rfl⟩
      have hd := (day_valid y m d hm1 hm2).2 ⟨hd1, hd2⟩
      have hy' := (year_valid y).2 hy
      have hm' := (month_valid m).2 ⟨hm1, hm2⟩
      have hh' := (hour_valid h).2 hh
      have hmi' := (minutes_valid mi).2 hmi
      simp [hd, hy', hm', hh', hmi']

theorem parse_datetime_spec (s : Str) (v : PVal) :
    Inputs.parseValue "datetime-local".toStr s = some v ↔
      ∃ y m d h mi, Spec.validDateTimeStr s y m d h mi ∧ v = .ints [y, m, d, h, mi] := by
  rw [parse_datetime_valid]
  simp only [Inputs.shapeDateTime_iff, Spec.validDateTimeStr, Spec.validDate]
  constructor
  · rintro ⟨y, m, d, h, mi, hs, a, b, c, e, f, g, i, j⟩
    exact ⟨y, m, d, h, mi, ⟨hs, ⟨a, b, c, e, f⟩, g, i⟩, j⟩
  · rintro ⟨y, m, d, h, mi, ⟨hs, ⟨a, b, c, e, f⟩, g, i⟩, j⟩
    exact ⟨y, m, d, h, mi, hs, a, b, c, e, f, g, i, j⟩

/-- `type=number` and `type=range` are exactly the `RE_NUM` scanner. -/
theorem parse_number (s : Str) :
    Inputs.parseValue "number".toStr s = Inputs.shapeNum s ∧
    Inputs.parseValue "range".toStr s = Inputs.shapeNum s := by
  unfold Inputs.parseValue
  simp only [ne_num_date, ne_num_month, ne_num_week, ne_num_time, ne_num_dt,
    ne_rng_date, ne_rng_month, ne_rng_week, ne_rng_time, ne_rng_dt,
    beq_self_eq_true, if_true, Bool.false_eq_true, if_false, Bool.or_true, Bool.true_or,
    and_self]

/-- `type=number` / `type=range` against the declarative grammar: accepted exactly for valid
    HTML floating-point number strings (`-?(digits(.digits)?|.digits)([eE][-+]?digits)?`), and
    the value is the exact decimal `(-1)^neg · mant · 10^exp` the string denotes. -/
theorem parse_number_spec (s : Str) (v : PVal) :
    (Inputs.parseValue "number".toStr s = some v ↔
      ∃ neg mant exp, Spec.numShape s neg mant exp ∧ v = .num neg mant exp) ∧
    (Inputs.parseValue "range".toStr s = some v ↔
      ∃ neg mant exp, Spec.numShape s neg mant exp ∧ v = .num neg mant exp) := by
  have key : Inputs.shapeNum s = some v ↔
      ∃ neg mant exp, Spec.numShape s neg mant exp ∧ v = .num neg mant exp := by
    constructor
    · intro h
      obtain ⟨neg, mant, exp, rfl⟩ := Inputs.shapeNum_some_num s v h
      exact ⟨neg, mant, exp, (Inputs.shapeNum_iff _ _ _ _).1 h, rfl⟩
    · rintro ⟨neg, mant, exp, h, rfl⟩
      exact (Inputs.shapeNum_iff _ _ _ _).2 h
  rw [(parse_number s).1, (parse_number s).2]
  exact ⟨key, key⟩

/-- Any other `type` never yields a value (so such inputs are never in or out of range). -/
theorem parse_other_type (t s : Str)
    (h : ∀ k ∈ ["date", "month", "week", "time", "datetime-local", "number", "range"],
      t ≠ k.toStr) :
    Inputs.parseValue t s = none := by
  have h1 : (t == "date".toStr) = false := by simpa using h "date" (by simp)
  have h2 : (t == "month".toStr) = false := by simpa using h "month" (by simp)
  have h3 : (t == "week".toStr) = false := by simpa using h "week" (by simp)
  have h4 : (t == "time".toStr) = false := by simpa using h "time" (by simp)
  have h5 : (t == "datetime-local".toStr) = false := by simpa using h "datetime-local" (by simp)
  have h6 : (t == "number".toStr) = false := by simpa using h "number" (by simp)
  have h7 : (t == "range".toStr) = false := by simpa using h "range" (by simp)
  unfold Inputs.parseValue
  simp only [h1, h2, h3, h4, h5, h6, h7, Bool.false_eq_true, if_false, Bool.or_false]

/-! ## Order -/

theorem ltInts_irrefl (l : List Nat) : Inputs.ltInts l l = false := Inputs.ltInts_irrefl l

theorem ltInts_trans (a b c : List Nat) (h1 : Inputs.ltInts a b = true)
    (h2 : Inputs.ltInts b c = true) : Inputs.ltInts a c = true := Inputs.ltInts_trans h1 h2

theorem ltInts_asymm (a b : List Nat) (h : Inputs.ltInts a b = true) :
    Inputs.ltInts b a = false := Inputs.ltInts_asymm h

/-- Totality (in particular on equal-length tuples, the only ones `match_range` compares). -/
theorem ltInts_total (a b : List Nat) (_h : a.length = b.length) :
    Inputs.ltInts a b = true ∨ a = b ∨ Inputs.ltInts b a = true := Inputs.ltInts_total a b

/-- Dates are compared in calendar order: tuple `<` is `<` on day numbers. -/
theorem order_date_mono (y1 m1 d1 y2 m2 d2 : Nat)
    (v1 : Spec.validDate y1 m1 d1) (v2 : Spec.validDate y2 m2 d2) :
    Inputs.ltInts [y1, m1, d1] [y2, m2, d2] = true ↔
      Spec.dayNumber y1 m1 d1 < Spec.dayNumber y2 m2 d2 := by
  rw [Inputs.ltInts3, Spec.dayNumber_lt_iff_lex v1 v2]

/-- Equal day numbers only for equal dates: the comparison loses nothing. -/
theorem order_date_inj (y1 m1 d1 y2 m2 d2 : Nat)
    (v1 : Spec.validDate y1 m1 d1) (v2 : Spec.validDate y2 m2 d2)
    (h : Spec.dayNumber y1 m1 d1 = Spec.dayNumber y2 m2 d2) : [y1, m1, d1] = [y2, m2, d2] := by
  obtain ⟨rfl, rfl, rfl⟩ := Spec.dayNumber_inj v1 v2 h; rfl

/-- Local date-times are compared in order of absolute minutes. -/
theorem order_datetime_mono (y1 m1 d1 h1 i1 y2 m2 d2 h2 i2 : Nat)
    (v1 : Spec.validDate y1 m1 d1) (v2 : Spec.validDate y2 m2 d2)
    (hh1 : h1 ≤ 23) (hi1 : i1 ≤ 59) (hh2 : h2 ≤ 23) (hi2 : i2 ≤ 59) :
    Inputs.ltInts [y1, m1, d1, h1, i1] [y2, m2, d2, h2, i2] = true ↔
      Spec.dayNumber y1 m1 d1 * 1440 + h1 * 60 + i1 <
        Spec.dayNumber y2 m2 d2 * 1440 + h2 * 60 + i2 := by
  have hlex := Spec.dayNumber_lt_iff_lex v1 v2
  have hlex' := Spec.dayNumber_lt_iff_lex v2 v1
  have hinj := Spec.dayNumber_inj v1 v2
  have e : Inputs.ltInts [y1, m1, d1, h1, i1] [y2, m2, d2, h2, i2] = true ↔
      (y1 < y2 ∨ (y1 = y2 ∧ (m1 < m2 ∨ (m1 = m2 ∧ (d1 < d2 ∨ (d1 = d2 ∧
        (h1 < h2 ∨ (h1 = h2 ∧ i1 < i2)))))))) := by simp [Inputs.ltInts]
  rw [e]
  generalize Spec.dayNumber y1 m1 d1 = n1 at *
  generalize Spec.dayNumber y2 m2 d2 = n2 at *
  constructor
  · intro h
    by_cases hd : y1 = y2 ∧ m1 = m2 ∧ d1 = d2
    · have : n1 = n2 := by omega
      omega
    · have : n1 < n2 := hlex.2 (by omega)
      omega
  · intro h
    by_cases hn : n1 = n2
    · have := hinj hn; omega
    · by_cases hlt : n1 < n2
      · have := hlex.1 hlt; omega
      · omega

/-- Months are compared in calendar order. -/
theorem order_month_mono (y1 m1 y2 m2 : Nat) (a1 : 1 ≤ m1) (b1 : m1 ≤ 12) (a2 : 1 ≤ m2)
    (b2 : m2 ≤ 12) :
    Inputs.ltInts [y1, m1] [y2, m2] = true ↔ y1 * 12 + m1 < y2 * 12 + m2 := by
  rw [Inputs.ltInts2]; omega

/-- Times of day are compared in order of minutes since midnight. -/
theorem order_time_mono (h1 i1 h2 i2 : Nat) (b1 : i1 ≤ 59) (b2 : i2 ≤ 59) :
    Inputs.ltInts [h1, i1] [h2, i2] = true ↔ h1 * 60 + i1 < h2 * 60 + i2 := by
  rw [Inputs.ltInts2]; omega

/-- Genuine ISO weeks are compared in calendar order: by the day number of their Monday. -/
theorem order_week_mono (y1 w1 y2 w2 : Nat) (hy1 : 1 ≤ y1) (hy2 : 1 ≤ y2)
    (a1 : 1 ≤ w1) (b1 : w1 ≤ Spec.isoWeeksInYear y1)
    (a2 : 1 ≤ w2) (b2 : w2 ≤ Spec.isoWeeksInYear y2) :
    Inputs.ltInts [y1, w1] [y2, w2] = true ↔
      Spec.week1Monday y1 + 7 * (w1 - 1) < Spec.week1Monday y2 + 7 * (w2 - 1) := by
  rw [Inputs.ltInts2]
  have key : ∀ a b : Nat, 1 ≤ a → a < b →
      Spec.week1Monday a + 7 * Spec.isoWeeksInYear a ≤ Spec.week1Monday b := by
    intro a b ha hab
    induction b with
    | zero => omega
    | succ k ih =>
      by_cases hk : a = k
      · subst hk; rw [Spec.isoWeeksInYear_span a ha]; exact Nat.le_refl _
      · have := ih (by omega)
        have := Spec.isoWeeksInYear_span k (by omega)
        omega
  rcases Nat.lt_trichotomy y1 y2 with h | rfl | h
  · have := key y1 y2 hy1 h; omega
  · omega
  · have := key y2 y1 hy2 h; omega

/-- Numbers are compared by value, whatever common scale is used: for every exponent `k` below
    both exponents, comparing the integers `±mant·10^(exp-k)` agrees with `ltP`.
    (`numVal n m e k` is the exact decimal `±m·10^e` scaled by `10^(-k)`.) -/
theorem ltP_num_spec (n1 : Bool) (m1 : Nat) (e1 : Int) (n2 : Bool) (m2 : Nat) (e2 : Int)
    (k : Int) (hk1 : k ≤ e1) (hk2 : k ≤ e2) :
    Inputs.numVal n1 m1 e1 k < Inputs.numVal n2 m2 e2 k ↔
      Inputs.ltP (.num n1 m1 e1) (.num n2 m2 e2) = true := by
  have hb : k ≤ min e1 e2 := by omega
  have hb1 : min e1 e2 ≤ e1 := by omega
  have hb2 : min e1 e2 ≤ e2 := by omega
  have hpos : (0 : Int) < 10 ^ (min e1 e2 - k).toNat := Int.pow_pos (by decide)
  simp only [Inputs.ltP, decide_eq_true_eq]
  rw [Inputs.numVal_rescale n1 m1 e1 (min e1 e2) k hb hb1,
    Inputs.numVal_rescale n2 m2 e2 (min e1 e2) k hb hb2]
  exact Int.mul_lt_mul_right hpos

/-- For integers written without exponent, `ltP` is the usual order on integers. -/
theorem ltP_num_int (n1 : Bool) (m1 : Nat) (n2 : Bool) (m2 : Nat) :
    Inputs.ltP (.num n1 m1 0) (.num n2 m2 0) = true ↔
      (if n1 then -(m1 : Int) else m1) < (if n2 then -(m2 : Int) else m2) := by
  simp [Inputs.ltP, Inputs.numVal]

/-- `ltP` on date-like values is the tuple order. -/
theorem ltP_ints (a b : List Nat) : Inputs.ltP (.ints a) (.ints b) = Inputs.ltInts a b := rfl

/-! ## Non-vacuity and concrete evaluations -/

example : Inputs.parseValue "date".toStr "2024-02-29".toStr = some (.ints [2024, 2, 29]) := by decide
example : Inputs.parseValue "date".toStr "2023-02-29".toStr = none := by decide
example : Inputs.parseValue "date".toStr "1900-02-29".toStr = none := by decide
example : Inputs.parseValue "date".toStr "2000-02-29".toStr = some (.ints [2000, 2, 29]) := by decide
example : Inputs.parseValue "date".toStr "0000-01-01".toStr = none := by decide
example : Inputs.parseValue "date".toStr "0999-04-30".toStr = some (.ints [999, 4, 30]) := by decide
example : Inputs.parseValue "date".toStr "0999-04-31".toStr = none := by decide
example : Inputs.parseValue "date".toStr "10000-12-31".toStr = some (.ints [10000, 12, 31]) := by decide
example : Inputs.parseValue "date".toStr "999-04-30".toStr = none := by decide
example : Inputs.parseValue "month".toStr "2024-13".toStr = none := by decide
example : Inputs.parseValue "month".toStr "2024-12".toStr = some (.ints [2024, 12]) := by decide
example : Inputs.parseValue "time".toStr "23:59".toStr = some (.ints [23, 59]) := by decide
example : Inputs.parseValue "time".toStr "24:00".toStr = none := by decide
example : Inputs.parseValue "time".toStr "12:60".toStr = none := by decide
example : Inputs.parseValue "datetime-local".toStr "2024-02-29T23:59".toStr =
    some (.ints [2024, 2, 29, 23, 59]) := by decide
example : Inputs.parseValue "datetime-local".toStr "2023-02-29T23:59".toStr = none := by decide
-- weeks: long years 2015, 2020 (leap, starts on Wednesday); short year 2021; years 0999, 10000
example : Inputs.parseValue "week".toStr "2020-W53".toStr = some (.ints [2020, 53]) := by decide
example : Spec.isoWeeksInYear 2020 = 53 ∧ Spec.isoWeeksInYear 2015 = 53 :=
  ⟨Spec.isoWeeksInYear_of_fast (by decide) (by decide),
   Spec.isoWeeksInYear_of_fast (by decide) (by decide)⟩
example : Inputs.parseValue "week".toStr "2021-W53".toStr = none := by decide
example : Spec.isoWeeksInYear 2021 = 52 := Spec.isoWeeksInYear_of_fast (by decide) (by decide)
example : Inputs.parseValue "week".toStr "0997-W52".toStr = some (.ints [997, 52]) := by decide
example : Inputs.parseValue "week".toStr "0997-W53".toStr = none := by decide
example : Spec.isoWeeksInYear 997 = 52 ∧ ¬ Spec.dec31InNextWeek1 997 :=
  ⟨Spec.isoWeeksInYear_of_fast (by decide) (by decide),
   Spec.not_dec31InNextWeek1_of_fast (by decide) (by decide)⟩
example : Inputs.parseValue "week".toStr "0995-W53".toStr = some (.ints [995, 53]) := by decide
example : Spec.isoWeeksInYear 995 = 53 := Spec.isoWeeksInYear_of_fast (by decide) (by decide)
-- the known finding again, below year 1000: 31 December 999 is a Tuesday
example : Inputs.parseValue "week".toStr "0999-W53".toStr = some (.ints [999, 53]) ∧
    Spec.isoWeeksInYear 999 = 52 ∧ Spec.dec31InNextWeek1 999 :=
  ⟨by decide, Spec.isoWeeksInYear_of_fast (by decide) (by decide),
   Spec.dec31InNextWeek1_of_fast (by decide) (by decide)⟩
-- years of more than four digits: 10000 is a 52-week year, 10004 a 53-week year
example : Spec.isoWeeksInYear 10000 = 52 ∧ ¬ Spec.dec31InNextWeek1 10000 ∧
    Spec.isoWeeksInYear 10004 = 53 :=
  ⟨Spec.isoWeeksInYear_of_fast (by decide) (by decide),
   Spec.not_dec31InNextWeek1_of_fast (by decide) (by decide),
   Spec.isoWeeksInYear_of_fast (by decide) (by decide)⟩
example : Inputs.parseValue "week".toStr "10000-W52".toStr = some (.ints [10000, 52]) := by decide
example : Inputs.parseValue "week".toStr "10000-W53".toStr = none := by decide
example : Inputs.parseValue "week".toStr "10004-W53".toStr = some (.ints [10004, 53]) := by decide
example : Inputs.parseValue "week".toStr "2024-W00".toStr = none := by decide
example : Inputs.parseValue "week".toStr "2024-W54".toStr = none := by decide
example : Inputs.parseValue "number".toStr "-1.5e3".toStr = some (.num true 15 2) := by decide
example : Inputs.parseValue "number".toStr ".5".toStr = some (.num false 5 (-1)) := by decide
example : Inputs.parseValue "number".toStr "1.".toStr = none := by decide
example : Inputs.parseValue "range".toStr "1e".toStr = none := by decide
example : Inputs.parseValue "text".toStr "5".toStr = none := by decide
example : Spec.numShape "-1.5e3".toStr true 15 2 :=
  (Inputs.shapeNum_iff _ _ _ _).1 (by decide)
example : ¬ ∃ neg mant exp, Spec.numShape "1.".toStr neg mant exp := by
  rintro ⟨neg, mant, exp, h⟩
  have h1 := (Inputs.shapeNum_iff _ _ _ _).2 h
  have h2 : Inputs.shapeNum "1.".toStr = none := by decide
  rw [h2] at h1; cases h1
-- hypotheses of the conditional theorems are satisfiable
example : Spec.validDate 2024 2 29 ∧ Spec.validDate 1 1 1 ∧ ¬ Spec.validDate 2023 2 29 := by
  decide
example : Spec.dec31InNextWeek1 2019 ∧ ¬ Spec.dec31InNextWeek1 2020 :=
  ⟨Spec.dec31InNextWeek1_of_fast (by decide) (by decide),
   Spec.not_dec31InNextWeek1_of_fast (by decide) (by decide)⟩
example : ¬ (Spec.dec31InNextWeek1 2020 ∧ 53 = 53) ∧ ¬ (Spec.dec31InNextWeek1 2019 ∧ 52 = 53) :=
  ⟨fun h => Spec.not_dec31InNextWeek1_of_fast (y := 2020) (by decide) (by decide) h.1,
   fun h => absurd h.2 (by decide)⟩
example : Spec.validWeekStr "2020-W53".toStr 2020 53 :=
  ⟨(Inputs.shapeWeek_iff _ _ _).1 (by decide), by decide, by decide,
    Nat.le_of_eq (Spec.isoWeeksInYear_of_fast (by decide) (by decide)).symm⟩
example : Spec.validDateStr "2024-02-29".toStr 2024 2 29 :=
  ⟨(Inputs.shapeDate_iff _ _ _ _).1 (by decide), by decide⟩
-- order
example : Inputs.ltP (.ints [2024, 2, 29]) (.ints [2024, 3, 1]) = true := by decide
example : Spec.dayNumber 2024 2 29 + 1 = Spec.dayNumber 2024 3 1 := by
  rw [Spec.dayNumber_closed _ _ _ (by decide), Spec.dayNumber_closed _ _ _ (by decide)]; decide
example : Inputs.ltP (.num true 15 2) (.num false 5 (-1)) = true := by decide
example : Inputs.ltP (.num false 1 1) (.num false 99 (-1)) = false := by decide
example : Inputs.ltP (.num false 99 (-1)) (.num false 1 1) = true := by decide
-- the Monday anchor: 2026-09-29 is a Tuesday, 0001-01-01 a Monday
example : Spec.weekday (Spec.dayNumber 2026 9 29) = 2 ∧ Spec.weekday (Spec.dayNumber 1 1 1) = 1 :=
  ⟨Spec.weekday_dayNumber_of_fast (by decide) (by decide), by decide⟩


/-! ### Recorded finding: seconds and the space separator

`Spec.validTimeStr` / `Spec.validDateTimeStr` are the `HH:MM` and `…T HH:MM` forms, which is what the property's wording lists
("hours 0-23, minutes 0-59") and what the code accepts.  HTML's valid time string also allows `:SS` and `:SS.sss`, and its valid
local date and time string one space instead of `T`.  The code treats those strings as INVALID (never as another value); the
witnesses below are the known finding `time-with-seconds-or-space-separator` of `known_findings.json`. -/
theorem time_with_seconds_rejected :
    Inputs.parseValue "time".toStr "10:00:00".toStr = none ∧
    Inputs.parseValue "time".toStr "10:00:00.5".toStr = none ∧
    Inputs.parseValue "datetime-local".toStr "2020-01-01 10:00".toStr = none := by decide

end C18
end SoupVerif
