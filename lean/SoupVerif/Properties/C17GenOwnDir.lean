/-
  C17 — `CSSMatch.match_own_dir(el, directionality, inherit)` (the per-element decision of `:dir()`: `True` / `False` /
  `None` = "the parent decides"), TRANSLATED FROM THE SOURCE on every run (`gen/gen_py_smallfn.py` →
  `Gen.PySmallFn.match_own_dir`, a decision chain over the dynamic values of `Model/SmallFnDyn.lean`), is one step of
  the hand model `matchDirWalk` (Model/Match.lean) that the `:dir()` theorems of `Properties/C17.lean` / `C17Dir.lean`
  are about: `matchDirWalk_cons_eq_gen` (one element), `matchDirWalk_eq_gen` (the whole walk = the loop of `match_dir`
  run on the translated function), `matchDir_eq_gen`.

  Hypothesis `StrAttr`: the attributes `dir`, `type`, `value` of the elements visited are absent or strings (bs4
  builds lists for `class`, `rel`, … only; on a list `util.lower` / the loop over `value` behave differently from the
  hand model, which treats a list like an absent attribute).
  The model's `Ctx.bidi` does not distinguish the bidi classes `R` and `AL` (`pyBidi`): dropping ONE of them from
  the tuple `('AL', 'R', 'L')` is not visible to this proof.
-/
import SoupVerif.Generated.PySmallFn
import SoupVerif.Properties.C17
namespace SoupVerif
namespace C17GenOwnDir
open PySmallFn

/-- What `match_dir`'s loop does with the answer of `match_own_dir`: `True` / `False` is returned, `None` passes the
    question to the parent (`rest`); any other value does not occur (`own_dir_value`). -/
def decideWith (r : V) (rest : Bool) : Bool :=
  match r with
  | .bool b => b
  | .none => rest
  | _ => false

/-- The attribute `n` of `e` is absent or a string (bs4 makes lists of `class`, `rel`, … only). -/
def StrAttr (c : Ctx) (e : Elem) (n : Str) : Prop := ∀ v, c.attrByName e n ≠ some (.list v)

theorem lit_ltr : "ltr".toStr = [108, 116, 114] := by decide
theorem lit_rtl : "rtl".toStr = [114, 116, 108] := by decide
theorem lit_auto : "auto".toStr = [97, 117, 116, 111] := by decide
theorem lit_dir : "dir".toStr = [100, 105, 114] := by decide
theorem lit_type : "type".toStr = [116, 121, 112, 101] := by decide
theorem lit_value : "value".toStr = [118, 97, 108, 117, 101] := by decide
theorem lit_input : "input".toStr = [105, 110, 112, 117, 116] := by decide
theorem lit_textarea : "textarea".toStr = [116, 101, 120, 116, 97, 114, 101, 97] := by decide
theorem lit_bdi : "bdi".toStr = [98, 100, 105] := by decide
theorem lit_tel : "tel".toStr = [116, 101, 108] := by decide
theorem lit_text : "text".toStr = [116, 101, 120, 116] := by decide
theorem lit_search : "search".toStr = [115, 101, 97, 114, 99, 104] := by decide
theorem lit_url : "url".toStr = [117, 114, 108] := by decide
theorem lit_email : "email".toStr = [101, 109, 97, 105, 108] := by decide

theorem int_beq (a b : Nat) : ((a : Int) == (b : Int)) = (a == b) := by
  by_cases h : a = b
  · subst h; simp
  · have h' : (a : Int) ≠ (b : Int) := by omega
    rw [beq_eq_false_iff_ne.mpr h, beq_eq_false_iff_ne.mpr h']

theorem ite_bool (b : Bool) (x y : V) : V.ite (.bool b) x y = if b then x else y := by
  cases b <;> rfl

/-- `self.get_attribute_by_name(el, n, dflt)` -/
theorem attr_getD (c : Ctx) (e : Elem) (n dflt : Str) :
    pyAttrByName c e (.str n) (.str dflt) = V.ofNVal ((c.attrByName e n).getD (.str dflt)) := by
  show (match c.attrByName e n with
    | some v => V.ofNVal v
    | none => V.str dflt) = _
  cases c.attrByName e n <;> rfl

theorem not_list (c : Ctx) (e : Elem) (n dflt : Str) (h : StrAttr c e n) (v : List Str) :
    (c.attrByName e n).getD (.str dflt) ≠ .list v := by
  intro h'
  cases h2 : c.attrByName e n with
  | none => rw [h2] at h'; cases h'
  | some w =>
    rw [h2] at h'
    have : w = .list v := h'
    exact h v (this ▸ h2)

/-- `DIR_MAP.get(t, None)` -/
theorem dirGet (t : Str) :
    pyDictGet [([108, 116, 114], V.int 32), ([114, 116, 108], V.int 64), ([97, 117, 116, 111], V.int 0)]
      (V.str t) V.none = V.ofOptNat (dirOfAttr t) := by
  unfold dirOfAttr pyDictGet
  rw [lit_ltr, lit_rtl, lit_auto]
  by_cases h1 : t = [108, 116, 114]
  · subst h1; rfl
  · by_cases h2 : t = [114, 116, 108]
    · subst h2; rfl
    · by_cases h3 : t = [97, 117, 116, 111]
      · subst h3; rfl
      · have e1 : ([108, 116, 114] == t) = false := beq_eq_false_iff_ne.mpr (fun h => h1 h.symm)
        have e2 : ([114, 116, 108] == t) = false := beq_eq_false_iff_ne.mpr (fun h => h2 h.symm)
        have e3 : ([97, 117, 116, 111] == t) = false := beq_eq_false_iff_ne.mpr (fun h => h3 h.symm)
        have f1 : (t == [108, 116, 114]) = false := beq_eq_false_iff_ne.mpr h1
        have f2 : (t == [114, 116, 108]) = false := beq_eq_false_iff_ne.mpr h2
        have f3 : (t == [97, 117, 116, 111]) = false := beq_eq_false_iff_ne.mpr h3
        simp [List.find?, e1, e2, e3, f1, f2, f3, V.ofOptNat]

theorem i32 (d : Nat) : ((32 : Int) == (d : Int)) = (32 == d) := by
  have := int_beq 32 d
  simpa using this

theorem i64 (d : Nat) : ((64 : Int) == (d : Int)) = (64 == d) := by
  have := int_beq 64 d
  simpa using this

/-- The loop `for c in value: bidi = unicodedata.bidirectional(c); if bidi in ('AL', 'R', 'L'): …; return …`
    finds the first strong character. -/
theorem forChars_firstStrong (c : Ctx) (d : Nat) (after : V) (cs : Str) :
    pyForChars (fun x k => (pyInTuple (pyBidi c x) [V.str [65, 76], V.str [82], V.str [76]]).ite
        (pyEq ((pyEq (pyBidi c x) (V.str [76])).ite (V.int 32) (V.int 64)) (V.int ↑d)) k) after cs =
      match firstStrong c cs with
      | some d' => .bool (d' == d)
      | none => after := by
  induction cs with
  | nil => rfl
  | cons ch rest ih =>
    unfold pyForChars firstStrong
    rw [ih]
    by_cases h1 : (c.bidi ch == 1) = true
    · simp [pyBidi, h1, pyInTuple, pyInList, pyEq, V.ite, V.isErr, V.truthy, SEL_DIR_LTR, i32 d]
    · by_cases h2 : (c.bidi ch == 2) = true
      · simp [pyBidi, h1, h2, pyInTuple, pyInList, pyEq, V.ite, V.isErr, V.truthy, SEL_DIR_RTL, i64 d]
      · simp [pyBidi, h1, h2, pyInTuple, pyInList, pyEq, V.ite, V.isErr, V.truthy]

/-- `itype in ('text', 'search', 'tel', 'url', 'email')` -/
theorem inTuple_text (x : Str) :
    pyInTuple (V.str x) [V.str [116, 101, 120, 116], V.str [115, 101, 97, 114, 99, 104], V.str [116, 101, 108],
      V.str [117, 114, 108], V.str [101, 109, 97, 105, 108]] =
      .bool (["text", "search", "tel", "url", "email"].any (fun t => t.toStr == x)) := by
  simp only [List.any_cons, List.any_nil, lit_text, lit_search, lit_tel, lit_url, lit_email, Bool.or_false]
  by_cases h1 : x = [116, 101, 120, 116]
  · subst h1; rfl
  · by_cases h2 : x = [115, 101, 97, 114, 99, 104]
    · subst h2; rfl
    · by_cases h3 : x = [116, 101, 108]
      · subst h3; rfl
      · by_cases h4 : x = [117, 114, 108]
        · subst h4; rfl
        · by_cases h5 : x = [101, 109, 97, 105, 108]
          · subst h5; rfl
          · have e1 : ([116, 101, 120, 116] == x) = false := beq_eq_false_iff_ne.mpr (fun h => h1 h.symm)
            have e2 : ([115, 101, 97, 114, 99, 104] == x) = false := beq_eq_false_iff_ne.mpr (fun h => h2 h.symm)
            have e3 : ([116, 101, 108] == x) = false := beq_eq_false_iff_ne.mpr (fun h => h3 h.symm)
            have e4 : ([117, 114, 108] == x) = false := beq_eq_false_iff_ne.mpr (fun h => h4 h.symm)
            have e5 : ([101, 109, 97, 105, 108] == x) = false := beq_eq_false_iff_ne.mpr (fun h => h5 h.symm)
            have f1 : (x == [116, 101, 120, 116]) = false := beq_eq_false_iff_ne.mpr h1
            have f2 : (x == [115, 101, 97, 114, 99, 104]) = false := beq_eq_false_iff_ne.mpr h2
            have f3 : (x == [116, 101, 108]) = false := beq_eq_false_iff_ne.mpr h3
            have f4 : (x == [117, 114, 108]) = false := beq_eq_false_iff_ne.mpr h4
            have f5 : (x == [101, 109, 97, 105, 108]) = false := beq_eq_false_iff_ne.mpr h5
            simp [pyInTuple, pyInList, pyEq, V.isErr, V.truthy, e1, e2, e3, e4, e5, f1, f2, f3, f4, f5]

theorem flags_ite (d : Nat) (a b : V)
    (hflags : (hasFlag d SEL_DIR_LTR && hasFlag d SEL_DIR_RTL) = false) :
    V.ite (pyAnd (pyBitAnd (V.int ↑d) (V.int 32)) (pyBitAnd (V.int ↑d) (V.int 64))) a b = b := by
  have h32 : pyBitAnd (V.int ↑d) (V.int 32) = V.int ↑(d &&& 32) := by
    simp [pyBitAnd]
  have h64 : pyBitAnd (V.int ↑d) (V.int 64) = V.int ↑(d &&& 64) := by
    simp [pyBitAnd]
  rw [h32, h64]
  simp only [hasFlag, SEL_DIR_LTR, SEL_DIR_RTL] at hflags
  by_cases x : d &&& 32 = 0
  · simp [pyAnd, V.ite, V.truthy, x]
  · by_cases y : d &&& 64 = 0
    · simp [pyAnd, V.ite, V.truthy, x, y]
    · simp [x, y] at hflags

set_option maxHeartbeats 1600000 in
theorem matchDirWalk_cons_eq_gen (c : Ctx) (d : Nat) (inherit : Bool) (l : Loc) (parents : List Loc) (e : Elem)
    (he : l.elem? = some e)
    (hflags : (hasFlag d SEL_DIR_LTR && hasFlag d SEL_DIR_RTL) = false)
    (hdir : StrAttr c e "dir".toStr) (htype : StrAttr c e "type".toStr) (hvalue : StrAttr c e "value".toStr) :
    matchDirWalk c d inherit (l :: parents) =
      decideWith (Gen.PySmallFn.match_own_dir c l e (.int d) (.bool inherit)) (matchDirWalk c d true parents) := by
  unfold Gen.PySmallFn.match_own_dir
  rw [matchDirWalk]
  simp only [he]
  rw [flags_ite d _ _ hflags]
  simp only [lit_dir, lit_type, lit_value, lit_input, lit_textarea, lit_bdi, lit_tel, attr_getD] at hdir htype hvalue ⊢
  generalize hdv : (c.attrByName e [100, 105, 114]).getD (NVal.str []) = dv
  generalize htv : (c.attrByName e [116, 121, 112, 101]).getD (NVal.str []) = tv
  generalize hvv : (c.attrByName e [118, 97, 108, 117, 101]).getD (NVal.str []) = vv
  cases dv with
  | list v => exact absurd hdv (not_list c e _ _ hdir v)
  | str ds =>
  cases tv with
  | list v => exact absurd htv (not_list c e _ _ htype v)
  | str ty =>
  cases vv with
  | list v => exact absurd hvv (not_list c e _ _ hvalue v)
  | str vl =>
  simp only [V.ofNVal, pyCast, pyLower, pyGetTag, pyJoinContentStrings, pyForStr, dirGet,
    forChars_firstStrong, pyIsRoot, pyIsHtmlTag, pyFindBidi, pyEl]
  generalize dirOfAttr (lower ds) = dir
  generalize lower ty = lty
  generalize c.tagName e = name
  generalize c.isRoot l = rt
  generalize c.isHtmlTag e = ht
  generalize findBidi c l = fb
  generalize List.flatMap (fun d => d.focus.strVal) (List.filter (fun d => d.focus.isContentString) (c.contents l true)) = tx
  generalize matchDirWalk c d true parents = up
  simp only [pyEq]
  generalize (name == [105, 110, 112, 117, 116]) = bi
  generalize (name == [116, 101, 120, 116, 97, 114, 101, 97]) = bt
  generalize (name == [98, 100, 105]) = bb
  cases ht
  · cases inherit <;> simp [decideWith, V.ite, pyNot, pyIsNone, V.truthy]
  cases bt
  · cases bi <;>
   (simp only [ite_bool, if_true, if_false, Bool.false_eq_true, inTuple_text]
    generalize (["text", "search", "tel", "url", "email"].any fun t => t.toStr == lty) = isTxt
    have hTxt0 : (["text", "search", "tel", "url", "email"].any fun t => t.toStr == ([] : Str)) = false := by decide
    have hTel0 : (([] : Str) == [116, 101, 108]) = false := by decide
    try simp only [hTxt0, hTel0]
    generalize (lty == [116, 101, 108]) = isTel
    generalize firstStrong c vl = fs
    cases dir with
    | none =>
      cases isTxt <;> cases isTel <;> cases bb <;> cases rt <;> cases fb <;>
        simp [decideWith, V.ite, pyAnd, pyOr, pyNot, pyIsNone, pyIsNotNone, pyNotInTuple, pyInTuple, pyInList, pyEq,
          V.ofOptNat, V.truthy, V.isErr, SEL_DIR_LTR, i32, int_beq]
    | some dv =>
      by_cases hz : dv = 0
      · subst hz
        cases isTxt <;> cases isTel <;> cases bb <;> cases rt <;> cases fb <;> cases fs <;> cases vl <;>
          simp [decideWith, V.ite, pyAnd, pyOr, pyNot, pyIsNone, pyIsNotNone, pyNotInTuple, pyInTuple, pyInList, pyEq,
          V.ofOptNat, V.truthy, V.isErr, SEL_DIR_LTR, i32, int_beq]
      · simp [decideWith, V.ite, pyAnd, pyOr, pyNot, pyIsNone, pyIsNotNone, pyNotInTuple, pyInTuple, pyInList, pyEq,
          V.ofOptNat, V.truthy, V.isErr, SEL_DIR_LTR, i32, int_beq, hz])
  · cases bi <;>
   (simp only [ite_bool, if_true, if_false, Bool.false_eq_true, inTuple_text]
    generalize (["text", "search", "tel", "url", "email"].any fun t => t.toStr == lty) = isTxt
    have hTxt0 : (["text", "search", "tel", "url", "email"].any fun t => t.toStr == ([] : Str)) = false := by decide
    have hTel0 : (([] : Str) == [116, 101, 108]) = false := by decide
    try simp only [hTxt0, hTel0]
    generalize (lty == [116, 101, 108]) = isTel
    generalize firstStrong c tx = fs
    cases dir with
    | none =>
      cases isTxt <;> cases isTel <;> cases bb <;> cases rt <;> cases fb <;>
        simp [decideWith, V.ite, pyAnd, pyOr, pyNot, pyIsNone, pyIsNotNone, pyNotInTuple, pyInTuple, pyInList, pyEq,
          V.ofOptNat, V.truthy, V.isErr, SEL_DIR_LTR, i32, int_beq]
    | some dv =>
      by_cases hz : dv = 0
      · subst hz
        cases isTxt <;> cases isTel <;> cases bb <;> cases rt <;> cases fb <;> cases fs <;> cases tx <;>
          simp [decideWith, V.ite, pyAnd, pyOr, pyNot, pyIsNone, pyIsNotNone, pyNotInTuple, pyInTuple, pyInList, pyEq,
          V.ofOptNat, V.truthy, V.isErr, SEL_DIR_LTR, i32, int_beq]
      · simp [decideWith, V.ite, pyAnd, pyOr, pyNot, pyIsNone, pyIsNotNone, pyNotInTuple, pyInTuple, pyInList, pyEq,
          V.ofOptNat, V.truthy, V.isErr, SEL_DIR_LTR, i32, int_beq, hz])

/-- The attributes `match_own_dir` reads are absent or strings. -/
def StrAttrs (c : Ctx) (l : Loc) : Prop :=
  ∀ e, l.elem? = some e → StrAttr c e "dir".toStr ∧ StrAttr c e "type".toStr ∧ StrAttr c e "value".toStr

/-- The loop of `match_dir` (`while True: match = self.match_own_dir(el, directionality, inherit); if match is not
    None: return match; el = self.get_parent(el, no_iframe=True); inherit = True`) run on the TRANSLATED
    `match_own_dir`, over the element and its ancestors. -/
def genDirWalk (c : Ctx) (d : Nat) : Bool → List Loc → Bool
  | _, [] => false
  | inherit, l :: parents =>
    match l.elem? with
    | none => false
    | some e => decideWith (Gen.PySmallFn.match_own_dir c l e (.int d) (.bool inherit)) (genDirWalk c d true parents)

/-- **The tie for the walk.** -/
theorem matchDirWalk_eq_gen (c : Ctx) (d : Nat)
    (hflags : (hasFlag d SEL_DIR_LTR && hasFlag d SEL_DIR_RTL) = false) (ls : List Loc) :
    ∀ (inherit : Bool), (∀ l ∈ ls, StrAttrs c l) →
      matchDirWalk c d inherit ls = genDirWalk c d inherit ls := by
  induction ls with
  | nil => intro inherit _; rfl
  | cons l parents ih =>
    intro inherit h
    cases he : l.elem? with
    | none =>
      rw [matchDirWalk]
      simp only [genDirWalk, he]
    | some e =>
      obtain ⟨h1, h2, h3⟩ := h l (by simp) e he
      rw [matchDirWalk_cons_eq_gen c d inherit l parents e he hflags h1 h2 h3,
        ih true (fun x hx => h x (by simp [hx]))]
      simp only [genDirWalk, he]

/-- `match_dir(el, directionality)` of the hand model (what `dir_partition`, `matchDir_ltr`, … of C17 are about) is
    the loop over the translated `match_own_dir`. -/
theorem matchDir_eq_gen (c : Ctx) (l : Loc) (d : Nat)
    (hflags : (hasFlag d SEL_DIR_LTR && hasFlag d SEL_DIR_RTL) = false)
    (h : ∀ x ∈ l :: c.ancestors l true, StrAttrs c x) :
    matchDir c l d = genDirWalk c d false (l :: c.ancestors l true) := by
  unfold matchDir
  rw [hflags]
  simp only [Bool.false_eq_true, if_false]
  exact matchDirWalk_eq_gen c d hflags _ false h

/-- `:dir()` asked for both directions at once: the translated function answers `False` at once. -/
theorem own_dir_both_flags (c : Ctx) (l : Loc) (e : Elem) (d : Nat) (inherit : V)
    (h : (hasFlag d SEL_DIR_LTR && hasFlag d SEL_DIR_RTL) = true) :
    Gen.PySmallFn.match_own_dir c l e (.int d) inherit = .bool false := by
  unfold Gen.PySmallFn.match_own_dir
  have h32 : pyBitAnd (V.int ↑d) (V.int 32) = V.int ↑(d &&& 32) := by simp [pyBitAnd]
  have h64 : pyBitAnd (V.int ↑d) (V.int 64) = V.int ↑(d &&& 64) := by simp [pyBitAnd]
  rw [h32, h64]
  simp only [hasFlag, SEL_DIR_LTR, SEL_DIR_RTL, Bool.and_eq_true, bne_iff_ne, ne_eq] at h
  obtain ⟨x, y⟩ := h
  simp [pyAnd, V.ite, V.truthy, x, y]

end C17GenOwnDir
end SoupVerif
