/-
  C11 / C01 about the Lean terms TRANSLATED from the source text of `CSSParser.parse_attribute_selector`.

  Which regular expression, with which flags, an attribute selector compiles to is decided in the hand model by
  `Parser.parseAttribute` / `Parser.attrPattern` (Model/Parser.lean); C11's `lits_case_rule` / `value_eq_template`
  and C01Attr's `tmpl_*` / `attrPattern_sem` are statements about those.  `gen/gen_py_attrsel.py` translates the
  DECISIONS of the Python function on every run (`Generated/PyAttrSel.lean`): the flags chain (`flagsOf`), the quote
  test on the value (`valueQuoted`), the operator chain with its empty-value and white-space guards and the `!`
  branch (`decisionOf` = `templateOf`, `inverseOf`), the second pattern (`pattern2Of`), and the template texts.

  Proved here, for ALL arguments:
  * `gen_flagsOf`, `gen_decisionOf` (`gen_templateOf`, `gen_inverseOf`), `gen_valueQuoted`, `gen_pattern2Of`:
    each regenerated decision is the hand model's;
  * `gen_pattern`, `gen_pattern2`: the pattern(s) the hand model compiles are the instances (`instantiate`) of the
    template the regenerated chain picks;
  * `parseAttribute_eq_gen` (**the tie**): the hand model's handler equals `genParseAttribute`, the handler in which
    every decision is taken by the regenerated definitions — so every theorem about `Parser.parseAttribute` (and
    through it `Parser.parse`) holds of the regenerated decisions;
  * `gen_dotAll`, `gen_ignoreCase`, `gen_lits_case_rule`, `gen_ne_rule`, `gen_empty_rule`, `gen_word_rule`,
    `gen_pattern_sem`: C11's case rule and C01Attr's empty / white-space rules and full operator semantics restated
    about the regenerated definitions.
  An edit of a test, of a flag expression, of a template or of the order of dependent branches changes
  `Generated/PyAttrSel.lean` and breaks `gen_flagsOf` / `gen_decisionOf` / `gen_pattern2Of`.
  The hand model has no DOTALL bit (its `.` always matches a line feed): `gen_dotAll` is what justifies that.
  NOT proved: that `templateStrings` are the texts of the `Rx` instances of `Generated/Regexes.lean` (`attr_*`) — the
  translator checks at generation time that the live library compiles one selector per template to
  `text % re.escape(value)`; only the list of constructors is checked here (`templateStrings_keys`).
-/
import SoupVerif.Properties.C01Attr
import SoupVerif.Generated.PyAttrSel
namespace SoupVerif
namespace C11GenAttrSel
open Rx PyAttrSel

def instantiate (t : Template) (value : Str) (ic : Bool) : Option Rx :=
  match t with
  | .none => none
  | .unmatchable => some (Parser.noMatchSet ic)
  | .prefix => some (Parser.mkSeq ([.bos] ++ Parser.lits value ic ++ [C01Attr.dotStar]))
  | .suffix => some (Parser.mkSeq ([C01Attr.lazyDot] ++ Parser.lits value ic ++ [.eos]))
  | .contains => some (Parser.mkSeq ([C01Attr.lazyDot] ++ Parser.lits value ic ++ [C01Attr.dotStar]))
  | .word => some (Parser.mkSeq ([C01Attr.lazyDot, C01Attr.leftAlt ic] ++ Parser.lits value ic ++
      [C01Attr.rightLook ic, C01Attr.dotStar]))
  | .wordUnmatchable => some (Parser.mkSeq ([C01Attr.lazyDot, C01Attr.leftAlt ic] ++ [Parser.noMatchSet ic] ++
      [C01Attr.rightLook ic, C01Attr.dotStar]))
  | .dash => some (Parser.mkSeq ([.bos] ++ Parser.lits value ic ++ [C01Attr.dashOpt ic, .eos]))
  | .equals => some (Parser.mkSeq ([.bos] ++ Parser.lits value ic ++ [.eos]))

def modelTemplate (op : Str) (ve vw : Bool) : Template :=
  let c0 := op.head?.getD 61
  if op.isEmpty then .none
  else if (c0 == 94 || c0 == 36 || c0 == 42) && ve then .unmatchable
  else if c0 == 94 then .prefix
  else if c0 == 36 then .suffix
  else if c0 == 42 then .contains
  else if c0 == 126 then (if ve || vw then .wordUnmatchable else .word)
  else if c0 == 124 then .dash
  else .equals

theorem i_str : "i".toStr = [105] := by decide
theorem type_str : "type".toStr = [116, 121, 112, 101] := by decide

theorem gen_flagsOf (case_ : Option Str) (attr : Str) (h : case_ ≠ some []) :
    Gen.PyAttrSel.flagsOf case_ attr =
      match case_ with
      | some c => { ignoreCase := c == "i".toStr, dotAll := true, isType := false }
      | none => if lower attr == "type".toStr then { ignoreCase := true, dotAll := true, isType := true }
                else { ignoreCase := false, dotAll := true, isType := false } := by
  rw [i_str, type_str]
  cases case_ with
  | none => simp [Gen.PyAttrSel.flagsOf, pyTruthy]
  | some c =>
    have hc : c ≠ [] := fun e => h (by rw [e])
    simp [Gen.PyAttrSel.flagsOf, pyTruthy, pyEqStr, hc]
    rw [Bool.eq_iff_iff]; simp

theorem attrPattern_eq_instantiate (op value : Str) (ic hasWs : Bool) :
    (if op.isEmpty then none else some (Parser.attrPattern op value ic hasWs)) =
      instantiate (modelTemplate op value.isEmpty hasWs) value ic := by
  unfold modelTemplate Parser.attrPattern
  simp only []
  repeat' split
  all_goals simp_all [instantiate]

theorem sw1 (c k : Nat) (rest : Str) : pyStartsWith (some (c :: rest)) [[k]] = (c == k) := by
  simp [pyStartsWith, List.isPrefixOf]
  rw [Bool.eq_iff_iff]; simp; omega

theorem gen_decisionOf (op : Str) (ve vw : Bool) :
    Gen.PyAttrSel.decisionOf (some op) ve vw = (modelTemplate op ve vw, op.head? == some 33) := by
  cases op with
  | nil => simp [Gen.PyAttrSel.decisionOf, pyTruthy, modelTemplate]
  | cons c rest =>
    have h3 : pyStartsWith (some (c :: rest)) [[94], [36], [42]] = (c == 94 || c == 36 || c == 42) := by
      simp [pyStartsWith, List.isPrefixOf]
      rw [Bool.eq_iff_iff]; simp; omega
    simp only [Gen.PyAttrSel.decisionOf, sw1, h3, pyTruthy, modelTemplate]
    simp
    repeat' split
    all_goals simp_all
    all_goals omega

theorem gen_templateOf (op : Str) (ve vw : Bool) :
    Gen.PyAttrSel.templateOf (some op) ve vw = modelTemplate op ve vw := by
  simp [Gen.PyAttrSel.templateOf, gen_decisionOf]

theorem gen_inverseOf (op : Str) (ve vw : Bool) :
    Gen.PyAttrSel.inverseOf (some op) ve vw = (op.head? == some 33) := by
  simp [Gen.PyAttrSel.inverseOf, gen_decisionOf]

/-- `m.group('cmp')` is `None`: as for the empty string. -/
theorem gen_decisionOf_none (ve vw : Bool) : Gen.PyAttrSel.decisionOf none ve vw = (.none, false) := by
  simp [Gen.PyAttrSel.decisionOf, pyTruthy]

/-- The pattern the hand model compiles is the instance of the template the generated chain picks. -/
theorem gen_pattern (op value : Str) (ic hasWs : Bool) :
    (if op.isEmpty then none else some (Parser.attrPattern op value ic hasWs)) =
      instantiate (Gen.PyAttrSel.templateOf (some op) value.isEmpty hasWs) value ic := by
  rw [gen_templateOf, attrPattern_eq_instantiate]

theorem gen_valueQuoted (raw : Str) :
    Gen.PyAttrSel.valueQuoted raw = (match raw.head? with | some q => q == 34 || q == 39 | none => false) := by
  cases raw with
  | nil => simp [Gen.PyAttrSel.valueQuoted, pyStartsWith]
  | cons c rest =>
    simp [Gen.PyAttrSel.valueQuoted, pyStartsWith, List.isPrefixOf]
    rw [Bool.eq_iff_iff]; simp; omega

theorem gen_pattern2Of (isType hasPattern : Bool) :
    Gen.PyAttrSel.pattern2Of isType hasPattern = if isType && hasPattern then some (false, true) else none := by
  simp [Gen.PyAttrSel.pattern2Of]

/-- The hand model's second pattern (`xml_type_pattern`) through the generated decision. -/
theorem gen_pattern2 (op value : Str) (ic hasWs isType : Bool) :
    (if isType then
        (if op.isEmpty then none else some (Parser.attrPattern op value ic hasWs)).map
          (fun _ => Parser.attrPattern op value false hasWs)
      else none) =
      (match Gen.PyAttrSel.pattern2Of isType
          (instantiate (Gen.PyAttrSel.templateOf (some op) value.isEmpty hasWs) value ic).isSome with
        | some (ic2, _) => instantiate (Gen.PyAttrSel.templateOf (some op) value.isEmpty hasWs) value ic2
        | none => none) := by
  have h1 := gen_pattern op value ic hasWs
  have h2 := gen_pattern op value false hasWs
  rw [← h1, gen_pattern2Of]
  cases isType <;> cases h : op.isEmpty <;> simp [h] at h2 ⊢ <;> exact h2

/-- `parse_attribute_selector` with every DECISION taken by the definitions regenerated from the source:
    the frame (group reads, unescaping, the final append / `:not()` nesting) is that of the hand model. -/
def genParseAttribute (P : Parser.PEnv) (t : Parser.Token) (sel : Parser.SelB) : Parser.SelB :=
  let op := (t.group P "cmp").getD []
  let case_ : Option Str := match t.group P "case" with
    | some c => if c.isEmpty then none else some (lower c)
    | none => none
  let ns : Str := match t.group P "attr_ns" with
    | some n => if n.isEmpty then [] else Parser.cssUnescape P.env P.L (n.take (n.length - 1))
    | none => []
  let attr := Parser.cssUnescape P.env P.L ((t.group P "attr_name").getD [])
  let fl := Gen.PyAttrSel.flagsOf case_ attr
  let value : Str :=
    if !pyTruthy (some op) then []
    else
      let raw := (t.group P "value").getD []
      if Gen.PyAttrSel.valueQuoted raw then Parser.cssUnescape P.env P.L (Parser.slice raw 1 (raw.length - 1)) true
      else Parser.cssUnescape P.env P.L raw
  let hasWs := (Rx.search P.env P.L.reWs value).isSome
  let tmpl := Gen.PyAttrSel.templateOf (some op) value.isEmpty hasWs
  let pattern : Option Rx := instantiate tmpl value fl.ignoreCase
  let pattern2 : Option Rx :=
    match Gen.PyAttrSel.pattern2Of fl.isType pattern.isSome with
    | some (ic2, _) => instantiate tmpl value ic2
    | none => none
  let selAttr : AttrSel := { attrName := attr, pfx := ns, pattern := pattern, xmlTypePattern := pattern2 }
  if Gen.PyAttrSel.inverseOf (some op) value.isEmpty hasWs then
    let sub := (Parser.SelB.empty.addAttr selAttr).freeze
    sel.addSub (.mk [sub] true false)
  else sel.addAttr selAttr

/-- **The tie.**  The hand model's attribute handler IS the handler whose decisions are the regenerated ones,
    for every token, parser environment and selector under construction. -/
theorem parseAttribute_eq_gen (P : Parser.PEnv) (t : Parser.Token) (sel : Parser.SelB) :
    Parser.parseAttribute P t sel = genParseAttribute P t sel := by
  unfold Parser.parseAttribute genParseAttribute
  generalize (t.group P "cmp").getD [] = op
  generalize (t.group P "value").getD [] = raw
  generalize Parser.cssUnescape P.env P.L ((t.group P "attr_name").getD []) = attr
  have hq := gen_valueQuoted raw
  have hcase : ∀ c : Str, c ≠ [] → (some (lower c) : Option Str) ≠ some [] := by
    intro c hc; simp [lower, hc]
  simp only [← gen_pattern, gen_inverseOf, gen_pattern2Of]
  cases t.group P "attr_ns" <;> cases hg : t.group P "case" with
  | none =>
    cases raw <;> by_cases hop : op = [] <;> by_cases ht : lower attr = "type".toStr <;>
      by_cases hinv : op.head? = some 33 <;>
      simp [gen_flagsOf, hq, pyTruthy, hop, ht, hinv]
  | some c =>
    by_cases hc : c = []
    · cases raw <;> by_cases hop : op = [] <;> by_cases ht : lower attr = "type".toStr <;>
        by_cases hinv : op.head? = some 33 <;>
        simp [gen_flagsOf, hq, pyTruthy, hop, ht, hinv, hc]
    · have h' := hcase c hc
      cases raw <;> by_cases hop : op = [] <;>
        by_cases hinv : op.head? = some 33 <;>
        simp [gen_flagsOf _ _ h', hq, pyTruthy, hop, hinv, hc]

/-! ### The C11 / C01 rules restated about the regenerated decisions -/

/-- The pattern the regenerated decisions give for operator `op`, value `v`, case flag `case_` on attribute `attr`. -/
def genPattern (op : Str) (case_ : Option Str) (attr v : Str) (hasWs : Bool) : Option Rx :=
  instantiate (Gen.PyAttrSel.templateOf (some op) v.isEmpty hasWs) v (Gen.PyAttrSel.flagsOf case_ attr).ignoreCase

/-- `re.DOTALL` is set on every path. -/
theorem gen_dotAll (case_ : Option Str) (attr : Str) : (Gen.PyAttrSel.flagsOf case_ attr).dotAll = true := by
  simp only [Gen.PyAttrSel.flagsOf]
  repeat' split
  all_goals simp

/-- `re.I` exactly when the flag is `i`, or no flag is given and the attribute is `type` (ASCII case-insensitively);
    `is_type` exactly in the second case. -/
theorem gen_ignoreCase (case_ : Option Str) (attr : Str) (h : case_ ≠ some []) :
    (Gen.PyAttrSel.flagsOf case_ attr).ignoreCase =
      (case_ == some "i".toStr || (case_ == none && lower attr == "type".toStr)) ∧
    (Gen.PyAttrSel.flagsOf case_ attr).isType = (case_ == none && lower attr == "type".toStr) := by
  rw [gen_flagsOf _ _ h]
  cases case_ with
  | none => by_cases ht : lower attr = "type".toStr <;> simp [ht]
  | some c => simp

/-- `lits_case_rule` / `value_eq_template` (C11) about the regenerated decisions: the pattern of `[attr=v]`
    (`[attr=v i]`, `[attr=v s]`) matches exactly `v`, up to ASCII case iff the regenerated `ignoreCase` bit is set. -/
theorem gen_lits_case_rule (case_ : Option Str) (attr v s : Str) (w : Bool) :
    ∃ p, genPattern [61] case_ attr v w = some p ∧
      Rx.isMatch asciiEnv p s =
        (if (Gen.PyAttrSel.flagsOf case_ attr).ignoreCase then lower s == lower v else s == v) := by
  refine ⟨Parser.attrPattern [61] v (Gen.PyAttrSel.flagsOf case_ attr).ignoreCase w, ?_, ?_⟩
  · unfold genPattern; rw [← gen_pattern]; simp
  · rw [C01Attr.shape_eq1]; exact C11.value_eq_template _ v s

/-- The same for `!=` (the pattern is that of `=`; the regenerated `inverse` nests it under `:not()`). -/
theorem gen_ne_rule (case_ : Option Str) (attr v s : Str) (w : Bool) :
    Gen.PyAttrSel.inverseOf (some [33, 61]) v.isEmpty w = true ∧
    ∃ p, genPattern [33, 61] case_ attr v w = some p ∧
      Rx.isMatch asciiEnv p s =
        (if (Gen.PyAttrSel.flagsOf case_ attr).ignoreCase then lower s == lower v else s == v) := by
  refine ⟨by simp [gen_inverseOf], Parser.attrPattern [33, 61] v (Gen.PyAttrSel.flagsOf case_ attr).ignoreCase w, ?_, ?_⟩
  · unfold genPattern; rw [← gen_pattern]; simp
  · rw [C01Attr.shape_ne]; exact C11.value_eq_template _ v s

/-- Only `!` sets `inverse`. -/
theorem gen_inverse_iff (op : Str) (ve vw : Bool) :
    Gen.PyAttrSel.inverseOf (some op) ve vw = true ↔ op.head? = some 33 := by
  simp [gen_inverseOf]

/-- `^=`, `$=`, `*=` with an empty value (C01Attr `tmpl_empty`): the regenerated chain picks the unmatchable class,
    and its pattern matches no string, whatever the flags. -/
theorem gen_empty_rule (env : CharEnv) (c0 : Nat) (rest : Str) (case_ : Option Str) (attr s : Str) (w : Bool)
    (h : c0 = 94 ∨ c0 = 36 ∨ c0 = 42) :
    Gen.PyAttrSel.templateOf (some (c0 :: rest)) true w = .unmatchable ∧
    ∃ p, genPattern (c0 :: rest) case_ attr [] w = some p ∧ Rx.isMatch env p s = false := by
  refine ⟨?_, Parser.attrPattern (c0 :: rest) [] (Gen.PyAttrSel.flagsOf case_ attr).ignoreCase w, ?_, ?_⟩
  · rw [gen_templateOf]; rcases h with rfl | rfl | rfl <;> simp [modelTemplate]
  · unfold genPattern; rw [← gen_pattern]; simp
  · exact C01Attr.tmpl_empty env c0 rest _ w s h

/-- `~=` with an empty value or a value containing white space (C01Attr `tmpl_word_none`): the regenerated guard
    picks `wordUnmatchable` — exactly then — and the pattern matches no string. -/
theorem gen_word_rule (env : CharEnv) (rest : Str) (case_ : Option Str) (attr v s : Str) (w : Bool) :
    Gen.PyAttrSel.templateOf (some (126 :: rest)) v.isEmpty w =
      (if v.isEmpty || w then .wordUnmatchable else .word) ∧
    ((v = [] ∨ w = true) →
      ∃ p, genPattern [126, 61] case_ attr v w = some p ∧ Rx.isMatch env p s = false) := by
  refine ⟨?_, fun h => ⟨Parser.attrPattern [126, 61] v (Gen.PyAttrSel.flagsOf case_ attr).ignoreCase w, ?_, ?_⟩⟩
  · rw [gen_templateOf]; simp [modelTemplate]
  · unfold genPattern; rw [← gen_pattern]; simp
  · exact C01Attr.tmpl_word_none env v s _ w h

/-- The full C01 reading (`attrPattern_sem_ascii`) of every pattern the regenerated decisions give: for each of the
    seven operators it is the specification's value test with the regenerated case bit. -/
theorem gen_pattern_sem (op : Css.AttrOp) (case_ : Option Str) (attr v s : Str) :
    ∃ p, genPattern op.text case_ attr v (v.any isCssWs) = some p ∧
      Rx.isMatch asciiEnv p s = Css.valTest op v (Gen.PyAttrSel.flagsOf case_ attr).ignoreCase s := by
  refine ⟨Parser.attrPattern op.text v (Gen.PyAttrSel.flagsOf case_ attr).ignoreCase (v.any isCssWs), ?_,
    C01Attr.attrPattern_sem_ascii op v s _⟩
  unfold genPattern; rw [← gen_pattern]; cases op <;> simp [Css.AttrOp.text]

/-- Every template with a text has one in the regenerated table. -/
theorem templateStrings_keys :
    Gen.PyAttrSel.templateStrings.map (·.1) =
      [.unmatchable, .prefix, .suffix, .contains, .word, .wordUnmatchable, .dash, .equals] := by decide

end C11GenAttrSel
end SoupVerif
