/-
  `CSSParser.parse_combinator` / `CSSParser.parse_has_combinator`: the structure REGENERATED from the source text
  (`Generated/PyCombinators.lean`, by gen/gen_py_combinators.py) means exactly the hand-written model functions
  `Parser.parseCombinator` / `Parser.parseHasCombinator` -- for all parser environments, tokens, loop states, flags
  and offsets.  Every theorem about the hand model (C06 totality / error kinds, C09 compile steps, C05
  `denote_comma`, C20 `offset_*_comb`) therefore holds of what the source says now; the key steps those theorems
  rest on are restated below about the `Gen.PyCombinators` definitions.

  The proofs name only `Gen.PyCombinators.parse_combinator` / `parse_has_combinator` (no auxiliary generated name).
-/
import SoupVerif.Model.ParseDispatch
import SoupVerif.Model.CombDyn
import SoupVerif.Generated.PyCombinators
namespace SoupVerif
namespace C06GenComb
open Rx SoupVerif.Parser SoupVerif.CombDyn SoupVerif.ParseDisp

theorem combOf_relation (P : PEnv) (t : Token) : combOf P t "relation" 32 = combinatorOf P t := by
  unfold combOf combinatorOf
  rfl

theorem parse_combinator_eq (P : PEnv) (t : Token) (s : LS) (isPseudo isForgive : Bool) (index : Nat) :
    Gen.PyCombinators.parse_combinator.run ["has_selector", "sel"] ⟨P, t, isPseudo, isForgive, index⟩ s
      = parseCombinator P t s isPseudo isForgive index := by
  simp only [Fn.run, Gen.PyCombinators.parse_combinator, combOf_relation, parseCombinator]
  generalize combinatorOf P t = c
  obtain ⟨sel, sels, hs, cl, rels, rt, ih, ix, pos, cu⟩ := s
  cases hs <;> cases isForgive <;> cases isPseudo <;> by_cases hc : c = 44 <;>
    by_cases ht : sel.tag = none <;>
    simp [Prog.run, Act.run, Cond.eval, Off.eval, Msg.kind, hc, ht]

theorem combHasRel_ws : combHasRel 32 = .hasDesc := by decide

theorem parse_has_combinator_eq (P : PEnv) (t : Token) (s : LS) (isPseudo isForgive : Bool) (index : Nat) :
    Gen.PyCombinators.parse_has_combinator.run ["has_selector", "sel", "rel_type"] ⟨P, t, isPseudo, isForgive, index⟩ s
      = parseHasCombinator P t s index := by
  simp only [Fn.run, Gen.PyCombinators.parse_has_combinator, combOf_relation, parseHasCombinator]
  generalize combinatorOf P t = c
  obtain ⟨sel, sels, hs, cl, rels, rt, ih, ix, pos, cu⟩ := s
  cases hs <;> by_cases hc : c = 44 <;> by_cases hr : rt = .hasDesc <;>
    simp [Prog.run, Act.run, Cond.eval, Off.eval, Msg.kind, combHasRel_ws, hc, hr]

/-- The context a call from the token loop of `parse_selectors` supplies (`Gen.PyParseDisp.dispatch`'s `combine`
    branch passes `is_pseudo`, `is_forgive`, `index`). -/
def loopCtx (P : PEnv) (flags : Nat) (s : LS) (t : Token) : Ctx :=
  ⟨P, t, (flags &&& FLG_PSEUDO) != 0, (flags &&& FLG_FORGIVE) != 0, s.index⟩

/-- The two handler calls of the `combine` branch of the generated dispatch (`ParseDisp.runCombinator`, the
    meaning `C06GenDispatch.stepOf_gen` gives them) run the GENERATED handler bodies. -/
theorem runCombinator_gen (env : CharEnv) (L : Lexicon) (B : Builtins) (pattern : Str) (flags : Nat) (s : LS)
    (t : Token) (relative : Bool) (c : Call) :
    runCombinator env L B pattern flags s t relative c =
      if relative && c == ("parse_has_combinator", ["selectors", "rel_type", "index"], ["has_selector", "sel", "rel_type"]) then
        some (Gen.PyCombinators.parse_has_combinator.run ["has_selector", "sel", "rel_type"]
          (loopCtx ⟨env, L, B, pattern⟩ flags s t) s)
      else if !relative && c == ("parse_combinator", ["selectors", "relations", "is_pseudo", "is_forgive", "index"], ["has_selector", "sel"]) then
        some (Gen.PyCombinators.parse_combinator.run ["has_selector", "sel"] (loopCtx ⟨env, L, B, pattern⟩ flags s t) s)
      else none := by
  simp only [loopCtx, parse_combinator_eq, parse_has_combinator_eq]
  rfl

/-! ## Consumer key steps, about the generated definitions -/

/-- The generated constants are the characters the model compares with. -/
theorem consts : Gen.PyCombinators.WS_COMBINATOR = 32 ∧ Gen.PyCombinators.COMMA_COMBINATOR = 44 := ⟨rfl, rfl⟩

/-- C20 `offset_leading_comb` / `offset_double_comb`: a combinator with no selector before it raises "must have a
    selector before it" AT `index` (not at the token) -- unless it is a comma in a forgiving list. -/
theorem gen_needs_selector (x : Ctx) (s : LS) (hs : s.hasSelector = false)
    (h : x.isForgive = false ∨ combinatorOf x.P x.t ≠ 44) :
    Gen.PyCombinators.parse_combinator.run ["has_selector", "sel"] x s =
      .error ⟨.combinatorNeedsSelector, x.P.pattern, x.index⟩ := by
  obtain ⟨P, t, ip, ifg, ix⟩ := x
  rw [parse_combinator_eq]
  rcases h with h | h <;> simp_all [parseCombinator, PEnv.err]

/-- The forgiving empty slot (`:is(, a)`): a "no match" selector is appended and the pending relations are dropped. -/
theorem gen_forgiving_empty_slot (x : Ctx) (s : LS) (hs : s.hasSelector = false) (hf : x.isForgive = true)
    (hc : combinatorOf x.P x.t = 44) :
    Gen.PyCombinators.parse_combinator.run ["has_selector", "sel"] x s =
      .ok { s with selectors := s.selectors ++ [s.sel.setNoMatch], relations := [], sel := .empty, hasSelector := false } := by
  obtain ⟨P, t, ip, ifg, ix⟩ := x
  rw [parse_combinator_eq]
  simp_all [parseCombinator]

/-- C05 `denote_comma` / C09 `CompileCombStep`: the comma closes the compound -- implied `*` (only outside a pseudo-class
    and when no tag was given), the pending relations become ITS relations, it is appended to the list, and the
    pending relations are cleared. -/
theorem gen_comma (x : Ctx) (s : LS) (hs : s.hasSelector = true) (hc : combinatorOf x.P x.t = 44) :
    Gen.PyCombinators.parse_combinator.run ["has_selector", "sel"] x s =
      .ok { s with
        selectors := s.selectors ++
          [((if s.sel.tag.isNone && !x.isPseudo then s.sel.setTag ⟨[42], none⟩ else s.sel).addRelations s.relations)],
        relations := [], sel := .empty, hasSelector := false } := by
  obtain ⟨P, t, ip, ifg, ix⟩ := x
  rw [parse_combinator_eq]
  simp_all [parseCombinator]

/-- C09 `CompileCombStep`: any other combinator makes the closed compound (with `rel_type` = the combinator) the
    ONLY pending relation. -/
theorem gen_other_combinator (x : Ctx) (s : LS) (hs : s.hasSelector = true) (hc : combinatorOf x.P x.t ≠ 44) :
    Gen.PyCombinators.parse_combinator.run ["has_selector", "sel"] x s =
      .ok { s with
        relations :=
          [(((if s.sel.tag.isNone && !x.isPseudo then s.sel.setTag ⟨[42], none⟩ else s.sel).addRelations s.relations).setRelType
            (combRel (combinatorOf x.P x.t)))],
        sel := .empty, hasSelector := false } := by
  obtain ⟨P, t, ip, ifg, ix⟩ := x
  rw [parse_combinator_eq]
  simp_all [parseCombinator]

/-- Fix c35d1b9 (C01 `:has(, a)`): in a relative list a comma with no selector before it is a syntax error at `index`. -/
theorem gen_has_comma_needs_selector (x : Ctx) (s : LS) (hs : s.hasSelector = false) (hc : combinatorOf x.P x.t = 44) :
    Gen.PyCombinators.parse_has_combinator.run ["has_selector", "sel", "rel_type"] x s =
      .error ⟨.combinatorNeedsSelector, x.P.pattern, x.index⟩ := by
  obtain ⟨P, t, ip, ifg, ix⟩ := x
  rw [parse_has_combinator_eq]
  simp_all [parseHasCombinator, PEnv.err]

/-- A leading combinator of a relative selector is allowed exactly once: it becomes `rel_type`. -/
theorem gen_has_leading (x : Ctx) (s : LS) (hs : s.hasSelector = false) (hc : combinatorOf x.P x.t ≠ 44) :
    Gen.PyCombinators.parse_has_combinator.run ["has_selector", "sel", "rel_type"] x s =
      if s.relType != .hasDesc then .error ⟨.multipleCombinators, x.P.pattern, x.index⟩
      else .ok { s with relType := combHasRel (combinatorOf x.P x.t), sel := .empty, hasSelector := false } := by
  obtain ⟨P, t, ip, ifg, ix⟩ := x
  rw [parse_has_combinator_eq]
  simp_all [parseHasCombinator, PEnv.err]

/-- C06: the only exceptions the two handlers raise are the two `SelectorSyntaxError`s, at `index`, with the
    parser's own pattern. -/
theorem gen_errors (x : Ctx) (s : LS) (e : Err)
    (h : Gen.PyCombinators.parse_combinator.run ["has_selector", "sel"] x s = .error e ∨
         Gen.PyCombinators.parse_has_combinator.run ["has_selector", "sel", "rel_type"] x s = .error e) :
    (e.kind = .combinatorNeedsSelector ∨ e.kind = .multipleCombinators) ∧ e.pattern = x.P.pattern ∧ e.offset = x.index := by
  obtain ⟨P, t, ip, ifg, ix⟩ := x
  rw [parse_combinator_eq, parse_has_combinator_eq] at h
  rcases h with h | h
  · unfold parseCombinator at h
    simp only [] at h
    repeat' (split at h)
    all_goals first
      | (cases h; simp [PEnv.err])
      | cases h
  · unfold parseHasCombinator at h
    simp only [] at h
    repeat' (split at h)
    all_goals first
      | (cases h; simp [PEnv.err])
      | cases h

/-- Both handlers hand back a fresh compound and `has_selector = False`, and never touch `closed` / `index` / `pos`. -/
theorem gen_ok (x : Ctx) (s s' : LS)
    (h : Gen.PyCombinators.parse_combinator.run ["has_selector", "sel"] x s = .ok s' ∨
         Gen.PyCombinators.parse_has_combinator.run ["has_selector", "sel", "rel_type"] x s = .ok s') :
    s'.sel = .empty ∧ s'.hasSelector = false ∧ s'.closed = s.closed ∧ s'.index = s.index ∧ s'.pos = s.pos := by
  obtain ⟨P, t, ip, ifg, ix⟩ := x
  rw [parse_combinator_eq, parse_has_combinator_eq] at h
  rcases h with h | h
  · unfold parseCombinator at h
    simp only [] at h
    repeat' (split at h)
    all_goals first
      | (cases h; exact ⟨rfl, rfl, rfl, rfl, rfl⟩)
      | cases h
  · unfold parseHasCombinator at h
    simp only [] at h
    repeat' (split at h)
    all_goals first
      | (cases h; exact ⟨rfl, rfl, rfl, rfl, rfl⟩)
      | cases h

end C06GenComb
end SoupVerif
