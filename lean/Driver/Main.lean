/-
  Line-protocol driver over the executable models: one request per line (an s-expression),
  one response per line.  Only `SoupVerif.Model.*` and `SoupVerif.Generated.*` are imported, so
  this links without Mathlib.
-/
import SoupVerif.Model.Api
import SoupVerif.Model.Codec
import SoupVerif.Generated.Regexes
open SoupVerif

def wildStripImpl (s : Str) : Str :=
  Rx.subAll asciiEnv Gen.cm_RE_WILD_STRIP [45] (Rx.subAll asciiEnv Gen.cm_RE_WILD_TAIL [] s)

def mkEnv (bidiL bidiR : List Nat) : Env :=
  { env := asciiEnv,
    bidi := fun c => if bidiL.contains c then 1 else if bidiR.contains c then 2 else 0,
    wildStrip := wildStripImpl }

def optPath : Option Loc → Sx
  | some l => .list [Codec.path l]
  | none => .list []

/-- One query against (doc, selector, namespaces). -/
def runQuery (E : Env) (d : Doc) (sel : SelList) (ns : List (Str × Str)) : Sx → Sx
  | .list [.int op, p, arg] =>
    match p.toListOf? Sx.toNat? with
    | none => .int (-1)
    | some pth =>
      match d.locAt? pth with
      | none => .int (-2)
      | some tag =>
        if !tag.isTag then .int (-3) else
        match op with
        | 0 => .list ((select E d.isXml ns sel tag (arg.toInt?.getD 0)).map Codec.path)
        | 1 => Sx.ofBool (matchTagApi E d.isXml ns sel tag)
        | 2 => optPath (closest E d.isXml ns sel tag)
        | 3 => .list ((filterTag E d.isXml ns sel tag).map Codec.path)
        | 4 => optPath (selectOne E d.isXml ns sel tag)
        | _ => .int (-4)
  | _ => .int (-5)

def handle (req : Sx) : Sx :=
  match req with
  -- matcher service: (0 (bidiL bidiR) doc sel ns (queries))
  | .list [.int 0, .list [bl, br], d, s, n, .list qs] =>
    match bl.toListOf? Sx.toNat?, br.toListOf? Sx.toNat?, Codec.doc d, Codec.selList s, Codec.nsMap n with
    | some bl, some br, some d, some s, some n => .list (qs.map (runQuery (mkEnv bl br) d s n))
    | _, _, _, _, _ => .list [.int (-9)]
  | _ => .list [.int (-10)]

partial def loop (h : IO.FS.Stream) (out : IO.FS.Stream) : IO Unit := do
  let line ← h.getLine
  if line.isEmpty then return ()
  let resp := match Sx.parse line with
    | some req => handle req
    | none => .list [.int (-11)]
  out.putStrLn resp.render
  loop h out

def main : IO Unit := do
  let out ← IO.getStdout
  loop (← IO.getStdin) out
  out.flush
