/-
  Line-protocol driver over the executable models: one request per line (an s-expression),
  one response per line.  Only `SoupVerif.Model.*`, `SoupVerif.Generated.*` and the Mathlib-free
  `SoupVerif.Spec.RegexCost` / `SoupVerif.Spec.ParseCost` are imported, so this links without
  Mathlib.
-/
import SoupVerif.Model.Api
import SoupVerif.Model.Codec
import SoupVerif.Generated.Regexes
import SoupVerif.Generated.Lexicon
import SoupVerif.Model.Parser
import SoupVerif.Model.Escape
import SoupVerif.Model.Context
import SoupVerif.Model.Pretty
import SoupVerif.Model.Cache
import SoupVerif.Model.Memo
import SoupVerif.Spec.RegexCost
import SoupVerif.Spec.ParseCost
import SoupVerif.Model.Imports
import SoupVerif.Generated.Imports
open SoupVerif

def wildStripImpl (s : Str) : Str :=
  Rx.subAll asciiEnv Gen.cm_RE_WILD_STRIP [45] (Rx.subAll asciiEnv Gen.cm_RE_WILD_TAIL [] s)

def mkEnv (bidiL bidiR : List Nat) : Env :=
  { env := pyFoldEnv,
    bidi := fun c => if bidiL.contains c then 1 else if bidiR.contains c then 2 else 0,
    wildStrip := wildStripImpl }

def optPath : Option Loc → Sx
  | some l => .list [Codec.path l]
  | none => .list []

/-- One query against (doc, selector, namespaces). -/
def runQuery (E : Env) (d : Doc) (sel : SelList) (ns : List (Str × Str)) : Sx → Sx
  | .list [.int op, p, arg] =>
    match p.toListOf? Sx.toNat? with
    | none => .int (-1)
    | some pth =>
      match d.locAt? pth with
      | none => .int (-2)
      | some tag =>
        if !tag.isTag then .int (-3) else
        match op with
        | 0 => .list ((select E d.isXml ns sel tag (arg.toInt?.getD 0)).map Codec.path)
        | 1 => Sx.ofBool (matchTagApi E d.isXml ns sel tag)
        | 2 => optPath (closest E d.isXml ns sel tag)
        | 3 => .list ((filterTag E d.isXml ns sel tag).map Codec.path)
        | 4 => optPath (selectOne E d.isXml ns sel tag)
        | _ => .int (-4)
  | _ => .int (-5)

def errCode : Parser.ErrKind → Int
  | .undefinedCustom => 1 | .invalidPseudoSyntax => 2 | .unknownPseudo => 3 | .multipleCombinators => 4
  | .combinatorNeedsSelector => 5 | .expectedSelector => 6 | .unmatchedClose => 7 | .tagNotAtStart => 8
  | .unclosedPseudo => 9 | .malformedAttribute => 10 | .malformedClass => 11 | .malformedId => 12
  | .malformedPseudo => 13 | .invalidCharacter => 14 | .badCustomName => 15 | .atRule => 20 | .pseudoElement => 21
  | .customCollision => 30 | .pyBug _ => 99

def handle (req : Sx) : Sx :=
  match req with
  -- matcher service: (0 (bidiL bidiR) doc sel ns (queries))
  | .list [.int 0, .list [bl, br], d, s, n, .list qs] =>
    match bl.toListOf? Sx.toNat?, br.toListOf? Sx.toNat?, Codec.doc d, Codec.selList s, Codec.nsMap n with
    | some bl, some br, some d, some s, some n => .list (qs.map (runQuery (mkEnv bl br) d s n))
    | _, _, _, _, _ => .list [.int (-9)]
  -- nth service: (1 a b var (kinds) elIndex): kinds: 0 = not counted, 1 = counted
  | .list [.int 1, .int a, .int b, var, kinds, el] =>
    match var.toBool?, kinds.toListOf? Sx.toNat?, el.toNat? with
    | some var, some kinds, some el =>
      let walk : List (Nat × Nat) := (List.range kinds.length).zip kinds
      Sx.ofBool (Nth.matchOne (fun x => x.2 == 1) (fun x => x.1 == el) a b var walk)
    | _, _, _ => .int (-9)
  -- language filter service: (2 range tag)
  | .list [.int 2, r, t] =>
    match r.toStr?, t.toStr? with
    | some r, some t => Sx.ofBool (Lang.extendedFilter wildStripImpl r t)
    | _, _ => .int (-9)
  -- Inputs.parse_value service: (3 itype value)
  | .list [.int 3, ty, v] =>
    match ty.toStr?, v.toStr? with
    | some ty, some v =>
      match Inputs.parseValue ty v with
      | none => .list []
      | some (.ints l) => .list [.int 0, .list (l.map (fun n => .int (Int.ofNat n)))]
      | some (.num neg m e) => .list [.int 1, Sx.ofBool neg, .int (Int.ofNat m), .int e]
    | _, _ => .int (-9)
  -- Inputs.ltP on two parsed values of a type: (4 itype a b) -> (a<b) or () if either is invalid
  | .list [.int 4, ty, a, b] =>
    match ty.toStr?, a.toStr?, b.toStr? with
    | some ty, some a, some b =>
      match Inputs.parseValue ty a, Inputs.parseValue ty b with
      | some x, some y => .list [Sx.ofBool (Inputs.ltP x y)]
      | _, _ => .list []
    | _, _, _ => .int (-9)
  -- validators: (5 year week) / (6 year month day)
  | .list [.int 5, y, w] =>
    match y.toNat?, w.toNat? with
    | some y, some w => Sx.ofBool (Inputs.validateWeek y w)
    | _, _ => .int (-9)
  | .list [.int 6, y, m, d] =>
    match y.toNat?, m.toNat?, d.toNat? with
    | some y, some m, some d => Sx.ofBool (Inputs.validateDay y m d)
    | _, _, _ => .int (-9)
  -- parser service: (7 pattern ((name def) ...) parseFlags)
  | .list [.int 7, pat, .list customs, pf] =>
    let cs := customs.mapM fun
      | .list [k, v] => do pure (← k.toStr?, ← v.toStr?)
      | _ => none
    match pat.toStr?, cs, pf.toNat? with
    | some pat, some cs, some pf =>
      match Parser.compile pyFoldEnv Gen.lexicon Gen.builtinsRec pat cs pf with
      | .ok l => .list [.int 0, Codec.encSelList l]
      | .error e => .list [.int 1, .int (errCode e.kind), Sx.ofNat e.offset, Sx.ofStr e.pattern]
    | _, _, _ => .int (-9)
  -- escape / identifier scanner / css_unescape: (8 s) (9 s) (10 s)
  | .list [.int 8, t] =>
    match t.toStr? with
    | some t => Sx.ofStr (Escape.escape t)
    | none => .int (-9)
  | .list [.int 9, t] =>
    match t.toStr? with
    | some t => (match Escape.scanIdent t with
      | some (m, r) => .list [Sx.ofStr m, Sx.ofStr r]
      | none => .list [])
    | none => .int (-9)
  | .list [.int 10, t] =>
    match t.toStr? with
    | some t => .list [Sx.ofBool (Escape.cssUnescapeRaises t), Sx.ofStr (Escape.cssUnescape t)]
    | none => .int (-9)
  -- get_pattern_context: (11 pattern index)
  | .list [.int 11, pt, i] =>
    match pt.toStr?, i.toNat? with
    | some pt, some i =>
      let r := Context.getPatternContext pt i
      .list [Sx.ofStr r.1, Sx.ofNat r.2.1, Sx.ofNat r.2.2]
    | _, _ => .int (-9)
  -- pretty: (12 s)
  | .list [.int 12, t] =>
    match t.toStr? with
    | some t => Sx.ofStr (Pretty.pretty Pretty.pyEnv t)
    | none => .int (-9)
  -- LRU cache history: (13 N failFrom (ops)) ; op k >= 0 = compile key k (keys >= failFrom raise), -1 = purge
  | .list [.int 13, n, ff, .list ops] =>
    match n.toNat?, ff.toNat?, ops.mapM Sx.toInt? with
    | some n, some ff, some ops =>
      let parse : Nat → Except Unit Nat := fun k => if k ≥ ff then .error () else .ok k
      let step (acc : Cache.State Nat Nat × List Sx) (o : Int) : Cache.State Nat Nat × List Sx :=
        let st := if o < 0 then Cache.purge acc.1 else (Cache.compile n parse acc.1 o.toNat).1
        (st, acc.2 ++ [.list [Sx.ofNat st.hits, Sx.ofNat st.misses, Sx.ofNat st.currsize]])
      .list (ops.foldl step (Cache.State.empty, [])).2
    | _, _, _ => .int (-9)
  -- memo service: (14 (bidiL bidiR) doc ns scopePath (queries)); query (kind path (langs)): 0 default, 1 indeterminate, 2 lang
  -- answers: memoised run on one state AND the pure answers
  | .list [.int 14, .list [bl, br], d, n, sp, .list qs] =>
    match bl.toListOf? Sx.toNat?, br.toListOf? Sx.toNat?, Codec.doc d, Codec.nsMap n, sp.toListOf? Sx.toNat? with
    | some bl, some br, some d, some n, some sp =>
      match d.locAt? sp with
      | none => .int (-2)
      | some scope =>
        let c := mkCtx (mkEnv bl br) d.isXml n scope
        let toQ : Sx → Option Memo.Query
          | .list [.int k, p, .list langs] =>
            match p.toListOf? Sx.toNat?, langs.mapM Sx.toStr? with
            | some p, some langs =>
              (d.locAt? p).map fun l =>
                if k == 0 then Memo.Query.default l
                else if k == 1 then Memo.Query.indeterminate l
                else Memo.Query.lang l [⟨langs⟩]
            | _, _ => none
          | _ => none
        match qs.mapM toQ with
        | none => .int (-3)
        | some qs =>
          let enc : Memo.Answer → Sx
            | .bool b => Sx.ofBool b
            | .lang _ => .int (-1)
          .list [.list ((Memo.run c Memo.State.init qs).1.map enc), .list (qs.map (fun q => enc (Memo.pureAnswer c q)))]
    | _, _, _, _, _ => .int (-9)
  -- regex engine service: (15 regexName s i) -> (() | (end)) (paths work)
  | .list [.int 15, nm, t, i] =>
    match nm.toStr?, t.toStr?, i.toNat? with
    | some nm, some t, some i =>
      let name := String.mk (nm.map Char.ofNat)
      match Gen.allRegexes.find? (fun p => p.1 == name) with
      | none => .int (-4)
      | some (_, r) =>
        let m := Rx.matchAt pyFoldEnv r t i
        .list [Sx.ofOpt (fun (x : Nat × Caps) => Sx.ofNat x.1) m, Sx.ofNat (Rx.paths pyFoldEnv t r i), Sx.ofNat (Rx.work pyFoldEnv t r i)]
    | _, _, _ => .int (-9)
  -- import model: (16 (entry indices 0..7)) -> 1 if the sequence succeeds in a fresh interpreter, 0 otherwise
  | .list [.int 16, .list es] =>
    match es.mapM Sx.toNat? with
    | some es =>
      let eps := es.filterMap (fun i => Imports.entryPoints[i]?)
      match Imports.run Gen.Imports.graph Gen.Imports.entryIds (Imports.Interp.empty Gen.Imports.width) eps with
      | .ok st => .list [.int 1, Sx.ofBool st.allDone]
      | .error _ => .list [.int 0]
    | none => .int (-9)
  -- end-to-end service: (17 (bidiL bidiR) doc patternText ((name def) ...) ns (queries))
  --   -> (0 results...) when the pattern compiles in the parser model, (1 errcode offset) otherwise
  | .list [.int 17, .list [bl, br], d, pat, .list customs, n, .list qs] =>
    let cs := customs.mapM fun
      | .list [k, v] => do pure (← k.toStr?, ← v.toStr?)
      | _ => none
    match bl.toListOf? Sx.toNat?, br.toListOf? Sx.toNat?, Codec.doc d, pat.toStr?, cs, Codec.nsMap n with
    | some bl, some br, some d, some pat, some cs, some n =>
      match Parser.compile pyFoldEnv Gen.lexicon Gen.builtinsRec pat cs 0 with
      | .ok l => .list [.int 0, .list (qs.map (runQuery (mkEnv bl br) d l n))]
      | .error e => .list [.int 1, .int (errCode e.kind), Sx.ofNat e.offset]
    | _, _, _, _, _, _ => .list [.int (-9)]
  -- parser cost: (19 pattern ((name def) ...)) -> (steps cost): iterations of the `parse_selectors` loop
  --   (calls of `next(iselector)`, nested lists and custom definitions included) and regex work, Python folding
  | .list [.int 19, pat, .list customs] =>
    let cs := customs.mapM fun
      | .list [k, v] => do pure (← k.toStr?, ← v.toStr?)
      | _ => none
    match pat.toStr?, cs with
    | some pat, some cs =>
      .list [Sx.ofNat (ParseCost.compileSteps pyFoldEnv Gen.lexicon Gen.builtinsRec pat cs 0),
             Sx.ofNat (ParseCost.compileCost pyFoldEnv Gen.lexicon Gen.builtinsRec pat cs 0)]
    | _, _ => .int (-9)
  -- number of backtracking paths only: (21 regexName s i)
  | .list [.int 21, nm, t, i] =>
    match nm.toStr?, t.toStr?, i.toNat? with
    | some nm, some t, some i =>
      let name := String.mk (nm.map Char.ofNat)
      match Gen.allRegexes.find? (fun p => p.1 == name) with
      | none => .int (-4)
      | some (_, r) => Sx.ofNat (Rx.paths pyFoldEnv t r i)
    | _, _, _ => .int (-9)
  -- per-regex verdict of the C07 analysis: (18 regexName) -> (StarSafe Det) under Python's folding
  | .list [.int 18, nm] =>
    match nm.toStr? with
    | some nm =>
      let name := String.mk (nm.map Char.ofNat)
      match Gen.allRegexes.find? (fun p => p.1 == name) with
      | none => .int (-4)
      | some (_, r) => .list [Sx.ofBool (Rx.StarSafe foldSpecials r), Sx.ofBool (Rx.Det foldSpecials r)]
    | none => .int (-9)
  | _ => .list [.int (-10)]

partial def loop (h : IO.FS.Stream) (out : IO.FS.Stream) : IO Unit := do
  let line ← h.getLine
  if line.isEmpty then return ()
  let resp := match Sx.parse line with
    | some req => handle req
    | none => .list [.int (-11)]
  out.putStrLn resp.render
  loop h out

def main : IO Unit := do
  let out ← IO.getStdout
  loop (← IO.getStdin) out
  out.flush
