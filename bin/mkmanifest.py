#!/usr/bin/env python3
"""Regenerate MANIFEST.json from the table below (kept in one place so it stays valid)."""
import json
import os

ROOT = os.path.abspath(os.path.join(os.path.dirname(__file__), '..'))

NOTE_COMMON = ('Trusted base: Lean 4.33.0 kernel; axioms propext / Classical.choice / Quot.sound only (audited by '
               '#print axioms on every run; no native_decide, bv_decide, sorry or user axioms); the translators in gen/; '
               'the correspondence harness (agreement PY = Model holds on the explored cases only); CPython, bs4 and its '
               'parsers are parameters of the model. ')

# pid -> (technique, level text, design ref, level note)
CLAIMED = {
    'C01': ('Lean 4 theorems (match_eq_sat, select_exact: matcher model = CSS specification for every tree and selector of the grammar) + differential correspondence PY = model',
            'Properties/C01*.lean prove, for every finite tree and every selector AST of the stated grammar (any nesting), that the IR the parser builds is matched by the matcher model exactly when an independently written CSS specification (quantifiers over parent / ancestor / sibling / descendant element sets, string predicates for the attribute operators incl. the regex templates) says so, that select returns exactly those descendants in document order, that the document object is never a parent/ancestor and that empty ^= $= *= match nothing. The model is tied to /repo on every run: data (regexes, built-in selector lists, tables, class/wrapper/import/effect facts) is regenerated from the source by gen/*.py so the theorems are re-checked against it, and the hand-written model is run by the compiled Lean driver on the same generated inputs as the real library and the outputs are compared. Correspondence: select/match on generated (document, selector, target) cases, IR equality of rendered ASTs.',
            'DESIGN.md §3 C01', NOTE_COMMON),
    'C02': ('Lean 4 theorem matchOne_iff (three-loop model of match_nth = exists n>=0: A*n+B = position, all integers A,B, all walks) + brute-force oracle sweep + correspondence',
            'Properties/C02.lean proves for the loop-for-loop model of match_nth, all integers A and B, all sibling walks with any interleaving of uncounted nodes, that the element matches iff some n >= 0 gives A*n+B = its 1-based position among counted siblings; uncounted nodes are irrelevant; keyword forms coincide. The model is tied to /repo on every run: data (regexes, built-in selector lists, tables, class/wrapper/import/effect facts) is regenerated from the source by gen/*.py so the theorems are re-checked against it, and the hand-written model is run by the compiled Lean driver on the same generated inputs as the real library and the outputs are compared. The real select is also compared with a brute-force exists-n oracle over all sibling sequences up to a length.',
            'DESIGN.md §3 C02', NOTE_COMMON),
    'C03': ('Lean 4 theorems about the API model (select = filter of pre-order descendants, limit = take, select_one = head?, closest = find? on ancestors, filter, scope) + generated wrapper-forwarding facts by decide + correspondence',
            'Properties/C03.lean and C03Wrappers.lean prove the entry-point relations for every selector, tree, target and limit on the model (no duplicates, document order, never the target, never the document), and, on data regenerated from __init__.py, that all six module-level functions forward pattern, namespaces, flags and custom= to compile and call the same-named method. The model is tied to /repo on every run: data (regexes, built-in selector lists, tables, class/wrapper/import/effect facts) is regenerated from the source by gen/*.py so the theorems are re-checked against it, and the hand-written model is run by the compiled Lean driver on the same generated inputs as the real library and the outputs are compared. The relations are additionally evaluated on the real entry points.',
            'DESIGN.md §3 C03', NOTE_COMMON),
    'C04': ('Lean 4 theorems: memo tables as a state machine, invariant + transparency + history independence by induction over query lists; correspondence of the memoised functions and call histories',
            'Properties/C04.lean models the three per-call memo tables (meta language, default forms, indeterminate groups) as a state machine and proves, for every list of queries, that each answer equals the pure answer (invariant preserved by every step); the side condition for radio groups is discharged from the guard of the generated built-in selector. Non-mutation is structural in the model; on the real code serialisation, attrs and node identities are compared before/after. The model is tied to /repo on every run: data (regexes, built-in selector lists, tables, class/wrapper/import/effect facts) is regenerated from the source by gen/*.py so the theorems are re-checked against it, and the hand-written model is run by the compiled Lean driver on the same generated inputs as the real library and the outputs are compared. ',
            'DESIGN.md §3 C04', NOTE_COMMON),
    'C05': ('Lean 4 theorems on the IR for the whole grammar (list union, negation = complement, sub-list = conjunction, monotonicity, HTML-only context local to its list) + Boolean laws evaluated on PY + correspondence',
            'Properties/C05.lean proves the Boolean laws of selector lists at IR level, hence for every pseudo-class, namespace form and custom alias, every tree and context. The model is tied to /repo on every run: data (regexes, built-in selector lists, tables, class/wrapper/import/effect facts) is regenerated from the source by gen/*.py so the theorems are re-checked against it, and the hand-written model is run by the compiled Lean driver on the same generated inputs as the real library and the outputs are compared. The laws are also evaluated on the real select for generated pairs from the whole grammar on html/html5/xhtml/xml documents with iframes and foreign content.',
            'DESIGN.md §3 C05', NOTE_COMMON),
    'C06': ('Lean 4 theorems about the parser model driven by the regenerated token regexes (token progress from non-nullability, fuel independence, compile_no_pybug, error offsets in range, unescape never yields an invalid code point) + outcome correspondence on exhaustive short strings and mutations',
            'Properties/C06.lean proves for every pattern and custom map that the parser model returns a selector list or one of the documented error kinds, never an internal failure, with every error offset inside the pattern; token regexes regenerated from the source are shown non-nullable by kernel evaluation. The model is tied to /repo on every run: data (regexes, built-in selector lists, tables, class/wrapper/import/effect facts) is regenerated from the source by gen/*.py so the theorems are re-checked against it, and the hand-written model is run by the compiled Lean driver on the same generated inputs as the real library and the outputs are compared. Outcome correspondence (same IR or same raise site, line, column, context) on all strings up to a length over a 35-symbol alphabet, truncations, mutations, boundary escapes and custom maps.',
            'DESIGN.md §3 C06', NOTE_COMMON),
    'C07': ('PARTIAL: Lean 4 theorems all_safe (decidable unambiguity check on every regenerated regex, by kernel evaluation), ends_nodup, work_poly, tokenize_poly for a backtracking-engine model; engine correspondence with CPython re; pump-family timing',
            "Properties/C07.lean proves, for a list-of-successes backtracking matcher, that every regular expression extracted from the source on this run passes a syntactic unambiguity check (StarSafe) and that StarSafe implies a polynomial bound on the number of sub-match attempts for every input. PARTIAL: that CPython's sre does no more work than exhaustive backtracking of the same AST is trusted; wall-clock time, memory and the GIL are not modelled. The model is tied to /repo on every run: data (regexes, built-in selector lists, tables, class/wrapper/import/effect facts) is regenerated from the source by gen/*.py so the theorems are re-checked against it, and the hand-written model is run by the compiled Lean driver on the same generated inputs as the real library and the outputs are compared. The engine model is compared with re.match on every extracted regex, and real compile() times on 29 pump families must grow polynomially.",
            'DESIGN.md §3 C07', NOTE_COMMON),
    'C08': ('Lean 4 theorems (leaf functions with explicit CPython exceptions are total on parser-shaped trees; exact characterisation of when match_range raises; normalisation total) + exception-freedom sweep of all entry points on hostile trees + correspondence',
            'Properties/C08.lean proves that the only partial primitives of the matcher model (lower-casing / parsing of type, min, max, value) succeed whenever those attributes are not sequences, characterises exactly when they raise, and that value normalisation is total for None / bytes / numbers / nested lists; all other model functions are total. The model is tied to /repo on every run: data (regexes, built-in selector lists, tables, class/wrapper/import/effect facts) is regenerated from the source by gen/*.py so the theorems are re-checked against it, and the hand-written model is run by the compiled Lean driver on the same generated inputs as the real library and the outputs are compared. Every entry point is run on generated trees with hostile string content and odd API values; any exception other than TypeError for a non-Tag target is a violation.',
            'DESIGN.md §3 C08', NOTE_COMMON),
    'C09': ('Lean 4 component theorems for every spelling (any escape form decodes to the same code points and scans as one identifier, gaps of whitespace/comments are skipped, keyword case is irrelevant to every consumer in the parser model, quote style irrelevant) + respelling relation evaluated on PY + parser correspondence; the end-to-end compile_spelling_invariant is stated but NOT proved',
            'Properties/C09.lean proves, for all inputs, the lexical lemmas on which spelling-invariance rests (65 theorems). The end-to-end statement through the regex engine is kept as an unproved comment; the hand scanners are tied to the regexes by differential testing. The model is tied to /repo on every run: data (regexes, built-in selector lists, tables, class/wrapper/import/effect facts) is regenerated from the source by gen/*.py so the theorems are re-checked against it, and the hand-written model is run by the compiled Lean driver on the same generated inputs as the real library and the outputs are compared. The relation itself (all spellings of one token sequence compile to == structures and select the same elements) is evaluated on the real parser over the whole grammar with every gap filler, escape form, quote style and case mask.',
            'DESIGN.md §3 C09', NOTE_COMMON),
    'C10': ('Lean 4 theorems escape_scan, unescape_escape, escape_inert for every list of code points (surrogates, controls, astral) + round trip on PY for every code point + correspondence of escape / IDENTIFIER / css_unescape',
            'Properties/C10.lean proves for every non-empty string that escape(s) followed by any non-continuing text is scanned as exactly one identifier whose unescaped value is s with NUL replaced, contains no NUL or newline, and does not reach into the following text. The empty string is a recorded finding. The model is tied to /repo on every run: data (regexes, built-in selector lists, tables, class/wrapper/import/effect facts) is regenerated from the source by gen/*.py so the theorems are re-checked against it, and the hand-written model is run by the compiled Lean driver on the same generated inputs as the real library and the outputs are compared. The round trip is also run on the real parser for every code point in six positions.',
            'DESIGN.md §3 C10', NOTE_COMMON),
    'C11': ('Lean 4 theorems on the matcher model (HTML names fold, XML exact, value templates exact / case-insensitive, type attribute rule, HTML-only lists never match in plain XML) + rules evaluated on five parser materialisations + correspondence',
            'Properties/C11.lean proves the case rules for every element, selector name and value. The model is tied to /repo on every run: data (regexes, built-in selector lists, tables, class/wrapper/import/effect facts) is regenerated from the source by gen/*.py so the theorems are re-checked against it, and the hand-written model is run by the compiled Lean driver on the same generated inputs as the real library and the outputs are compared. One logical tree is materialised by html.parser, lxml, html5lib, as XHTML and XML; the rules are evaluated on the real select and the model is run on what each parser stored.',
            'DESIGN.md §3 C11', NOTE_COMMON),
    'C12': ("Lean 4 theorems on the matcher model (every namespace form of type and attribute selectors as an explicit find?/iff over URIs and the caller's map; document prefixes irrelevant) + independent oracle on namespaced XML/HTML5 documents + correspondence",
            'Properties/C12.lean proves the namespace semantics for every element, prefix map and selector form. The model is tied to /repo on every run: data (regexes, built-in selector lists, tables, class/wrapper/import/effect facts) is regenerated from the source by gen/*.py so the theorems are re-checked against it, and the hand-written model is run by the compiled Lean driver on the same generated inputs as the real library and the outputs are compared. ',
            'DESIGN.md §3 C12', NOTE_COMMON),
    'C13': ('Lean 4 theorems (model loop = RFC 4647 3.3.2 algorithm = declarative embedding characterisation, wildcard stripping, case-insensitivity, edge rules) + exhaustive (range, tag) grid vs an RFC reference + documents with lang placements',
            'Properties/C13.lean proves for all ranges and tags that the filter equals RFC 4647 extended filtering plus the two edge rules, that greedy matching is complete w.r.t. a declarative characterisation, and that the text-level wildcard strip equals the subtag-level one. The model is tied to /repo on every run: data (regexes, built-in selector lists, tables, class/wrapper/import/effect facts) is regenerated from the source by gen/*.py so the theorems are re-checked against it, and the hand-written model is run by the compiled Lean driver on the same generated inputs as the real library and the outputs are compared. ',
            'DESIGN.md §3 C13', NOTE_COMMON),
    'C14': ('PARTIAL: Lean 4 theorems noninterference (every schedule of threads without shared-slot access = running alone, by induction on the schedule) + shared_slots_empty / tree_writes_fresh_only by decide on stores regenerated from the source; controlled line-level schedules on real threads',
            "Properties/C14.lean proves that when no step reads or writes a shared slot (only the atomic cache API) every interleaving gives each thread its sequential result, and, on data regenerated from the source, that no such store exists. PARTIAL: switches inside a source line, free-threaded builds and lru_cache's C lock are trusted. The model is tied to /repo on every run: data (regexes, built-in selector lists, tables, class/wrapper/import/effect facts) is regenerated from the source by gen/*.py so the theorems are re-checked against it, and the hand-written model is run by the compiled Lean driver on the same generated inputs as the real library and the outputs are compared. Real threads are suspended after every traced line of a compile/select while another thread runs to completion.",
            'DESIGN.md §3 C14', NOTE_COMMON),
    'C15': ('Lean 4 theorems: object protocol driven by class facts regenerated from the source (frozen, eq/hash/pickle shapes by decide; ops_preserve by induction), LRU cache refinement to a pure function (cache_transparent, cache_bounded, lru_spec) + object/cache histories on PY vs the model',
            'Properties/C15.lean proves on regenerated class data that every IR class refuses setattr/delattr, compares all slots, hashes values only and pickles through its constructor arguments; that no operation sequence changes a value; and that the LRU machine returns parse(k) after any history, never exceeds its bound and is emptied by purge. The model is tied to /repo on every run: data (regexes, built-in selector lists, tables, class/wrapper/import/effect facts) is regenerated from the source by gen/*.py so the theorems are re-checked against it, and the hand-written model is run by the compiled Lean driver on the same generated inputs as the real library and the outputs are compared. cache_info() of the real cache is compared with the model after every operation of random histories with evictions.',
            'DESIGN.md §3 C15', NOTE_COMMON),
    'C16': ('PARTIAL: Lean 4 theorems any_order_ok / final_state_order_independent (import state machine over event lists regenerated from soupsieve and the installed bs4, by induction on the statement sequence + kernel evaluation) + exhaustive fresh-interpreter matrix',
            'Properties/C16.lean proves that every sequence of the eight import statements succeeds and ends in the same fully initialised state on the regenerated import-time event graph. PARTIAL: import-time attribute uses inside called functions are over-approximated by a call graph; only the installed bs4 is available. The model is tied to /repo on every run: data (regexes, built-in selector lists, tables, class/wrapper/import/effect facts) is regenerated from the source by gen/*.py so the theorems are re-checked against it, and the hand-written model is run by the compiled Lean driver on the same generated inputs as the real library and the outputs are compared. Every sequence up to length 2 (3 thorough) runs in a fresh interpreter with -W error.',
            'DESIGN.md §3 C16', NOTE_COMMON),
    'C17': ('Lean 4 theorems about the built-in selector lists regenerated from the live module (shape facts by rfl, partition laws, definitional laws, iframe locality, dir partition) + laws evaluated on PY under three HTML parsers + correspondence',
            'Properties/C17.lean proves the partition and definition laws for every HTML document and element on the generated IR of the thirteen built-ins and the :dir walk. The model is tied to /repo on every run: data (regexes, built-in selector lists, tables, class/wrapper/import/effect facts) is regenerated from the source by gen/*.py so the theorems are re-checked against it, and the hand-written model is run by the compiled Lean driver on the same generated inputs as the real library and the outputs are compared. ',
            'DESIGN.md §3 C17', NOTE_COMMON),
    'C18': ('Lean 4 theorems (validators and parse_value = first-principles calendar/grammar specification for all years; exact characterisation of the recorded week-53 finding; order = calendar order) + calendar oracle sweep + correspondence',
            'Properties/C18.lean and C18Range.lean prove validity and ordering against an independent proleptic-Gregorian / ISO-8601 specification for every year >= 1 and every string; the week rule is proved in its exact (deviating) form with the negation witness 2019-W53 and a _partial theorem under the precise guard. The model is tied to /repo on every run: data (regexes, built-in selector lists, tables, class/wrapper/import/effect facts) is regenerated from the source by gen/*.py so the theorems are re-checked against it, and the hand-written model is run by the compiled Lean driver on the same generated inputs as the real library and the outputs are compared. ',
            'DESIGN.md §3 C18', NOTE_COMMON),
    'C19': ('Lean 4 theorems (the next_good skip loop over el.descendants = structural traversal; text / own text / contains / empty = structural specification; special strings never text) + structural oracle on API-built trees + correspondence',
            'Properties/C19.lean proves for every tree with any interleaving of the seven node kinds that the text pseudo-classes see exactly the structurally defined content and that the iframe-skipping loop equals the structural walk. The model is tied to /repo on every run: data (regexes, built-in selector lists, tables, class/wrapper/import/effect facts) is regenerated from the source by gen/*.py so the theorems are re-checked against it, and the hand-written model is run by the compiled Lean driver on the same generated inputs as the real library and the outputs are compared. ',
            'DESIGN.md §3 C19', NOTE_COMMON),
    'C20': ('Lean 4 theorems (get_pattern_context line/col/context for every pattern and offset incl. the end; pretty terminates and round-trips modulo whitespace for every string) + independent oracle, alarm-guarded pretty runs, DEBUG equality + correspondence',
            'Properties/C20.lean proves ctx_line, ctx_col, ctx_text for all patterns and offsets (CRLF exception stated), and for the pretty-printer termination by a decreasing measure and the whitespace round trip for every input string. The model is tied to /repo on every run: data (regexes, built-in selector lists, tables, class/wrapper/import/effect facts) is regenerated from the source by gen/*.py so the theorems are re-checked against it, and the hand-written model is run by the compiled Lean driver on the same generated inputs as the real library and the outputs are compared. ',
            'DESIGN.md §3 C20', NOTE_COMMON),
}

REASONS_PENDING = 'check not built yet (work in progress; see DESIGN.md §3)'


def main():
    props = [json.loads(l)['id'] for l in open(os.path.join(ROOT, 'properties.jsonl'))]
    checks = []
    for pid in props:
        if pid not in CLAIMED:
            continue
        tech, text, ref, note = CLAIMED[pid]
        checks.append({
            'property_id': pid,
            'quick_cmd': f'bin/check {pid} quick',
            'thorough_cmd': f'bin/check {pid} thorough',
            'evidence_file': f'evidence/{pid}.json',
            'replay_cmd_template': f'bin/check {pid} --replay {{path}}',
            'engine': 'lean4-soupverif',
            'level_claimed': {'category': 'proof', 'text': text, 'design_ref': ref},
            'level_note': note,
            'technique': tech,
        })
    m = {
        'version': 1,
        'setup_cmd': 'bin/setup',
        'hooks': {
            'guard': 'SOUPSIEVE_VERIF',
            'enable': 'no source hooks are needed (IR objects, regexes and caches are reachable through public attributes); the guard name is reserved',
            'baseline_off_cmd': 'cd /repo && /venv/bin/python -m pytest -q -p no:cacheprovider',
            'source_commits': [],
            'add_only': True,
        },
        'engines': [{
            'name': 'lean4-soupverif', 'path': 'lean',
            'serves_properties': sorted(CLAIMED),
            'kind_free_text': 'Lean 4 model + spec + theorems (lake project SoupVerif), translators gen/*.py, '
                              'correspondence harness harness/*.py, entry point bin/check',
        }],
        'checks': checks,
        'not_applicable': [{'property_id': p, 'reason': REASONS_PENDING} for p in props if p not in CLAIMED],
        'notes': 'See DESIGN.md. Fixes of genuine defects are the "fix:" commits in /repo; known findings are in known_findings.json.',
    }
    with open(os.path.join(ROOT, 'MANIFEST.json'), 'w') as f:
        json.dump(m, f, indent=1)
    print('claimed', sorted(CLAIMED))


if __name__ == '__main__':
    main()
