#!/usr/bin/env python3
"""Regenerate MANIFEST.json from the table below (kept in one place so it stays valid)."""
import json
import os

ROOT = os.path.abspath(os.path.join(os.path.dirname(__file__), '..'))

NOTE_COMMON = ('Trusted base: Lean 4.33.0 kernel; axioms propext / Classical.choice / Quot.sound only (audited by '
               '#print axioms on every run; no native_decide, bv_decide, sorry or user axioms); the translators in gen/; '
               'the correspondence harness (agreement PY = Model holds on the explored cases only); CPython, bs4 and its '
               'parsers are parameters of the model. ')

# pid -> (technique, level text, design ref, level note)
CLAIMED = {
    'C01': ('Lean 4 theorems about the matcher model + differential correspondence PY select/match = model',
            'Theorems in lean/SoupVerif/Properties/C01.lean hold for every tree, selector IR and call target (no bound). '
            'The model is hand-written; it is tied to /repo on every run by running sv.select/match and the compiled Lean '
            'model on the same generated (document, selector, target) cases and comparing the returned element paths.',
            'DESIGN.md §3 C01', NOTE_COMMON),
}

REASONS_PENDING = 'check not built yet (work in progress; see DESIGN.md §3)'


def main():
    props = [json.loads(l)['id'] for l in open(os.path.join(ROOT, 'properties.jsonl'))]
    checks = []
    for pid in props:
        if pid not in CLAIMED:
            continue
        tech, text, ref, note = CLAIMED[pid]
        checks.append({
            'property_id': pid,
            'quick_cmd': f'bin/check {pid} quick',
            'thorough_cmd': f'bin/check {pid} thorough',
            'evidence_file': f'evidence/{pid}.json',
            'replay_cmd_template': f'bin/check {pid} --replay {{path}}',
            'engine': 'lean4-soupverif',
            'level_claimed': {'category': 'proof', 'text': text, 'design_ref': ref},
            'level_note': note,
            'technique': tech,
        })
    m = {
        'version': 1,
        'setup_cmd': 'bin/setup',
        'hooks': {
            'guard': 'SOUPSIEVE_VERIF',
            'enable': 'no source hooks are needed (IR objects, regexes and caches are reachable through public attributes); the guard name is reserved',
            'baseline_off_cmd': 'cd /repo && /venv/bin/python -m pytest -q -p no:cacheprovider',
            'source_commits': [],
            'add_only': True,
        },
        'engines': [{
            'name': 'lean4-soupverif', 'path': 'lean',
            'serves_properties': sorted(CLAIMED),
            'kind_free_text': 'Lean 4 model + spec + theorems (lake project SoupVerif), translators gen/*.py, '
                              'correspondence harness harness/*.py, entry point bin/check',
        }],
        'checks': checks,
        'not_applicable': [{'property_id': p, 'reason': REASONS_PENDING} for p in props if p not in CLAIMED],
        'notes': 'See DESIGN.md. Fixes of genuine defects are the "fix:" commits in /repo; known findings are in known_findings.json.',
    }
    with open(os.path.join(ROOT, 'MANIFEST.json'), 'w') as f:
        json.dump(m, f, indent=1)
    print('claimed', sorted(CLAIMED))


if __name__ == '__main__':
    main()
