#!/usr/bin/env python3
"""Write seeded/README.md from seeded/*/meta.json and seeded/RESULTS.json (produced by bin/seedall),
and record in each meta.json what was run to confirm the change."""
import glob
import json
import os

ROOT = os.path.dirname(os.path.dirname(os.path.abspath(__file__)))
res = json.load(open(os.path.join(ROOT, 'seeded', 'RESULTS.json')))
rows = []
for d in sorted(glob.glob(os.path.join(ROOT, 'seeded', '*', ''))):
    sid = os.path.basename(d.rstrip('/'))
    mp = os.path.join(d, 'meta.json')
    if not os.path.exists(mp):
        continue
    m = json.load(open(mp))
    r = res.get(sid, {})
    m['confirmed_by'] = ('bin/seedtest seeded/%s: demo.py on the clean /repo (rc %s), `git -C /repo apply patch.diff`, the repository test suite '
                         '(%s), demo.py on the changed tree (rc %s), `bin/check %s quick` (rc %s), `git -C /repo checkout -- .`'
                         % (sid, r.get('demo_rc_clean'), r.get('repo_tests_with_change'), r.get('demo_rc_changed'), m['property'], r.get('check_rc')))
    json.dump(m, open(mp, 'w'), indent=1, ensure_ascii=False)
    rows.append((sid, m, r))
out = ['# Seeded changes', '',
       'Each directory holds one change to soupsieve written by a fresh sub-agent that was given only the text of one property and a',
       'scratch worktree of `/repo` (nothing from `/verif`): `patch.diff` (applies to `/repo` HEAD), `demo.py` (exits 0 on the clean tree, 1',
       'on the changed tree, run as `PYTHONPATH=/repo /venv/bin/python demo.py`), `meta.json` (property, what the change does, what it needs to',
       'manifest, how it was confirmed). Every change compiles and passes the unedited 381-test suite. `-a` … `-g` = rounds 1 … 7 (from round 2 on',
       'the agents were asked to differ in mechanism from what earlier rounds had produced; a later round sees only a list of over-used',
       'mechanisms, never the checks). `bin/seedall` re-runs all of them and rewrites `RESULTS.json` (first seed only, `VERIF_ESCALATE_S=0`, so the',
       'table shows what ONE draw of the generators finds; the checks as registered repeat with further seeds on a changed tree);',
       '`bin/seedtest <dir>` runs one. `bin/seedall` may run in isolated-copy mode (a copy of /verif and a clone of /repo, `SOUPVERIF_REPO`).',
       '', 'Result of the last `bin/seedall` run (quick tier, default seed): **%d of %d changes are reported by the check of their property, %d of them with a concrete failing input.**'
       % (sum(1 for _, _, r in rows if r.get('check_rc') == 1), len(rows),
          sum(1 for _, _, r in rows if r.get('check_rc') == 1 and not r.get('without_failing_input'))),
       '', '| seed | property | what the change does | needs | tests | demo clean/changed | check |', '|---|---|---|---|---|---|---|']
for sid, m, r in rows:
    verdict = {1: 'VIOLATION' + (' (no-failing-input-found)' if r.get('without_failing_input') and r.get('violation_lines_shown') == r.get('without_failing_input') else ' with replay'),
               0: '**missed**'}.get(r.get('check_rc'), 'error')
    out.append('| %s | %s | %s | %s | %s | %s/%s | %s |' % (sid, m['property'], m['summary'].replace('|', '\\|'), m['needs'].replace('|', '\\|')[:400],
                                                          r.get('repo_tests_with_change'), r.get('demo_rc_clean'), r.get('demo_rc_changed'), verdict))
out += ['', '## What had to be strengthened', '',
        open(os.path.join(ROOT, 'seeded', 'STRENGTHENED.md')).read() if os.path.exists(os.path.join(ROOT, 'seeded', 'STRENGTHENED.md')) else '']
open(os.path.join(ROOT, 'seeded', 'README.md'), 'w').write('\n'.join(out) + '\n')
print(len(rows), 'seeds')
