"""Emit compiled selector IR objects (css_types) as Lean terms of SoupVerif.Model.IR."""
import rx

REL = {None: '.none', ' ': '.desc', '>': '.child', '~': '.sib', '+': '.adj',
       ': ': '.hasDesc', ':>': '.hasChild', ':~': '.hasSib', ':+': '.hasAdj'}


def s(text):
    return '[' + ', '.join(str(ord(c)) for c in text) + ']'


def opt_s(v):
    return 'none' if v is None else f'(some {s(v)})'


def lb(x):
    return 'true' if x else 'false'


class IREmitter:
    def __init__(self, rx_emitter):
        self.rx = rx_emitter

    def count(self, sl):
        """Pre-pass: count regex sub-trees for sharing."""
        from soupsieve import css_types as ct
        for x in sl.selectors:
            if type(x) is ct.SelectorNull:
                continue
            for a in x.attributes:
                for p in (a.pattern, a.xml_type_pattern):
                    if p is not None:
                        self.rx.count(rx.parse(p)[0])
            for n in x.nth:
                self.count(n.selectors)
            for y in x.selectors:
                self.count(y)
            self.count(x.relation)

    def pat(self, p):
        if p is None:
            return 'none'
        return f'(some ({self.rx.term(rx.parse(p)[0])}))'

    def sel_list(self, sl):
        return f'(SelList.mk [{", ".join(self.selector(x) for x in sl.selectors)}] {lb(sl.is_not)} {lb(sl.is_html)})'

    def selector(self, x):
        from soupsieve import css_types as ct
        if type(x) is ct.SelectorNull:
            return 'Sel.null'
        tag = 'none' if x.tag is None else f'(some ⟨{s(x.tag.name)}, {opt_s(x.tag.prefix)}⟩)'
        attrs = ', '.join(f'⟨{s(a.attribute)}, {s(a.prefix)}, {self.pat(a.pattern)}, {self.pat(a.xml_type_pattern)}⟩'
                          for a in x.attributes)
        nth = ', '.join(f'(NthSel.mk ({n.a}) {lb(n.n)} ({n.b}) {lb(n.of_type)} {lb(n.last)} {self.sel_list(n.selectors)})'
                        for n in x.nth)
        subs = ', '.join(self.sel_list(y) for y in x.selectors)
        contains = ', '.join(f'⟨[{", ".join(s(t) for t in c.text)}], {lb(c.own)}⟩' for c in x.contains)
        lang = ', '.join(f'⟨[{", ".join(s(t) for t in l.languages)}]⟩' for l in x.lang)
        return (f'(Sel.mk {tag} [{", ".join(s(i) for i in x.ids)}] [{", ".join(s(i) for i in x.classes)}] [{attrs}] '
                f'[{nth}] [{subs}] {self.sel_list(x.relation)} {REL[x.rel_type]} [{contains}] [{lang}] {x.flags})')
