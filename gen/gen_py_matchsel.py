"""Regenerate lean/SoupVerif/Generated/PyMatchSel.lean from the SOURCE TEXT (ast) of
`CSSMatch.match_selectors` in $SOUPVERIF_REPO/soupsieve/css_match.py.

The function is translated into three terms of the types of `SoupVerif/Model/MatchChecks.lean`:

  checks : List Check   the chain `if [<guard> and] [not] self.<test>(el[, <arg>]): continue`, in source order
                        guard = `selector.flags & <K>` | `selector.<field>` | nothing
                        arg   = `selector.<field>` | `selector.flags & <K>` | nothing
                        <K>   = a constant expression (`ct.SEL_X`, `RANGES`, `A | B`, an int literal): emitted as the
                                INTEGER the live module evaluates it to
  loop  : LoopShape     `match = <v>` / `if isinstance(selector, ct.SelectorNull): continue` / chain / `match = <v>` / `break`
  frame : Frame         `match = <bool>`; the two local bindings of `selectors.is_not` / `selectors.is_html`;
                        `if <cond>: <save / set / restore of self.namespaces, self.iframe_restrict>` blocks before the loop block,
                        INSIDE the loop block after the `for`, and after the loop block (kept apart: where the restoring block
                        stands is what seeded change C05-g moves); the condition of the loop block; `return match`

Supported Python (everything else raises `Unsupported`, i.e. the translator FAILS CLOSED; gen_all reports FAILED and the
pipeline treats the proof side as broken):
  statements   `x = <expr>` (single Name target), `self.<attr> = <expr>`, `if <test>: <body>` WITHOUT else/elif,
               `for <name> in <selectors param>:` WITHOUT else, `continue`, `break`, `return <name>`; a leading docstring
  expressions  names, `self.<attr>`, `<param>.<attr>`, `not`, `and`, `or`, `&`, `|`, int/bool/str constants,
               `{<str>: <str>, …}`, `self.<method>(el[, arg])`, `isinstance(<loop var>, ct.SelectorNull)`
in exactly the positions described above.  Comments, docstrings, annotations, blank lines and the NAMES of the parameters and
locals do not reach the output (locals are numbered in order of first assignment).

SECOND HALF (leaf functions `match_namespace`, `match_tagname`, `match_tag`, `match_id`, `match_classes`): a shallow
translation, one Lean `def` per function over the dynamic values / operators of `SoupVerif/Model/MatchDyn.lean`
(see `LeafTranslator`).

Test, field and attribute names are emitted as constructors (`.match_tag`, `.ids`, `.namespaces`): a name the Lean side
does not know makes the generated file fail to compile.
"""
import ast
import os
import sys

REPO = os.environ.get('SOUPVERIF_REPO', '/repo')
SRC = os.path.join(REPO, 'soupsieve', 'css_match.py')
CLASS = 'CSSMatch'
FUNC = 'match_selectors'


class Unsupported(Exception):
    pass


def fail(node, why):
    where = f'line {getattr(node, "lineno", "?")}' if node is not None else ''
    text = ''
    if node is not None:
        try:
            text = ast.unparse(node)
        except Exception:
            text = repr(node)
    raise Unsupported(f'{FUNC}: {why} {where}: ' + ' '.join(text.split())[:200])


def lean_s(text):
    return '[' + ', '.join(str(ord(ch)) for ch in text) + ']'


def lb(b):
    return 'true' if b else 'false'


def ident(name, node):
    """A Python identifier used as a Lean constructor name."""
    if not name.isidentifier() or not name.isascii():
        fail(node, f'name {name!r} cannot be emitted')
    return name


def strip_doc(body):
    if body and isinstance(body[0], ast.Expr) and isinstance(body[0].value, ast.Constant) \
            and isinstance(body[0].value.value, str):
        return body[1:]
    return body


def find_function(tree):
    found = []
    for node in tree.body:
        if isinstance(node, ast.ClassDef) and node.name == CLASS:
            for item in node.body:
                if isinstance(item, (ast.FunctionDef, ast.AsyncFunctionDef)) and item.name == FUNC:
                    found.append(item)
    if len(found) != 1:
        raise Unsupported(f'{CLASS}.{FUNC}: expected exactly one definition, found {len(found)}')
    fn = found[0]
    if not isinstance(fn, ast.FunctionDef):
        fail(fn, 'async def')
    if fn.decorator_list:
        fail(fn, 'decorated')
    a = fn.args
    if a.posonlyargs or a.kwonlyargs or a.vararg or a.kwarg or a.defaults or a.kw_defaults or len(a.args) != 3:
        fail(fn, 'parameters are not (self, el, selectors)')
    return fn


class Translator:
    def __init__(self, fn, module):
        self.fn = fn
        self.m = module                     # the live css_match module (constants only)
        self.self_, self.el, self.sels = [x.arg for x in fn.args.args]
        self.locals = {}                    # name -> ('match',) | ('isNot',) | ('isHtml',) | ('slot', n) | ('loopvar',)
        self.nslots = 0
        self.selector = None                # loop variable
        # every name the function assigns anywhere is a local for the WHOLE function (Python scoping)
        self.assigned = {n.id for n in ast.walk(fn) if isinstance(n, ast.Name) and isinstance(n.ctx, (ast.Store, ast.Del))}
        self.assigned |= {self.self_, self.el, self.sels}

    # ------------------------------------------------------------ names
    def is_name(self, e, name):
        return isinstance(e, ast.Name) and e.id == name

    def is_self_attr(self, e):
        return isinstance(e, ast.Attribute) and self.is_name(e.value, self.self_)

    def bind(self, name, kind, node):
        if name in (self.self_, self.el, self.sels):
            fail(node, f'assignment to parameter {name!r}')
        old = self.locals.get(name)
        if old is not None and old != kind:
            fail(node, f'local {name!r} is rebound to a different kind of value')
        self.locals[name] = kind

    def kind(self, e):
        if isinstance(e, ast.Name):
            return self.locals.get(e.id)
        return None

    # ------------------------------------------------------------ constants
    def const_int(self, e):
        """An integer constant expression, evaluated with the live module's globals."""
        if isinstance(e, ast.Constant) and type(e.value) is int:
            return e.value
        if isinstance(e, ast.Name):
            if e.id in self.assigned:
                fail(e, 'local used as a mask')
            v = getattr(self.m, e.id, None)
            if type(v) is not int:
                fail(e, 'not an integer constant of css_match')
            return v
        if isinstance(e, ast.Attribute) and isinstance(e.value, ast.Name):
            mod = e.value.id
            if mod in self.assigned:
                fail(e, 'attribute of a local used as a mask')
            import types
            obj = getattr(self.m, mod, None)
            if not isinstance(obj, types.ModuleType):
                fail(e, f'{mod!r} is not a module imported by css_match')
            v = getattr(obj, e.attr, None)
            if type(v) is not int:
                fail(e, 'not an integer constant')
            return v
        if isinstance(e, ast.BinOp) and isinstance(e.op, (ast.BitOr, ast.BitAnd)):
            a, b = self.const_int(e.left), self.const_int(e.right)
            return (a | b) if isinstance(e.op, ast.BitOr) else (a & b)
        fail(e, 'unsupported mask expression')

    def nat(self, v, node):
        if v < 0:
            fail(node, 'negative mask')
        return str(v)

    def const_str(self, e):
        if isinstance(e, ast.Constant) and type(e.value) is str:
            return e.value
        if isinstance(e, ast.Name) and e.id not in self.assigned:
            v = getattr(self.m, e.id, None)
            if type(v) is str:
                return v
        fail(e, 'not a string constant')

    # ------------------------------------------------------------ the chain
    def selector_field(self, e):
        """`selector.<field>` -> field name."""
        if isinstance(e, ast.Attribute) and self.is_name(e.value, self.selector):
            return ident(e.attr, e)
        return None

    def flags_and(self, e):
        """`selector.flags & K` (either operand order) -> K."""
        if isinstance(e, ast.BinOp) and isinstance(e.op, ast.BitAnd):
            if self.selector_field(e.left) == 'flags':
                return self.const_int(e.right)
            if self.selector_field(e.right) == 'flags':
                return self.const_int(e.left)
        return None

    def guard(self, e):
        k = self.flags_and(e)
        if k is not None:
            return f'.flag {self.nat(k, e)}'
        f = self.selector_field(e)
        if f is not None:
            return f'.field .{f}'
        fail(e, 'unsupported guard')

    def arg(self, e):
        k = self.flags_and(e)
        if k is not None:
            return f'.flagsAnd {self.nat(k, e)}'
        f = self.selector_field(e)
        if f is not None:
            return f'.field .{f}'
        fail(e, 'unsupported argument')

    def test_call(self, e):
        """`[not] self.<test>(el[, arg])` -> (negated, test, arg)."""
        negated = False
        if isinstance(e, ast.UnaryOp) and isinstance(e.op, ast.Not):
            negated = True
            e = e.operand
        if not (isinstance(e, ast.Call) and self.is_self_attr(e.func) and not e.keywords):
            fail(e, 'expected self.<test>(el[, arg])')
        if not (1 <= len(e.args) <= 2) or not self.is_name(e.args[0], self.el):
            fail(e, 'expected self.<test>(el[, arg])')
        arg = '.none' if len(e.args) == 1 else self.arg(e.args[1])
        return negated, ident(e.func.attr, e), arg

    def check(self, st):
        if not (isinstance(st, ast.If) and not st.orelse and len(st.body) == 1 and isinstance(st.body[0], ast.Continue)):
            fail(st, 'expected `if …: continue`')
        t = st.test
        if isinstance(t, ast.BoolOp):
            if not (isinstance(t.op, ast.And) and len(t.values) == 2):
                fail(st, 'expected `<guard> and [not] self.<test>(…)`')
            g = self.guard(t.values[0])
            negated, test, arg = self.test_call(t.values[1])
        else:
            g = '.always'
            negated, test, arg = self.test_call(t)
        return f'⟨{g}, {lb(negated)}, .{test}, {arg}⟩'

    def match_val(self, e):
        if self.kind(e) == ('isNot',):
            return '.isNot'
        if isinstance(e, ast.UnaryOp) and isinstance(e.op, ast.Not) and self.kind(e.operand) == ('isNot',):
            return '.notIsNot'
        if isinstance(e, ast.Constant) and type(e.value) is bool:
            return f'(.const {lb(e.value)})'
        fail(e, 'unsupported value for the verdict variable')

    def is_match_assign(self, st):
        return isinstance(st, ast.Assign) and len(st.targets) == 1 and self.kind(st.targets[0]) == ('match',)

    def is_null_test(self, st):
        if not (isinstance(st, ast.If) and not st.orelse and len(st.body) == 1 and isinstance(st.body[0], ast.Continue)):
            return False
        t = st.test
        if not (isinstance(t, ast.Call) and self.is_name(t.func, 'isinstance') and not t.keywords and len(t.args) == 2):
            return False
        if 'isinstance' in self.assigned or getattr(self.m, 'isinstance', isinstance) is not isinstance:
            fail(st, '`isinstance` is shadowed')
        if not self.is_name(t.args[0], self.selector):
            return False
        c = t.args[1]
        if not (isinstance(c, ast.Attribute) and isinstance(c.value, ast.Name) and c.attr == 'SelectorNull'):
            return False
        import types
        mod = getattr(self.m, c.value.id, None)
        ct = sys.modules.get(self.m.__package__ + '.css_types')
        if not isinstance(mod, types.ModuleType) or mod is not ct or c.value.id in self.assigned:
            fail(st, 'SelectorNull is not css_types.SelectorNull')
        return True

    def loop(self, st):
        if st.orelse:
            fail(st, '`for … else`')
        if not isinstance(st.target, ast.Name) or not self.is_name(st.iter, self.sels):
            fail(st, 'expected `for <name> in <selectors parameter>`')
        self.bind(st.target.id, ('loopvar',), st)
        self.selector = st.target.id
        body = list(st.body)
        if not body or not self.is_match_assign(body[0]):
            fail(st, 'loop body does not start with an assignment to the verdict variable')
        init = self.match_val(body[0].value)
        body = body[1:]
        null_continue = False
        if body and self.is_null_test(body[0]):
            null_continue = True
            body = body[1:]
        breaks = False
        if body and isinstance(body[-1], ast.Break):
            breaks = True
            body = body[:-1]
        if not body or not self.is_match_assign(body[-1]):
            fail(st, 'loop body does not end with an assignment to the verdict variable [+ break]')
        on_pass = self.match_val(body[-1].value)
        checks = [self.check(s) for s in body[:-1]]
        return init, null_continue, checks, on_pass, breaks

    # ------------------------------------------------------------ the frame
    def self_attr_name(self, e):
        if self.is_self_attr(e):
            return ident(e.attr, e)
        return None

    def bexpr(self, e):
        k = self.kind(e)
        if k == ('isHtml',):
            return '.isHtml'
        if k == ('isNot',):
            return '.isNot'
        if self.self_attr_name(e) == 'is_html':
            return '.selfIsHtml'
        if isinstance(e, ast.Constant) and type(e.value) is bool:
            return f'(.const {lb(e.value)})'
        if isinstance(e, ast.UnaryOp) and isinstance(e.op, ast.Not):
            return f'(.not {self.bexpr(e.operand)})'
        if isinstance(e, ast.BoolOp):
            op = '.and' if isinstance(e.op, ast.And) else '.or'
            vals = [self.bexpr(v) for v in e.values]
            out = vals[-1]
            for v in reversed(vals[:-1]):
                out = f'({op} {v} {out})'
            return out
        fail(e, 'unsupported condition')

    def attr_val(self, e):
        if isinstance(e, ast.Constant) and type(e.value) is bool:
            return f'(.flag {lb(e.value)})'
        if isinstance(e, ast.Dict):
            items = []
            for k, v in zip(e.keys, e.values):
                if k is None:
                    fail(e, '`**` in a dict display')
                items.append(f'({lean_s(self.const_str(k))}, {lean_s(self.const_str(v))})')
            # Python keeps the LAST value of a repeated key, the model's lookup finds the FIRST pair
            keys = [self.const_str(k) for k in e.keys]
            if len(set(keys)) != len(keys):
                fail(e, 'repeated key in a dict display')
            return f'(.ns [{", ".join(items)}])'
        fail(e, 'unsupported value assigned to an attribute of self')

    def act(self, st):
        if not (isinstance(st, ast.Assign) and len(st.targets) == 1):
            fail(st, 'expected a simple assignment')
        tgt, val = st.targets[0], st.value
        if isinstance(tgt, ast.Name):
            a = self.self_attr_name(val)
            if a is None:
                fail(st, 'a frame local must be bound to an attribute of self')
            k = self.locals.get(tgt.id)
            if k is None:
                k = ('slot', self.nslots)
                self.nslots += 1
            if k[0] != 'slot':
                fail(st, f'{tgt.id!r} is not a frame local')
            self.bind(tgt.id, k, st)
            return f'.save {k[1]} .{a}'
        a = self.self_attr_name(tgt)
        if a is None:
            fail(st, 'unsupported assignment target')
        k = self.kind(val)
        if k is not None and k[0] == 'slot':
            return f'.restore .{a} {k[1]}'
        return f'.set .{a} {self.attr_val(val)}'

    def if_acts(self, st):
        if not isinstance(st, ast.If) or st.orelse or not st.body:
            fail(st, 'expected `if <cond>: <assignments>` without else')
        cond = self.bexpr(st.test)
        return f'⟨{cond}, [{", ".join(self.act(s) for s in st.body)}]⟩'

    def is_loop_block(self, st):
        return isinstance(st, ast.If) and any(isinstance(s, ast.For) for s in st.body)

    def function(self):
        body = strip_doc(list(self.fn.body))
        # the three leading bindings, in any order, each exactly once:
        #   `<verdict> = True/False`, `<a> = selectors.is_not`, `<b> = selectors.is_html`
        seen = {}
        while body and isinstance(body[0], ast.Assign) and len(body[0].targets) == 1 \
                and isinstance(body[0].targets[0], ast.Name):
            st, name, val = body[0], body[0].targets[0].id, body[0].value
            if isinstance(val, ast.Constant) and type(val.value) is bool:
                key, kind = 'verdict', ('match',)
                init_match = val.value
            elif isinstance(val, ast.Attribute) and self.is_name(val.value, self.sels) and val.attr in ('is_not', 'is_html'):
                key, kind = val.attr, {'is_not': ('isNot',), 'is_html': ('isHtml',)}[val.attr]
            else:
                fail(st, 'unsupported leading assignment')
            if key in seen or name in self.locals:
                fail(st, 'repeated leading assignment')
            seen[key] = True
            self.bind(name, kind, st)
            body = body[1:]
        if set(seen) != {'verdict', 'is_not', 'is_html'}:
            fail(body[0] if body else self.fn,
                 'expected `<verdict> = True/False`, `<a> = selectors.is_not` and `<b> = selectors.is_html` first')
        # `return <verdict>`
        if not (body and isinstance(body[-1], ast.Return) and body[-1].value is not None
                and self.kind(body[-1].value) == ('match',)):
            fail(body[-1] if body else self.fn, 'expected `return <verdict>` last')
        body = body[:-1]
        idx = [i for i, s in enumerate(body) if self.is_loop_block(s)]
        if len(idx) != 1:
            fail(self.fn, f'expected exactly one `if <cond>: for …` block, found {len(idx)}')
        i = idx[0]
        pre = [self.if_acts(s) for s in body[:i]]
        blk = body[i]
        if blk.orelse:
            fail(blk, '`else` on the loop block')
        guard = self.bexpr(blk.test)
        if not isinstance(blk.body[0], ast.For):
            fail(blk.body[0], 'statement before the loop inside the loop block')
        lp = self.loop(blk.body[0])
        in_guard_post = [self.if_acts(s) for s in blk.body[1:]]
        post = [self.if_acts(s) for s in body[i + 1:]]
        return init_match, pre, guard, in_guard_post, post, lp


# =====================================================================================================================
# Second half: the leaf functions, as Lean definitions over `PyMatchSel.PV` (Model/MatchDyn.lean)
# =====================================================================================================================
#
# Supported Python (anything else raises):
#   statements   `x = <expr>`; `if <expr>: … [elif …] [else: …]` whose branches only assign ONE local (already bound)
#                through assignments and nested `if`s; `if <optional-tag parameter> is not None: …` (same restriction;
#                becomes a `match`); `for x in <expr>: if <expr>: <local> = <expr not using x>; break`;
#                a final `return <expr>`; a leading docstring
#   expressions  None / True / False / str constants; locals; the sequence parameter; `tag.name`, `tag.prefix`;
#                `self.is_xml`; `not`, `and`, `or`; ONE comparison `==`, `!=`, `is None`, `is not None`,
#                `in` / `not in` (tuple display or expression); `A if C else B`; the calls listed in ACCESSORS;
#                `util.lower(<expr>)`; calls of an already translated leaf `self.<leaf>(el, <tag parameter>)`
# Locals are named x0, x1, … in order of first assignment; parameters are (c : Ctx) (e : Elem) (p : …).

LEAVES = [                       # in dependency order; kind of the third parameter
    ('match_namespace', 'tag'),
    ('match_tagname', 'tag'),
    ('match_tag', 'opttag'),
    ('match_id', 'strs'),
    ('match_classes', 'strs'),
]
PARAM_TYPE = {'tag': 'SelTag', 'opttag': 'Option SelTag', 'strs': 'List Str'}
# self.<method>(el, *args) -> (Lean function, number of further arguments)
ACCESSORS = {
    'get_tag_ns': ('pyTagNs', 0),
    'get_tag': ('pyGetTag', 0),
    'get_attribute_by_name': ('pyAttrByName', 2),
    'get_classes': ('pyGetClasses', 0),
}


class LeafTranslator:
    def __init__(self, fn, module, kind, done):
        self.fn = fn
        self.name = fn.name
        self.m = module
        self.kind3 = kind
        self.done = done                                  # {leaf name: kind of its third parameter}
        a = fn.args
        if a.posonlyargs or a.kwonlyargs or a.vararg or a.kwarg or a.defaults or a.kw_defaults or len(a.args) != 3 \
                or fn.decorator_list or not isinstance(fn, ast.FunctionDef):
            self.fail(fn, 'parameters are not (self, el, <x>) / decorated')
        self.self_, self.el, self.p3 = [x.arg for x in a.args]
        self.assigned = {n.id for n in ast.walk(fn) if isinstance(n, ast.Name) and isinstance(n.ctx, (ast.Store, ast.Del))}
        if self.assigned & {self.self_, self.el, self.p3}:
            self.fail(fn, 'assignment to a parameter')
        self.slots = {}                                   # local -> index

    def fail(self, node, why):
        text = ''
        try:
            text = ' '.join(ast.unparse(node).split())[:200]
        except Exception:
            pass
        raise Unsupported(f'{self.name}: {why} line {getattr(node, "lineno", "?")}: {text}')

    # ------------------------------------------------------------ expressions
    def is_name(self, e, name):
        return isinstance(e, ast.Name) and e.id == name

    def global_ok(self, name):
        return name not in self.assigned and name not in (self.self_, self.el, self.p3)

    def ex(self, e, env):
        """env: {python local: lean name}, plus '#p3' -> kind of the third parameter here ('tag' after narrowing)."""
        if isinstance(e, ast.Constant):
            v = e.value
            if v is None:
                return '.none'
            if type(v) is bool:
                return f'(.bool {lb(v)})'
            if type(v) is str:
                return f'(.str {lean_s(v)})'
            self.fail(e, 'unsupported constant')
        if isinstance(e, ast.Name):
            if e.id in env:
                return env[e.id]
            if e.id == self.p3 and env['#p3'] == 'strs':
                return '(.strs p)'
            self.fail(e, 'unsupported name (unbound local, or a parameter used as a value)')
        if isinstance(e, ast.Attribute):
            if self.is_name(e.value, self.p3) and env['#p3'] == 'tag' and e.attr in ('name', 'prefix'):
                return '(pyTagName p)' if e.attr == 'name' else '(pyTagPrefix p)'
            if self.is_name(e.value, self.self_) and e.attr == 'is_xml':
                return '(pyIsXml c)'
            self.fail(e, 'unsupported attribute access')
        if isinstance(e, ast.UnaryOp) and isinstance(e.op, ast.Not):
            return f'(pyNot {self.ex(e.operand, env)})'
        if isinstance(e, ast.BoolOp):
            op = 'pyAnd' if isinstance(e.op, ast.And) else 'pyOr'
            vals = [self.ex(v, env) for v in e.values]
            out = vals[-1]
            for v in reversed(vals[:-1]):
                out = f'({op} {v} {out})'
            return out
        if isinstance(e, ast.IfExp):
            return f'(PV.ite {self.ex(e.test, env)} {self.ex(e.body, env)} {self.ex(e.orelse, env)})'
        if isinstance(e, ast.Compare):
            if len(e.ops) != 1:
                self.fail(e, 'chained comparison')
            op, l, r = e.ops[0], e.left, e.comparators[0]
            if isinstance(op, (ast.Is, ast.IsNot)):
                if not (isinstance(r, ast.Constant) and r.value is None):
                    self.fail(e, '`is` with something other than None')
                return f'({"pyIsNone" if isinstance(op, ast.Is) else "pyIsNotNone"} {self.ex(l, env)})'
            if isinstance(op, (ast.Eq, ast.NotEq)):
                return f'({"pyEq" if isinstance(op, ast.Eq) else "pyNe"} {self.ex(l, env)} {self.ex(r, env)})'
            if isinstance(op, (ast.In, ast.NotIn)):
                neg = 'Not' if isinstance(op, ast.NotIn) else ''
                if isinstance(r, ast.Tuple):
                    if any(isinstance(x, ast.Starred) for x in r.elts):
                        self.fail(e, 'starred item')
                    return f'(py{neg}InTuple {self.ex(l, env)} [{", ".join(self.ex(x, env) for x in r.elts)}])'
                return f'(py{neg}In {self.ex(l, env)} {self.ex(r, env)})'
            self.fail(e, 'unsupported comparison')
        if isinstance(e, ast.Call):
            return self.call(e, env)
        self.fail(e, 'unsupported expression')

    def call(self, e, env):
        if e.keywords or any(isinstance(a, ast.Starred) for a in e.args):
            self.fail(e, 'keyword / starred arguments')
        f = e.func
        # util.lower(x)
        if isinstance(f, ast.Attribute) and isinstance(f.value, ast.Name) and f.value.id == 'util' and f.attr == 'lower':
            import types
            util = getattr(self.m, 'util', None)
            real = sys.modules.get(self.m.__package__ + '.util')
            if not self.global_ok('util') or not isinstance(util, types.ModuleType) or util is not real or len(e.args) != 1:
                self.fail(e, '`util.lower` is not soupsieve.util.lower / wrong arity')
            return f'(pyLower {self.ex(e.args[0], env)})'
        # self.namespaces.get(k)
        if isinstance(f, ast.Attribute) and f.attr == 'get' and isinstance(f.value, ast.Attribute) \
                and self.is_name(f.value.value, self.self_) and f.value.attr == 'namespaces':
            if len(e.args) != 1:
                self.fail(e, '`self.namespaces.get` with a default')
            return f'(pyNsGet c {self.ex(e.args[0], env)})'
        # self.<method>(el, …)
        if isinstance(f, ast.Attribute) and self.is_name(f.value, self.self_):
            if not e.args or not self.is_name(e.args[0], self.el):
                self.fail(e, 'first argument is not the element')
            if f.attr in ACCESSORS:
                lean, n = ACCESSORS[f.attr]
                if len(e.args) != 1 + n:
                    self.fail(e, 'wrong number of arguments')
                return '(' + ' '.join([lean, 'c', 'e'] + [self.ex(a, env) for a in e.args[1:]]) + ')'
            if f.attr in self.done:
                if len(e.args) != 2 or not self.is_name(e.args[1], self.p3) or env['#p3'] != self.done[f.attr]:
                    self.fail(e, 'a translated leaf must be called as self.<leaf>(el, <parameter of the same kind>)')
                return f'({f.attr} c e p)'
        self.fail(e, 'unsupported call')

    # ------------------------------------------------------------ statements
    def slot(self, name):
        if name not in self.slots:
            self.slots[name] = len(self.slots)
        return f'x{self.slots[name]}'

    def assigned_in(self, stmts):
        return {n.id for st in stmts for n in ast.walk(st) if isinstance(n, ast.Name) and isinstance(n.ctx, ast.Store)}

    def is_narrowing(self, test, env):
        return env['#p3'] == 'opttag' and isinstance(test, ast.Compare) and len(test.ops) == 1 \
            and isinstance(test.ops[0], ast.IsNot) and self.is_name(test.left, self.p3) \
            and isinstance(test.comparators[0], ast.Constant) and test.comparators[0].value is None

    def branch(self, stmts, env, var, ind):
        """Value of local `var` after a branch that only assigns `var` (assignments and nested ifs)."""
        if not stmts:
            return env[var]
        st, rest = stmts[0], stmts[1:]
        pad = '  ' * ind
        if isinstance(st, ast.Assign):
            if not (len(st.targets) == 1 and self.is_name(st.targets[0], var)):
                self.fail(st, 'a branch may only assign the one local of its `if`')
            if not rest:
                return self.ex(st.value, env)
            return f'\n{pad}let {env[var]} : PV := {self.ex(st.value, env)}\n{pad}{self.branch(rest, env, var, ind).lstrip()}'
        if isinstance(st, ast.If):
            val = self.if_value(st, env, var, ind)
            if not rest:
                return val
            return f'\n{pad}let {env[var]} : PV := {val}\n{pad}{self.branch(rest, env, var, ind).lstrip()}'
        self.fail(st, 'unsupported statement in a branch')

    def if_value(self, st, env, var, ind):
        """`if …` statement as the new value of `var`."""
        if self.is_narrowing(st.test, env):
            if st.orelse:
                self.fail(st, '`else` on a narrowing `if`')
            env2 = dict(env)
            env2['#p3'] = 'tag'
            pad = '  ' * (ind + 1)
            br = self.branch(st.body, env2, var, ind + 2)
            return f'(match p with\n{pad}| none => {env[var]}\n{pad}| some p =>{"" if br.startswith(chr(10)) else " "}{br})'
        a = self.branch(st.body, env, var, ind + 1)
        b = self.branch(st.orelse, env, var, ind + 1)
        return f'(PV.ite {self.ex(st.test, env)} {a} {b})'

    def body(self, stmts, env, ind=1):
        pad = '  ' * ind
        if not stmts:
            self.fail(self.fn, 'no return')
        st, rest = stmts[0], stmts[1:]
        if isinstance(st, ast.Return):
            if rest or st.value is None:
                self.fail(st, '`return` must be last and return a value')
            return pad + self.ex(st.value, env)
        if isinstance(st, ast.Assign):
            if not (len(st.targets) == 1 and isinstance(st.targets[0], ast.Name)):
                self.fail(st, 'unsupported assignment')
            val = self.ex(st.value, env)
            env = dict(env)
            env[st.targets[0].id] = self.slot(st.targets[0].id)
            return f'{pad}let {env[st.targets[0].id]} : PV := {val}\n' + self.body(rest, env, ind)
        if isinstance(st, ast.If):
            names = self.assigned_in([st])
            if len(names) != 1 or not (names <= set(env)):
                self.fail(st, 'an `if` statement must assign exactly one local, bound before it')
            var = next(iter(names))
            return f'{pad}let {env[var]} : PV := {self.if_value(st, env, var, ind)}\n' + self.body(rest, env, ind)
        if isinstance(st, ast.For):
            # for x in SEQ: if COND: V = VAL; break
            if st.orelse or not isinstance(st.target, ast.Name) or len(st.body) != 1:
                self.fail(st, 'unsupported loop')
            inner = st.body[0]
            if not (isinstance(inner, ast.If) and not inner.orelse and len(inner.body) == 2
                    and isinstance(inner.body[0], ast.Assign) and len(inner.body[0].targets) == 1
                    and isinstance(inner.body[0].targets[0], ast.Name) and isinstance(inner.body[1], ast.Break)):
                self.fail(st, 'expected `for x in …: if …: <local> = …; break`')
            var = inner.body[0].targets[0].id
            x = st.target.id
            if var not in env or var == x or x in env:
                self.fail(st, 'the loop must set a local bound before it; the loop variable must be fresh')
            if any(isinstance(n, ast.Name) and n.id == x for n in ast.walk(inner.body[0].value)):
                self.fail(st, 'the assigned value depends on the loop variable')
            seq = self.ex(st.iter, env)
            env_in = dict(env)
            env_in[x] = self.slot(x)
            cond = self.ex(inner.test, env_in)
            val = self.ex(inner.body[0].value, env)
            # after the loop the loop variable stays bound in Python; it is not made available here (a later use raises)
            return (f'{pad}let {env[var]} : PV := PV.ite (pyAny {seq} (fun {env_in[x]} => {cond})) {val} {env[var]}\n'
                    + self.body(rest, env, ind))
        self.fail(st, 'unsupported statement')

    def translate(self):
        stmts = strip_doc(list(self.fn.body))
        term = self.body(stmts, {'#p3': self.kind3})
        return (f'def {self.name} (c : Ctx) (e : Elem) (p : {PARAM_TYPE[self.kind3]}) : PV :=\n{term}\n')


def find_method(tree, name):
    found = [item for node in tree.body if isinstance(node, ast.ClassDef) and node.name == CLASS
             for item in node.body if isinstance(item, (ast.FunctionDef, ast.AsyncFunctionDef)) and item.name == name]
    if len(found) != 1:
        raise Unsupported(f'{CLASS}.{name}: expected exactly one definition, found {len(found)}')
    return found[0]


def translate_leaves(tree, module):
    out, done = [], {}
    for name, kind in LEAVES:
        fn = find_method(tree, name)
        out.append(f'/-- `{CLASS}.{name}` -/\n' + LeafTranslator(fn, module, kind, done).translate())
        done[name] = kind
    return out


def translate(src_path=SRC):
    with open(src_path, encoding='utf-8') as f:
        text = f.read()
    tree = ast.parse(text)
    fn = find_function(tree)
    from soupsieve import css_match as cm
    if not os.path.samefile(cm.__file__, src_path):
        raise Unsupported(f'the imported soupsieve.css_match ({cm.__file__}) is not {src_path}')
    tr = Translator(fn, cm)
    leaves = translate_leaves(tree, cm)
    init_match, pre, guard, in_guard_post, post, (init, null_continue, checks, on_pass, breaks) = tr.function()

    def lst(xs, indent='  '):
        if not xs:
            return '[]'
        return '[\n' + ',\n'.join(indent + x for x in xs) + ']'

    lines = [
        '/- GENERATED by gen/gen_py_matchsel.py from the source text of `CSSMatch.match_selectors`',
        '   (soupsieve/css_match.py). Do not edit. -/',
        'import SoupVerif.Model.MatchChecks',
        'import SoupVerif.Model.MatchDyn',
        'namespace SoupVerif.Gen.PyMatchSel',
        'open SoupVerif SoupVerif.PyMatchSel',
        '',
        '/-- the chain of `if [<guard> and] [not] self.<test>(el[, <arg>]): continue`, in source order -/',
        f'def checks : List PyMatchSel.Check := {lst(checks)}',
        '',
        '/-- the body of `for selector in selectors:` around the chain -/',
        'def loop : PyMatchSel.LoopShape :=',
        f'  {{ init := {init}, nullContinue := {lb(null_continue)}, checks := checks, onPass := {on_pass}, breaks := {lb(breaks)} }}',
        '',
        '/-- the function body around the loop -/',
        'def frame : PyMatchSel.Frame :=',
        f'  {{ initMatch := {lb(init_match)},',
        f'    pre := {lst(pre, "      ")},',
        f'    loopGuard := {guard},',
        f'    inGuardPost := {lst(in_guard_post, "      ")},',
        f'    post := {lst(post, "      ")} }}',
        '',
        '/-! ### leaf functions (shallow translation over `PyMatchSel.PV`, Model/MatchDyn.lean) -/',
        '',
        '\n'.join(leaves),
        'end SoupVerif.Gen.PyMatchSel',
    ]
    return '\n'.join(lines) + '\n', len(checks)


def main(dest):
    text, n = translate()
    old = open(dest).read() if os.path.exists(dest) else None
    if old != text:
        with open(dest, 'w') as f:
            f.write(text)
    return f'{n} checks, {len(LEAVES)} leaf functions'


if __name__ == '__main__':
    print(main(sys.argv[1]))
