"""Regenerate Generated/PyPseudoOpen.lean: `CSSParser.parse_pseudo_open` translated from the SOURCE TEXT of
soupsieve/css_parser.py with `ast` (no hand copy, no import of the module).

What is emitted

* `openFlags : Str → Nat` : the flag computation
      `<fl> = FLG_A | FLG_B …; if name == '…': <fl> |= FLG_X; elif name in ('…', '…'): <fl> |= FLG_Y …`
  as an if-chain on the name, in source order, with the NUMERIC values of the `FLG_*` constants (the integer literals of
  their module-level assignments) and the names as written (code points).  A branch that is absent in the source is
  simply not emitted.  `openFlagConsts` / `openBranches` record the constant names and the names of each branch.
* the checked FRAME, as data: `subParse` (callee, arguments), `appendTarget`, `setsHasSelector`, `returns` -- these
  are not guesses: the generator RAISES unless the rest of the body is exactly
      `sel.selectors.append(self.parse_selectors(iselector, index, <fl>)); has_selector = True; return has_selector`
  (parameters identified BY POSITION, so a consistent renaming is invisible), and nothing else is assigned.

Supported subset: `Assign` of a `|`-expression of module-level `FLG_*` names to one fresh local; one `if`/`elif` chain
(no `else`) whose tests are `name == <str>` or `name in (<str>, …)` and whose bodies are exactly one `<fl> |= <|-expr>`;
then the three frame statements.  Anything else raises `Unsupported` (gen_all reports FAILED; the pipeline treats the
proof side as broken).  Comments, docstrings, annotations, blank lines are not in the AST.
"""
import ast
import os
import sys

sys.path.insert(0, os.path.dirname(os.path.abspath(__file__)))
from gen_py_parsedisp import module_ast, int_constants, find_method, Unsupported  # noqa: E402

PARAMS = ['self', 'sel', 'name', 'has_selector', 'iselector', 'index']


def fail(msg, node=None):
    where = f' (line {node.lineno})' if node is not None and hasattr(node, 'lineno') else ''
    raise Unsupported(f'gen_py_popen: {msg}{where}')


def is_name(e, ident):
    return isinstance(e, ast.Name) and e.id == ident


def or_consts(e, consts):
    """`FLG_A | FLG_B | …` -> [(name, value) …] in source order; anything else raises."""
    if isinstance(e, ast.BinOp):
        if not isinstance(e.op, ast.BitOr):
            fail(f'operator {type(e.op).__name__} in a flag expression', e)
        return or_consts(e.left, consts) + or_consts(e.right, consts)
    if isinstance(e, ast.Name) and isinstance(e.ctx, ast.Load):
        if e.id not in consts:
            fail(f'{e.id} is not a module-level FLG_ integer constant', e)
        return [(e.id, consts[e.id])]
    fail(f'unsupported flag expression {ast.dump(e)}', e)


def str_const(e):
    if isinstance(e, ast.Constant) and type(e.value) is str:
        return e.value
    fail(f'not a string literal: {ast.dump(e)}', e)


def translate():
    tree = module_ast('css_parser.py')
    consts = int_constants(tree, 'FLG_')
    fn = find_method(tree, 'CSSParser', 'parse_pseudo_open')
    a = fn.args
    if a.vararg or a.kwarg or a.kwonlyargs or a.posonlyargs or a.defaults or a.kw_defaults:
        fail('unsupported parameter list', fn)
    if len(a.args) != len(PARAMS):
        fail(f'{len(a.args)} parameters, expected {len(PARAMS)}', fn)
    p = dict(zip(PARAMS, [x.arg for x in a.args]))      # canonical -> actual (by position)
    if len(set(p.values())) != len(PARAMS):
        fail('duplicate parameter names', fn)
    for n in ast.walk(fn):
        if n is not fn and isinstance(n, (ast.FunctionDef, ast.AsyncFunctionDef, ast.Lambda, ast.ClassDef, ast.Global, ast.Nonlocal,
                                          ast.Import, ast.ImportFrom, ast.NamedExpr, ast.With, ast.Try, ast.While, ast.For, ast.Delete,
                                          ast.Yield, ast.YieldFrom, ast.Await, ast.Raise, ast.Assert)):
            fail(f'unsupported construct {type(n).__name__}', n)
    body = list(fn.body)
    if body and isinstance(body[0], ast.Expr) and isinstance(body[0].value, ast.Constant) and type(body[0].value.value) is str:
        body = body[1:]                                  # docstring
    if len(body) not in (4, 5):
        fail(f'body has {len(body)} statements, expected 4 or 5', fn)

    # 1. <fl> = FLG_A | FLG_B
    st = body[0]
    if isinstance(st, ast.AnnAssign) and st.value is not None and isinstance(st.target, ast.Name):
        fl, init = st.target.id, st.value
    elif isinstance(st, ast.Assign) and len(st.targets) == 1 and isinstance(st.targets[0], ast.Name):
        fl, init = st.targets[0].id, st.value
    else:
        fail('first statement is not `<local> = <flags>`', st)
    if fl in p.values() or fl in consts:
        fail(f'the flag local `{fl}` shadows a parameter or a constant', st)
    base = or_consts(init, consts)

    # 2. the if / elif chain (optional)
    branches = []
    rest = body[1:]
    if len(body) == 5:
        node = rest[0]
        rest = rest[1:]
        if not isinstance(node, ast.If):
            fail('second statement is not an `if`', node)
        while True:
            t = node.test
            if not (isinstance(t, ast.Compare) and len(t.ops) == 1 and len(t.comparators) == 1 and is_name(t.left, p['name'])):
                fail('test is not `name == …` / `name in (…)`', node)
            if isinstance(t.ops[0], ast.Eq):
                names = [str_const(t.comparators[0])]
            elif isinstance(t.ops[0], ast.In) and isinstance(t.comparators[0], (ast.Tuple, ast.List, ast.Set)):
                names = [str_const(e) for e in t.comparators[0].elts]
                if not names:
                    fail('empty name tuple', node)
            else:
                fail(f'unsupported comparison {type(t.ops[0]).__name__}', node)
            if len(node.body) != 1:
                fail('branch body is not one statement', node)
            s = node.body[0]
            if not (isinstance(s, ast.AugAssign) and isinstance(s.op, ast.BitOr) and is_name(s.target, fl)):
                fail(f'branch body is not `{fl} |= …`', s)
            branches.append((names, or_consts(s.value, consts)))
            if not node.orelse:
                break
            if len(node.orelse) == 1 and isinstance(node.orelse[0], ast.If):
                node = node.orelse[0]
                continue
            fail('`else` branch in the name chain', node)

    # 3. the frame
    want = (f"{p['sel']}.selectors.append({p['self']}.parse_selectors({p['iselector']}, {p['index']}, {fl}))",
            f"{p['has_selector']} = True",
            f"return {p['has_selector']}")
    for s, w in zip(rest, want):
        if isinstance(s, ast.AnnAssign) and s.value is not None:
            s = ast.Assign(targets=[s.target], value=s.value, lineno=s.lineno)
        got = ast.dump(s)
        exp = ast.dump(ast.parse(w).body[0])
        if got != exp:
            fail(f'frame statement differs: expected `{w}`, found `{ast.unparse(s)}`', s)
    return base, branches


def cps(s):
    return '[' + ', '.join(str(ord(c)) for c in s) + ']'


def lean_str(s):
    out = ''.join(c if (32 <= ord(c) < 127 and c not in '"\\') else '\\u{%x}' % ord(c) for c in s)
    return '"' + out + '"'


def ors(cs):
    return ' ||| '.join(str(v) for _n, v in cs)


def render(base, branches):
    b = '(' + ors(base) + ')'
    lines = [
        '/- GENERATED by gen/gen_py_popen.py from the source text of `CSSParser.parse_pseudo_open` (soupsieve/css_parser.py).',
        '   Do not edit. -/',
        'import SoupVerif.Model.Py',
        'namespace SoupVerif.Gen.PyPseudoOpen',
        'open SoupVerif',
        '',
        '/-- the `FLG_*` constants of the initial value, then of each branch, in source order -/',
        'def openFlagConsts : List (List String) := [' + ', '.join(
            '[' + ', '.join(lean_str(n) for n, _v in cs) + ']' for cs in [base] + [c for _n, c in branches]) + ']',
        '/-- the names tested by each branch, in source order -/',
        'def openBranches : List (List String) := [' + ', '.join(
            '[' + ', '.join(lean_str(n) for n in names) + ']' for names, _c in branches) + ']',
        '',
        '/-- the flags `parse_pseudo_open` passes to the nested `parse_selectors`, as a function of the pseudo-class name -/',
        'def openFlags (name : Str) : Nat :=',
    ]
    for names, cs in branches:
        test = ' || '.join(f'name == {cps(n)}' for n in names)
        lines.append(f'  if {test} then {b} ||| ({ors(cs)})   -- ' + ', '.join(names))
        lines.append('  else')
    lines.append(f'  {b}')
    lines += [
        '',
        '/-- CHECKED frame: the one nested call (callee, arguments by parameter position; `flags` = the local computed above) -/',
        'def subParse : String × List String := ("self.parse_selectors", ["iselector", "index", "flags"])',
        '/-- CHECKED frame: its result is appended to -/',
        'def appendTarget : String := "sel.selectors"',
        '/-- CHECKED frame: `has_selector = True; return has_selector`, nothing else is assigned -/',
        'def setsHasSelector : Bool := true',
        'def returns : String := "has_selector"',
        'end SoupVerif.Gen.PyPseudoOpen',
    ]
    return '\n'.join(lines) + '\n'


def main(dest):
    base, branches = translate()
    text = render(base, branches)
    old = open(dest).read() if os.path.exists(dest) else None
    if old != text:
        open(dest, 'w').write(text)
    return {'base': len(base), 'branches': len(branches), 'names': sum(len(n) for n, _ in branches)}


if __name__ == '__main__':
    if len(sys.argv) > 1:
        print(main(sys.argv[1]))
    else:
        print(render(*translate()))
