"""Regenerate Generated/PyPseudoCustom.lean: `CSSParser.parse_pseudo_class_custom` translated from the SOURCE TEXT of
soupsieve/css_parser.py with `ast` (no hand copy, no import of the module) into a straight-line program over the
vocabulary `CustomProg.CStep` (lean/SoupVerif/Model/PseudoCustomProg.lean).

Read from the source (so an edit changes the emitted program and the proof side decides):
  * the ORDER of `util.lower` / `css_unescape` around `m.group('<g>')` and the group name,
  * the offset expressions (`m.start(0)` / `m.end(0)` / `index`) of the message and of the error position,
  * the three arguments of the sub-compile `CSSParser(<pat>, custom=<cu>, flags=<fl>)` and the NUMERIC value of the
    `FLG_*` constant passed to `process_selectors(flags=…)`,
  * the statements of the guarded block (`del` / sub-compile / store) IN SOURCE ORDER and the three tail statements.
Everything else is a checked frame: parameters by position (self, sel, m, has_selector), locals by binding order
(a consistent renaming is invisible); any other statement or expression shape raises `Unsupported` (fail closed).
Comments, docstrings, annotations, blank lines are not in the AST.
"""
import ast
import os
import sys

sys.path.insert(0, os.path.dirname(os.path.abspath(__file__)))
from gen_py_parsedisp import module_ast, int_constants, find_method, Unsupported  # noqa: E402

PARAMS = ['self', 'sel', 'm', 'has_selector']


def fail(msg, node=None):
    where = f' (line {node.lineno})' if node is not None and hasattr(node, 'lineno') else ''
    raise Unsupported(f'gen_py_pcustom: {msg}{where}')


def same(node, src):
    """structural equality of an AST node with the parse of `src`"""
    want = ast.parse(src).body[0]
    if isinstance(node, ast.expr):
        want = want.value
    return ast.dump(node) == ast.dump(want)


def offset(e, p):
    for src, lean in ((f"{p['m']}.start(0)", '.mStart'), (f"{p['m']}.end(0)", '.mEnd')):
        if same(e, src):
            return lean
    fail(f'unsupported offset expression `{ast.unparse(e)}`', e)


def name_fns(e, p):
    """`util.lower(css_unescape(m.group('name')))` -> (['.lower', '.cssUnescape'], 'name'), outermost first"""
    fns = []
    while True:
        if not (isinstance(e, ast.Call) and len(e.args) == 1 and not e.keywords):
            fail(f'unsupported name expression `{ast.unparse(e)}`', e)
        f = ast.unparse(e.func)
        if f == 'util.lower':
            fns.append('.lower')
        elif f == 'css_unescape':
            fns.append('.cssUnescape')
        elif f == f"{p['m']}.group":
            a = e.args[0]
            if not (isinstance(a, ast.Constant) and type(a.value) is str and a.value.isidentifier()):
                fail('group name is not a string literal', e)
            return fns, a.value
        else:
            fail(f'unsupported function `{f}` in the name expression', e)
        e = e.args[0]


def strip_ann(s):
    if isinstance(s, ast.AnnAssign) and s.value is not None and s.simple:
        return ast.Assign(targets=[s.target], value=s.value, lineno=s.lineno)
    return s


def local_assign(s):
    s = strip_ann(s)
    if isinstance(s, ast.Assign) and len(s.targets) == 1 and isinstance(s.targets[0], ast.Name):
        return s.targets[0].id, s.value
    fail(f'not `<local> = <expr>`: `{ast.unparse(s)}`', s)


def translate():
    tree = module_ast('css_parser.py')
    consts = int_constants(tree, 'FLG_')
    fn = find_method(tree, 'CSSParser', 'parse_pseudo_class_custom')
    a = fn.args
    if a.vararg or a.kwarg or a.kwonlyargs or a.posonlyargs or a.defaults or a.kw_defaults:
        fail('unsupported parameter list', fn)
    if len(a.args) != len(PARAMS):
        fail(f'{len(a.args)} parameters, expected {len(PARAMS)}', fn)
    p = dict(zip(PARAMS, [x.arg for x in a.args]))
    if len(set(p.values())) != len(PARAMS):
        fail('duplicate parameter names', fn)
    body = list(fn.body)
    if body and isinstance(body[0], ast.Expr) and isinstance(body[0].value, ast.Constant) and type(body[0].value.value) is str:
        body = body[1:]
    if len(body) != 7:
        fail(f'body has {len(body)} statements, expected 7', fn)

    # 1. pseudo = util.lower(css_unescape(m.group('name')))
    pseudo, e = local_assign(body[0])
    fns, group = name_fns(e, p)
    # 2. selector = self.custom.get(pseudo)
    selector, e = local_assign(body[1])
    if len({pseudo, selector} | set(p.values())) != 6 or pseudo in consts or selector in consts:
        fail('locals shadow each other, a parameter or a constant', body[1])
    if not same(e, f"{p['self']}.custom.get({pseudo})"):
        fail(f'lookup is `{ast.unparse(e)}`', body[1])
    pre = [f'.computeName [{", ".join(fns)}] "{group}"', '.lookup']
    # 3. if selector is None: raise SelectorSyntaxError(f"…{pseudo}…{m.end(0)}", self.pattern, m.end(0))
    st = body[2]
    if not (isinstance(st, ast.If) and not st.orelse and len(st.body) == 1 and same(st.test, f'{selector} is None')):
        fail('third statement is not `if <selector> is None: raise …`', st)
    r = st.body[0]
    if not (isinstance(r, ast.Raise) and r.cause is None and isinstance(r.exc, ast.Call) and not r.exc.keywords
            and same(r.exc.func, 'SelectorSyntaxError') and len(r.exc.args) == 3):
        fail('not `raise SelectorSyntaxError(msg, pattern, pos)`', r)
    msg, pat, pos = r.exc.args
    if not same(pat, f"{p['self']}.pattern"):
        fail(f'error pattern is `{ast.unparse(pat)}`', r)
    if not isinstance(msg, ast.JoinedStr):
        fail('message is not an f-string', r)
    holes = [v for v in msg.values if isinstance(v, ast.FormattedValue)]
    if len(holes) != 2 or any(h.conversion != -1 or h.format_spec is not None for h in holes) or not same(holes[0].value, pseudo):
        fail('message is not f"…{pseudo}…{offset}"', r)
    pre.append(f'.raiseIfNone {offset(holes[1].value, p)} {offset(pos, p)}')

    # 4. if not isinstance(selector, ct.SelectorList): <guarded>
    st = body[3]
    if not (isinstance(st, ast.If) and not st.orelse and same(st.test, f'not isinstance({selector}, ct.SelectorList)')):
        fail('fourth statement is not `if not isinstance(<selector>, ct.SelectorList):`', st)
    guarded = []
    for s in st.body:
        s = strip_ann(s)
        if isinstance(s, ast.Delete):
            if not same(s, f"del {p['self']}.custom[{pseudo}]"):
                fail(f'unsupported `{ast.unparse(s)}`', s)
            guarded.append('.erase')
        elif isinstance(s, ast.Assign) and same(s, f"{p['self']}.custom[{pseudo}] = {selector}"):
            guarded.append('.store')
        elif isinstance(s, ast.Assign):
            tgt, e = local_assign(s)
            if tgt != selector:
                fail(f'assignment to `{tgt}` in the guarded block', s)
            # CSSParser(<pat>, custom=<cu>, flags=<fl>).process_selectors(flags=FLG_X)
            if not (isinstance(e, ast.Call) and not e.args and len(e.keywords) == 1 and e.keywords[0].arg == 'flags'
                    and isinstance(e.func, ast.Attribute) and e.func.attr == 'process_selectors'):
                fail('not `<parser>.process_selectors(flags=…)`', s)
            fl = e.keywords[0].value
            if not (isinstance(fl, ast.Name) and fl.id in consts):
                fail('process_selectors flags is not a module-level FLG_ constant', s)
            c = e.func.value
            if not (isinstance(c, ast.Call) and same(c.func, 'CSSParser') and len(c.args) == 1
                    and [k.arg for k in c.keywords] == ['custom', 'flags']):
                fail('not `CSSParser(<pattern>, custom=…, flags=…)`', s)

            def arg(x):
                for src, lean in ((selector, '.selector'), (f"{p['self']}.custom", '.selfCustom'), (f"{p['self']}.flags", '.selfFlags')):
                    if same(x, src):
                        return lean
                fail(f'unsupported sub-compile argument `{ast.unparse(x)}`', s)
            guarded.append(f'.subCompile {arg(c.args[0])} {arg(c.keywords[0].value)} {arg(c.keywords[1].value)} {consts[fl.id]}')
            flag_name = fl.id
        else:
            fail(f'unsupported statement in the guarded block: `{ast.unparse(s)}`', s)
    if [g.split()[0] for g in guarded] != ['.erase', '.subCompile', '.store']:
        fail('guarded block is not `del self.custom[pseudo]; selector = CSSParser(…)….process_selectors(…); self.custom[pseudo] = selector`', st)

    # 5-7. the tail
    want = ((f"{p['sel']}.selectors.append({selector})", '.append'),
            (f"{p['has_selector']} = True", '.setHasSelector'),
            (f"return {p['has_selector']}", '.returnHasSelector'))
    post = []
    for s, (w, lean) in zip(body[4:], want):
        if not same(strip_ann(s), w):
            fail(f'tail statement differs: expected `{w}`, found `{ast.unparse(s)}`', s)
        post.append(lean)
    return pre, guarded, post, flag_name


def render(pre, guarded, post, flag_name):
    def lst(xs):
        return '[' + ',\n     '.join(xs) + ']'
    lines = [
        '/- GENERATED by gen/gen_py_pcustom.py from the source text of `CSSParser.parse_pseudo_class_custom`',
        '   (soupsieve/css_parser.py).  Do not edit. -/',
        'import SoupVerif.Model.PseudoCustomProg',
        'namespace SoupVerif.Gen.PyPseudoCustom',
        'open SoupVerif SoupVerif.CustomProg SoupVerif.ParseDisp',
        '',
        '/-- the `FLG_*` constant passed to the nested `process_selectors` -/',
        f'def subCompileFlagName : String := "{flag_name}"',
        '',
        '/-- `pre; if not isinstance(selector, ct.SelectorList): guarded; post` -/',
        'def program : Prog where',
        '  pre :=',
        '    ' + lst(pre),
        '  guarded :=',
        '    ' + lst(guarded),
        '  post :=',
        '    ' + lst(post),
        'end SoupVerif.Gen.PyPseudoCustom',
    ]
    return '\n'.join(lines) + '\n'


def main(dest):
    parts = translate()
    text = render(*parts)
    old = open(dest).read() if os.path.exists(dest) else None
    if old != text:
        open(dest, 'w').write(text)
    return {'pre': len(parts[0]), 'guarded': len(parts[1]), 'post': len(parts[2])}


if __name__ == '__main__':
    if len(sys.argv) > 1:
        print(main(sys.argv[1]))
    else:
        print(render(*translate()))
