"""Regenerate Generated/PyParseDisp.lean: the token dispatch and the flag prologue / epilogue of
`CSSParser.parse_selectors`, translated from the SOURCE TEXT of soupsieve/css_parser.py with `ast`.

What is read from the source (and nothing else: no hand copy, no import of the module)

* `switches`   : the prologue `is_x = bool(flags & FLG_X)` assignments, in source order, as (switch name, numeric
                 mask).  The mask is the integer literal of the module-level assignment `FLG_X = <int>`.
* `finalFlags` : the epilogue `if is_x: selectors[-1].flags = ct.SEL_X` statements, in source order, as (switch
                 name, numeric value of `SEL_X`, the integer literal assigned in css_types.py).
* `dispatch`   : the `if key == … / elif key in (…, …)` chain of the `while True:` loop, in source order, as
                 (keys, action).  One-call branches `r1[, r2…] = self.parse_x(sel, m, has_selector[, a…])` become
                 `.callHandler "parse_x" [a…] [r1, r2…]`; the inline branches are matched against TEMPLATES
                 (Python source with holes, below) and become `.raiseNotImplemented off`, `.setScope flag`,
                 `.pseudoClose off1 off2`, `.combine rel ord`, `.tagGuarded off call` -- the holes (offset
                 expressions, handler calls, the `SEL_` constant) are emitted as data and pinned by the Lean
                 theorems; everything that is not a hole must match exactly.

* `pseudoNames`: from `CSSParser.parse_pseudo_class`, the `if pseudo == ':root' / elif pseudo in (':link', ':any-link') …`
                 chain of the `PSEUDO_SIMPLE` branch, in source order, as (names, `PseudoAction`): `.orFlag <SEL_ value>`,
                 `.appendBuiltin "CSS_X"`, `.appendFlagList <SEL_ value> isNot isHtml`, `.appendNth [⟨a, var, b, ofType, last⟩ …]`.
                 The frame of that function (the six table tests in order, both raises, the return) is a template.

Everything else in the function (initialisation, the debug block, `if is_relative: selectors.append(_Selector())`,
the `try / while True / key, m = next(iselector) / … / index = m.end(0) / except StopIteration: pass` frame, the
unclosed check, the cleanup, the forgiving empty slot, the final "Expected a selector", the `return`) is compared
with a template too.  Any deviation raises (gen_all reports FAILED, the pipeline treats the proof side as broken):
the translator never guesses.

Harmless edits do not change the output: comments, docstrings, annotations and blank lines are not in the AST;
the TEXT of messages is dropped (only the interpolated expressions are kept and they must be pure offsets); local
variables are alpha-normalised -- the i-th local in order of first binding (parameters first) is renamed to the
i-th name of `LOCALS` before anything is compared or emitted, so a consistent renaming of a local is invisible.
"""
import ast
import os
import sys

REPO = os.environ.get('SOUPVERIF_REPO', '/repo')


class Unsupported(Exception):
    pass


def fail(msg, node=None):
    where = f' (line {node.lineno})' if node is not None and hasattr(node, 'lineno') else ''
    raise Unsupported(f'gen_py_parsedisp: {msg}{where}')


# ------------------------------------------------------------------------------------------------ source access

def module_ast(name):
    path = os.path.join(REPO, 'soupsieve', name)
    with open(path, encoding='utf-8') as f:
        return ast.parse(f.read(), filename=path)


def int_constants(tree, prefix):
    """Module-level `NAME = <int literal>` assignments whose name starts with `prefix`; a name assigned twice, or
    assigned something that is not an integer literal, is an error."""
    out = {}
    for st in tree.body:
        targets = []
        if isinstance(st, ast.Assign):
            targets, value = st.targets, st.value
        elif isinstance(st, ast.AnnAssign) and st.value is not None:
            targets, value = [st.target], st.value
        for t in targets:
            for n in ast.walk(t):
                if isinstance(n, ast.Name) and n.id.startswith(prefix):
                    if not (isinstance(t, ast.Name) and isinstance(value, ast.Constant) and type(value.value) is int):
                        fail(f'{n.id} is not assigned a plain integer literal', st)
                    if n.id in out:
                        fail(f'{n.id} is assigned twice', st)
                    out[n.id] = value.value
    # any other rebinding (augmented assignment, def, class, import, del, global) of such a name anywhere: refuse
    for n in ast.walk(tree):
        if isinstance(n, ast.AugAssign) and isinstance(n.target, ast.Name) and n.target.id.startswith(prefix):
            fail(f'{n.target.id} is modified in place', n)
        if isinstance(n, (ast.FunctionDef, ast.ClassDef)) and n.name.startswith(prefix):
            fail(f'{n.name} is rebound by a definition', n)
        if isinstance(n, ast.Name) and n.id.startswith(prefix) and not isinstance(n.ctx, ast.Load):
            if n.id not in out:
                fail(f'{n.id} is bound outside a module-level assignment', n)
    return out


def find_method(tree, cls, meth):
    found = [c for c in tree.body if isinstance(c, ast.ClassDef) and c.name == cls]
    if len(found) != 1:
        fail(f'class {cls}: {len(found)} definitions')
    ms = [f for f in found[0].body if isinstance(f, ast.FunctionDef) and f.name == meth]
    if len(ms) != 1:
        fail(f'{cls}.{meth}: {len(ms)} definitions')
    if ms[0].decorator_list:
        fail(f'{cls}.{meth} is decorated', ms[0])
    return ms[0]


# ------------------------------------------------------------------------------------------------ normalisation

# canonical names of the locals of `parse_selectors`, in order of first binding (parameters first)
LOCALS = ['self', 'iselector', 'index', 'flags',
          'sel', 'selectors', 'has_selector', 'closed', 'relations', 'rel_type',
          'is_open', 'is_pseudo', 'is_relative', 'is_not', 'is_html', 'is_default', 'is_indeterminate', 'is_in_range',
          'is_out_of_range', 'is_placeholder_shown', 'is_forgive',
          'key', 'm', 's']


class Binder(ast.NodeVisitor):
    """Locals in order of first binding occurrence (source order)."""

    def __init__(self):
        self.order = []

    def bind(self, name):
        if name not in self.order:
            self.order.append(name)

    def visit_arg(self, node):
        self.bind(node.arg)

    def visit_Name(self, node):
        if isinstance(node.ctx, (ast.Store, ast.Del)):
            self.bind(node.id)

    def generic_visit(self, node):
        if isinstance(node, (ast.FunctionDef, ast.AsyncFunctionDef, ast.Lambda, ast.ClassDef, ast.Global, ast.Nonlocal,
                             ast.Import, ast.ImportFrom, ast.NamedExpr, ast.With, ast.AsyncWith, ast.Match)) \
                and not getattr(node, '_root', False):
            fail(f'unsupported construct {type(node).__name__}', node)
        if isinstance(node, ast.ExceptHandler) and node.name is not None:
            fail('exception bound to a name', node)
        super().generic_visit(node)


class Renamer(ast.NodeTransformer):
    def __init__(self, mapping):
        self.mapping = mapping

    def visit_Name(self, node):
        return ast.copy_location(ast.Name(id=self.mapping.get(node.id, node.id), ctx=node.ctx), node)

    def visit_arg(self, node):
        return ast.copy_location(ast.arg(arg=self.mapping.get(node.arg, node.arg), annotation=None), node)


class StripAnnotations(ast.NodeTransformer):
    """`x: T = e` -> `x = e`; a bare `x: T` (no run-time effect inside a function) is dropped."""

    def visit_AnnAssign(self, node):
        if not isinstance(node.target, ast.Name) or not node.simple:
            fail('annotated assignment to something that is not a plain name', node)
        if node.value is None:
            return None
        return ast.copy_location(ast.Assign(targets=[node.target], value=node.value), node)


def alpha_normalise(fn, canon=None):
    canon = LOCALS if canon is None else canon
    fn = StripAnnotations().visit(fn)
    fn._root = True
    if fn.args.vararg or fn.args.kwarg or fn.args.kwonlyargs or fn.args.posonlyargs:
        fail('unsupported parameter kinds', fn)
    b = Binder()
    b.visit(fn)
    if len(b.order) != len(canon):
        fail(f'expected {len(canon)} locals, found {len(b.order)}: {b.order}', fn)
    mapping = dict(zip(b.order, canon))
    free = {n.id for n in ast.walk(fn) if isinstance(n, ast.Name)} - set(b.order)
    clash = free & set(canon)
    if clash:
        fail(f'canonical local name(s) {sorted(clash)} are used as globals', fn)
    return Renamer(mapping).visit(fn)


def strip_docstring(body):
    if body and isinstance(body[0], ast.Expr) and isinstance(body[0].value, ast.Constant) and isinstance(body[0].value.value, str):
        return body[1:]
    return body


def dump(node):
    if isinstance(node, list):
        return '[' + ', '.join(dump(n) for n in node) + ']'
    return ast.dump(node, annotate_fields=True, include_attributes=False)


# ------------------------------------------------------------------------------------------------ templates

def is_hole(node):
    return isinstance(node, ast.Name) and node.id.startswith('__') and node.id.endswith('__') and len(node.id) > 4


OFFSETS = {
    "Call(func=Attribute(value=Name(id='m', ctx=Load()), attr='start', ctx=Load()), args=[Constant(value=0)], keywords=[])": 'mStart',
    "Call(func=Attribute(value=Name(id='m', ctx=Load()), attr='end', ctx=Load()), args=[Constant(value=0)], keywords=[])": 'mEnd',
    "Name(id='index', ctx=Load())": 'index',
}


def offset_of(node):
    d = dump(node)
    if d not in OFFSETS:
        fail(f'offset expression is not m.start(0) / m.end(0) / index: {ast.unparse(node)}', node)
    return OFFSETS[d]


def check_message(node, names=()):
    """A message: a string literal or an f-string whose interpolations are pure offset expressions (no format
    spec, no conversion other than the default) or one of the plain local `names`.  The text is not part of the
    translation."""
    if isinstance(node, ast.Constant) and isinstance(node.value, str):
        return
    if isinstance(node, ast.JoinedStr):
        for v in node.values:
            if isinstance(v, ast.Constant) and isinstance(v.value, str):
                continue
            if isinstance(v, ast.FormattedValue) and v.format_spec is None and v.conversion == -1:
                if isinstance(v.value, ast.Name) and v.value.id in names:
                    continue
                offset_of(v.value)
                continue
            fail('unsupported part of an f-string message', node)
        return
    fail(f'message is not a string literal / f-string: {ast.unparse(node)}', node)


def match(tpl, node, caps):
    """Structural equality of `node` with template `tpl`; holes capture into `caps`."""
    if isinstance(tpl, ast.Expr) and is_hole(tpl.value) and tpl.value.id.strip('_').startswith('STMT'):
        caps[tpl.value.id.strip('_')] = node
        return
    if is_hole(tpl):
        name = tpl.id.strip('_')
        if name.startswith('PMSG'):
            check_message(node, names=('pseudo',))
        elif name.startswith('MSG'):
            check_message(node)
        elif name.startswith('OFF'):
            caps[name] = offset_of(node)
        else:
            fail(f'unknown hole {name}')
        return
    if type(tpl) is not type(node):
        fail(f'expected {type(tpl).__name__}, found {type(node).__name__}: {ast.unparse(node) if isinstance(node, ast.AST) else node!r}',
             node if isinstance(node, ast.AST) else None)
    if isinstance(tpl, ast.AST):
        for field in tpl._fields:
            if field in ('type_comment', 'annotation', 'returns', 'type_params', 'kind'):
                continue
            a, b = getattr(tpl, field, None), getattr(node, field, None)
            match_value(a, b, caps, node)
    else:
        if tpl != node:
            fail(f'expected {tpl!r}, found {node!r}')


def match_value(a, b, caps, parent):
    if isinstance(a, list):
        if not isinstance(b, list) or len(a) != len(b):
            fail(f'expected {len(a)} element(s), found {len(b) if isinstance(b, list) else b!r} in {type(parent).__name__}: '
                 f'{ast.unparse(parent)[:200]}', parent)
        for x, y in zip(a, b):
            match(x, y, caps)
    elif isinstance(a, ast.AST):
        if not isinstance(b, ast.AST):
            fail(f'expected a node, found {b!r}', parent)
        match(a, b, caps)
    else:
        if a != b or type(a) is not type(b):
            fail(f'expected {a!r}, found {b!r} in {ast.unparse(parent)[:200]}', parent)


def template(src):
    return ast.parse(src).body


def match_block(tpl_src, stmts, what):
    caps = {}
    tpl = template(tpl_src)
    if len(tpl) != len(stmts):
        fail(f'{what}: expected {len(tpl)} statement(s), found {len(stmts)}', stmts[0] if stmts else None)
    for t, s in zip(tpl, stmts):
        try:
            match(t, s, caps)
        except Unsupported as e:
            raise Unsupported(f'{e} [in {what}]') from None
    return caps


T_INIT = '''
sel = _Selector()
selectors = []
has_selector = False
closed = False
relations = []
rel_type = ":" + WS_COMBINATOR
'''

T_AFTER_SWITCHES = '''
if is_relative:
    selectors.append(_Selector())
'''

T_LOOP_FRAME = '''
try:
    while True:
        key, m = next(iselector)
        __CHAIN__
        index = m.end(0)
except StopIteration:
    pass
'''

T_NOT_IMPLEMENTED = '''
raise NotImplementedError(__MSG__)
'''

T_SET_SCOPE = '''
sel.flags |= ct.__SEL__
has_selector = True
'''

T_PSEUDO_CLOSE = '''
if not has_selector:
    if not is_forgive:
        raise SelectorSyntaxError(__MSG1__, self.pattern, __OFF1__)
    sel.no_match = True
if is_open:
    closed = True
    break
else:
    raise SelectorSyntaxError(__MSG2__, self.pattern, __OFF2__)
'''

T_TAG_GUARD = '''
if has_selector:
    raise SelectorSyntaxError(__MSG__, self.pattern, __OFF__)
'''

T_EPILOGUE_HEAD = '''
if is_open and not closed:
    raise SelectorSyntaxError(__MSG1__, self.pattern, index)
if has_selector:
    if not sel.tag and not is_pseudo:
        sel.tag = ct.SelectorTag('*', None)
    if is_relative:
        sel.rel_type = rel_type
        selectors[-1].relations.append(sel)
    else:
        sel.relations.extend(relations)
        del relations[:]
        selectors.append(sel)
elif is_forgive and (not selectors or not relations):
    sel.no_match = True
    del relations[:]
    selectors.append(sel)
    has_selector = True
if not has_selector:
    raise SelectorSyntaxError(__MSG2__, self.pattern, index)
'''

T_RETURN = '''
return ct.SelectorList([s.freeze() for s in selectors], is_not, is_html)
'''


# ------------------------------------------------------------------------------------------------ the translation

def is_name(node, name=None):
    return isinstance(node, ast.Name) and (name is None or node.id == name)


def parse_switch(st):
    """`is_x = bool(flags & FLG_X)` -> ('is_x', 'FLG_X') or None."""
    if not (isinstance(st, ast.Assign) and len(st.targets) == 1 and is_name(st.targets[0])):
        return None
    v = st.value
    if not (isinstance(v, ast.Call) and is_name(v.func, 'bool') and len(v.args) == 1 and not v.keywords):
        return None
    e = v.args[0]
    if not (isinstance(e, ast.BinOp) and isinstance(e.op, ast.BitAnd) and is_name(e.left, 'flags') and is_name(e.right)
            and e.right.id.startswith('FLG_')):
        return None
    return st.targets[0].id, e.right.id


def check_debug_block(st):
    """`if self.debug:` followed by nothing but nested `if <switch>: print(<literal>)`."""
    if not (isinstance(st, ast.If) and dump(st.test) == "Attribute(value=Name(id='self', ctx=Load()), attr='debug', ctx=Load())"
            and not st.orelse):
        return False
    for inner in st.body:
        ok = (isinstance(inner, ast.If) and is_name(inner.test) and inner.test.id.startswith('is_') and not inner.orelse
              and len(inner.body) == 1 and isinstance(inner.body[0], ast.Expr) and isinstance(inner.body[0].value, ast.Call)
              and is_name(inner.body[0].value.func, 'print') and not inner.body[0].value.keywords
              and all(isinstance(a, ast.Constant) for a in inner.body[0].value.args))
        if not ok:
            fail('the debug block does something other than printing the switches', inner)
    return True


def parse_call(st):
    """`r1[, r2 …] = self.handler(sel, m, has_selector[, a …])` -> (handler, [a…], [r…]); None when `st` is not of
    that shape."""
    if not (isinstance(st, ast.Assign) and len(st.targets) == 1):
        return None
    t = st.targets[0]
    if is_name(t):
        rets = [t.id]
    elif isinstance(t, ast.Tuple) and t.elts and all(is_name(e) for e in t.elts):
        rets = [e.id for e in t.elts]
    else:
        return None
    c = st.value
    if not (isinstance(c, ast.Call) and isinstance(c.func, ast.Attribute) and is_name(c.func.value, 'self') and not c.keywords):
        return None
    if not all(is_name(a) for a in c.args):
        return None
    args = [a.id for a in c.args]
    if args[:3] != ['sel', 'm', 'has_selector']:
        fail(f'handler {c.func.attr} is not called with (sel, m, has_selector, …): {args}', st)
    for n in args[3:] + rets:
        if n not in LOCALS:
            fail(f'handler {c.func.attr}: {n} is not a local of parse_selectors', st)
    return c.func.attr, args[3:], rets


def parse_keys(test):
    """`key == 'x'` / `key in ('x', 'y')` -> ['x', …]."""
    if isinstance(test, ast.Compare) and is_name(test.left, 'key') and len(test.ops) == 1 and len(test.comparators) == 1:
        c = test.comparators[0]
        if isinstance(test.ops[0], ast.Eq) and isinstance(c, ast.Constant) and isinstance(c.value, str):
            return [c.value]
        if isinstance(test.ops[0], ast.In) and isinstance(c, (ast.Tuple, ast.List, ast.Set)) and c.elts \
                and all(isinstance(e, ast.Constant) and isinstance(e.value, str) for e in c.elts):
            return [e.value for e in c.elts]
    fail(f'branch condition is not `key == <str>` / `key in (<str>, …)`: {ast.unparse(test)}', test)


def flatten_chain(st):
    """if / elif / … (no final else) -> [(test, body)]."""
    out = []
    while True:
        if not isinstance(st, ast.If):
            fail('the token dispatch is not an if / elif chain', st)
        out.append((st.test, st.body))
        if not st.orelse:
            return out
        if len(st.orelse) == 1 and isinstance(st.orelse[0], ast.If):
            st = st.orelse[0]
        else:
            fail('the token dispatch ends with an `else:` branch', st.orelse[0])


def lean_str(s):
    if not all(32 <= ord(c) < 127 and c not in '"\\' for c in s):
        fail(f'string {s!r} needs escaping')
    return '"' + s + '"'


def lean_strs(l):
    return '[' + ', '.join(lean_str(x) for x in l) + ']'


def lean_call(call):
    h, args, rets = call
    return f'({lean_str(h)}, {lean_strs(args)}, {lean_strs(rets)})'


def translate_branch(body, sel_consts):
    """The body of one branch of the chain -> Lean `Action` term."""
    # one call
    if len(body) == 1:
        call = parse_call(body[0])
        if call:
            return f'.callHandler {lean_str(call[0])} {lean_strs(call[1])} {lean_strs(call[2])}'
    # raise NotImplementedError(f"… {m.start(0)}")
    if len(body) == 1 and isinstance(body[0], ast.Raise) and isinstance(body[0].exc, ast.Call) \
            and is_name(body[0].exc.func, 'NotImplementedError'):
        match_block(T_NOT_IMPLEMENTED, body, 'raise NotImplementedError')
        msg = body[0].exc.args[0]
        offs = [offset_of(v.value) for v in msg.values if isinstance(v, ast.FormattedValue)] if isinstance(msg, ast.JoinedStr) else []
        if len(set(offs)) != 1:
            fail('NotImplementedError message does not report exactly one position', body[0])
        return f'.raiseNotImplemented .{offs[0]}'
    # sel.flags |= ct.SEL_X; has_selector = True
    if len(body) == 2 and isinstance(body[0], ast.AugAssign):
        st = body[0]
        if not (isinstance(st.value, ast.Attribute) and is_name(st.value.value, 'ct') and st.value.attr in sel_consts):
            fail(f'unknown flag constant {ast.unparse(st.value)}', st)
        flag = st.value.attr
        tpl = T_SET_SCOPE.replace('__SEL__', flag)
        match_block(tpl, body, 'flag-setting branch')
        return f'.setScope {sel_consts[flag]}'
    # pseudo_close
    if len(body) == 2 and isinstance(body[0], ast.If) and isinstance(body[1], ast.If):
        caps = match_block(T_PSEUDO_CLOSE, body, 'pseudo_close branch')
        return f'.pseudoClose .{caps["OFF1"]} .{caps["OFF2"]}'
    # combine: if is_relative: call else: call
    if len(body) == 1 and isinstance(body[0], ast.If) and is_name(body[0].test, 'is_relative') \
            and len(body[0].body) == 1 and len(body[0].orelse) == 1:
        c1, c2 = parse_call(body[0].body[0]), parse_call(body[0].orelse[0])
        if c1 and c2:
            return f'.combine {lean_call(c1)} {lean_call(c2)}'
    # tag: guard + call
    if len(body) == 2 and isinstance(body[0], ast.If):
        call = parse_call(body[1])
        if call:
            caps = match_block(T_TAG_GUARD, body[:1], 'guarded branch')
            return f'.tagGuarded .{caps["OFF"]} {lean_call(call)}'
    fail('branch body matches none of the supported shapes: ' + ast.unparse(body[0])[:200], body[0])


def translate():
    cp_tree = module_ast('css_parser.py')
    ct_tree = module_ast('css_types.py')
    flg = int_constants(cp_tree, 'FLG_')
    selc = int_constants(ct_tree, 'SEL_')
    # `ct` must be css_types
    imports = [n for n in cp_tree.body if isinstance(n, ast.ImportFrom) and any((a.asname or a.name) == 'ct' for a in n.names)]
    if not (len(imports) == 1 and imports[0].level == 1 and imports[0].module is None
            and [(a.name, a.asname) for a in imports[0].names if (a.asname or a.name) == 'ct'] == [('css_types', 'ct')]):
        fail('`ct` is not `from . import css_types as ct`')
    fn = alpha_normalise(find_method(cp_tree, 'CSSParser', 'parse_selectors'))
    if [a.arg for a in fn.args.args] != LOCALS[:4]:
        fail('parameters changed', fn)
    if [dump(d) for d in fn.args.defaults] != ['Constant(value=0)', 'Constant(value=0)']:
        fail('parameter defaults changed', fn)
    body = strip_docstring(fn.body)

    # ---- segmentation: init | switches | debug | relative-init | try | epilogue head | final flags | return
    i = 0
    n_init = len(template(T_INIT))
    match_block(T_INIT, body[i:i + n_init], 'initialisation')
    i += n_init
    switches = []
    while i < len(body) and parse_switch(body[i]):
        name, const = parse_switch(body[i])
        if not name.startswith('is_'):
            fail(f'{name}: a switch is assigned to a local that is not one of the switches', body[i])
        if const not in flg:
            fail(f'unknown constant {const}', body[i])
        if name in [s[0] for s in switches]:
            fail(f'switch {name} assigned twice', body[i])
        switches.append((name, const, flg[const]))
        i += 1
    if i < len(body) and check_debug_block(body[i]):
        i += 1
    match_block(T_AFTER_SWITCHES, body[i:i + 1], 'initial selector of a relative list')
    i += 1
    # the loop frame
    if i >= len(body) or not isinstance(body[i], ast.Try):
        fail('expected the try: while True: … loop', body[i] if i < len(body) else None)
    tr = body[i]
    try:
        chain_stmt = tr.body[0].body[1]
    except Exception:
        fail('loop frame changed', tr)
    frame_tpl = template(T_LOOP_FRAME)[0]
    # put the real chain in the hole, compare the rest
    frame_tpl.body[0].body[1] = chain_stmt
    match(frame_tpl, tr, {})
    i += 1
    dispatch = []
    seen = set()
    for test, br in flatten_chain(chain_stmt):
        keys = parse_keys(test)
        for k in keys:
            if k in seen:
                fail(f'key {k!r} occurs in two branches (the second is dead)', test)
            seen.add(k)
        dispatch.append((keys, translate_branch(br, selc)))
    # locals the chain may assign: only through the shapes above.  `break` only in pseudo_close (checked by template).
    n_head = len(template(T_EPILOGUE_HEAD))
    match_block(T_EPILOGUE_HEAD, body[i:i + n_head], 'epilogue')
    i += n_head
    final_flags = []
    while i < len(body) and isinstance(body[i], ast.If):
        st = body[i]
        if not (is_name(st.test) and st.test.id in [s[0] for s in switches] and not st.orelse and len(st.body) == 1):
            fail('final flag statement is not `if <switch>: selectors[-1].flags = ct.SEL_X`', st)
        a = st.body[0]
        if not (isinstance(a, ast.Assign) and isinstance(a.value, ast.Attribute) and is_name(a.value.value, 'ct') and a.value.attr in selc):
            fail('final flag statement is not `if <switch>: selectors[-1].flags = ct.SEL_X`', st)
        match_block(f'if {st.test.id}:\n    selectors[-1].flags = ct.{a.value.attr}\n', [st], 'final flag statement')
        final_flags.append((st.test.id, a.value.attr, selc[a.value.attr]))
        i += 1
    match_block(T_RETURN, body[i:], 'return statement')
    return switches, final_flags, dispatch


# ------------------------------------------------------------------------------------------------ parse_pseudo_class

LOCALS_PC = ['self', 'sel', 'm', 'has_selector', 'iselector', 'is_html', 'complex_pseudo', 'pseudo']

T_PSEUDO_CLASS = '''
complex_pseudo = False
pseudo = util.lower(css_unescape(m.group('name')))
if m.group('open'):
    complex_pseudo = True
if complex_pseudo and pseudo in PSEUDO_COMPLEX:
    has_selector = self.parse_pseudo_open(sel, pseudo, has_selector, iselector, m.end(0))
elif not complex_pseudo and pseudo in PSEUDO_SIMPLE:
    __STMT_CHAIN__
    has_selector = True
elif complex_pseudo and pseudo in PSEUDO_COMPLEX_NO_MATCH:
    self.parse_selectors(iselector, m.end(0), FLG_PSEUDO | FLG_OPEN)
    sel.no_match = True
    has_selector = True
elif not complex_pseudo and pseudo in PSEUDO_SIMPLE_NO_MATCH:
    sel.no_match = True
    has_selector = True
elif pseudo in PSEUDO_SUPPORTED:
    raise SelectorSyntaxError(__PMSG1__, self.pattern, m.start(0))
else:
    raise SelectorSyntaxError(__PMSG2__, self.pattern, m.start(0))
return has_selector, is_html
'''


def parse_names(test):
    """`pseudo == ':x'` / `pseudo in (':x', ':y')` -> [':x', …]."""
    if isinstance(test, ast.Compare) and is_name(test.left, 'pseudo') and len(test.ops) == 1 and len(test.comparators) == 1:
        c = test.comparators[0]
        if isinstance(test.ops[0], ast.Eq) and isinstance(c, ast.Constant) and isinstance(c.value, str):
            return [c.value]
        if isinstance(test.ops[0], ast.In) and isinstance(c, (ast.Tuple, ast.List, ast.Set)) and c.elts \
                and all(isinstance(e, ast.Constant) and isinstance(e.value, str) for e in c.elts):
            return [e.value for e in c.elts]
    fail(f'branch condition is not `pseudo == <str>` / `pseudo in (<str>, …)`: {ast.unparse(test)}', test)


def lean_bool(node):
    if isinstance(node, ast.Constant) and type(node.value) is bool:
        return 'true' if node.value else 'false'
    fail(f'expected True / False: {ast.unparse(node)}', node)


def lean_int(node):
    if isinstance(node, ast.Constant) and type(node.value) is int:
        return str(node.value)
    if isinstance(node, ast.UnaryOp) and isinstance(node.op, ast.USub) and isinstance(node.operand, ast.Constant) \
            and type(node.operand.value) is int:
        return f'(-{node.operand.value})'
    fail(f'expected an integer literal: {ast.unparse(node)}', node)


def nth_record(node):
    """`ct.SelectorNth(a, var, b, of_type, last, ct.SelectorList())` -> `⟨a, var, b, of_type, last⟩`."""
    ok = (isinstance(node, ast.Call) and dump(node.func) == "Attribute(value=Name(id='ct', ctx=Load()), attr='SelectorNth', ctx=Load())"
          and not node.keywords and len(node.args) == 6
          and dump(node.args[5]) == "Call(func=Attribute(value=Name(id='ct', ctx=Load()), attr='SelectorList', ctx=Load()), args=[], keywords=[])")
    if not ok:
        fail(f'expected ct.SelectorNth(a, var, b, of_type, last, ct.SelectorList()): {ast.unparse(node)}', node)
    a, var, b, of_type, last = node.args[:5]
    return f'⟨{lean_int(a)}, {lean_bool(var)}, {lean_int(b)}, {lean_bool(of_type)}, {lean_bool(last)}⟩'


def sel_attr_call(st, attr, meth):
    """`sel.<attr>.<meth>(x)` -> x, else None."""
    if isinstance(st, ast.Expr) and isinstance(st.value, ast.Call) and not st.value.keywords and len(st.value.args) == 1:
        f = st.value.func
        if dump(f) == f"Attribute(value=Attribute(value=Name(id='sel', ctx=Load()), attr='{attr}', ctx=Load()), attr='{meth}', ctx=Load())":
            return st.value.args[0]
    return None


def translate_pseudo_branch(body, selc, builtins):
    if len(body) != 1:
        fail('a pseudo-class branch with more than one statement', body[0])
    st = body[0]
    # sel.flags |= ct.SEL_X
    if isinstance(st, ast.AugAssign):
        if not (isinstance(st.op, ast.BitOr) and dump(st.target) == "Attribute(value=Name(id='sel', ctx=Load()), attr='flags', ctx=Store())"
                and isinstance(st.value, ast.Attribute) and is_name(st.value.value, 'ct') and st.value.attr in selc):
            fail(f'expected sel.flags |= ct.SEL_X: {ast.unparse(st)}', st)
        return f'.orFlag {selc[st.value.attr]}'
    x = sel_attr_call(st, 'selectors', 'append')
    if x is not None:
        # sel.selectors.append(CSS_X)
        if is_name(x):
            if x.id not in builtins:
                fail(f'{x.id} is not a module-level pre-compiled selector list', st)
            return f'.appendBuiltin {lean_str(x.id)}'
        # sel.selectors.append(ct.SelectorList([_Selector(flags=ct.SEL_X).freeze()], False, True))
        if isinstance(x, ast.Call) and len(x.args) == 3 and isinstance(x.args[0], ast.List) and len(x.args[0].elts) == 1:
            inner = x.args[0].elts[0]
            try:
                flag = inner.func.value.keywords[0].value.attr
            except Exception:
                fail(f'unsupported nested list: {ast.unparse(st)}', st)
            if flag not in selc:
                fail(f'unknown flag {flag}', st)
            caps = {}
            tpl = template(f'sel.selectors.append(ct.SelectorList([_Selector(flags=ct.{flag}).freeze()], '
                           f'{ast.unparse(x.args[1])}, {ast.unparse(x.args[2])}))')[0]
            match(tpl, st, caps)
            return f'.appendFlagList {selc[flag]} {lean_bool(x.args[1])} {lean_bool(x.args[2])}'
        fail(f'unsupported argument of sel.selectors.append: {ast.unparse(st)}', st)
    x = sel_attr_call(st, 'nth', 'append')
    if x is not None:
        return f'.appendNth [{nth_record(x)}]'
    x = sel_attr_call(st, 'nth', 'extend')
    if x is not None:
        if not (isinstance(x, ast.List) and x.elts):
            fail(f'expected sel.nth.extend([…]): {ast.unparse(st)}', st)
        return '.appendNth [' + ', '.join(nth_record(e) for e in x.elts) + ']'
    fail(f'pseudo-class branch matches none of the supported shapes: {ast.unparse(st)[:200]}', st)


def translate_pseudo_class():
    cp_tree = module_ast('css_parser.py')
    selc = int_constants(module_ast('css_types.py'), 'SEL_')
    # module-level `CSS_X = CSSParser(…).process_selectors(…)`, each assigned exactly once
    builtins = {}
    for st in cp_tree.body:
        if isinstance(st, ast.Assign):
            for t in st.targets:
                for n in ast.walk(t):
                    if isinstance(n, ast.Name) and n.id.startswith('CSS_'):
                        ok = (is_name(t) and isinstance(st.value, ast.Call) and isinstance(st.value.func, ast.Attribute)
                              and st.value.func.attr == 'process_selectors' and isinstance(st.value.func.value, ast.Call)
                              and is_name(st.value.func.value.func, 'CSSParser'))
                        if n.id in builtins:
                            fail(f'{n.id} is assigned twice', st)
                        builtins[n.id] = ok
    builtins = {k for k, ok in builtins.items() if ok}
    fn = alpha_normalise(find_method(cp_tree, 'CSSParser', 'parse_pseudo_class'), LOCALS_PC)
    if [a.arg for a in fn.args.args] != LOCALS_PC[:6] or fn.args.defaults:
        fail('parameters of parse_pseudo_class changed', fn)
    body = strip_docstring(fn.body)
    caps = match_block(T_PSEUDO_CLASS, body, 'parse_pseudo_class')
    table, seen = [], set()
    for test, br in flatten_chain(caps['STMT_CHAIN']):
        names = parse_names(test)
        for k in names:
            if k in seen:
                fail(f'name {k!r} occurs in two branches (the second is dead)', test)
            seen.add(k)
        table.append((names, translate_pseudo_branch(br, selc, builtins)))
    return table


def render(switches, final_flags, dispatch, pseudo_table):
    lines = [
        '/- GENERATED by gen/gen_py_parsedisp.py from the source text of soupsieve/css_parser.py',
        '   (CSSParser.parse_selectors: flag prologue, token dispatch, flag epilogue). Do not edit. -/',
        'import SoupVerif.Model.ParseDispatch',
        'namespace SoupVerif.Gen.PyParseDisp',
        'open SoupVerif.ParseDisp',
        '/-- `is_x = bool(flags & FLG_X)`, in source order: (switch, numeric mask). -/',
        'def switches : List (String × Nat) := [' + ', '.join(f'({lean_str(n)}, {v})' for n, _c, v in switches) + ']',
        '/-- the constants named in the prologue, in source order -/',
        'def switchConsts : List String := ' + lean_strs([c for _n, c, _v in switches]),
        '/-- `if is_x: selectors[-1].flags = ct.SEL_X`, in source order: (switch, numeric value). -/',
        'def finalFlags : List (String × Nat) := [' + ', '.join(f'({lean_str(n)}, {v})' for n, _c, v in final_flags) + ']',
        'def finalFlagConsts : List String := ' + lean_strs([c for _n, c, _v in final_flags]),
        '/-- the `if key == … / elif key in (…)` chain of the loop, in source order -/',
        'def dispatch : List (List String × Action) := [',
    ]
    lines += [f'  ({lean_strs(keys)}, {act})' + (',' if j + 1 < len(dispatch) else '') for j, (keys, act) in enumerate(dispatch)]
    lines += ['  ]',
              "/-- `parse_pseudo_class`: the `if pseudo == … / elif pseudo in (…)` chain of the PSEUDO_SIMPLE branch, in source order -/",
              'def pseudoNames : List (List String × PseudoAction) := [']
    lines += [f'  ({lean_strs(names)}, {act})' + (',' if j + 1 < len(pseudo_table) else '') for j, (names, act) in enumerate(pseudo_table)]
    lines += ['  ]', 'end SoupVerif.Gen.PyParseDisp']
    return '\n'.join(lines) + '\n'


def main(dest):
    switches, final_flags, dispatch = translate()
    pseudo_table = translate_pseudo_class()
    text = render(switches, final_flags, dispatch, pseudo_table)
    old = open(dest).read() if os.path.exists(dest) else None
    if old != text:
        open(dest, 'w').write(text)
    return {'switches': len(switches), 'final_flags': len(final_flags), 'branches': len(dispatch),
            'keys': sum(len(k) for k, _ in dispatch), 'pseudo_branches': len(pseudo_table),
            'pseudo_names': sum(len(k) for k, _ in pseudo_table)}


if __name__ == '__main__':
    if len(sys.argv) > 1:
        print(main(sys.argv[1]))
    else:
        print(render(*translate(), translate_pseudo_class()))
