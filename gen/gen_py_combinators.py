"""Regenerate Generated/PyCombinators.lean: `CSSParser.parse_combinator` and `CSSParser.parse_has_combinator`,
translated from the SOURCE TEXT of soupsieve/css_parser.py with `ast` (no import of the module, no hand copy).

Each method becomes a `CombDyn.Fn` (lean/SoupVerif/Model/CombDyn.lean):

* the prologue `combinator = m.group(<group>).strip()` / `if not combinator: combinator = <K>` -> the fields
  `group` (the string literal) and `dflt` (the character code of the module-level one-character string constant K);
* the body -> a `Prog`: one `.act` per statement (the statement must be EXACTLY one of the `ACTIONS` below, after
  alpha-normalisation of the locals), `.raise msg off` for `raise SelectorSyntaxError(<message>, self.pattern, <off>)`
  (the constant text of the message selects `Msg`; `<off>` is `index`, `m.start(0)` or `m.end(0)`), `.ite` for
  `if / elif / else` with the condition translated as written (`Cond`: the boolean locals, `sel.tag`,
  `combinator == K`, `combinator != K`, `rel_type[1:] != K`, `not`, `and`, `or`), `.seq` for sequencing;
* the final `return a, b[, c]` -> `returns` (the canonical names of the returned locals).

Anything else raises `Unsupported` (gen_all reports FAILED, the pipeline treats the proof side as broken).

Value semantics of `_Selector` objects is CHECKED: on no path may `sel` be mutated after it has been stored
(`selectors.append(sel)`, `relations.append(sel)`, `selectors[-1].relations.append(sel)`) and before it is rebound
(`sel = _Selector()`), and every path that stores `sel` rebinds it before the `return`.

Harmless edits do not change the output: comments, docstrings, annotations and blank lines are not in the AST;
locals are alpha-normalised by order of first binding (parameters first), so a consistent renaming is invisible.
"""
import ast
import os
import sys

sys.path.insert(0, os.path.dirname(os.path.abspath(__file__)))
from gen_py_parsedisp import Unsupported, module_ast, find_method, alpha_normalise, strip_docstring, dump  # noqa: E402


def fail(msg, node=None):
    where = f' (line {node.lineno})' if node is not None and hasattr(node, 'lineno') else ''
    raise Unsupported(f'gen_py_combinators: {msg}{where}')


# canonical locals, in order of first binding (parameters first)
LOCALS = {
    'parse_combinator': ['self', 'sel', 'm', 'has_selector', 'selectors', 'relations', 'is_pseudo', 'is_forgive', 'index',
                         'combinator'],
    'parse_has_combinator': ['self', 'sel', 'm', 'has_selector', 'selectors', 'rel_type', 'index', 'combinator'],
}
CONSTS = ('WS_COMBINATOR', 'COMMA_COMBINATOR')


def char_constants(tree, names):
    """Module-level `NAME = '<one character>'`, bound exactly once in the whole module."""
    out = {}
    for st in tree.body:
        if isinstance(st, ast.Assign):
            targets, value = st.targets, st.value
        elif isinstance(st, ast.AnnAssign) and st.value is not None:
            targets, value = [st.target], st.value
        else:
            continue
        for t in targets:
            for n in ast.walk(t):
                if isinstance(n, ast.Name) and n.id in names:
                    if not (isinstance(t, ast.Name) and isinstance(value, ast.Constant) and type(value.value) is str
                            and len(value.value) == 1):
                        fail(f'{n.id} is not assigned a one-character string literal', st)
                    if n.id in out:
                        fail(f'{n.id} is assigned twice', st)
                    out[n.id] = ord(value.value)
    for n in ast.walk(tree):
        if isinstance(n, ast.Name) and n.id in names and not isinstance(n.ctx, ast.Load):
            pass  # counted below
        if isinstance(n, (ast.FunctionDef, ast.ClassDef)) and n.name in names:
            fail(f'{n.name} is rebound by a definition', n)
        if isinstance(n, ast.alias) and (n.asname or n.name) in names:
            fail(f'{n.asname or n.name} is rebound by an import', n)
        if isinstance(n, (ast.Global, ast.Nonlocal)) and set(n.names) & set(names):
            fail('combinator constant declared global / nonlocal', n)
    for name in names:
        stores = [n for n in ast.walk(tree) if isinstance(n, ast.Name) and n.id == name and not isinstance(n.ctx, ast.Load)]
        if name not in out or len(stores) != 1:
            fail(f'{name}: expected exactly one binding (a module-level assignment), found {len(stores)}')
    return out


def stmt_dump(src):
    body = ast.parse(src).body
    assert len(body) == 1
    return dump(body[0])


def expr_dump(src):
    return dump(ast.parse(src, mode='eval').body)


# statement (canonical locals) -> CombDyn.Act; `{K}` ranges over the character constants
ACTIONS = {
    'sel.no_match = True': '.setNoMatch',
    'del relations[:]': '.clearRelations',
    'selectors.append(sel)': '.appendSel',
    'sel.relations.extend(relations)': '.extendRelations',
    'sel.rel_type = combinator': '.setRelTypeComb',
    'relations.append(sel)': '.relationsAppendSel',
    'sel.rel_type = rel_type': '.setRelTypeVar',
    'selectors[-1].relations.append(sel)': '.lastRelationsAppendSel',
    "rel_type = ':' + combinator": '.relTypeColonComb',
    'selectors.append(_Selector())': '.appendFresh',
    'sel = _Selector()': '.freshSel',
    'has_selector = False': '.hasSelectorFalse',
}
STORES = ('.appendSel', '.relationsAppendSel', '.lastRelationsAppendSel')
MUTATES = ('.setNoMatch', '.extendRelations', '.setRelTypeComb', '.setRelTypeVar', '.impliedTag')

MESSAGES = {
    "The combinator '{}' at position {}, must have a selector before it": '.needsSelector',
    'The multiple combinators at position {}': '.multiple',
}
OFFSETS = {
    expr_dump('m.start(0)'): '.mStart',
    expr_dump('m.end(0)'): '.mEnd',
    expr_dump('index'): '.index',
}
ATOMS = {
    expr_dump('has_selector'): '.hasSelector',
    expr_dump('is_forgive'): '.isForgive',
    expr_dump('is_pseudo'): '.isPseudo',
    expr_dump('sel.tag'): '.selTag',
}


class Translator:
    def __init__(self, consts, allowed_locals):
        self.consts = consts
        self.allowed = set(allowed_locals)
        self.actions = {stmt_dump(src): act for src, act in ACTIONS.items()}
        for k, v in consts.items():
            self.actions[stmt_dump(f"rel_type = ':' + {k}")] = f'(.relTypeColon {v})'

    def check_locals(self, node):
        """Vocabulary entries that mention a local the method does not have (e.g. `relations` in
        parse_has_combinator) cannot match: alpha-normalisation would have failed first; this is a second guard."""
        for n in ast.walk(node):
            if isinstance(n, ast.Name) and n.id in LOCALS['parse_combinator'] + LOCALS['parse_has_combinator'] \
                    and n.id not in self.allowed:
                fail(f'`{n.id}` is not a local of this method', node)

    def const(self, node):
        if isinstance(node, ast.Name) and node.id in self.consts:
            return self.consts[node.id]
        fail(f'expected one of {CONSTS}: {ast.unparse(node)}', node)

    def cond(self, node):
        self.check_locals(node)
        d = dump(node)
        if d in ATOMS:
            return ATOMS[d]
        if isinstance(node, ast.UnaryOp) and isinstance(node.op, ast.Not):
            return f'(.not {self.cond(node.operand)})'
        if isinstance(node, ast.BoolOp):
            op = '.and' if isinstance(node.op, ast.And) else '.or'
            parts = [self.cond(v) for v in node.values]
            out = parts[-1]
            for p in reversed(parts[:-1]):
                out = f'({op} {p} {out})'
            return out
        if isinstance(node, ast.Compare) and len(node.ops) == 1 and len(node.comparators) == 1:
            left, op, right = node.left, node.ops[0], node.comparators[0]
            if dump(left) == expr_dump('combinator') and isinstance(op, (ast.Eq, ast.NotEq)):
                return f'(.comb{"Eq" if isinstance(op, ast.Eq) else "Ne"} {self.const(right)})'
            if dump(left) == expr_dump('rel_type[1:]') and isinstance(op, ast.NotEq):
                return f'(.relTailNe {self.const(right)})'
        fail(f'unsupported condition: {ast.unparse(node)}', node)

    def message(self, node):
        if isinstance(node, ast.Constant) and isinstance(node.value, str):
            skeleton = node.value.replace('{', '{{')
        elif isinstance(node, ast.JoinedStr):
            skeleton = ''
            for v in node.values:
                if isinstance(v, ast.Constant) and isinstance(v.value, str):
                    skeleton += v.value
                elif isinstance(v, ast.FormattedValue) and v.format_spec is None and v.conversion == -1 and \
                        (dump(v.value) == expr_dump('combinator') or dump(v.value) in OFFSETS):
                    skeleton += '{}'
                else:
                    fail('unsupported part of an f-string message', node)
        else:
            fail(f'message is not a string literal / f-string: {ast.unparse(node)}', node)
        if skeleton not in MESSAGES:
            fail(f'unknown message text {skeleton!r}', node)
        return MESSAGES[skeleton]

    def stmt(self, st):
        self.check_locals(st)
        d = dump(st)
        if d in self.actions:
            return ('act', self.actions[d])
        if isinstance(st, ast.Assign) and len(st.targets) == 1 and dump(st.targets[0]) == dump(ast.parse('sel.tag = 0').body[0].targets[0]):
            v = st.value
            tpl = ast.parse("ct.SelectorTag('*', None)", mode='eval').body
            if isinstance(v, ast.Call) and dump(v.func) == dump(tpl.func) and not v.keywords and len(v.args) == 2 \
                    and isinstance(v.args[0], ast.Constant) and type(v.args[0].value) is str \
                    and isinstance(v.args[1], ast.Constant) and v.args[1].value is None:
                return ('act', '(.impliedTag [' + ', '.join(str(ord(c)) for c in v.args[0].value) + '])')
        if isinstance(st, ast.Raise):
            tpl = ast.parse('SelectorSyntaxError(0, self.pattern, 0)', mode='eval').body
            e = st.exc
            if st.cause is None and isinstance(e, ast.Call) and dump(e.func) == dump(tpl.func) and not e.keywords \
                    and len(e.args) == 3 and dump(e.args[1]) == dump(tpl.args[1]):
                if dump(e.args[2]) not in OFFSETS:
                    fail(f'offset is not m.start(0) / m.end(0) / index: {ast.unparse(e.args[2])}', st)
                return ('raise', self.message(e.args[0]), OFFSETS[dump(e.args[2])])
            fail(f'unsupported raise: {ast.unparse(st)}', st)
        if isinstance(st, ast.If):
            return ('ite', self.cond(st.test), self.block(st.body), self.block(st.orelse))
        if isinstance(st, ast.Pass):
            return ('skip',)
        fail(f'statement outside the vocabulary: {ast.unparse(st)}', st)

    def block(self, stmts):
        return ('block', [self.stmt(s) for s in stmts])


def check_aliasing(prog, states):
    """`states`: the possible values of "sel has been stored since it was bound" before `prog`; returns them after."""
    kind = prog[0]
    if kind == 'skip':
        return states
    if kind == 'raise':
        return set()
    if kind == 'act':
        a = prog[1].strip('()').split()[0]
        if a in MUTATES and True in states:
            fail(f'`sel` is mutated ({a}) after it has been stored: value semantics would be wrong')
        if a in STORES:
            return {True} if states else set()
        if a == '.freshSel':
            return {False} if states else set()
        return states
    if kind == 'ite':
        return check_aliasing(prog[2], states) | check_aliasing(prog[3], states)
    if kind == 'block':
        for p in prog[1]:
            states = check_aliasing(p, states)
        return states
    raise AssertionError(kind)


def render_prog(prog, ind):
    pad = ' ' * ind
    kind = prog[0]
    if kind == 'skip':
        return pad + '.skip'
    if kind == 'act':
        return pad + f'(.act {prog[1]})'
    if kind == 'raise':
        return pad + f'(.raise {prog[1]} {prog[2]})'
    if kind == 'ite':
        return (pad + f'(.ite {prog[1]}\n' + render_prog(prog[2], ind + 2) + '\n' + render_prog(prog[3], ind + 2) + ')')
    if kind == 'block':
        items = prog[1]
        if not items:
            return pad + '.skip'
        if len(items) == 1:
            return render_prog(items[0], ind)
        return pad + '(.seq\n' + render_prog(items[0], ind + 2) + '\n' + render_prog(('block', items[1:]), ind + 2) + ')'
    raise AssertionError(kind)


def translate_method(tree, consts, name):
    fn = alpha_normalise(find_method(tree, 'CSSParser', name), LOCALS[name])
    params = [a.arg for a in fn.args.args]
    if params != LOCALS[name][:-1] or fn.args.defaults or fn.args.kw_defaults:
        fail(f'{name}: unexpected parameters {params}', fn)
    body = strip_docstring(fn.body)
    if len(body) < 3:
        fail(f'{name}: body too short', fn)
    # prologue
    tpl = ast.parse("combinator = m.group('relation').strip()").body[0]
    st = body[0]
    if not (isinstance(st, ast.Assign) and isinstance(st.value, ast.Call)):
        fail(f'{name}: first statement is not `combinator = m.group(<name>).strip()`', st)
    try:
        group_arg = st.value.func.value.args[0]
    except (AttributeError, IndexError):
        fail(f'{name}: first statement is not `combinator = m.group(<name>).strip()`', st)
    if not (isinstance(group_arg, ast.Constant) and type(group_arg.value) is str):
        fail(f'{name}: group name is not a string literal', st)
    group = group_arg.value
    tpl.value.func.value.args[0] = ast.Constant(value=group)
    if dump(st) != dump(tpl):
        fail(f'{name}: first statement is not `combinator = m.group(<name>).strip()`: {ast.unparse(st)}', st)
    st = body[1]
    dflt = None
    for k, v in consts.items():
        if dump(st) == stmt_dump(f'if not combinator:\n    combinator = {k}'):
            dflt = v
    if dflt is None:
        fail(f'{name}: second statement is not `if not combinator: combinator = <K>`: {ast.unparse(st)}', st)
    # return
    ret = body[-1]
    if not (isinstance(ret, ast.Return) and isinstance(ret.value, ast.Tuple)
            and all(isinstance(e, ast.Name) and isinstance(e.ctx, ast.Load) for e in ret.value.elts)):
        fail(f'{name}: last statement is not `return <local>, …`', ret)
    returns = [e.id for e in ret.value.elts]
    for r in returns:
        if r not in LOCALS[name]:
            fail(f'{name}: returns a non-local {r}', ret)
    for n in ast.walk(ast.Module(body=body[:-1], type_ignores=[])):
        if isinstance(n, (ast.Return, ast.Yield, ast.YieldFrom, ast.Await)):
            fail(f'{name}: return / yield inside the body', n)
    tr = Translator(consts, LOCALS[name])
    prog = tr.block(body[2:-1])
    out = check_aliasing(prog, {False})
    if True in out:
        fail(f'{name}: a path returns with `sel` still bound to a stored object')
    return {'group': group, 'dflt': dflt, 'returns': returns, 'prog': prog}


def lean_str(s):
    return '"' + s.replace('\\', '\\\\').replace('"', '\\"') + '"'


def translate():
    tree = module_ast('css_parser.py')
    consts = char_constants(tree, CONSTS)
    fns = {name: translate_method(tree, consts, name) for name in ('parse_combinator', 'parse_has_combinator')}
    return consts, fns


def render(consts, fns):
    lines = [
        '/- GENERATED by gen/gen_py_combinators.py from the source text of soupsieve/css_parser.py',
        '   (CSSParser.parse_combinator, CSSParser.parse_has_combinator). Do not edit. -/',
        'import SoupVerif.Model.CombDyn',
        'namespace SoupVerif.Gen.PyCombinators',
        'open SoupVerif.CombDyn',
    ]
    for k in CONSTS:
        lines += [f'/-- module-level `{k}` (a one-character string), as its character code -/',
                  f'def {k} : Nat := {consts[k]}']
    for name, f in fns.items():
        lines += [f'/-- `CSSParser.{name}` -/',
                  f'def {name} : Fn := {{',
                  f'  group := {lean_str(f["group"])}, dflt := {f["dflt"]}, returns := [' + ', '.join(lean_str(r) for r in f['returns']) + '],',
                  '  body :=',
                  render_prog(f['prog'], 4) + ' }']
    lines += ['end SoupVerif.Gen.PyCombinators']
    return '\n'.join(lines) + '\n'


def count(prog):
    kind = prog[0]
    if kind == 'block':
        return sum(count(p) for p in prog[1])
    if kind == 'ite':
        return 1 + count(prog[2]) + count(prog[3])
    return 1


def main(dest):
    consts, fns = translate()
    text = render(consts, fns)
    old = open(dest).read() if os.path.exists(dest) else None
    if old != text:
        open(dest, 'w').write(text)
    return {name: count(f['prog']) for name, f in fns.items()}


if __name__ == '__main__':
    if len(sys.argv) > 1:
        print(main(sys.argv[1]))
    else:
        print(render(*translate()))
