"""Regenerate lean/SoupVerif/Generated/Classes.lean (property C15).

Everything is read from the source tree: `ast` on css_types.py / css_parser.py / css_match.py /
__init__.py below `src_root`, plus the live classes (MRO look-ups, `__slots__`, copyreg table,
`cache_parameters()`), imported from the very same `src_root`.  Nothing about the library is
hard-coded here except the *expected shapes* of the dunder bodies (the templates below); a body
that does not have the expected shape is emitted as an explicit `unknown` constructor, for which
the `decide`d side conditions in Properties/C15.lean are false (fail closed).  AST and live facts
that must agree (class set, `__slots__`, registered classes, maxsize) are cross-checked and a
disagreement raises.

    main(dest, src_root='/repo/soupsieve')
"""
import ast
import importlib
import os
import sys

DEFAULT_SRC = os.path.join(os.environ.get('SOUPVERIF_REPO', '/repo'), 'soupsieve')

# ---------------------------------------------------------------------------------------------
# small AST helpers


def parse_file(path):
    with open(path, encoding='utf-8') as f:
        return ast.parse(f.read(), filename=path)


def strip_doc(body):
    """Statements of a function/class body without the leading docstring."""
    if body and isinstance(body[0], ast.Expr) and isinstance(body[0].value, ast.Constant) \
            and isinstance(body[0].value.value, str):
        return body[1:]
    return body


def dump(nodes):
    if isinstance(nodes, list):
        return '\n'.join(ast.dump(n) for n in nodes)
    return ast.dump(nodes)


def template(src):
    """Statement list of a template body (the EXPECTED shape, compared by `ast.dump`)."""
    return ast.parse(src).body


def arg_names(fn):
    """(positional names, kw-only names, vararg, kwarg, number of defaults)."""
    a = fn.args
    return ([x.arg for x in a.posonlyargs + a.args], [x.arg for x in a.kwonlyargs],
            a.vararg.arg if a.vararg else None, a.kwarg.arg if a.kwarg else None, len(a.defaults))


def top_classes(tree):
    return {n.name: n for n in tree.body if isinstance(n, ast.ClassDef)}


def top_functions(tree):
    return {n.name: n for n in tree.body if isinstance(n, ast.FunctionDef)}


def class_methods(cls):
    """Every name bound in a class body by `def` or by assignment (e.g. `__str__ = __repr__`)."""
    out = []
    for n in cls.body:
        if isinstance(n, (ast.FunctionDef, ast.AsyncFunctionDef)):
            out.append(n.name)
        elif isinstance(n, ast.Assign):
            for t in n.targets:
                if isinstance(t, ast.Name):
                    out.append(t.id)
        elif isinstance(n, ast.AnnAssign) and n.value is not None and isinstance(n.target, ast.Name):
            out.append(n.target.id)
    return out


def class_def(cls, name):
    for n in cls.body:
        if isinstance(n, ast.FunctionDef) and n.name == name:
            return n
    return None


def slots_as_written(cls):
    """The `__slots__` tuple literal of the class body, or None when the class has none."""
    for n in cls.body:
        val = None
        if isinstance(n, ast.Assign) and any(isinstance(t, ast.Name) and t.id == '__slots__' for t in n.targets):
            val = n.value
        elif isinstance(n, ast.AnnAssign) and isinstance(n.target, ast.Name) and n.target.id == '__slots__':
            val = n.value
        if val is not None:
            if not isinstance(val, (ast.Tuple, ast.List)) or \
                    not all(isinstance(e, ast.Constant) and isinstance(e.value, str) for e in val.elts):
                raise ValueError(f'{cls.name}.__slots__ is not a literal tuple of strings')
            return [e.value for e in val.elts]
    return None


# ---------------------------------------------------------------------------------------------
# expected shapes (templates).  Parameter names are part of the shape.

T_RAISE_ATTR = 'raise AttributeError(X)'          # only the callee name and the absence of `from` matter

T_EQ = template(
    "return (isinstance(other, self.__base__()) and "
    "all(getattr(other, key) == getattr(self, key) for key in self.__slots__ if key != '_hash'))")
T_NE = template(
    "return (not isinstance(other, self.__base__()) or "
    "any(getattr(other, key) != getattr(self, key) for key in self.__slots__ if key != '_hash'))")
T_HASH = template("return self._hash")
T_BASE = template("return cls")
T_INIT_VALUES = template(
    "temp = []\n"
    "for k, v in kwargs.items():\n"
    "    temp.append(v)\n"
    "    super().__setattr__(k, v)\n"
    "super().__setattr__('_hash', hash(tuple(temp)))\n")
T_INIT_TYPE_AND_VALUE = template(
    "temp = []\n"
    "for k, v in kwargs.items():\n"
    "    temp.append(type(v))\n"
    "    temp.append(v)\n"
    "    super().__setattr__(k, v)\n"
    "super().__setattr__('_hash', hash(tuple(temp)))\n")
T_PICKLE = template("return p.__base__(), tuple([getattr(p, s) for s in p.__slots__[:-1]])")
T_PICKLE_GEN = template("return p.__base__(), tuple(getattr(p, s) for s in p.__slots__[:-1])")
T_REGISTER = template("copyreg.pickle(obj, _pickle)")
T_PURGE = template("_cached_css_compile.cache_clear()")
T_PURGE_API = template("cp._purge_cache()")
T_DICT_HASH = template(
    "self._hash = hash(tuple([(type(x), x, type(y), y) for x, y in sorted(self._d.items())]))")
T_DICT_HASH_VALUES = template("self._hash = hash(tuple(sorted(self._d.items())))")
T_DICT_REDUCE = template("return (self.__class__, (self._d,))")
T_DICT_COPY = template("self._d = dict(arg)")
T_DICT_VALIDATE = template("self._validate(arg)")
T_SUPER_INIT_ARG = template("super().__init__(arg)")


def same(body, tmpl):
    return dump(body) == dump(tmpl)


def positional_only_shape(fn, names):
    pos, kwo, va, kw, _ = arg_names(fn)
    return pos == names and not kwo and va is None and kw is None


def classify_guard(fn):
    """`__setattr__` / `__delattr__`: optional docstring + one `raise AttributeError(...)`."""
    if fn is None:
        return 'inherited'
    body = strip_doc(fn.body)
    if len(body) == 1 and isinstance(body[0], ast.Raise) and body[0].cause is None:
        exc = body[0].exc
        if isinstance(exc, ast.Call) and isinstance(exc.func, ast.Name) and exc.func.id == 'AttributeError':
            return 'raisesAttributeError'
        if isinstance(exc, ast.Name) and exc.id == 'AttributeError':
            return 'raisesAttributeError'
    return 'unknown'


def classify(fn, names, table):
    """`table`: list of (template, kind). `names`: the required positional parameter names."""
    if fn is None:
        return 'inherited'
    if fn.decorator_list and not (len(fn.decorator_list) == 1 and isinstance(fn.decorator_list[0], ast.Name)
                                  and fn.decorator_list[0].id == 'classmethod'):
        return 'unknown'
    if names is not None and not positional_only_shape(fn, names):
        return 'unknown'
    body = strip_doc(fn.body)
    for tmpl, kind in table:
        if same(body, tmpl):
            return kind
    return 'unknown'


def classify_init_hash(fn):
    if fn is None:
        return 'unknown'
    pos, kwo, va, kw, _ = arg_names(fn)
    if pos != ['self'] or kwo or va is not None or kw != 'kwargs':
        return 'unknown'
    body = strip_doc(fn.body)
    if same(body, T_INIT_VALUES):
        return 'tupleOfValuesOverKwargs'
    if same(body, T_INIT_TYPE_AND_VALUE):
        return 'tupleOfTypeAndValueOverKwargs'
    return 'unknown'


def classify_kwarg_value(expr, params):
    """What a subclass passes for one keyword of `super().__init__(k=<expr>)`.
    Returns (kind, param)."""
    if isinstance(expr, ast.Name) and expr.id in params:
        return 'param', expr.id
    for p in params:
        if dump(expr) == dump(ast.parse(f'tuple({p})', mode='eval').body):
            return 'tupleOfParam', p
        if dump(expr) == dump(ast.parse(f'tuple({p}) if {p} is not None else ()', mode='eval').body):
            return 'tupleOfParamOrEmpty', p
    return 'unknown', ''


def subclass_init(cls):
    """(initParams, nDefaults, kwargs [(name, kind, param)], shape_ok) of a subclass `__init__`."""
    fn = class_def(cls, '__init__')
    if fn is None:
        return None
    pos, kwo, va, kw, ndef = arg_names(fn)
    ok = bool(pos) and pos[0] == 'self' and not kwo and va is None and kw is None
    params = pos[1:]
    body = strip_doc(fn.body)
    kwargs = []
    if len(body) == 1 and isinstance(body[0], ast.Expr) and isinstance(body[0].value, ast.Call):
        call = body[0].value
        f = call.func
        is_super_init = (isinstance(f, ast.Attribute) and f.attr == '__init__' and isinstance(f.value, ast.Call)
                         and isinstance(f.value.func, ast.Name) and f.value.func.id == 'super'
                         and not f.value.args and not f.value.keywords)
        if is_super_init and not call.args and all(k.arg is not None for k in call.keywords):
            for k in call.keywords:
                kind, p = classify_kwarg_value(k.value, params)
                kwargs.append((k.arg, kind, p))
        else:
            ok = False
    else:
        ok = False
    return params, ndef, kwargs, ok


# ---------------------------------------------------------------------------------------------
# live import from src_root


def live_modules(src_root):
    src_root = os.path.realpath(src_root)
    parent, pkg = os.path.split(src_root)
    if pkg != 'soupsieve':
        raise ValueError(f'src_root must be a directory named soupsieve: {src_root}')
    loaded = sys.modules.get('soupsieve')
    if loaded is not None and os.path.realpath(os.path.dirname(loaded.__file__)) != src_root:
        # a different tree is already imported in this process: replace it for the duration
        for k in [k for k in sys.modules if k == 'soupsieve' or k.startswith('soupsieve.')]:
            del sys.modules[k]
    sys.path.insert(0, parent)
    try:
        sv = importlib.import_module('soupsieve')
        ct = importlib.import_module('soupsieve.css_types')
        cm = importlib.import_module('soupsieve.css_match')
        cp = importlib.import_module('soupsieve.css_parser')
    finally:
        sys.path.remove(parent)
    for m in (sv, ct, cm, cp):
        if os.path.realpath(os.path.dirname(m.__file__)) != src_root:
            raise RuntimeError(f'{m.__name__} was imported from {m.__file__}, not from {src_root}')
    return sv, ct, cm, cp


def all_subclasses(cls):
    out = []
    for s in cls.__subclasses__():
        if s not in out:
            out.append(s)
        for t in all_subclasses(s):
            if t not in out:
                out.append(t)
    return out


def definer(cls, name):
    """Name of the class in the MRO, below `object`, whose own dict binds `name`; else None."""
    for k in cls.__mro__:
        if k is object:
            continue
        if name in k.__dict__:
            return k
    return None


def def_name(cls, name):
    d = definer(cls, name)
    return None if d is None else d.__name__


# ---------------------------------------------------------------------------------------------
# Lean emission


def s(x):
    return '"' + x.replace('\\', '\\\\').replace('"', '\\"') + '"'


def slist(xs):
    return '[' + ', '.join(s(x) for x in xs) + ']'


def opt(x):
    return 'none' if x is None else f'(some {s(x)})'


def b(x):
    return 'true' if x else 'false'


PRELUDE = '''namespace SoupVerif.Gen.Classes

/-- What `__setattr__` / `__delattr__` do. `inherited`: not defined below `object`, i.e. the
    default behaviour (the attribute really is set / deleted). -/
inductive GuardKind | raisesAttributeError | inherited | unknown
  deriving DecidableEq, Repr
/-- `allSlotsButHash`: `isinstance(other, self.__base__()) and all(getattr(other, key) ==
    getattr(self, key) for key in self.__slots__ if key != '_hash')`. -/
inductive EqKind | allSlotsButHash | inherited | unknown
  deriving DecidableEq, Repr
/-- `negatedAllSlotsButHash`: the De Morgan dual of `EqKind.allSlotsButHash`. -/
inductive NeKind | negatedAllSlotsButHash | inherited | unknown
  deriving DecidableEq, Repr
/-- `returnsStoredHash`: `return self._hash`. -/
inductive HashKind | returnsStoredHash | inherited | unknown
  deriving DecidableEq, Repr
/-- The loop of `Immutable.__init__` that stores every keyword with `super().__setattr__` and
    then `_hash = hash(tuple(temp))`, where `temp` collects `v` (values only) or `type(v), v`. -/
inductive InitHashKind | tupleOfValuesOverKwargs | tupleOfTypeAndValueOverKwargs | unknown
  deriving DecidableEq, Repr
/-- `__base__`: the classmethod `return cls`. -/
inductive BaseKind | returnsCls | inherited | unknown
  deriving DecidableEq, Repr
/-- The value a subclass constructor passes for one keyword of `super().__init__(k=...)`:
    the parameter itself, `tuple(p)`, `tuple(p) if p is not None else ()`. -/
inductive KwargExpr | param | tupleOfParam | tupleOfParamOrEmpty | unknown
  deriving DecidableEq, Repr

structure Kwarg where
  name : String
  expr : KwargExpr
  /-- the constructor parameter the expression is built from -/
  param : String
  deriving DecidableEq, Repr

structure ClassInfo where
  name : String
  module : String
  /-- `__slots__` as written in the class body (`none`: the class body has no `__slots__`) -/
  slotsDeclared : Option (List String)
  /-- `cls.__slots__` as seen by `self.__slots__` (inherited when not declared) -/
  slots : List String
  /-- positional parameters of `__init__` without `self` -/
  initParams : List String
  initDefaults : Nat
  /-- `__init__` is `def __init__(self, p1, .., pn)` whose body is exactly one
      `super().__init__(k1=.., .., km=..)` call -/
  initShapeOk : Bool
  kwargs : List Kwarg
  setattrDef : Option String
  delattrDef : Option String
  eqDef : Option String
  neDef : Option String
  hashDef : Option String
  baseDef : Option String
  initHashDef : Option String
  setattrKind : GuardKind
  delattrKind : GuardKind
  eqKind : EqKind
  neKind : NeKind
  hashKind : HashKind
  baseKind : BaseKind
  initHashKind : InitHashKind
  /-- `_hash` is the last entry of `slots` -/
  hashIsLastSlot : Bool
  /-- `slots[:-1]` -/
  slotsButLast : List String
  /-- registered with `pickle_register` (AST) and present in `copyreg.dispatch_table` with `_pickle` (live) -/
  registered : Bool
  /-- live instances carry a `__dict__` (a class in the MRO has no `__slots__`) -/
  hasDict : Bool
  /-- number of live subclasses -/
  subclasses : Nat
  deriving DecidableEq, Repr

def ClassInfo.superKwargs (c : ClassInfo) : List String := c.kwargs.map (·.name)

/-- `_pickle` -/
inductive PickleKind | baseAndSlotsButLast | unknown
  deriving DecidableEq, Repr
inductive RegisterKind | copyregPickleWithPickle | unknown
  deriving DecidableEq, Repr
inductive PurgeKind | callsCacheClear | unknown
  deriving DecidableEq, Repr
inductive PurgeApiKind | callsPurgeCache | unknown
  deriving DecidableEq, Repr

/-- The test of one guard of the pass-through branch of `compile`. -/
inductive GuardTest | truthy | isNotNone | unknown
  deriving DecidableEq, Repr
structure CompileGuard where
  param : String
  test : GuardTest
  raises : String
  deriving DecidableEq, Repr
/-- One argument expression of the `cp._cached_css_compile(...)` call in `compile`:
    `p`, or `ct.C(p) if p is not None else p`. -/
inductive CallArg
  | param (p : String)
  | wrapIfNotNone (cls : String) (p : String)
  | unknown
  deriving DecidableEq, Repr

/-- `_hash` of `ImmutableDict`. -/
inductive DictHashKind | sortedItems | sortedItemsTypeAndValue | unknown
  deriving DecidableEq, Repr

structure DictClassInfo where
  name : String
  bases : List String
  /-- every name bound in the class body (`def` or assignment) -/
  methods : List String
  eqDef : Option String
  hashDef : Option String
  setattrDef : Option String
  delattrDef : Option String
  /-- names of `collections.abc.MutableMapping` that are not in `Mapping`, and `dict` mutators,
      which the live class nevertheless has -/
  liveMutators : List String
  hasDict : Bool
  deriving DecidableEq, Repr
'''


def emit_class(ci):
    kw = ', '.join(f'⟨{s(n)}, .{k}, {s(p)}⟩' for n, k, p in ci['kwargs'])
    sd = 'none' if ci['slotsDeclared'] is None else f"(some {slist(ci['slotsDeclared'])})"
    return (
        '{ name := ' + s(ci['name']) + ', module := ' + s(ci['module']) + ',\n'
        '    slotsDeclared := ' + sd + ',\n'
        '    slots := ' + slist(ci['slots']) + ',\n'
        '    initParams := ' + slist(ci['initParams']) + ', initDefaults := ' + str(ci['initDefaults']) +
        ', initShapeOk := ' + b(ci['initShapeOk']) + ',\n'
        '    kwargs := [' + kw + '],\n'
        '    setattrDef := ' + opt(ci['setattrDef']) + ', delattrDef := ' + opt(ci['delattrDef']) +
        ', eqDef := ' + opt(ci['eqDef']) + ', neDef := ' + opt(ci['neDef']) + ',\n'
        '    hashDef := ' + opt(ci['hashDef']) + ', baseDef := ' + opt(ci['baseDef']) +
        ', initHashDef := ' + opt(ci['initHashDef']) + ',\n'
        '    setattrKind := .' + ci['setattrKind'] + ', delattrKind := .' + ci['delattrKind'] +
        ', eqKind := .' + ci['eqKind'] + ', neKind := .' + ci['neKind'] + ',\n'
        '    hashKind := .' + ci['hashKind'] + ', baseKind := .' + ci['baseKind'] +
        ', initHashKind := .' + ci['initHashKind'] + ',\n'
        '    hashIsLastSlot := ' + b(ci['hashIsLastSlot']) + ', slotsButLast := ' + slist(ci['slotsButLast']) + ',\n'
        '    registered := ' + b(ci['registered']) + ', hasDict := ' + b(ci['hasDict']) +
        ', subclasses := ' + str(ci['subclasses']) + ' }')


# ---------------------------------------------------------------------------------------------
# extraction


def qual_attr(node):
    """`a.b.c` -> 'a.b.c' for Name/Attribute chains, else None."""
    parts = []
    while isinstance(node, ast.Attribute):
        parts.append(node.attr)
        node = node.value
    if isinstance(node, ast.Name):
        parts.append(node.id)
        return '.'.join(reversed(parts))
    return None


def names_loaded(node):
    return [n.id for n in ast.walk(node) if isinstance(n, ast.Name) and isinstance(n.ctx, ast.Load)]


def extract(src_root):
    src_root = os.path.realpath(src_root)
    t_ct = parse_file(os.path.join(src_root, 'css_types.py'))
    t_cp = parse_file(os.path.join(src_root, 'css_parser.py'))
    t_cm = parse_file(os.path.join(src_root, 'css_match.py'))
    t_in = parse_file(os.path.join(src_root, '__init__.py'))
    sv, ct, cm, cp = live_modules(src_root)
    import copyreg
    import collections.abc as cabc

    ast_classes = {}  # live class -> ClassDef
    for mod, tree in ((ct, t_ct), (cm, t_cm), (cp, t_cp)):
        for name, node in top_classes(tree).items():
            live = getattr(mod, name, None)
            if isinstance(live, type) and live.__module__ == mod.__name__:
                ast_classes[live] = node

    base = ct.Immutable
    if base not in ast_classes:
        raise RuntimeError('class Immutable not found in css_types.py')
    subs = all_subclasses(base)
    for c in subs:
        if c not in ast_classes:
            raise RuntimeError(f'Immutable subclass {c.__module__}.{c.__qualname__} has no top-level class '
                               f'definition in the parsed sources')
    # AST-side subclass set: classes whose base expression names Immutable (directly or via an alias chain)
    ast_subs = set()
    changed = True
    while changed:
        changed = False
        for live, node in ast_classes.items():
            if live in ast_subs or live is base:
                continue
            for bexpr in node.bases:
                q = qual_attr(bexpr)
                if q is None:
                    continue
                last = q.split('.')[-1]
                if last == 'Immutable' or any(x.__name__ == last for x in ast_subs):
                    ast_subs.add(live)
                    changed = True
    if ast_subs != set(subs):
        raise RuntimeError(f'AST subclass set {sorted(c.__name__ for c in ast_subs)} differs from live '
                           f'{sorted(c.__name__ for c in subs)}')

    # pickle registration: AST calls `pickle_register(X)` / `ct.pickle_register(X)` at module level
    registered_ast = []
    for mod, tree in ((ct, t_ct), (cm, t_cm), (cp, t_cp), (sv, t_in)):
        for n in tree.body:
            if isinstance(n, ast.Expr) and isinstance(n.value, ast.Call):
                q = qual_attr(n.value.func)
                if q is not None and q.split('.')[-1] == 'pickle_register':
                    if len(n.value.args) != 1 or n.value.keywords:
                        raise RuntimeError('pickle_register call with unexpected arguments')
                    target = qual_attr(n.value.args[0])
                    live = getattr(mod, target.split('.')[-1], None) if target else None
                    if not isinstance(live, type):
                        raise RuntimeError(f'cannot resolve pickle_register({ast.dump(n.value.args[0])})')
                    registered_ast.append(live)
    registered_live = [k for k, v in copyreg.dispatch_table.items() if v is ct._pickle]
    if set(registered_ast) != set(registered_live):
        raise RuntimeError(f'pickle_register calls (AST) {sorted(c.__name__ for c in registered_ast)} differ '
                           f'from copyreg.dispatch_table {sorted(c.__name__ for c in registered_live)}')

    def method_ast(owner, name):
        node = ast_classes.get(owner)
        return class_def(node, name) if node is not None else None

    def info(cls):
        node = ast_classes[cls]
        declared = slots_as_written(node)
        live_decl = cls.__dict__.get('__slots__')
        if (declared is None) != (live_decl is None) or (declared is not None and tuple(declared) != tuple(live_decl)):
            raise RuntimeError(f'{cls.__name__}.__slots__: AST {declared} differs from live {live_decl}')
        slots = list(cls.__slots__)
        defs = {}
        for key, dunder in (('setattr', '__setattr__'), ('delattr', '__delattr__'), ('eq', '__eq__'),
                            ('ne', '__ne__'), ('hash', '__hash__'), ('base', '__base__')):
            defs[key] = definer(cls, dunder)
        # the `__init__` that computes the hash: first `__init__` in the MRO taking **kwargs
        init_hash_def = None
        for k in cls.__mro__:
            if k is object or '__init__' not in k.__dict__:
                continue
            fn = method_ast(k, '__init__')
            if fn is not None and fn.args.kwarg is not None:
                init_hash_def = k
                break

        def fn_of(key):
            d = defs[key]
            if d is None:
                return None, 'inherited'
            fn = method_ast(d, {'setattr': '__setattr__', 'delattr': '__delattr__', 'eq': '__eq__',
                                'ne': '__ne__', 'hash': '__hash__', 'base': '__base__'}[key])
            return fn, None

        kinds = {}
        for key in ('setattr', 'delattr'):
            fn, k = fn_of(key)
            kinds[key] = k or ('unknown' if fn is None or not positional_only_shape(
                fn, ['self', 'name', 'value'] if key == 'setattr' else ['self', 'name']) else classify_guard(fn))
        fn, k = fn_of('eq')
        kinds['eq'] = k or ('unknown' if fn is None else classify(fn, ['self', 'other'], [(T_EQ, 'allSlotsButHash')]))
        fn, k = fn_of('ne')
        kinds['ne'] = k or ('unknown' if fn is None else classify(fn, ['self', 'other'], [(T_NE, 'negatedAllSlotsButHash')]))
        fn, k = fn_of('hash')
        kinds['hash'] = k or ('unknown' if fn is None else classify(fn, ['self'], [(T_HASH, 'returnsStoredHash')]))
        fn, k = fn_of('base')
        if k is None and fn is not None:
            is_cm = len(fn.decorator_list) == 1 and isinstance(fn.decorator_list[0], ast.Name) \
                and fn.decorator_list[0].id == 'classmethod'
            kinds['base'] = classify(fn, ['cls'], [(T_BASE, 'returnsCls')]) if is_cm else 'unknown'
        else:
            kinds['base'] = k or 'unknown'
        kinds['initHash'] = 'unknown' if init_hash_def is None else \
            classify_init_hash(method_ast(init_hash_def, '__init__'))

        if cls is base:
            params, ndef, kwargs, ok = [], 0, [], True
        else:
            si = subclass_init(node)
            if si is None:
                params, ndef, kwargs, ok = [], 0, [], False
            else:
                params, ndef, kwargs, ok = si
        try:
            has_dict = any('__slots__' not in k.__dict__ for k in cls.__mro__ if k is not object)
        except Exception:  # pragma: no cover
            has_dict = True
        return {
            'name': cls.__name__, 'module': cls.__module__,
            'slotsDeclared': declared, 'slots': slots,
            'initParams': params, 'initDefaults': ndef, 'initShapeOk': ok, 'kwargs': kwargs,
            'setattrDef': defs['setattr'] and defs['setattr'].__name__,
            'delattrDef': defs['delattr'] and defs['delattr'].__name__,
            'eqDef': defs['eq'] and defs['eq'].__name__,
            'neDef': defs['ne'] and defs['ne'].__name__,
            'hashDef': defs['hash'] and defs['hash'].__name__,
            'baseDef': defs['base'] and defs['base'].__name__,
            'initHashDef': init_hash_def and init_hash_def.__name__,
            'setattrKind': kinds['setattr'], 'delattrKind': kinds['delattr'], 'eqKind': kinds['eq'],
            'neKind': kinds['ne'], 'hashKind': kinds['hash'], 'baseKind': kinds['base'],
            'initHashKind': kinds['initHash'],
            'hashIsLastSlot': bool(slots) and slots[-1] == '_hash',
            'slotsButLast': slots[:-1],
            'registered': cls in registered_ast and cls in registered_live,
            'hasDict': has_dict,
            'subclasses': len(all_subclasses(cls)),
        }

    base_info = info(base)
    # source order: css_types classes in file order, then the others
    order = []
    for tree in (t_ct, t_cm, t_cp):
        for n in tree.body:
            if isinstance(n, ast.ClassDef):
                for live, node in ast_classes.items():
                    if node is n and live in subs:
                        order.append(live)
    if set(order) != set(subs):
        raise RuntimeError('ordering lost a class')
    ir_infos = [info(c) for c in order]

    # --- _pickle / pickle_register
    f_ct = top_functions(t_ct)
    pk = f_ct.get('_pickle')
    pickle_kind = 'unknown'
    if pk is not None and positional_only_shape(pk, ['p']) and not pk.decorator_list:
        body = strip_doc(pk.body)
        if same(body, T_PICKLE) or same(body, T_PICKLE_GEN):
            pickle_kind = 'baseAndSlotsButLast'
    rg = f_ct.get('pickle_register')
    register_kind = 'unknown'
    if rg is not None and positional_only_shape(rg, ['obj']) and same(strip_doc(rg.body), T_REGISTER):
        register_kind = 'copyregPickleWithPickle'

    # --- the cache
    f_cp = top_functions(t_cp)
    cc = f_cp.get('_cached_css_compile')
    if cc is None:
        raise RuntimeError('_cached_css_compile not found')
    decorators = []
    maxsize_expr, maxsize_val, typed_expr = '', None, ''
    for d in cc.decorator_list:
        if isinstance(d, ast.Call):
            decorators.append(qual_attr(d.func) or '?')
            for k in d.keywords:
                if k.arg == 'maxsize':
                    maxsize_expr = ast.unparse(k.value)
                elif k.arg == 'typed':
                    typed_expr = ast.unparse(k.value)
                else:
                    decorators.append('?keyword:' + str(k.arg))
            if d.args:
                maxsize_expr = ast.unparse(d.args[0])
                if len(d.args) > 1:
                    typed_expr = ast.unparse(d.args[1])
        else:
            decorators.append(qual_attr(d) or '?')
    live_fn = cp._cached_css_compile
    import functools
    live_is_lru = isinstance(live_fn, type(functools.lru_cache(maxsize=1)(lambda: None)))
    deco_origin = ''
    if decorators:
        obj = getattr(cp, decorators[0].split('.')[0], None)
        for part in decorators[0].split('.')[1:]:
            obj = getattr(obj, part, None)
        if obj is functools.lru_cache:
            deco_origin = 'functools.lru_cache'
    cache_typed = None
    if live_is_lru:
        params_live = live_fn.cache_parameters()
        maxsize_val = params_live['maxsize']
        cache_typed = params_live['typed']
        # cross-check the AST expression against module constants
        if maxsize_expr:
            try:
                v = eval(compile(ast.parse(maxsize_expr, mode='eval'), '<maxsize>', 'eval'), vars(cp))  # noqa: S307
            except Exception as e:
                raise RuntimeError(f'cannot evaluate maxsize expression {maxsize_expr!r}: {e!r}')
            if v != maxsize_val:
                raise RuntimeError(f'maxsize expression {maxsize_expr!r} = {v!r} but the live cache has {maxsize_val!r}')
    pos, kwo, va, kw, ndef = arg_names(cc)
    cache_params = pos
    cache_params_plain = not kwo and va is None and kw is None and ndef == 0

    # data flow inside the body: local -> set of parameters it was computed from
    taint = {p: {p} for p in cache_params}
    body = strip_doc(cc.body)
    simple_body = True
    ss_args, parser_args = None, None
    ss_arg_exprs = []

    def reach(node):
        out = set()
        for n in names_loaded(node):
            out |= taint.get(n, set())
        return out

    for st in body:
        if isinstance(st, ast.Assign) and len(st.targets) == 1 and isinstance(st.targets[0], ast.Name):
            taint[st.targets[0].id] = reach(st.value)
        elif isinstance(st, ast.Return) and st.value is not None:
            pass
        else:
            simple_body = False
    returns = [st for st in body if isinstance(st, ast.Return)]
    returns_soupsieve = False
    for n in ast.walk(cc):
        if isinstance(n, ast.Call):
            q = qual_attr(n.func)
            if q is not None and q.split('.')[-1] == 'SoupSieve':
                if ss_args is not None:
                    simple_body = False
                ss_args = set()
                for a in list(n.args) + [k.value for k in n.keywords]:
                    ss_args |= reach(a)
                for a in n.args:
                    ss_arg_exprs.append(a.id if isinstance(a, ast.Name) else '<expr>')
                if n.keywords:
                    ss_arg_exprs.append('<keywords>')
            elif q is not None and q.split('.')[-1] == 'CSSParser':
                if parser_args is not None:
                    simple_body = False
                parser_args = set()
                for a in list(n.args) + [k.value for k in n.keywords]:
                    parser_args |= reach(a)
    if len(returns) == 1 and isinstance(returns[0].value, ast.Call):
        q = qual_attr(returns[0].value.func)
        returns_soupsieve = q is not None and q.split('.')[-1] == 'SoupSieve' and body[-1] is returns[0]
    locals_ = set(taint)
    body_globals = []
    for st in body:
        for n in names_loaded(st):
            if n not in locals_ and n not in body_globals:
                body_globals.append(n)
    # does the resolved SoupSieve name denote css_match.SoupSieve?
    ss_ok = getattr(getattr(cp, 'cm', None), 'SoupSieve', None) is cm.SoupSieve

    pg = f_cp.get('_purge_cache')
    purge_kind = 'callsCacheClear' if (pg is not None and positional_only_shape(pg, [])
                                       and same(strip_doc(pg.body), T_PURGE)) else 'unknown'
    f_in = top_functions(t_in)
    pa = f_in.get('purge')
    purge_api_kind = 'callsPurgeCache' if (pa is not None and positional_only_shape(pa, [])
                                           and same(strip_doc(pa.body), T_PURGE_API)
                                           and getattr(sv, 'cp', None) is cp) else 'unknown'

    # --- compile() in __init__.py
    co = f_in.get('compile')
    if co is None:
        raise RuntimeError('compile not found in __init__.py')
    cpos, ckwo, cva, ckw, cndef = arg_names(co)
    cbody = strip_doc(co.body)
    guards = []
    pass_test_ok = False
    pass_returns_pattern = False
    call_args = []
    call_target = ''
    shape_ok = len(cbody) == 2 and isinstance(cbody[0], ast.If) and not cbody[0].orelse \
        and isinstance(cbody[1], ast.Return)
    if shape_ok:
        first = cbody[0]
        pass_test_ok = dump(first.test) == dump(ast.parse('isinstance(pattern, SoupSieve)', mode='eval').body) \
            and getattr(sv, 'SoupSieve', None) is cm.SoupSieve
        inner = first.body
        if len(inner) == 2 and isinstance(inner[0], ast.If) and isinstance(inner[1], ast.Return):
            pass_returns_pattern = isinstance(inner[1].value, ast.Name) and inner[1].value.id == 'pattern'
            node = inner[0]
            while True:
                test = node.test
                if isinstance(test, ast.Name):
                    g = (test.id, 'truthy')
                elif isinstance(test, ast.Compare) and len(test.ops) == 1 and isinstance(test.ops[0], ast.IsNot) \
                        and isinstance(test.left, ast.Name) and isinstance(test.comparators[0], ast.Constant) \
                        and test.comparators[0].value is None:
                    g = (test.left.id, 'isNotNone')
                else:
                    g = ('?', 'unknown')
                raises = '?'
                if len(node.body) == 1 and isinstance(node.body[0], ast.Raise) and node.body[0].cause is None \
                        and isinstance(node.body[0].exc, ast.Call) and isinstance(node.body[0].exc.func, ast.Name):
                    raises = node.body[0].exc.func.id
                else:
                    g = (g[0], 'unknown')
                guards.append((g[0], g[1], raises))
                if len(node.orelse) == 1 and isinstance(node.orelse[0], ast.If):
                    node = node.orelse[0]
                elif not node.orelse:
                    break
                else:
                    guards.append(('?', 'unknown', '?'))
                    break
        else:
            shape_ok = False
        ret = cbody[1].value
        if isinstance(ret, ast.Call) and not ret.keywords:
            call_target = qual_attr(ret.func) or '?'
            for a in ret.args:
                if isinstance(a, ast.Name):
                    call_args.append(('param', a.id, ''))
                    continue
                done = False
                if isinstance(a, ast.IfExp) and isinstance(a.orelse, ast.Name):
                    p = a.orelse.id
                    if isinstance(a.body, ast.Call) and len(a.body.args) == 1 and not a.body.keywords:
                        cls_q = qual_attr(a.body.func)
                        if cls_q is not None and dump(a) == dump(
                                ast.parse(f'{cls_q}({p}) if {p} is not None else {p}', mode='eval').body):
                            call_args.append(('wrapIfNotNone', cls_q.split('.')[-1], p))
                            done = True
                if not done:
                    call_args.append(('unknown', '', ''))
        else:
            shape_ok = False
    call_target_ok = call_target == 'cp._cached_css_compile' and getattr(sv, 'cp', None) is cp

    # --- ImmutableDict family
    dict_base = ct.ImmutableDict
    dict_classes = [dict_base] + all_subclasses(dict_base)
    mm_names = sorted(n for n in set(dir(cabc.MutableMapping)) - set(dir(cabc.Mapping))
                      if not n.startswith('_') or (n.startswith('__') and n.endswith('__')))
    dict_mut = sorted(set(mm_names) | {n for n in ('__setitem__', '__delitem__', '__ior__') if hasattr(dict, n)})
    dinfos = []
    for dc in dict_classes:
        node = ast_classes.get(dc)
        if node is None:
            raise RuntimeError(f'{dc.__name__} has no class definition in the parsed sources')
        inst_has_dict = any('__slots__' not in k.__dict__ for k in dc.__mro__ if k is not object)
        dinfos.append({
            'name': dc.__name__,
            'bases': [ast.unparse(x) for x in node.bases],
            'methods': class_methods(node),
            'eqDef': def_name(dc, '__eq__'),
            'hashDef': def_name(dc, '__hash__'),
            'setattrDef': def_name(dc, '__setattr__'),
            'delattrDef': def_name(dc, '__delattr__'),
            'liveMutators': [n for n in dict_mut if hasattr(dc, n)],
            'hasDict': inst_has_dict,
        })
    di = class_def(ast_classes[dict_base], '__init__')
    dict_hash_kind = 'unknown'
    dict_copies_arg = False
    dict_init_stmts = []
    if di is not None and positional_only_shape(di, ['self', 'arg']):
        dbody = strip_doc(di.body)
        dict_init_stmts = [ast.unparse(x) for x in dbody]
        if len(dbody) == 3 and same([dbody[0]], T_DICT_VALIDATE) and same([dbody[1]], T_DICT_COPY) \
                and same([dbody[2]], T_DICT_HASH):
            dict_hash_kind = 'sortedItemsTypeAndValue'
            dict_copies_arg = True
        elif len(dbody) == 3 and same([dbody[0]], T_DICT_VALIDATE) and same([dbody[1]], T_DICT_COPY) \
                and same([dbody[2]], T_DICT_HASH_VALUES):
            dict_hash_kind = 'sortedItems'
            dict_copies_arg = True
    # pickling / copying of the map classes: `__reduce__` defined once, on the base, rebuilding through the constructor
    # (so `_hash` is recomputed by the process that loads the object); no subclass overrides it or defines __getstate__ etc.
    dr = class_def(ast_classes[dict_base], '__reduce__')
    dict_reduce_via_ctor = bool(
        dr is not None and positional_only_shape(dr, ['self']) and same(strip_doc(dr.body), T_DICT_REDUCE)
        and all(def_name(dc, '__reduce__') == dict_base.__name__ for dc in dict_classes)
        and all(not any(n in k.__dict__ for n in ('__reduce_ex__', '__getstate__', '__setstate__', '__getnewargs__',
                                                   '__getnewargs_ex__', '__copy__', '__deepcopy__'))
                for dc in dict_classes for k in dc.__mro__ if k.__module__.startswith('soupsieve')))
    # the only methods of the family that assign to `self.<attr>` (anything besides __init__ is a mutator)
    self_writers = []
    for dc in dict_classes:
        for n in ast_classes[dc].body:
            if isinstance(n, ast.FunctionDef):
                for x in ast.walk(n):
                    tgt = []
                    if isinstance(x, ast.Assign):
                        tgt = x.targets
                    elif isinstance(x, (ast.AugAssign, ast.AnnAssign)):
                        tgt = [x.target]
                    elif isinstance(x, ast.Delete):
                        tgt = x.targets
                    for t in tgt:
                        for y in ast.walk(t):
                            if isinstance(y, (ast.Attribute, ast.Subscript)) and 'self' in names_loaded(y):
                                nm = f'{dc.__name__}.{n.name}'
                                if nm not in self_writers:
                                    self_writers.append(nm)
    sub_inits_forward = True
    for dc in dict_classes[1:]:
        fn = class_def(ast_classes[dc], '__init__')
        if fn is not None and not (positional_only_shape(fn, ['self', 'arg']) and same(strip_doc(fn.body), T_SUPER_INIT_ARG)):
            sub_inits_forward = False

    return {
        'base': base_info, 'ir': ir_infos,
        'registered': [c.__name__ for c in order if c in registered_ast and c in registered_live],
        'pickleKind': pickle_kind, 'registerKind': register_kind,
        'decorators': decorators, 'decoOrigin': deco_origin, 'maxsizeExpr': maxsize_expr, 'maxsize': maxsize_val,
        'typedExpr': typed_expr, 'typed': cache_typed, 'liveIsLru': live_is_lru,
        'cacheParams': cache_params, 'cacheParamsPlain': cache_params_plain,
        'ssArgs': [p for p in cache_params if ss_args is not None and p in ss_args],
        'ssArgExprs': ss_arg_exprs,
        'parserArgs': [p for p in cache_params if parser_args is not None and p in parser_args],
        'simpleBody': simple_body and returns_soupsieve and ss_ok,
        'bodyGlobals': body_globals,
        'purgeKind': purge_kind, 'purgeApiKind': purge_api_kind,
        'compileParams': cpos, 'compileKwOnly': ckwo, 'compileVarKw': ckw,
        'compileShapeOk': bool(shape_ok), 'passTestOk': bool(pass_test_ok),
        'passReturnsPattern': bool(pass_returns_pattern),
        'guards': guards, 'callTarget': call_target, 'callTargetOk': bool(call_target_ok), 'callArgs': call_args,
        'dicts': dinfos, 'dictHashKind': dict_hash_kind, 'dictCopiesArg': dict_copies_arg, 'dictReduceViaCtor': dict_reduce_via_ctor,
        'dictInitStmts': dict_init_stmts, 'dictSelfWriters': self_writers, 'dictSubInitsForward': sub_inits_forward,
        'mutatorNames': dict_mut,
    }


def render(d):
    L = ['/- GENERATED by gen/gen_classes.py from the sources and live classes of the soupsieve tree. Do not edit. -/',
         PRELUDE]
    L.append('/-- `css_types.Immutable` itself. -/')
    L.append('def immutableBase : ClassInfo :=\n  ' + emit_class(d['base']))
    names = []
    for ci in d['ir']:
        nm = 'cls_' + ci['name']
        names.append(nm)
        L.append(f'def {nm} : ClassInfo :=\n  ' + emit_class(ci))
    L.append('/-- Every subclass of `css_types.Immutable`, in source order (css_types, then css_match). -/')
    L.append('def irClasses : List ClassInfo := [' + ', '.join(names) + ']')
    L.append('/-- Classes passed to `pickle_register`, cross-checked with `copyreg.dispatch_table`. -/')
    L.append('def registeredNames : List String := ' + slist(d['registered']))
    L.append('def registered : List ClassInfo := irClasses.filter (·.registered)')
    L.append('/-- `css_types._pickle` -/')
    L.append('def pickleKind : PickleKind := .' + d['pickleKind'])
    L.append('def registerKind : RegisterKind := .' + d['registerKind'])
    L.append('')
    L.append('/-! ### `css_parser._cached_css_compile` -/')
    L.append('def cacheDecorators : List String := ' + slist(d['decorators']))
    L.append('/-- what the decorator name resolves to in `css_parser` (`""` when it is not `functools.lru_cache`) -/')
    L.append('def cacheDecoratorOrigin : String := ' + s(d['decoOrigin']))
    L.append('def cacheIsLruWrapper : Bool := ' + b(d['liveIsLru']))
    L.append('def cacheMaxsizeExpr : String := ' + s(d['maxsizeExpr']))
    ms = d['maxsize']
    L.append('/-- `cache_parameters()["maxsize"]` (`none`: unbounded or not an lru cache) -/')
    L.append('def cacheMaxsize : Option Nat := ' + ('none' if not isinstance(ms, int) or ms < 0 else f'some {ms}'))
    L.append('def cacheTypedExpr : String := ' + s(d['typedExpr']))
    L.append('def cacheTyped : Option Bool := ' + ('none' if d['typed'] is None else f'some {b(d["typed"])}'))
    L.append('def cacheParams : List String := ' + slist(d['cacheParams']))
    L.append('/-- no defaults, no `*args`, no keyword-only, no `**kwargs` -/')
    L.append('def cacheParamsPlain : Bool := ' + b(d['cacheParamsPlain']))
    L.append('/-- parameters that flow (directly or through a local) into the `cm.SoupSieve(...)` call -/')
    L.append('def cacheSoupSieveArgs : List String := ' + slist(d['ssArgs']))
    L.append('/-- the positional argument expressions of that call (`<expr>`: not a bare name) -/')
    L.append('def cacheSoupSieveArgExprs : List String := ' + slist(d['ssArgExprs']))
    L.append('/-- parameters that flow into the `CSSParser(...)` call -/')
    L.append('def cacheParserArgs : List String := ' + slist(d['parserArgs']))
    L.append('/-- body = assignments to locals followed by one `return cm.SoupSieve(...)` -/')
    L.append('def cacheBodySimple : Bool := ' + b(d['simpleBody']))
    L.append('/-- global names the body reads -/')
    L.append('def cacheBodyGlobals : List String := ' + slist(d['bodyGlobals']))
    L.append('def purgeKind : PurgeKind := .' + d['purgeKind'])
    L.append('def purgeApiKind : PurgeApiKind := .' + d['purgeApiKind'])
    L.append('')
    L.append('/-! ### `soupsieve.compile` -/')
    L.append('def compileParams : List String := ' + slist(d['compileParams']))
    L.append('def compileKwOnly : List String := ' + slist(d['compileKwOnly']))
    L.append('def compileVarKw : Option String := ' + opt(d['compileVarKw']))
    L.append('/-- body = `if <test>: <guards>; return pattern` followed by `return <call>` -/')
    L.append('def compileShapeOk : Bool := ' + b(d['compileShapeOk']))
    L.append('/-- the test is `isinstance(pattern, SoupSieve)` and that name is `css_match.SoupSieve` -/')
    L.append('def compilePassthroughTestOk : Bool := ' + b(d['passTestOk']))
    L.append('def compilePassthroughReturnsPattern : Bool := ' + b(d['passReturnsPattern']))
    L.append('def compileGuards : List CompileGuard := [' +
             ', '.join(f'⟨{s(p)}, .{t}, {s(r)}⟩' for p, t, r in d['guards']) + ']')
    L.append('def compileCallTarget : String := ' + s(d['callTarget']))
    L.append('def compileCallTargetOk : Bool := ' + b(d['callTargetOk']))

    def ca(x):
        if x[0] == 'param':
            return f'.param {s(x[1])}'
        if x[0] == 'wrapIfNotNone':
            return f'.wrapIfNotNone {s(x[1])} {s(x[2])}'
        return '.unknown'
    L.append('def compileCallArgs : List CallArg := [' + ', '.join(ca(x) for x in d['callArgs']) + ']')
    L.append('')
    L.append('/-! ### `ImmutableDict`, `Namespaces`, `CustomSelectors` -/')
    dn = []
    for di in d['dicts']:
        nm = 'dict_' + di['name']
        dn.append(nm)
        L.append(f'def {nm} : DictClassInfo :=\n  {{ name := {s(di["name"])}, bases := {slist(di["bases"])},\n'
                 f'    methods := {slist(di["methods"])},\n'
                 f'    eqDef := {opt(di["eqDef"])}, hashDef := {opt(di["hashDef"])}, '
                 f'setattrDef := {opt(di["setattrDef"])}, delattrDef := {opt(di["delattrDef"])},\n'
                 f'    liveMutators := {slist(di["liveMutators"])}, hasDict := {b(di["hasDict"])} }}')
    L.append('def dictClasses : List DictClassInfo := [' + ', '.join(dn) + ']')
    L.append('/-- names of `MutableMapping` not in `Mapping` (from `collections.abc`), and dict\'s item mutators -/')
    L.append('def mutatorNames : List String := ' + slist(d['mutatorNames']))
    L.append('def dictHashKind : DictHashKind := .' + d['dictHashKind'])
    L.append('/-- `self._d = dict(arg)`: the caller\'s mapping is copied, not aliased -/')
    L.append('def dictCopiesArg : Bool := ' + b(d['dictCopiesArg']))
    L.append('/-- `ImmutableDict.__reduce__` is `return (self.__class__, (self._d,))`, inherited unchanged by the subclasses; no other pickle / copy hook. -/')
    L.append('def dictReduceViaCtor : Bool := ' + b(d['dictReduceViaCtor']))
    L.append('def dictInitStatements : List String := ' + slist(d['dictInitStmts']))
    L.append('/-- methods of the family that store into / delete from `self.…` -/')
    L.append('def dictSelfWriters : List String := ' + slist(d['dictSelfWriters']))
    L.append('/-- the subclasses\' `__init__` is exactly `super().__init__(arg)` -/')
    L.append('def dictSubclassInitsForward : Bool := ' + b(d['dictSubInitsForward']))
    L.append('end SoupVerif.Gen.Classes')
    return '\n'.join(L) + '\n'


def main(dest, src_root=None):
    d = extract(src_root or DEFAULT_SRC)
    text = render(d)
    old = open(dest, encoding='utf-8').read() if os.path.exists(dest) else None
    if old != text:
        os.makedirs(os.path.dirname(os.path.abspath(dest)), exist_ok=True)
        with open(dest, 'w', encoding='utf-8') as f:
            f.write(text)
    return {'classes': len(d['ir']), 'registered': len(d['registered']), 'maxsize': d['maxsize'],
            'cacheParams': d['cacheParams'], 'changed': old != text}


if __name__ == '__main__':
    print(main(sys.argv[1], sys.argv[2] if len(sys.argv) > 2 else None))
