"""Run every translator against /repo's working tree (the repo is installed editable in /venv,
so importing soupsieve reads /repo/soupsieve)."""
import importlib
import os
import sys

HERE = os.path.dirname(os.path.abspath(__file__))
sys.path.insert(0, HERE)
DEST = os.path.join(HERE, '..', 'lean', 'SoupVerif', 'Generated')

GENERATORS = [
    ('gen_regexes', 'Regexes.lean'),
    ('gen_tables', 'Tables.lean'),
    ('gen_builtins', 'Builtins.lean'),
    ('gen_lexicon', 'Lexicon.lean'),
    ('gen_classes', 'Classes.lean'),
    ('gen_wrappers', 'Wrappers.lean'),
    ('gen_imports', 'Imports.lean'),
    ('gen_effects', 'Effects.lean'),
]


def main():
    os.makedirs(DEST, exist_ok=True)
    failed = False
    for mod, out in GENERATORS:
        if not os.path.exists(os.path.join(HERE, mod + '.py')):
            continue
        try:
            m = importlib.import_module(mod)
            info = m.main(os.path.join(DEST, out))
            print(f'{mod}: ok {info}')
        except Exception as e:  # fail closed
            import traceback
            traceback.print_exc()
            print(f'{mod}: FAILED {e!r}')
            failed = True
    return 1 if failed else 0


if __name__ == '__main__':
    sys.exit(main())
