"""Run every translator against /repo's working tree (the repo is installed editable in /venv,
so importing soupsieve reads /repo/soupsieve).

A translator is a deterministic function of the source files it reads; its run is skipped when
the SHA-256 of every input (all of /repo/soupsieve/*.py, the installed bs4 sources, the
translator scripts themselves) is unchanged since the run that produced the existing output.
"""
import glob
import hashlib
import importlib
import json
import os
import sys
import time

HERE = os.path.dirname(os.path.abspath(__file__))
sys.path.insert(0, HERE)
DEST = os.path.join(HERE, '..', 'lean', 'SoupVerif', 'Generated')

GENERATORS = [
    ('gen_regexes', 'Regexes.lean'),
    ('gen_tables', 'Tables.lean'),
    ('gen_builtins', 'Builtins.lean'),
    ('gen_lexicon', 'Lexicon.lean'),
    ('gen_classes', 'Classes.lean'),
    ('gen_wrappers', 'Wrappers.lean'),
    ('gen_imports', 'Imports.lean'),
    ('gen_effects', 'Effects.lean'),
    ('gen_py_inputs', 'PyInputs.lean'),
    ('gen_py_strings', 'PyStrings.lean'),
    ('gen_py_loops', 'PyLoops.lean'),
    ('gen_py_parsedisp', 'PyParseDisp.lean'),
    ('gen_py_matchsel', 'PyMatchSel.lean'),
    ('gen_py_context', 'PyContext.lean'),
    ('gen_py_attrname', 'PyAttrName.lean'),
    ('gen_py_anb', 'PyAnB.lean'),
    ('gen_py_api', 'PyApi.lean'),
    ('gen_py_textfn', 'PyTextFn.lean'),
    ('gen_py_smallfn', 'PySmallFn.lean'),
    ('gen_py_attrsel', 'PyAttrSel.lean'),
    ('gen_py_langwalk', 'PyLangWalk.lean'),
    ('gen_py_nth', 'PyNth.lean'),
    ('gen_py_combinators', 'PyCombinators.lean'),
    ('gen_py_handlers', 'PyHandlers.lean'),
    ('gen_py_popen', 'PyPseudoOpen.lean'),
    ('gen_py_pcustom', 'PyPseudoCustom.lean'),
    ('gen_py_attrs', 'PyAttrs.lean'),
    ('gen_py_relations', 'PyRelations.lean'),
]


def input_digest():
    h = hashlib.sha256()
    files = sorted(glob.glob(os.path.join(os.environ.get('SOUPVERIF_REPO', '/repo'), 'soupsieve', '*.py'))) + sorted(glob.glob(os.path.join(HERE, '*.py')))
    try:
        import bs4
        files += sorted(glob.glob(os.path.join(os.path.dirname(bs4.__file__), '**', '*.py'), recursive=True))
    except Exception:
        pass
    for f in files:
        h.update(f.encode())
        with open(f, 'rb') as fh:
            h.update(fh.read())
    h.update(sys.version.encode())
    return h.hexdigest()


def main():
    os.makedirs(DEST, exist_ok=True)
    stamp_path = os.path.join(DEST, '.stamp.json')
    try:
        stamps = json.load(open(stamp_path))
    except Exception:
        stamps = {}
    digest = input_digest()
    failed = False
    for mod, out in GENERATORS:
        if not os.path.exists(os.path.join(HERE, mod + '.py')):
            continue
        dest = os.path.join(DEST, out)
        if os.path.exists(dest):
            out_digest = hashlib.sha256(open(dest, 'rb').read()).hexdigest()
            st = stamps.get(mod)
            if st and st.get('inputs') == digest and st.get('output') == out_digest:
                print(f'{mod}: unchanged inputs, output kept ({st.get("info")})')
                continue
        t0 = time.time()
        try:
            m = importlib.import_module(mod)
            info = m.main(dest)
            print(f'{mod}: ok {info} [{time.time() - t0:.1f}s]')
            stamps[mod] = {'inputs': digest, 'output': hashlib.sha256(open(dest, 'rb').read()).hexdigest(), 'info': repr(info)}
        except Exception as e:  # fail closed
            import traceback
            traceback.print_exc()
            print(f'{mod}: FAILED {e!r}')
            stamps.pop(mod, None)
            failed = True
    with open(stamp_path, 'w') as f:
        json.dump(stamps, f, indent=1)
    return 1 if failed else 0


if __name__ == '__main__':
    sys.exit(main())
