"""Regenerate lean/SoupVerif/Generated/PyAttrSel.lean from the SOURCE TEXT (ast) of
`CSSParser.parse_attribute_selector(self, sel, m, has_selector)` in $SOUPVERIF_REPO/soupsieve/css_parser.py.

What is translated are the DECISIONS of the function (which flags, which pattern template, `:not()` nesting, second
pattern); everything around them is a FRAME that is CHECKED against a reference (anything else raises `Unsupported`,
i.e. the translator FAILS CLOSED: gen_all reports FAILED and the pipeline treats the proof side as broken).

The function is first made independent of the names of its parameters and locals: parameters are numbered by position,
locals by the order of their first assignment in the source.  Then its body (docstring dropped) must be

    A   assignments in front of the first `if`                        FRAME  (equal to the reference, statement by
        (`inverse = False`, `op = m.group('cmp')`, the `case` / `ns` / `attr` reads with their `util.lower`,          statement)
        `css_unescape(...[:-1])`, `css_unescape(...)`, `is_type = False`, `pattern2 = None`, `value = ''`)
    B   `if … elif … else` assigning `flags` (and `is_type = True`)   TRANSLATED  -> flagsOf
    C   `if op: if m.group('value').startswith(('"', "'")): value = css_unescape(m.group('value')[1:-1], True)
                else: value = css_unescape(m.group('value'))`         FRAME; the quote test also emitted -> valueQuoted
    D   `if not op: … elif … else …` assigning `pattern`              TRANSLATED  -> decisionOf / templateOf / inverseOf
    E   `if <test>: pattern2 = re.compile(pattern.pattern, <flags>)`  TRANSLATED  -> pattern2Of
    F   `sel_attr = ct.SelectorAttribute(attr, ns, pattern, pattern2)`, the `if inverse:` nesting under
        `ct.SelectorList([sub_sel.freeze()], True, False)` / the plain append, `has_selector = True`, the return   FRAME

  B   branch bodies: `flags = <flag expr>` and optionally `is_type = True`; every branch assigns flags; an `else` is required.
      flag expr: `re.<NAME>` whose live value is `re.I` or `re.DOTALL` (read from the live `re` module as integers, emitted
      as the two Booleans), `0`, `a | b`, `a if <test> else b`.
      tests: `case` (truthiness), `case == '<const>'`, `util.lower(attr) == '<const>'` (util.lower checked to be
      soupsieve.util.lower), `attr == '<const>'`, `not`, `and`, `or`.
  D   the first test must be `not op` (every later `op.startswith` is then guarded); branch bodies
        `pattern = None`                                                      -> Template.none
        `pattern = re.compile('<text>', flags)`                               -> the template with that text (no `%s`)
        `pattern = re.compile('<text>' % re.escape(value), flags)`            -> the template with that text
        `value = '<text0>' if <test> else re.escape(value)`
        `pattern = re.compile('<text>' % value, flags)`                       -> if <test> then wordUnmatchable else word
      each optionally followed by `if <test over op>: inverse = True`.
      The template TEXTS must be the known ones (table TEMPLATES below: text -> constructor of
      `PyAttrSel.Template`); an unknown text fails closed.  They are emitted as data (`templateStrings`), and checked at
      generation time against the live library: for one selector per template (the selectors whose compiled patterns
      gen_regexes.py regenerates as `Generated/Regexes.lean: attr_*`) `pattern.pattern == text % re.escape(value)`,
      `text` being the text of the template the TRANSLATED chain picks for that operator and value.
      tests: `op` (truthiness), `op.startswith('<c>')`, `op.startswith(('<c>', …))`, `value` (truthiness),
      `RE_WS.search(value)` (the module's RE_WS), `not`, `and`, `or`.
  E   test over `is_type`, `pattern` (a compiled pattern is true, `None` false), `not`, `and`, `or`; the first argument
      must be `pattern.pattern`.

Emitted (namespace `SoupVerif.Gen.PyAttrSel`, vocabulary of Model/AttrSelDyn.lean):

  flagsOf (case : Option Str) (attr : Str) : Flags
  valueQuoted (raw : Str) : Bool
  decisionOf (op : Option Str) (valueEmpty valueHasWs : Bool) : Template × Bool      (template, inverse)
  templateOf / inverseOf                                                              its two components
  pattern2Of (isType hasPattern : Bool) : Option (Bool × Bool)                        (ignoreCase, dotAll) of pattern2
  templateStrings : List (Template × Str)

Comments, docstrings, annotations (of parameters, of the result, `x: T = v` on locals), blank lines and the NAMES of parameters and locals do not reach the output.
"""
import ast
import os
import re
import sys

REPO = os.environ.get('SOUPVERIF_REPO', '/repo')
SRC = os.path.join(REPO, 'soupsieve', 'css_parser.py')
CLASS = 'CSSParser'
FUNC = 'parse_attribute_selector'

UNMATCHABLE = r'[^\s\S]'
WORD = r'.*?(?:(?<=^)|(?<=[ \t\r\n\f]))%s(?=(?:[ \t\r\n\f]|\Z)).*'
TEMPLATES = {
    UNMATCHABLE: 'unmatchable',
    r'^%s.*': 'prefix',
    r'.*?%s\Z': 'suffix',
    r'.*?%s.*': 'contains',
    WORD: 'word',
    r'^%s(?:-.*)?\Z': 'dash',
    r'^%s\Z': 'equals',
}
ORDER = ['none', 'unmatchable', 'prefix', 'suffix', 'contains', 'word', 'wordUnmatchable', 'dash', 'equals']
# one selector per template: (selector, operator, value) — the instances gen_regexes.py regenerates
INSTANCES = [
    ('[a="v w"]', '=', 'v w'), ('[a^="v w"]', '^=', 'v w'), ('[a$="v w"]', '$=', 'v w'),
    ('[a*="v w"]', '*=', 'v w'), ('[a~="v"]', '~=', 'v'), ('[a~="v w"]', '~=', 'v w'),
    ('[a|="v"]', '|=', 'v'), ('[a^=""]', '^=', ''), ('[a!="v"]', '!=', 'v'),
]

# The reference: the frame is compared with this text after both have been made name-independent.  The parts B, D, E
# of the reference only fix the numbering of the locals first assigned there.
REFERENCE = r'''
def parse_attribute_selector(self, sel, m, has_selector):
    inverse = False
    op = m.group('cmp')
    case = util.lower(m.group('case')) if m.group('case') else None
    ns = css_unescape(m.group('attr_ns')[:-1]) if m.group('attr_ns') else ''
    attr = css_unescape(m.group('attr_name'))
    is_type = False
    pattern2 = None
    value = ''
    if case:
        flags = 0
    else:
        flags = 0
    if op:
        if m.group('value').startswith(('"', "'")):
            value = css_unescape(m.group('value')[1:-1], True)
        else:
            value = css_unescape(m.group('value'))
    if not op:
        pattern = None
    else:
        pattern = None
    if is_type:
        pattern2 = None
    sel_attr = ct.SelectorAttribute(attr, ns, pattern, pattern2)
    if inverse:
        sub_sel = _Selector()
        sub_sel.attributes.append(sel_attr)
        not_list = ct.SelectorList([sub_sel.freeze()], True, False)
        sel.selectors.append(not_list)
    else:
        sel.attributes.append(sel_attr)
    has_selector = True
    return has_selector
'''
ROLES = ['inverse', 'op', 'case', 'ns', 'attr', 'is_type', 'pattern2', 'value', 'flags', 'pattern', 'sel_attr',
         'sub_sel', 'not_list']
GLOBALS_USED = {'util', 'css_unescape', 're', 'ct', 'RE_WS', '_Selector'}


class Unsupported(Exception):
    pass


def fail(node, why):
    text = ''
    if node is not None:
        try:
            text = ' '.join(ast.unparse(node).split())[:200]
        except Exception:
            text = repr(node)
    raise Unsupported(f'{FUNC}: {why} line {getattr(node, "lineno", "?")}: {text}')


def lean_s(text):
    return '[' + ', '.join(str(ord(ch)) for ch in text) + ']'


def strip_doc(body):
    if body and isinstance(body[0], ast.Expr) and isinstance(body[0].value, ast.Constant) \
            and isinstance(body[0].value.value, str):
        return body[1:]
    return body


def find_method(tree, name):
    found = [item for node in tree.body if isinstance(node, ast.ClassDef) and node.name == CLASS
             for item in node.body if isinstance(item, (ast.FunctionDef, ast.AsyncFunctionDef)) and item.name == name]
    if len(found) != 1:
        raise Unsupported(f'{CLASS}.{name}: expected exactly one definition, found {len(found)}')
    return found[0]


# ------------------------------------------------------------------ name independence
class StoreOrder(ast.NodeVisitor):
    """Names in the order of their first assignment, in source order."""
    def __init__(self):
        self.order = []

    def visit_Name(self, n):
        if isinstance(n.ctx, (ast.Store, ast.Del)) and n.id not in self.order:
            self.order.append(n.id)

    def generic_visit(self, node):
        # ast.iter_child_nodes follows _fields order, which is source order for the statements accepted here
        # except that an assignment's value is evaluated before its targets — irrelevant for first-STORE order
        super().generic_visit(node)


class Rename(ast.NodeTransformer):
    def __init__(self, mapping):
        self.mapping = mapping

    def visit_AnnAssign(self, n):
        # `x: T = v` is `x = v` (annotations do not reach the output); a bare `x: T` is not supported
        if n.value is None or not isinstance(n.target, ast.Name):
            fail(n, 'unsupported annotated statement')
        return self.generic_visit(ast.copy_location(ast.Assign(targets=[n.target], value=n.value), n))

    def visit_Name(self, n):
        return ast.copy_location(ast.Name(id=self.mapping.get(n.id, n.id), ctx=n.ctx), n)


def canonical(fn):
    """The statements of `fn` (docstring dropped) with parameters named p0.. and locals named after their ROLE
    (position in the order of first assignment)."""
    a = fn.args
    if not isinstance(fn, ast.FunctionDef) or fn.decorator_list or a.posonlyargs or a.kwonlyargs or a.vararg \
            or a.kwarg or a.defaults or a.kw_defaults or len(a.args) != 4:
        fail(fn, 'not a plain method with parameters (self, sel, m, has_selector)')
    params = [x.arg for x in a.args]
    if len(set(params)) != 4:
        fail(fn, 'duplicate parameter names')
    for n in ast.walk(fn):
        if isinstance(n, (ast.Global, ast.Nonlocal, ast.Lambda, ast.FunctionDef, ast.AsyncFunctionDef, ast.ClassDef,
                          ast.NamedExpr, ast.ListComp, ast.SetComp, ast.DictComp, ast.GeneratorExp, ast.Await,
                          ast.Yield, ast.YieldFrom, ast.Try, ast.With, ast.While, ast.For, ast.Delete, ast.AugAssign,
                          ast.Starred, ast.Import, ast.ImportFrom, ast.Raise, ast.Assert)) and n is not fn:
            fail(n, 'unsupported construct')
    body = strip_doc(list(fn.body))
    so = StoreOrder()
    for st in body:
        so.visit(st)
    local = [x for x in so.order if x not in params]
    if len(local) != len(ROLES):
        fail(fn, f'expected {len(ROLES)} locals, found {len(local)} ({local})')
    if (set(local) | set(params)) & GLOBALS_USED:
        fail(fn, 'a parameter / local shadows one of ' + ', '.join(sorted(GLOBALS_USED)))
    mapping = {p: f'P_{i}' for i, p in enumerate(params)}
    mapping.update({x: 'L_' + ROLES[i] for i, x in enumerate(local)})
    if any(x.startswith(('L_', 'P_')) for x in local + params):
        fail(fn, 'a name that looks like a canonical name')
    rn = Rename(mapping)
    return [rn.visit(ast.parse(ast.unparse(st)).body[0]) for st in body]


def dump(node):
    return ast.dump(node, annotate_fields=True, include_attributes=False)


def is_name(e, name):
    return isinstance(e, ast.Name) and e.id == name and isinstance(e.ctx, ast.Load)


def chain(st):
    """`if … elif … else …` as ([(test, body), …], else_body or None)."""
    arms = []
    while True:
        arms.append((st.test, list(st.body)))
        if len(st.orelse) == 1 and isinstance(st.orelse[0], ast.If):
            st = st.orelse[0]
            continue
        return arms, (list(st.orelse) if st.orelse else None)


def str_const(e):
    if isinstance(e, ast.Constant) and type(e.value) is str:
        return e.value
    return None


def assign1(st, name):
    """`name = <expr>` → expr, else None."""
    if isinstance(st, ast.Assign) and len(st.targets) == 1 and isinstance(st.targets[0], ast.Name) \
            and st.targets[0].id == name:
        return st.value
    return None


def call_of(e, owner, attr, nargs):
    """`owner.attr(a1..an)` with plain positional arguments → args, else None."""
    if isinstance(e, ast.Call) and not e.keywords and len(e.args) == nargs and isinstance(e.func, ast.Attribute) \
            and e.func.attr == attr and is_name(e.func.value, owner):
        return e.args
    return None


class Translator:
    def __init__(self, module):
        self.m = module
        self.texts = {}
        self.arms = []      # (test or None, constructor or None, guard test or None) of the template chain, for check_instances
        self.guard = None

    # ---------------------------------------------------------------- tests
    def test(self, e, part):
        if isinstance(e, ast.UnaryOp) and isinstance(e.op, ast.Not):
            return f'(!{self.test(e.operand, part)})'
        if isinstance(e, ast.BoolOp):
            op = ' && ' if isinstance(e.op, ast.And) else ' || '
            return '(' + op.join(self.test(v, part) for v in e.values) + ')'
        if part == 'B':
            if is_name(e, 'L_case'):
                return '(pyTruthy case)'
            if isinstance(e, ast.Compare) and len(e.ops) == 1 and isinstance(e.ops[0], (ast.Eq, ast.NotEq)):
                l, r = e.left, e.comparators[0]
                k = str_const(r)
                neg = '!' if isinstance(e.ops[0], ast.NotEq) else ''
                if k is not None and is_name(l, 'L_case'):
                    return f'({neg}pyEqStr case {lean_s(k)})'
                if k is not None and is_name(l, 'L_attr'):
                    return f'({neg}(attr == {lean_s(k)}))'
                if k is not None and isinstance(l, ast.Call):
                    a = call_of(l, 'util', 'lower', 1)
                    if a is not None and is_name(a[0], 'L_attr'):
                        self.check_util_lower(l)
                        return f'({neg}(lower attr == {lean_s(k)}))'
        if part in ('D', 'Dop'):
            if is_name(e, 'L_op'):
                return '(pyTruthy op)'
            a = call_of(e, 'L_op', 'startswith', 1)
            if a is not None:
                k = str_const(a[0])
                if k is not None:
                    return f'(pyStartsWith op [{lean_s(k)}])'
                if isinstance(a[0], ast.Tuple) and a[0].elts and all(str_const(x) is not None for x in a[0].elts):
                    return '(pyStartsWith op [' + ', '.join(lean_s(str_const(x)) for x in a[0].elts) + '])'
        if part == 'D':
            if is_name(e, 'L_value'):
                return '(!valueEmpty)'
            a = call_of(e, 'RE_WS', 'search', 1)
            if a is not None and is_name(a[0], 'L_value'):
                if not isinstance(getattr(self.m, 'RE_WS', None), re.Pattern):
                    fail(e, 'the module has no compiled RE_WS')
                return 'valueHasWs'
        if part == 'E':
            if is_name(e, 'L_is_type'):
                return 'isType'
            if is_name(e, 'L_pattern'):
                return 'hasPattern'
        fail(e, f'unsupported test (part {part})')

    def check_util_lower(self, e):
        import types
        util = getattr(self.m, 'util', None)
        real = sys.modules.get(self.m.__package__ + '.util')
        if not isinstance(util, types.ModuleType) or util is not real:
            fail(e, '`util.lower` is not soupsieve.util.lower')

    # ---------------------------------------------------------------- flags
    def flag(self, e, part):
        """(ignoreCase, dotAll) as Lean Boolean terms."""
        if isinstance(e, ast.Constant) and type(e.value) is int and e.value == 0:
            return 'false', 'false'
        if isinstance(e, ast.Attribute) and is_name(e.value, 're'):
            if getattr(self.m, 're', None) is not re:
                fail(e, '`re` is not the module re')
            v = getattr(re, e.attr, None)
            i, d = int(re.I), int(re.DOTALL)
            if i == d or i & d or bin(i).count('1') != 1 or bin(d).count('1') != 1:
                fail(e, 're.I / re.DOTALL are not two distinct bits')
            if isinstance(v, re.RegexFlag) and int(v) == i:
                return 'true', 'false'
            if isinstance(v, re.RegexFlag) and int(v) == d:
                return 'false', 'true'
            fail(e, 'a flag other than re.I / re.DOTALL')
        if isinstance(e, ast.BinOp) and isinstance(e.op, ast.BitOr):
            a, b = self.flag(e.left, part), self.flag(e.right, part)
            return f'({a[0]} || {b[0]})', f'({a[1]} || {b[1]})'
        if isinstance(e, ast.IfExp):
            t = self.test(e.test, part)
            a, b = self.flag(e.body, part), self.flag(e.orelse, part)
            return f'(if {t} then {a[0]} else {b[0]})', f'(if {t} then {a[1]} else {b[1]})'
        fail(e, 'unsupported flag expression')

    def part_b(self, st):
        arms, els = chain(st)
        if els is None:
            fail(st, 'the flags chain has no `else` (flags may be unbound)')
        out = []
        for test, body in arms + [(None, els)]:
            fl = None
            is_type = 'false'
            for s in body:
                v = assign1(s, 'L_flags')
                if v is not None and fl is None and is_type == 'false':
                    fl = self.flag(v, 'B')
                    continue
                v = assign1(s, 'L_is_type')
                if v is not None and isinstance(v, ast.Constant) and v.value is True and fl is not None \
                        and is_type == 'false':
                    is_type = 'true'
                    continue
                fail(s, 'unsupported statement in the flags chain (expected `flags = …` then optionally `is_type = True`)')
            if fl is None:
                fail(st, 'a branch of the flags chain does not assign flags')
            rec = f'{{ ignoreCase := {fl[0]}, dotAll := {fl[1]}, isType := {is_type} }}'
            out.append((None if test is None else self.test(test, 'B'), rec))
        lines = []
        for i, (t, rec) in enumerate(out):
            if t is None:
                lines.append(f'  else {rec}')
            else:
                lines.append(f'  {"if" if i == 0 else "else if"} {t} then {rec}')
        return '\n'.join(lines)

    # ---------------------------------------------------------------- templates
    def template_text(self, node, text, want_hole):
        if text not in TEMPLATES:
            fail(node, 'unknown pattern template text')
        if (text.count('%s') == 1 and text.count('%') == 1) != want_hole or (not want_hole and '%' in text):
            fail(node, 'template text with the wrong number of `%s`')
        return TEMPLATES[text]

    def compile_arg(self, v):
        """`re.compile(<X>, flags)` → X"""
        a = call_of(v, 're', 'compile', 2)
        if a is None or not is_name(a[1], 'L_flags'):
            fail(v, 'expected `re.compile(<template>, flags)`')
        if getattr(self.m, 're', None) is not re:
            fail(v, '`re` is not the module re')
        return a[0]

    def escape_of_value(self, e):
        a = call_of(e, 're', 'escape', 1)
        return a is not None and is_name(a[0], 'L_value')

    def branch(self, body, node):
        """→ (template term, inverse term)"""
        inverse = 'false'
        if body and isinstance(body[-1], ast.If):
            s = body[-1]
            if s.orelse or len(s.body) != 1:
                fail(s, 'unsupported `if` in a template branch')
            v = assign1(s.body[0], 'L_inverse')
            if v is None or not (isinstance(v, ast.Constant) and v.value is True):
                fail(s, 'unsupported `if` in a template branch (expected `if <test>: inverse = True`)')
            inverse = self.test(s.test, 'Dop')
            body = body[:-1]
        if len(body) == 1:
            v = assign1(body[0], 'L_pattern')
            if v is None:
                fail(body[0], 'expected `pattern = …`')
            if isinstance(v, ast.Constant) and v.value is None:
                return '.none', inverse
            x = self.compile_arg(v)
            k = str_const(x)
            if k is not None:
                c = self.template_text(x, k, False)
                self.texts[c] = k
                return '.' + c, inverse
            if isinstance(x, ast.BinOp) and isinstance(x.op, ast.Mod) and str_const(x.left) is not None \
                    and self.escape_of_value(x.right):
                c = self.template_text(x, str_const(x.left), True)
                if c == 'word':
                    fail(x, 'the `~=` template without its empty / whitespace guard')
                self.texts[c] = str_const(x.left)
                return '.' + c, inverse
            fail(v, 'unsupported pattern expression')
        if len(body) == 2:
            v0 = assign1(body[0], 'L_value')
            v1 = assign1(body[1], 'L_pattern')
            if v0 is None or v1 is None or not isinstance(v0, ast.IfExp) or str_const(v0.body) is None \
                    or not self.escape_of_value(v0.orelse):
                fail(body[0], "expected `value = '<text>' if <test> else re.escape(value)` and `pattern = …`")
            if self.template_text(v0.body, str_const(v0.body), False) != 'unmatchable':
                fail(v0.body, 'the guard text is not the unmatchable class')
            self.texts['unmatchable'] = str_const(v0.body)
            t = self.test(v0.test, 'D')
            x = self.compile_arg(v1)
            if not (isinstance(x, ast.BinOp) and isinstance(x.op, ast.Mod) and str_const(x.left) is not None
                    and is_name(x.right, 'L_value')):
                fail(v1, "expected `re.compile('<template>' % value, flags)`")
            if self.template_text(x, str_const(x.left), True) != 'word':
                fail(x, 'a guarded value in a template other than the `~=` one')
            self.texts['word'] = str_const(x.left)
            self.texts['wordUnmatchable'] = str_const(x.left) % str_const(v0.body)
            if inverse != 'false':
                fail(body[1], '`inverse` set after `value` was overwritten')
            self.guard = v0.test
            return f'(if {t} then .wordUnmatchable else .word)', inverse
        fail(node, 'unsupported template branch')

    def part_d(self, st):
        arms, els = chain(st)
        if els is None:
            fail(st, 'the template chain has no `else` (pattern may be unbound)')
        t0 = arms[0][0]
        if not (isinstance(t0, ast.UnaryOp) and isinstance(t0.op, ast.Not) and is_name(t0.operand, 'L_op')):
            fail(t0, 'the first test of the template chain is not `not op`')
        lines = []
        for i, (test, body) in enumerate(arms + [(None, els)]):
            self.guard = None
            tm, inv = self.branch(body, st)
            self.arms.append((test, None if self.guard is not None else tm.lstrip('.'), self.guard))
            if test is None:
                lines.append(f'  else ({tm}, {inv})')
            else:
                lines.append(f'  {"if" if i == 0 else "else if"} {self.test(test, "D")} then ({tm}, {inv})')
        return '\n'.join(lines)

    def part_e(self, st):
        if st.orelse or len(st.body) != 1:
            fail(st, 'expected `if <test>: pattern2 = re.compile(pattern.pattern, <flags>)`')
        v = assign1(st.body[0], 'L_pattern2')
        a = call_of(v, 're', 'compile', 2) if v is not None else None
        if a is None or not (isinstance(a[0], ast.Attribute) and a[0].attr == 'pattern' and is_name(a[0].value, 'L_pattern')):
            fail(st, 'expected `pattern2 = re.compile(pattern.pattern, <flags>)`')
        fl = self.flag(a[1], 'E')
        return f'  if {self.test(st.test, "E")} then some ({fl[0]}, {fl[1]}) else none'

    def function(self, body, ref):
        if len(body) != len(ref):
            fail(None, f'expected {len(ref)} statements after the docstring, found {len(body)}')
        ifs = [i for i, s in enumerate(ref) if isinstance(s, ast.If)]
        b, c, d, e, f = ifs
        for i, (s, r) in enumerate(zip(body, ref)):
            if i in (b, d, e):
                if not isinstance(s, ast.If):
                    fail(s, 'expected an `if` statement here')
                continue
            if dump(s) != dump(r):
                fail(s, 'FRAME differs from the reference (expected `' + ' '.join(ast.unparse(r).split())[:160] + '`)')
        quote = body[c].body[0].test
        a = quote.args   # the statement is equal to the reference: a call with one tuple of string constants
        quoted = '(pyStartsWith (some raw) [' + ', '.join(lean_s(str_const(x)) for x in a[0].elts) + '])'
        return self.part_b(body[b]), quoted, self.part_d(body[d]), self.part_e(body[e])


def pick(tr, op, value):
    """The constructor the TRANSLATED chain picks for an operator text and an unescaped value (the tests are in the
    subset `Translator.test` accepted: `op`, `value`, `op.startswith(<constants>)`, `RE_WS.search(value)`, not / and / or)."""
    env = {'L_op': op, 'L_value': value, 'RE_WS': tr.m.RE_WS}

    def ev(e):
        return bool(eval(compile(ast.fix_missing_locations(ast.Expression(e)), '<test>', 'eval'), {'__builtins__': {}}, env))
    for test, c, guard in tr.arms:
        if test is None or ev(test):
            return c if guard is None else ('wordUnmatchable' if ev(guard) else 'word')
    raise Unsupported(f'{FUNC}: no branch for {op!r}')


def check_instances(tr):
    """The template texts read from the source are the texts of the patterns the live library compiles: for one
    selector per template, the text of the template the TRANSLATED chain picks, filled with the escaped value."""
    import soupsieve as sv
    sv.purge()
    try:
        for sel, op, value in INSTANCES:
            s = sv.compile(sel).selectors[0]
            a = s.attributes[0] if s.attributes else s.selectors[0][0].attributes[0]
            c = pick(tr, op, value)
            if c == 'none' or c not in tr.texts or a.pattern is None:
                raise Unsupported(f'{FUNC}: compile({sel!r}): no pattern / no template text (`{c}`)')
            want = tr.texts[c] % re.escape(value) if tr.texts[c].count('%s') else tr.texts[c]
            if a.pattern.pattern != want:
                raise Unsupported(f'{FUNC}: compile({sel!r}) has the pattern text {a.pattern.pattern!r}, the template '
                                  f'`{c}` read from the source gives {want!r}')
    finally:
        sv.purge()


def translate(src_path=SRC):
    with open(src_path, encoding='utf-8') as f:
        text = f.read()
    fn = find_method(ast.parse(text), FUNC)
    from soupsieve import css_parser as cp
    if not os.path.samefile(cp.__file__, src_path):
        raise Unsupported(f'the imported soupsieve.css_parser ({cp.__file__}) is not {src_path}')
    body = canonical(fn)
    ref = canonical(ast.parse(REFERENCE).body[0])
    tr = Translator(cp)
    flags, quoted, decision, pattern2 = tr.function(body, ref)
    check_instances(tr)
    strings = ',\n   '.join(f'(.{c}, {lean_s(tr.texts[c])})' for c in ORDER if c in tr.texts)
    lines = [
        '/- GENERATED by gen/gen_py_attrsel.py from the source text of `CSSParser.parse_attribute_selector`',
        '   (soupsieve/css_parser.py). Do not edit. -/',
        'import SoupVerif.Model.AttrSelDyn',
        'set_option linter.unusedVariables false',
        'namespace SoupVerif.Gen.PyAttrSel',
        'open SoupVerif SoupVerif.PyAttrSel',
        '',
        '/-- the `flags` chain: the two bits of `flags` and `is_type` (`attr` is the unescaped attribute name) -/',
        'def flagsOf (case : Option Str) (attr : Str) : Flags :=',
        flags,
        '',
        "/-- the quote test on `m.group('value')` that selects `css_unescape(…[1:-1], True)` -/",
        'def valueQuoted (raw : Str) : Bool :=',
        '  ' + quoted,
        '',
        '/-- the template chain: (template, inverse); `valueEmpty` is `not value`, `valueHasWs` is `RE_WS.search(value)`',
        '    of the unescaped value -/',
        'def decisionOf (op : Option Str) (valueEmpty valueHasWs : Bool) : Template × Bool :=',
        decision,
        '',
        'def templateOf (op : Option Str) (valueEmpty valueHasWs : Bool) : Template := (decisionOf op valueEmpty valueHasWs).1',
        'def inverseOf (op : Option Str) (valueEmpty valueHasWs : Bool) : Bool := (decisionOf op valueEmpty valueHasWs).2',
        '',
        '/-- `pattern2`: compiled or not, and with which (ignoreCase, dotAll) -/',
        'def pattern2Of (isType hasPattern : Bool) : Option (Bool × Bool) :=',
        pattern2,
        '',
        '/-- the template texts as written in the source (`wordUnmatchable`: the `~=` text filled with the guard text) -/',
        'def templateStrings : List (Template × Str) :=',
        '  [' + strings + ']',
        '',
        'end SoupVerif.Gen.PyAttrSel',
    ]
    return '\n'.join(lines) + '\n'


def main(dest):
    text = translate()
    old = open(dest).read() if os.path.exists(dest) else None
    if old != text:
        with open(dest, 'w') as f:
            f.write(text)
    return 'flags chain, template chain, pattern2, template texts'


if __name__ == '__main__':
    print(main(sys.argv[1]))
