"""Regenerate lean/SoupVerif/Generated/Wrappers.lean from the *source text* (ast) of
/repo/soupsieve/__init__.py and /repo/soupsieve/css_match.py.

For each module-level query function of `soupsieve/__init__.py` the translator records

* its parameters in order (positional, keyword-only, `**name`),
* the single statement of its body, which must have the shape
  `return  <callee>(<args>).<method>(<margs>)`  or  `yield from <callee>(...).<method>(...)`,
* the callee, its positional arguments, its `k=v` pairs and whether `**<the var-kw param>` is passed,
* the method and its arguments.

Anything that does not have this shape is emitted with `shape := .unknown` (and the expression text
in `note`), every argument that is not a bare name is emitted as `"<expr: ...>"`: both make the
`decide`d theorem `wrappers_forward_all` false.  A missing function raises (fail closed).

For `SoupSieve.<method>` in css_match.py the translator records every call of the form
`CSSMatch(<ctor args>).<m>(<args>)` and `self.<m>(<args>)` in the body (in source order).
"""
import ast
import os
import sys

REPO = os.environ.get('SOUPVERIF_REPO', '/repo')
WRAPPERS = ['closest', 'match', 'filter', 'select_one', 'select', 'iselect']
METHODS = ['match', 'closest', 'filter', 'select_one', 'select', 'iselect']


def lean_str(s):
    out = []
    for ch in s:
        if ch == '\\':
            out.append('\\\\')
        elif ch == '"':
            out.append('\\"')
        elif ch == '\n':
            out.append('\\n')
        elif ch == '\t':
            out.append('\\t')
        elif ord(ch) < 32 or ord(ch) > 126:
            out.append('\\u{%x}' % ord(ch))
        else:
            out.append(ch)
    return '"' + ''.join(out) + '"'


def lean_list(xs):
    return '[' + ', '.join(xs) + ']'


def strs(xs):
    return lean_list([lean_str(x) for x in xs])


def pairs(xs):
    return lean_list([f'({lean_str(a)}, {lean_str(b)})' for a, b in xs])


def argname(e):
    """A bare name is forwarded as such; anything else is made visible (and breaks the theorem)."""
    if isinstance(e, ast.Name):
        return e.id
    if isinstance(e, ast.Starred):
        return '<expr: *' + ast.unparse(e.value) + '>'
    return '<expr: ' + ast.unparse(e) + '>'


def strip_doc(body):
    if body and isinstance(body[0], ast.Expr) and isinstance(body[0].value, ast.Constant) \
            and isinstance(body[0].value.value, str):
        return body[1:]
    return body


def params_of(fn):
    a = fn.args
    pos = [x.arg for x in a.posonlyargs] + [x.arg for x in a.args]
    kwonly = [x.arg for x in a.kwonlyargs]
    return pos, kwonly, (a.vararg.arg if a.vararg else None), (a.kwarg.arg if a.kwarg else None)


def local_bindings(fn):
    """Names (re)bound inside the function: parameters, assignment / loop / with / import targets, nested defs."""
    pos, kwonly, va, kw = params_of(fn)
    names = set(pos) | set(kwonly) | {n for n in (va, kw) if n}
    for node in ast.walk(fn):
        if node is fn:
            continue
        if isinstance(node, ast.Name) and isinstance(node.ctx, (ast.Store, ast.Del)):
            names.add(node.id)
        elif isinstance(node, (ast.FunctionDef, ast.AsyncFunctionDef, ast.ClassDef)):
            names.add(node.name)
        elif isinstance(node, (ast.Import, ast.ImportFrom)):
            for al in node.names:
                names.add((al.asname or al.name).split('.')[0])
        elif isinstance(node, (ast.Global, ast.Nonlocal)):
            names.update(node.names)
    return names


def split_call(call, varkw, argname=argname):
    """(positional names, keyword pairs, passes **varkw, other ** expressions)."""
    pos = [argname(a) for a in call.args]
    kws = []
    passes = False
    extra = []
    for k in call.keywords:
        if k.arg is None:
            if isinstance(k.value, ast.Name) and varkw is not None and k.value.id == varkw:
                passes = True
            else:
                extra.append('<expr: **' + ast.unparse(k.value) + '>')
        else:
            kws.append((k.arg, argname(k.value)))
    return pos, kws, passes, extra


def top_level_defs(tree):
    """name -> list of top-level binding statements of that name (def / class / assignment / import)."""
    out = {}
    for st in tree.body:
        if isinstance(st, (ast.FunctionDef, ast.AsyncFunctionDef, ast.ClassDef)):
            out.setdefault(st.name, []).append(st)
        elif isinstance(st, (ast.Assign, ast.AnnAssign, ast.AugAssign)):
            targets = st.targets if isinstance(st, ast.Assign) else [st.target]
            for t in targets:
                for n in ast.walk(t):
                    if isinstance(n, ast.Name):
                        out.setdefault(n.id, []).append(st)
        elif isinstance(st, (ast.Import, ast.ImportFrom)):
            for al in st.names:
                out.setdefault((al.asname or al.name).split('.')[0], []).append(st)
    return out


def wrapper_record(fn, defs):
    pos, kwonly, vararg, varkw = params_of(fn)
    rec = dict(name=fn.name, params=pos, kwonly=kwonly, vararg=vararg or '', varkw=varkw or '',
               shape='unknown', callee='', calleeIsModuleFn=False, compileArgs=[], compileKwargs=[],
               passesKwargs=False, method='', methodArgs=[], methodKwargs=[], note='')
    body = strip_doc(fn.body)
    if len(body) != 1:
        rec['note'] = f'{len(body)} statements in body'
        return rec
    st = body[0]
    if isinstance(st, ast.Return) and st.value is not None:
        shape, val = 'ret', st.value
    elif isinstance(st, ast.Expr) and isinstance(st.value, ast.YieldFrom):
        shape, val = 'yieldFrom', st.value.value
    else:
        rec['note'] = ast.unparse(st)
        return rec
    if not (isinstance(val, ast.Call) and isinstance(val.func, ast.Attribute)
            and isinstance(val.func.value, ast.Call) and isinstance(val.func.value.func, ast.Name)):
        rec['note'] = ast.unparse(val)
        return rec
    inner = val.func.value
    cpos, ckw, cpass, cextra = split_call(inner, varkw)
    mpos, mkw, mpass, mextra = split_call(val, None)
    if cextra or mextra or mpass:
        rec['note'] = ast.unparse(val)
        return rec
    callee = inner.func.id
    # the callee must be THE module-level function of that name: defined exactly once at top level
    # by a `def`, and not rebound inside the wrapper.
    d = defs.get(callee, [])
    is_mod_fn = (len(d) == 1 and isinstance(d[0], ast.FunctionDef) and callee not in local_bindings(fn))
    rec.update(shape=shape, callee=callee, calleeIsModuleFn=is_mod_fn, compileArgs=cpos, compileKwargs=ckw,
               passesKwargs=cpass, method=val.func.attr, methodArgs=mpos, methodKwargs=mkw)
    return rec


def compile_record(fn):
    """Signature of the module-level `compile` and what it hands to `cp._cached_css_compile`."""
    pos, kwonly, vararg, varkw = params_of(fn)
    rec = dict(params=pos, kwonly=kwonly, vararg=vararg or '', varkw=varkw or '', cacheCallee='', cacheArgsUse=[])
    rets = [n for n in ast.walk(fn) if isinstance(n, ast.Return) and isinstance(n.value, ast.Call)]
    if len(rets) == 1:
        call = rets[0].value
        rec['cacheCallee'] = ast.unparse(call.func)
        uses = []
        for a in call.args:
            names = sorted({n.id for n in ast.walk(a) if isinstance(n, ast.Name) and n.id in pos + kwonly})
            uses.append(names)
        rec['cacheArgsUse'] = uses
    return rec


def delegation_record(fn):
    pos, kwonly, vararg, varkw = params_of(fn)
    calls = []

    class V(ast.NodeVisitor):
        def visit_Call(self, node):
            f = node.func
            if isinstance(f, ast.Attribute):
                recv = f.value
                if isinstance(recv, ast.Call) and isinstance(recv.func, ast.Name):
                    cp_, ck_, _, ce_ = split_call(recv, None, _unparse_arg)
                    mp_, mk_, _, me_ = split_call(node, None, _unparse_arg)
                    calls.append(dict(kind='ctor', target=recv.func.id, ctorArgs=[_unparse_arg(a) for a in recv.args] + ce_,
                                      method=f.attr, args=mp_ + me_, kwargs=mk_, lineno=node.lineno))
                elif isinstance(recv, ast.Name) and recv.id == 'self':
                    mp_, mk_, _, me_ = split_call(node, None, _unparse_arg)
                    calls.append(dict(kind='self', target='self', ctorArgs=[], method=f.attr, args=mp_ + me_,
                                      kwargs=mk_, lineno=node.lineno))
            self.generic_visit(node)

    V().visit(fn)
    calls.sort(key=lambda c: c['lineno'])
    return dict(name=fn.name, params=pos[1:] if pos and pos[0] == 'self' else pos, calls=calls)


def _unparse_arg(a):
    return ast.unparse(a)


def extract(repo=REPO):
    init_src = open(os.path.join(repo, 'soupsieve', '__init__.py'), encoding='utf-8').read()
    cm_src = open(os.path.join(repo, 'soupsieve', 'css_match.py'), encoding='utf-8').read()
    init = ast.parse(init_src)
    cm = ast.parse(cm_src)
    defs = top_level_defs(init)
    wrappers = []
    for name in WRAPPERS:
        d = defs.get(name, [])
        if len(d) != 1 or not isinstance(d[0], ast.FunctionDef):
            raise RuntimeError(f'soupsieve/__init__.py: expected exactly one top-level def {name}, found {len(d)}')
        wrappers.append(wrapper_record(d[0], defs))
    d = defs.get('compile', [])
    if len(d) != 1 or not isinstance(d[0], ast.FunctionDef):
        raise RuntimeError('soupsieve/__init__.py: expected exactly one top-level def compile')
    comp = compile_record(d[0])
    # every other public top-level function that calls compile must be in WRAPPERS (nothing escapes the list)
    others = []
    for st in init.body:
        if isinstance(st, ast.FunctionDef) and st.name not in WRAPPERS and st.name != 'compile':
            if any(isinstance(n, ast.Call) and isinstance(n.func, ast.Name) and n.func.id == 'compile'
                   for n in ast.walk(st)):
                others.append(st.name)
    ss = [c for c in cm.body if isinstance(c, ast.ClassDef) and c.name == 'SoupSieve']
    if len(ss) != 1:
        raise RuntimeError('soupsieve/css_match.py: expected exactly one top-level class SoupSieve')
    meths = {}
    for st in ss[0].body:
        if isinstance(st, ast.FunctionDef):
            if st.name in meths:
                raise RuntimeError(f'SoupSieve.{st.name} defined twice')
            meths[st.name] = st
    delegs = []
    for name in METHODS:
        if name not in meths:
            raise RuntimeError(f'SoupSieve.{name} missing')
        delegs.append(delegation_record(meths[name]))
    # the `SoupSieve` name exported by __init__ must be css_match.SoupSieve
    ss_bind = defs.get('SoupSieve', [])
    ss_alias = ast.unparse(ss_bind[0].value) if len(ss_bind) == 1 and isinstance(ss_bind[0], ast.Assign) else '<unknown>'
    return wrappers, comp, others, delegs, ss_alias


def render(wrappers, comp, others, delegs, ss_alias):
    L = [
        '/- GENERATED by gen/gen_wrappers.py from the source text of /repo/soupsieve/__init__.py and',
        '   /repo/soupsieve/css_match.py (ast). Do not edit. -/',
        'namespace SoupVerif.Gen.Wrappers',
        '',
        '/-- Shape of the single body statement of a wrapper. `unknown` = the translator did not recognise it. -/',
        'inductive Shape where',
        '  | ret | yieldFrom | unknown',
        '  deriving DecidableEq, Repr',
        '',
        '/-- `def name(params, *, kwonly, **varkw): return callee(compileArgs, compileKwargs, **varkw).method(methodArgs)` -/',
        'structure Wrapper where',
        '  name : String',
        '  params : List String',
        '  kwonly : List String',
        '  vararg : String',
        '  varkw : String',
        '  shape : Shape',
        '  callee : String',
        '  calleeIsModuleFn : Bool',
        '  compileArgs : List String',
        '  compileKwargs : List (String × String)',
        '  passesKwargs : Bool',
        '  method : String',
        '  methodArgs : List String',
        '  methodKwargs : List (String × String)',
        '  note : String',
        '  deriving DecidableEq, Repr',
        '',
        '/-- Receiver of a call inside a `SoupSieve` method: `CSSMatch(...)`-style constructor call or `self`. -/',
        'inductive CallKind where',
        '  | ctor | self',
        '  deriving DecidableEq, Repr',
        '',
        'structure Call where',
        '  kind : CallKind',
        '  target : String',
        '  ctorArgs : List String',
        '  method : String',
        '  args : List String',
        '  kwargs : List (String × String)',
        '  deriving DecidableEq, Repr',
        '',
        'structure Delegation where',
        '  name : String',
        '  params : List String',
        '  calls : List Call',
        '  deriving DecidableEq, Repr',
        '',
    ]
    L.append('/-- The six module-level query functions of `soupsieve/__init__.py`, in the fixed order '
             'closest, match, filter, select_one, select, iselect. -/')
    items = []
    for w in wrappers:
        items.append(
            '  { name := %s, params := %s, kwonly := %s, vararg := %s, varkw := %s,\n'
            '    shape := .%s, callee := %s, calleeIsModuleFn := %s,\n'
            '    compileArgs := %s, compileKwargs := %s, passesKwargs := %s,\n'
            '    method := %s, methodArgs := %s, methodKwargs := %s, note := %s }' % (
                lean_str(w['name']), strs(w['params']), strs(w['kwonly']), lean_str(w['vararg']), lean_str(w['varkw']),
                w['shape'], lean_str(w['callee']), 'true' if w['calleeIsModuleFn'] else 'false',
                strs(w['compileArgs']), pairs(w['compileKwargs']), 'true' if w['passesKwargs'] else 'false',
                lean_str(w['method']), strs(w['methodArgs']), pairs(w['methodKwargs']), lean_str(w['note'])))
    L.append('def wrappers : List Wrapper := [\n' + ',\n'.join(items) + '\n]')
    L.append('')
    L.append('/-- Signature of the module-level `compile`. -/')
    L.append(f'def compileParams : List String := {strs(comp["params"])}')
    L.append(f'def compileKwonly : List String := {strs(comp["kwonly"])}')
    L.append(f'def compileVararg : String := {lean_str(comp["vararg"])}')
    L.append(f'def compileVarkw : String := {lean_str(comp["varkw"])}')
    L.append('/-- The function `compile` returns a call of, and for each positional argument of that call the '
             '`compile` parameters occurring in it. -/')
    L.append(f'def compileCacheCallee : String := {lean_str(comp["cacheCallee"])}')
    L.append('def compileCacheArgsUse : List (List String) := ' + lean_list([strs(u) for u in comp['cacheArgsUse']]))
    L.append('/-- Other top-level functions of `__init__.py` that call `compile` (expected none). -/')
    L.append(f'def otherCompileCallers : List String := {strs(others)}')
    L.append('/-- Right-hand side of the top-level `SoupSieve = ...` in `__init__.py`. -/')
    L.append(f'def soupSieveAlias : String := {lean_str(ss_alias)}')
    L.append('')
    L.append('/-- `SoupSieve.<method>` of css_match.py: calls `CSSMatch(...).m(...)` / `self.m(...)` in the body, in source order. -/')
    ditems = []
    for d in delegs:
        cs = []
        for c in d['calls']:
            cs.append('{ kind := .%s, target := %s, ctorArgs := %s, method := %s, args := %s, kwargs := %s }' % (
                c['kind'], lean_str(c['target']), strs(c['ctorArgs']), lean_str(c['method']),
                strs(c['args']), pairs(c['kwargs'])))
        ditems.append('  { name := %s, params := %s, calls := [\n      %s] }' % (
            lean_str(d['name']), strs(d['params']), ',\n      '.join(cs)))
    L.append('def delegations : List Delegation := [\n' + ',\n'.join(ditems) + '\n]')
    L.append('')
    L.append('end SoupVerif.Gen.Wrappers')
    return '\n'.join(L) + '\n'


def main(dest, repo=REPO):
    text = render(*extract(repo))
    old = open(dest, encoding='utf-8').read() if os.path.exists(dest) else None
    if old != text:
        with open(dest, 'w', encoding='utf-8') as f:
            f.write(text)
    return text.count('{ name :=')


if __name__ == '__main__':
    print(main(sys.argv[1], *(sys.argv[2:3])))
