"""Regenerate lean/SoupVerif/Generated/PyHandlers.lean from the SOURCE TEXT (ast) of the small token handlers of
`CSSParser` in $SOUPVERIF_REPO/soupsieve/css_parser.py:

    parse_tag_pattern, parse_class_id, parse_pseudo_dir, parse_pseudo_lang, parse_pseudo_contains

Each handler `h(self, sel, m, has_selector)` becomes one Lean definition

    h (U : Str → Bool → Str) (finditer : String → Str → List (String → Option Str))
      (group0 : Str) (groups : String → Option Str) : PyStr.M (PyHandlers.Add × Bool)

`U content string` is `css_unescape(content, string)`, `finditer "RE_X" text` the `Match` objects of `RE_X.finditer(text)`
(each as its `group(name)` function), `group0` is `m.group(0)`, `groups name` is `m.group(name)` (`None` = `none`).  The
result is the ONE write to `sel` the handler makes (`PyHandlers.Add`: which field, with what) and whether the
`FutureWarning` was issued.  A `for token in RE_X.finditer(e): …` loop becomes a second definition `h_step U groups :
PyStr.M (Option Str)` (`none` = `continue`, `some v` = `patterns.append(v)`), folded by `PyHandlers.forAppend`.
Operations that raise on `None` are emitted in the `Except` monad `PyStr.M` in evaluation order.

Supported subset (ANYTHING ELSE RAISES `Unsupported` — the translator fails closed):
  parameters   exactly four positional ones (self, sel, m, has_selector); they are known by POSITION
  statements   docstring; `x = e`; `x: T = e`; `x = []` directly followed by the `for` loop that fills it;
               `if t: warnings.warn('<text>', FutureWarning)` (no else);
               the write: `sel.tag = ct.SelectorTag(e, e)`, `sel.classes.append(e)`, `sel.ids.append(e)`,
               `sel.lang.append(ct.SelectorLang(x))`, `sel.contains.append(ct.SelectorContains(x, e))`,
               `sel.selectors.append(ct.SelectorList([_Selector(flags=e).freeze()], <bool>, <bool>))`,
               or `if t: <write> else: <write>`; exactly one on every path, and after it only
               `has_selector = True` and `return has_selector` (both required, in this order)
  loop         `for v in NAME.finditer(e):` (NAME a module-level `re.compile` of css_parser.py, no `else`), body:
               `if t: continue` (no else); `x = e`; `if t: x = e else: x = e` (same x); last `<list>.append(e)`
  expressions  string constants; `None`; `True`/`False`; locals; `m.group('<name>')`, `m.group(0)` (in the loop body the
               loop variable takes the place of `m`); `e[a:b]` (integer literals or omitted); `css_unescape(e)`,
               `css_unescape(e, True|False)`; `util.lower(e)`; `e.startswith('<s>' | ('<s>', …))`; `e == '<s>'`;
               `e != '<s>'`; `not`/`and`/`or` over tests; truthiness of a `str | None`; `a if t else b`;
               `ct.SEL_<NAME>` (a constant of Generated/Tables.lean)
`css_unescape`, `util.lower`, `ct`, `warnings` are checked to be the module-level names of css_parser.py (not shadowed
by a parameter or local).  Comments, docstrings, annotations, blank lines and the NAMES of parameters and locals do not
reach the output (locals are numbered by first assignment).
"""
import ast
import os

REPO = os.environ.get('SOUPVERIF_REPO', '/repo')
SRC = os.path.join(REPO, 'soupsieve', 'css_parser.py')
CLASS = 'CSSParser'
FUNCS = ['parse_tag_pattern', 'parse_class_id', 'parse_pseudo_dir', 'parse_pseudo_lang', 'parse_pseudo_contains']
TABLE_FLAGS = ('SEL_DIR_LTR', 'SEL_DIR_RTL')
M = 'PyStr.M'


class Unsupported(Exception):
    pass


def bad(node, why):
    raise Unsupported(f'{why}: line {getattr(node, "lineno", "?")}: {ast.dump(node)[:200]}')


def lit(s):
    return '[' + ', '.join(str(ord(c)) for c in s) + ']'


def is_name(n, name):
    return isinstance(n, ast.Name) and n.id == name


def is_attr(n, base, attr):
    return isinstance(n, ast.Attribute) and n.attr == attr and is_name(n.value, base)


class Fn:
    def __init__(self, fn, module_regexes):
        self.fn = fn
        self.module_regexes = module_regexes
        a = fn.args
        if len(a.args) != 4 or a.vararg or a.kwarg or a.kwonlyargs or a.posonlyargs or a.defaults:
            bad(fn, 'parameters')
        self.p_self, self.p_sel, self.p_m, self.p_has = [x.arg for x in a.args]
        self.match_name = self.p_m     # the name whose .group(...) is `groups`
        self.allow_group0 = True
        self.locals = {}               # python name -> (lean name, type)
        self.counter = 0
        self.reserved = {'css_unescape', 'util', 'ct', 'warnings', '_Selector', 'FutureWarning'}
        for p in (self.p_self, self.p_sel, self.p_m, self.p_has):
            if p in self.reserved:
                bad(fn, 'parameter shadows a module-level name')

    # ------------------------------------------------------------------ expressions
    def bind(self, name, ty):
        if name in self.reserved or name in (self.p_self, self.p_sel, self.p_m, self.p_has) or name in self.module_regexes:
            raise Unsupported(f'assignment to reserved name {name}')
        if name in self.locals:
            ln = self.locals[name][0]
        else:
            self.counter += 1
            ln = f'x{self.counter}'
        self.locals[name] = (ln, ty)
        return ln

    def as_ostr(self, e):
        t, ty = e
        if ty == 'ostr':
            return t
        if ty == 'str':
            return f'(some {t})'
        raise Unsupported(f'expected a string, got {ty}: {t}')

    def as_str(self, e):
        t, ty = e
        if ty == 'str':
            return t
        if ty == 'ostr':
            return f'(← PyHandlers.req {t})'
        raise Unsupported(f'expected a string, got {ty}: {t}')

    def test(self, n):
        """Python truth value of expression n as a Lean Bool."""
        if isinstance(n, ast.UnaryOp) and isinstance(n.op, ast.Not):
            return f'(!{self.test(n.operand)})'
        if isinstance(n, ast.BoolOp):
            op = ' && ' if isinstance(n.op, ast.And) else ' || '
            return '(' + op.join(self.test(v) for v in n.values) + ')'
        t, ty = self.expr(n)
        if ty == 'bool':
            return t
        if ty == 'ostr':
            return f'(PyStr.truthy {t})'
        if ty == 'str':
            return f'(PyStr.truthyStr {t})'
        bad(n, f'truth value of {ty}')

    def strconst(self, n):
        if isinstance(n, ast.Constant) and isinstance(n.value, str):
            return n.value
        bad(n, 'string constant expected')

    def intconst(self, n):
        if n is None:
            return 'none'
        if isinstance(n, ast.Constant) and type(n.value) is int:
            return f'(some {n.value})'
        if isinstance(n, ast.UnaryOp) and isinstance(n.op, ast.USub) and isinstance(n.operand, ast.Constant) and type(n.operand.value) is int:
            return f'(some (-{n.operand.value}))'
        bad(n, 'integer literal expected')

    def expr(self, n):
        if isinstance(n, ast.Constant):
            if isinstance(n.value, str):
                return lit(n.value), 'str'
            if n.value is None:
                return 'none', 'ostr'
            if n.value is True:
                return 'true', 'bool'
            if n.value is False:
                return 'false', 'bool'
            bad(n, 'constant')
        if isinstance(n, ast.Name):
            if n.id in self.locals:
                return self.locals[n.id]
            bad(n, 'unknown name')
        if isinstance(n, ast.Attribute):
            if is_name(n.value, 'ct') and n.attr in TABLE_FLAGS:
                return f'Gen.gen_{n.attr}', 'nat'
            bad(n, 'attribute')
        if isinstance(n, ast.Subscript):
            s = n.slice
            if not isinstance(s, ast.Slice) or s.step is not None:
                bad(n, 'subscript')
            x = self.as_ostr(self.expr(n.value))
            return f'(← PyStr.slice {x} {self.intconst(s.lower)} {self.intconst(s.upper)})', 'str'
        if isinstance(n, ast.Compare):
            if len(n.ops) != 1 or not isinstance(n.ops[0], (ast.Eq, ast.NotEq)):
                bad(n, 'comparison')
            k = lit(self.strconst(n.comparators[0]))
            t, ty = self.expr(n.left)
            if ty == 'str':
                r = f'({t} == {k})'
            elif ty == 'ostr':
                r = f'({t} == some {k})'
            else:
                bad(n, 'comparison of a non-string')
            if isinstance(n.ops[0], ast.NotEq):
                r = f'(!{r})'
            return r, 'bool'
        if isinstance(n, (ast.BoolOp, ast.UnaryOp)):
            if isinstance(n, ast.UnaryOp) and not isinstance(n.op, ast.Not):
                bad(n, 'unary operator')
            if isinstance(n, ast.BoolOp):
                # `a and b` as a VALUE is only supported over Booleans
                for v in n.values:
                    if self.expr(v)[1] != 'bool':
                        bad(n, 'and/or over non-Booleans as a value')
            return self.test(n), 'bool'
        if isinstance(n, ast.IfExp):
            c = self.test(n.test)
            a = self.expr(n.body)
            b = self.expr(n.orelse)
            if a[1] == b[1]:
                ty, ta, tb = a[1], a[0], b[0]
            elif {a[1], b[1]} == {'str', 'ostr'}:
                ty, ta, tb = 'ostr', self.as_ostr(a), self.as_ostr(b)
            else:
                bad(n, 'conditional expression of two types')
            return f'(← (if {c} then (do pure {ta}) else (do pure {tb}) : {M} {LEAN_TY[ty]}))', ty
        if isinstance(n, ast.Call):
            if n.keywords:
                bad(n, 'keyword arguments')
            f = n.func
            if is_attr(f, self.match_name, 'group') and len(n.args) == 1:
                a = n.args[0]
                if isinstance(a, ast.Constant) and isinstance(a.value, str):
                    return f'(groups "{a.value}")', 'ostr'
                if isinstance(a, ast.Constant) and a.value == 0 and type(a.value) is int and self.allow_group0:
                    return 'group0', 'str'
                bad(n, 'group argument')
            if is_name(f, 'css_unescape') and len(n.args) in (1, 2):
                flag = 'false'
                if len(n.args) == 2:
                    if not (isinstance(n.args[1], ast.Constant) and isinstance(n.args[1].value, bool)):
                        bad(n, 'css_unescape flag')
                    flag = 'true' if n.args[1].value else 'false'
                return f'(U {self.as_str(self.expr(n.args[0]))} {flag})', 'str'
            if is_attr(f, 'util', 'lower') and len(n.args) == 1:
                return f'(lower {self.as_str(self.expr(n.args[0]))})', 'str'
            if isinstance(f, ast.Attribute) and f.attr == 'startswith' and len(n.args) == 1:
                a = n.args[0]
                ps = [self.strconst(e) for e in a.elts] if isinstance(a, ast.Tuple) else [self.strconst(a)]
                x = self.as_ostr(self.expr(f.value))
                return f'(← PyHandlers.startswithAny {x} [{", ".join(lit(p) for p in ps)}])', 'bool'
            bad(n, 'call')
        bad(n, 'expression')

    # ------------------------------------------------------------------ the write to `sel`
    def boolconst(self, n):
        if isinstance(n, ast.Constant) and isinstance(n.value, bool):
            return 'true' if n.value else 'false'
        bad(n, 'Boolean constant expected')

    def ctor(self, n, name, nargs):
        if isinstance(n, ast.Call) and is_attr(n.func, 'ct', name) and len(n.args) == nargs and not n.keywords:
            return n.args
        bad(n, f'ct.{name}(…) expected')

    def write(self, st):
        """`st` as a PyHandlers.Add term, or None when it is not a write to sel."""
        if isinstance(st, ast.Assign) and len(st.targets) == 1 and is_attr(st.targets[0], self.p_sel, 'tag'):
            a, b = self.ctor(st.value, 'SelectorTag', 2)
            return f'(PyHandlers.Add.tag {self.as_str(self.expr(a))} {self.as_ostr(self.expr(b))})'
        if isinstance(st, ast.Expr) and isinstance(st.value, ast.Call):
            c = st.value
            f = c.func
            if isinstance(f, ast.Attribute) and f.attr == 'append' and isinstance(f.value, ast.Attribute) \
                    and is_name(f.value.value, self.p_sel) and len(c.args) == 1 and not c.keywords:
                field, a = f.value.attr, c.args[0]
                if field in ('classes', 'ids'):
                    return f'(PyHandlers.Add.{field} {self.as_str(self.expr(a))})'
                if field == 'lang':
                    (p,) = self.ctor(a, 'SelectorLang', 1)
                    return f'(PyHandlers.Add.lang {self.typed(p, "strlist")})'
                if field == 'contains':
                    p, o = self.ctor(a, 'SelectorContains', 2)
                    return f'(PyHandlers.Add.contains {self.typed(p, "strlist")} {self.typed(o, "bool")})'
                if field == 'selectors':
                    l, isnot, ishtml = self.ctor(a, 'SelectorList', 3)
                    if not (isinstance(l, ast.List) and len(l.elts) == 1):
                        bad(a, 'one-element list expected')
                    fr = l.elts[0]
                    if not (isinstance(fr, ast.Call) and not fr.args and not fr.keywords and isinstance(fr.func, ast.Attribute)
                            and fr.func.attr == 'freeze' and isinstance(fr.func.value, ast.Call)
                            and is_name(fr.func.value.func, '_Selector') and not fr.func.value.args
                            and len(fr.func.value.keywords) == 1 and fr.func.value.keywords[0].arg == 'flags'):
                        bad(fr, '_Selector(flags=…).freeze() expected')
                    v = self.typed(fr.func.value.keywords[0].value, 'nat')
                    return f'(PyHandlers.Add.flagList {v} {self.boolconst(isnot)} {self.boolconst(ishtml)})'
                bad(st, 'append to an unknown field of sel')
        return None

    def typed(self, n, ty):
        t, got = self.expr(n)
        if got != ty:
            bad(n, f'expected {ty}, got {got}')
        return t

    # ------------------------------------------------------------------ statements
    def assign_parts(self, st):
        if isinstance(st, ast.Assign) and len(st.targets) == 1 and isinstance(st.targets[0], ast.Name):
            return st.targets[0].id, st.value
        if isinstance(st, ast.AnnAssign) and isinstance(st.target, ast.Name) and st.value is not None and st.simple:
            return st.target.id, st.value
        return None

    def let(self, name, value):
        t, ty = self.expr(value)
        ln = self.bind(name, ty)
        return f'let {ln} : {LEAN_TY[ty]} := {t}'

    def loop(self, st, listvar, out):
        if st.orelse or not isinstance(st.target, ast.Name):
            bad(st, 'for loop')
        it = st.iter
        if not (isinstance(it, ast.Call) and isinstance(it.func, ast.Attribute) and it.func.attr == 'finditer'
                and isinstance(it.func.value, ast.Name) and it.func.value.id in self.module_regexes
                and len(it.args) == 1 and not it.keywords):
            bad(st, 'for … in RE.finditer(e) expected')
        rx = it.func.value.id
        text = self.as_str(self.expr(it.args[0]))
        # the body: a separate definition
        sub = Fn(self.fn, self.module_regexes)
        sub.match_name = st.target.id
        sub.allow_group0 = False
        if sub.match_name in self.locals or sub.match_name in sub.reserved or sub.match_name in (self.p_self, self.p_sel, self.p_m, self.p_has):
            bad(st, 'loop variable shadows a name')
        lines = []
        indent = '  '
        body = list(st.body)
        if not body:
            bad(st, 'empty loop')
        last = body.pop()
        for b in body:
            if isinstance(b, ast.If) and not b.orelse and len(b.body) == 1 and isinstance(b.body[0], ast.Continue):
                lines.append(f'{indent}if {sub.test(b.test)} then pure none else do')
                indent += '  '
                continue
            ap = sub.assign_parts(b)
            if ap:
                lines.append(indent + sub.let(*ap))
                continue
            if isinstance(b, ast.If) and len(b.body) == 1 and len(b.orelse) == 1:
                p1, p2 = sub.assign_parts(b.body[0]), sub.assign_parts(b.orelse[0])
                if p1 and p2 and p1[0] == p2[0]:
                    c = sub.test(b.test)
                    e1, e2 = sub.expr(p1[1]), sub.expr(p2[1])
                    if e1[1] != e2[1]:
                        bad(b, 'branches assign different types')
                    ln = sub.bind(p1[0], e1[1])
                    lines.append(f'{indent}let {ln} : {LEAN_TY[e1[1]]} ← (if {c} then (do pure {e1[0]}) else (do pure {e2[0]}) : {M} {LEAN_TY[e1[1]]})')
                    continue
            bad(b, 'loop statement')
        if not (isinstance(last, ast.Expr) and isinstance(last.value, ast.Call) and is_attr(last.value.func, listvar, 'append')
                and len(last.value.args) == 1 and not last.value.keywords):
            bad(last, f'the loop must end with {listvar}.append(e)')
        lines.append(f'{indent}pure (some {sub.as_str(sub.expr(last.value.args[0]))})')
        step = f'{self.fn.name}_step'
        out.append((step, lines))
        return f'(← PyHandlers.forAppend (fun g => {step} U g) (finditer "{rx}" {text}))'

    def translate(self):
        body = list(self.fn.body)
        if body and isinstance(body[0], ast.Expr) and isinstance(body[0].value, ast.Constant) and isinstance(body[0].value.value, str):
            body = body[1:]
        lines, steps, warns = [], [], []
        i = 0
        wrote = False
        while i < len(body):
            st = body[i]
            i += 1
            ap = self.assign_parts(st)
            if ap and isinstance(ap[1], ast.List) and not ap[1].elts:
                # `x = []` directly followed by the loop that fills it
                if i >= len(body) or not isinstance(body[i], ast.For):
                    bad(st, 'an empty list must be followed by its loop')
                t = self.loop(body[i], ap[0], steps)
                i += 1
                ln = self.bind(ap[0], 'strlist')
                lines.append(f'  let {ln} : (List Str) := {t}')
                continue
            if ap and ap[0] != self.p_has:
                lines.append('  ' + self.let(*ap))
                continue
            if isinstance(st, ast.If) and not st.orelse and len(st.body) == 1 and isinstance(st.body[0], ast.Expr):
                c = st.body[0].value
                if isinstance(c, ast.Call) and is_attr(c.func, 'warnings', 'warn') and len(c.args) == 2 and not c.keywords \
                        and isinstance(c.args[0], ast.Constant) and isinstance(c.args[0].value, str) and is_name(c.args[1], 'FutureWarning'):
                    w = f'w{len(warns) + 1}'
                    lines.append(f'  let {w} : Bool := {self.test(st.test)}')
                    warns.append(w)
                    continue
                bad(st, 'if statement')
            w = self.write(st)
            if w is None and isinstance(st, ast.If) and len(st.body) == 1 and len(st.orelse) == 1:
                c = self.test(st.test)
                w1, w2 = self.write(st.body[0]), self.write(st.orelse[0])
                if w1 is None or w2 is None:
                    bad(st, 'if statement')
                w = f'(← (if {c} then (do pure {w1}) else (do pure {w2}) : {M} PyHandlers.Add))'
            if w is None:
                bad(st, 'statement')
            lines.append(f'  let add : PyHandlers.Add := {w}')
            wrote = True
            break
        rest = body[i:]
        if not wrote or len(rest) != 2:
            bad(self.fn, 'the write to sel must be followed by exactly `has_selector = True; return has_selector`')
        a, r = rest
        if not (isinstance(a, ast.Assign) and len(a.targets) == 1 and is_name(a.targets[0], self.p_has)
                and isinstance(a.value, ast.Constant) and a.value.value is True):
            bad(a, 'has_selector = True expected')
        if not (isinstance(r, ast.Return) and is_name(r.value, self.p_has)):
            bad(r, 'return has_selector expected')
        warned = ' || '.join(warns) if warns else 'false'
        lines.append(f'  pure (add, {warned})')
        return lines, steps


LEAN_TY = {'str': 'Str', 'ostr': '(Option Str)', 'bool': 'Bool', 'nat': 'Nat', 'strlist': '(List Str)'}


def generate():
    tree = ast.parse(open(SRC, encoding='utf-8').read())
    module_names = {}
    regexes = set()
    for st in tree.body:
        targets = []
        if isinstance(st, ast.Assign):
            targets = [t.id for t in st.targets if isinstance(t, ast.Name)]
            if isinstance(st.value, ast.Call) and is_attr(st.value.func, 're', 'compile'):
                regexes.update(targets)
        elif isinstance(st, (ast.FunctionDef, ast.ClassDef)):
            targets = [st.name]
        elif isinstance(st, ast.Import):
            targets = [(a.asname or a.name).split('.')[0] for a in st.names]
        elif isinstance(st, ast.ImportFrom):
            targets = [(a.asname or a.name) for a in st.names]
            for a in st.names:
                module_names[a.asname or a.name] = ('from', st.module, a.name, st.level)
        for t in targets:
            module_names.setdefault(t, ('def',))
    # the module-level names the handlers use are the expected ones
    if module_names.get('ct') != ('from', None, 'css_types', 1):
        raise Unsupported('`ct` is not `from . import css_types as ct`')
    if module_names.get('util') != ('from', None, 'util', 1):
        raise Unsupported('`util` is not `from . import util`')
    for n in ('css_unescape', '_Selector', 'warnings'):
        if n not in module_names:
            raise Unsupported(f'module-level name {n} missing')
    cls = [s for s in tree.body if isinstance(s, ast.ClassDef) and s.name == CLASS]
    if len(cls) != 1:
        raise Unsupported('class CSSParser')
    out = []
    for name in FUNCS:
        fns = [s for s in cls[0].body if isinstance(s, ast.FunctionDef) and s.name == name]
        if len(fns) != 1 or fns[0].decorator_list:
            raise Unsupported(f'method {name}')
        f = Fn(fns[0], regexes)
        lines, steps = f.translate()
        for sname, slines in steps:
            out.append(f'/-- the body of the `for` loop of `{name}`: `none` = `continue`, `some v` = the value appended -/')
            out.append(f'def {sname} (U : Str → Bool → Str) (groups : String → Option Str) : {M} (Option Str) := do')
            out.extend(slines)
            out.append('')
        out.append(f'/-- `CSSParser.{name}`: the write to `sel`, and whether the `FutureWarning` is issued -/')
        out.append(f'def {name} (U : Str → Bool → Str) (finditer : String → Str → List (String → Option Str))')
        out.append(f'    (group0 : Str) (groups : String → Option Str) : {M} (PyHandlers.Add × Bool) := do')
        out.extend(lines)
        out.append('')
    head = [
        '/- GENERATED by gen/gen_py_handlers.py from the source text of `CSSParser.' + '`, `'.join(FUNCS) + '`',
        '   (soupsieve/css_parser.py). Do not edit. -/',
        'import SoupVerif.Model.HandlersDyn',
        'import SoupVerif.Generated.Tables',
        'set_option linter.unusedVariables false',
        'namespace SoupVerif.Gen.PyHandlers',
        'open SoupVerif',
        '',
        '/-- the handlers translated, in this order -/',
        'def handlers : List String := [' + ', '.join(f'"{n}"' for n in FUNCS) + ']',
        '',
    ]
    return '\n'.join(head + out + ['end SoupVerif.Gen.PyHandlers', ''])


def main(dest):
    text = generate()
    with open(dest, 'w', encoding='utf-8') as f:
        f.write(text)
    return f'{len(FUNCS)} handlers'


if __name__ == '__main__':
    import sys
    print(generate() if len(sys.argv) < 2 else main(sys.argv[1]))
