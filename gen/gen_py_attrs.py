"""Regenerate lean/SoupVerif/Generated/PyAttrs.lean from the SOURCE TEXT (ast) of
`CSSMatch.match_attributes(self, el, attributes)` (and `CSSMatch.match_nth_tag_type`, see the end) in $SOUPVERIF_REPO/soupsieve/css_match.py.

FRAME (checked; anything else raises `Unsupported` — the translator FAILS CLOSED, gen_all reports FAILED):

    [docstring]
    <flag> = True|False
    if <attributes>:
        for <a> in <attributes>:
            <local> = <expr>                                   (zero or more, Optional[Pattern]-typed)
            for <t> in self.match_attribute_name(el, <a>.attribute, <a>.prefix):
                <local> = <expr>                               (zero or more, str-typed)
                if <bool expr>:
                    break
            else:
                <flag> = True|False
                break
    return <flag>

  Optional[Pattern] expressions   `<a>.pattern`, `<a>.xml_type_pattern`, a bound pattern local, `X if <bool> else Y`
  str expressions                 `<t> if isinstance(<t>, str) else '<sep>'.join(<t>)`, a bound str local
  bool expressions (truthiness)   `True`/`False`, `self.is_xml`, an Optional[Pattern] expression (truthy iff not None: a
                                  compiled pattern object has neither `__bool__` nor `__len__`), `not`, `and`, `or`,
                                  `P is None`, `P is not None`, `P.match(S) is None`, `P.match(S) is not None`
                                  (ONLY the method `match`; `P.match` on `None` would raise — emitted as `false`,
                                  sound here because Lean's `||`/`&&` are compared with the model for ALL values).

Emitted (namespace `SoupVerif.Gen.PyAttrs`, over `Ctx`, `Elem`, `AttrSel`, `NVal`, `Rx` of the model):
  valueLoop c <pattern locals> : List NVal → Bool      the inner `for … else`: `true` = left by `break`, `false` = exhausted
  attrLoop c e : List AttrSel → Bool → Bool            the outer flag loop (stops at the `break` of the `else:` suite)
  matchAttributes c e attrs : Bool                     the frame
and, for `CSSMatch.match_nth_tag_type(self, el, child)` (a single `return` of `==` / `!=` between two calls of the same getter
`self.get_tag` / `self.get_tag_ns` on the element parameters, combined by `and` / `or` / `not`):
  match_nth_tag_type c el child : Bool
Comments, docstrings, annotations, blank lines and the NAMES of parameters / locals do not reach the output.
"""
import ast
import os
import sys

REPO = os.environ.get('SOUPVERIF_REPO', '/repo')
SRC = os.path.join(REPO, 'soupsieve', 'css_match.py')
CLASS = 'CSSMatch'
FUNC = 'match_attributes'
ATTRS = {'pattern': ('pattern', 'pat'), 'xml_type_pattern': ('xmlTypePattern', 'pat'),
         'attribute': ('attrName', 'str'), 'prefix': ('pfx', 'str')}


class Unsupported(Exception):
    pass


def fail(node, why):
    try:
        text = ' '.join(ast.unparse(node).split())[:200]
    except Exception:
        text = repr(node)
    raise Unsupported(f'{FUNC}: {why} line {getattr(node, "lineno", "?")}: {text}')


def lean_s(text):
    return '[' + ', '.join(str(ord(ch)) for ch in text) + ']'


def strip_doc(body):
    if body and isinstance(body[0], ast.Expr) and isinstance(body[0].value, ast.Constant) \
            and isinstance(body[0].value.value, str):
        return body[1:]
    return body


def is_name(e, name):
    return isinstance(e, ast.Name) and e.id == name and isinstance(e.ctx, ast.Load)


def bool_const(e):
    if isinstance(e, ast.Constant) and type(e.value) is bool:
        return 'true' if e.value else 'false'
    fail(e, 'expected True / False')


class T:
    def __init__(self, fn):
        a = fn.args
        if fn.decorator_list or a.posonlyargs or a.kwonlyargs or a.vararg or a.kwarg or a.defaults or len(a.args) != 3:
            fail(fn, 'not a plain method (self, el, attributes)')
        self.self_, self.el, self.attributes = [x.arg for x in a.args]
        if len({self.self_, self.el, self.attributes}) != 3:
            fail(fn, 'duplicate parameters')
        for n in ast.walk(fn):
            if isinstance(n, (ast.Global, ast.Nonlocal, ast.Lambda, ast.FunctionDef, ast.ClassDef, ast.NamedExpr, ast.ListComp,
                              ast.SetComp, ast.DictComp, ast.GeneratorExp, ast.Await, ast.Yield, ast.YieldFrom, ast.Try,
                              ast.With, ast.While, ast.Delete, ast.AugAssign, ast.Continue, ast.Starred)) and n is not fn:
                fail(n, 'unsupported construct')
        self.env = {}      # python local -> (lean name, type)
        self.n = 0
        self.a = None      # outer loop variable
        self.t = None      # inner loop variable

    def bind(self, name, ty):
        if name in (self.self_, self.el, self.attributes, self.a, self.t):
            fail(None, f'assignment to parameter / loop variable {name}')
        lean = f'x{self.n}'
        self.n += 1
        self.env[name] = (lean, ty)
        return lean

    # ---- typed expressions
    def pat(self, e):
        if isinstance(e, ast.Name) and isinstance(e.ctx, ast.Load) and self.env.get(e.id, (None, None))[1] == 'pat':
            return self.env[e.id][0]
        if isinstance(e, ast.Attribute) and isinstance(e.ctx, ast.Load) and self.a and is_name(e.value, self.a) \
                and ATTRS.get(e.attr, (None, None))[1] == 'pat':
            return f'a.{ATTRS[e.attr][0]}'
        if isinstance(e, ast.IfExp):
            return f'(if {self.b(e.test)} then {self.pat(e.body)} else {self.pat(e.orelse)})'
        fail(e, 'unsupported pattern expression')

    def is_pat(self, e):
        try:
            self.pat(e)
            return True
        except Unsupported:
            return False

    def s(self, e):
        if isinstance(e, ast.Name) and isinstance(e.ctx, ast.Load) and self.env.get(e.id, (None, None))[1] == 'str':
            return self.env[e.id][0]
        if isinstance(e, ast.IfExp) and self.t:
            t, j = e.test, e.orelse
            if isinstance(t, ast.Call) and is_name(t.func, 'isinstance') and not t.keywords and len(t.args) == 2 \
                    and is_name(t.args[0], self.t) and is_name(t.args[1], 'str') and is_name(e.body, self.t) \
                    and isinstance(j, ast.Call) and not j.keywords and len(j.args) == 1 and is_name(j.args[0], self.t) \
                    and isinstance(j.func, ast.Attribute) and j.func.attr == 'join' \
                    and isinstance(j.func.value, ast.Constant) and type(j.func.value.value) is str:
                return f'(match t with | .str s => s | .list l => joinWith {lean_s(j.func.value.value)} l)'
        fail(e, 'unsupported string expression')

    def b(self, e):
        if isinstance(e, ast.Constant):
            return bool_const(e)
        if isinstance(e, ast.Attribute) and is_name(e.value, self.self_) and e.attr == 'is_xml' and isinstance(e.ctx, ast.Load):
            return 'c.isXml'
        if isinstance(e, ast.UnaryOp) and isinstance(e.op, ast.Not):
            return f'(!{self.b(e.operand)})'
        if isinstance(e, ast.BoolOp):
            op = ' && ' if isinstance(e.op, ast.And) else ' || '
            return '(' + op.join(self.b(v) for v in e.values) + ')'
        if isinstance(e, ast.Compare):
            if len(e.ops) != 1 or not isinstance(e.ops[0], (ast.Is, ast.IsNot)) \
                    or not (isinstance(e.comparators[0], ast.Constant) and e.comparators[0].value is None):
                fail(e, 'unsupported comparison')
            some = isinstance(e.ops[0], ast.IsNot)
            l = e.left
            if isinstance(l, ast.Call):
                f = l.func
                if not (isinstance(f, ast.Attribute) and f.attr == 'match' and not l.keywords and len(l.args) == 1):
                    fail(l, 'unsupported call (only `<pattern>.match(<str>)`)')
                m = f'(match {self.pat(f.value)} with | none => false | some r => Rx.isMatch c.env r {self.s(l.args[0])})'
                return m if some else f'(!{m})'
            return f'{self.pat(l)}.{"isSome" if some else "isNone"}'
        if self.is_pat(e):
            return f'{self.pat(e)}.isSome'
        fail(e, 'unsupported boolean expression')

    def assigns(self, stmts, ty):
        out = []
        for st in stmts:
            if not (isinstance(st, ast.Assign) and len(st.targets) == 1 and isinstance(st.targets[0], ast.Name)):
                fail(st, 'expected `<local> = <expr>`')
            rhs = self.pat(st.value) if ty == 'pat' else self.s(st.value)
            lean = self.bind(st.targets[0].id, ty)
            out.append((lean, rhs))
        return out

    def run(self, fn, extra=()):
        body = strip_doc(fn.body)
        if len(body) != 3:
            fail(fn, 'frame: expected `flag = …; if attributes: …; return flag`')
        init, guard, ret = body
        if not (isinstance(init, ast.Assign) and len(init.targets) == 1 and isinstance(init.targets[0], ast.Name)):
            fail(init, 'frame: flag initialisation')
        flag = init.targets[0].id
        if flag in (self.self_, self.el, self.attributes):
            fail(init, 'flag shadows a parameter')
        init_v = bool_const(init.value)
        if not (isinstance(ret, ast.Return) and ret.value is not None and is_name(ret.value, flag)):
            fail(ret, 'frame: `return <flag>`')
        if not (isinstance(guard, ast.If) and not guard.orelse and is_name(guard.test, self.attributes) and len(guard.body) == 1):
            fail(guard, 'frame: `if attributes:` with one loop and no else')
        outer = guard.body[0]
        if not (isinstance(outer, ast.For) and not outer.orelse and isinstance(outer.target, ast.Name)
                and is_name(outer.iter, self.attributes) and outer.body):
            fail(outer, 'frame: `for a in attributes:` without else')
        self.a = outer.target.id
        if self.a in (self.self_, self.el, self.attributes, flag):
            fail(outer, 'loop variable shadows')
        pats = self.assigns(outer.body[:-1], 'pat')
        inner = outer.body[-1]
        if not (isinstance(inner, ast.For) and isinstance(inner.target, ast.Name) and inner.body):
            fail(inner, 'frame: inner `for t in self.match_attribute_name(...)`')
        it = inner.iter
        if not (isinstance(it, ast.Call) and not it.keywords and len(it.args) == 3 and isinstance(it.func, ast.Attribute)
                and is_name(it.func.value, self.self_) and it.func.attr == 'match_attribute_name' and is_name(it.args[0], self.el)):
            fail(it, 'frame: inner iterable must be self.match_attribute_name(el, a.attribute, a.prefix)')
        for arg, want in zip(it.args[1:], ('attribute', 'prefix')):
            if not (isinstance(arg, ast.Attribute) and is_name(arg.value, self.a) and arg.attr == want):
                fail(arg, f'frame: expected {self.a}.{want}')
        if len(inner.orelse) != 2 or not isinstance(inner.orelse[1], ast.Break):
            fail(inner, 'frame: inner for needs `else: <flag> = …; break`')
        els = inner.orelse[0]
        if not (isinstance(els, ast.Assign) and len(els.targets) == 1 and is_name_store(els.targets[0], flag)):
            fail(els, 'frame: else suite must assign the flag')
        else_v = bool_const(els.value)
        self.t = inner.target.id
        if self.t in (self.self_, self.el, self.attributes, flag, self.a) or self.t in self.env:
            fail(inner, 'loop variable shadows')
        strs = self.assigns(inner.body[:-1], 'str')
        test = inner.body[-1]
        if not (isinstance(test, ast.If) and not test.orelse and len(test.body) == 1 and isinstance(test.body[0], ast.Break)):
            fail(test, 'frame: inner loop must end with `if <test>: break`')
        cond = self.b(test.test)
        pat_params = ''.join(f' ({n} : Option Rx)' for n, _ in pats)
        pat_args = ''.join(f' {n}' for n, _ in pats)
        L = [
            '/- GENERATED by gen/gen_py_attrs.py from the source text of `CSSMatch.match_attributes` and `CSSMatch.match_nth_tag_type`',
            '   (soupsieve/css_match.py). Do not edit. -/',
            'import SoupVerif.Model.Match',
            'set_option linter.unusedVariables false',
            'namespace SoupVerif.Gen.PyAttrs',
            'open SoupVerif',
            '',
            '/-- the inner `for t in self.match_attribute_name(…): … if <test>: break  else: …`:',
            '    `true` = left by `break`, `false` = exhausted (the `else:` suite runs) -/',
            f'def valueLoop (c : Ctx){pat_params} : List NVal → Bool',
            '  | [] => false',
            '  | t :: rest =>',
        ]
        for n, rhs in strs:
            L.append(f'    let {n} : Str := {rhs}')
        L += [
            f'    if {cond} then true',
            f'    else valueLoop c{pat_args} rest',
            '',
            '/-- the outer `for a in attributes:` carrying the flag; the `else:` suite of the inner loop sets it and breaks -/',
            'def attrLoop (c : Ctx) (e : Elem) : List AttrSel → Bool → Bool',
            '  | [], flag => flag',
            '  | a :: rest, flag =>',
        ]
        for n, rhs in pats:
            L.append(f'    let {n} : Option Rx := {rhs}')
        L += [
            f'    if valueLoop c{pat_args} (matchAttributeValues c e a.attrName a.pfx) then attrLoop c e rest flag',
            f'    else {else_v}',
            '',
            '/-- the frame: `flag = …; if attributes: <loop>; return flag` -/',
            'def matchAttributes (c : Ctx) (e : Elem) (attrs : List AttrSel) : Bool :=',
            f'  let flag : Bool := {init_v}',
            '  if !attrs.isEmpty then attrLoop c e attrs flag else flag',
            '',
            *extra,
            'end SoupVerif.Gen.PyAttrs',
        ]
        return '\n'.join(L) + '\n'



# ------------------------------------------------------------------ match_nth_tag_type
FUNC_B = 'match_nth_tag_type'
GETTERS = {'get_tag': 'tagName', 'get_tag_ns': 'tagNs'}


def translate_type(fn):
    """`return <bool expr>` over `self.get_tag(X)` / `self.get_tag_ns(X)` (X one of the two element parameters),
    `==` / `!=` between two calls of the SAME getter, `and` / `or` / `not`."""
    a = fn.args
    if fn.decorator_list or a.posonlyargs or a.kwonlyargs or a.vararg or a.kwarg or a.defaults or len(a.args) != 3:
        fail(fn, 'not a plain method (self, el, child)')
    self_, p1, p2 = [x.arg for x in a.args]
    if len({self_, p1, p2}) != 3:
        fail(fn, 'duplicate parameters')
    lean_param = {p1: 'el', p2: 'child'}
    body = strip_doc(fn.body)
    if len(body) != 1 or not isinstance(body[0], ast.Return) or body[0].value is None:
        fail(fn, 'frame: a single `return <expr>`')

    def getter(e):
        if isinstance(e, ast.Call) and not e.keywords and len(e.args) == 1 and isinstance(e.func, ast.Attribute) \
                and is_name(e.func.value, self_) and e.func.attr in GETTERS and isinstance(e.args[0], ast.Name) \
                and e.args[0].id in lean_param:
            return e.func.attr, f'c.{GETTERS[e.func.attr]} {lean_param[e.args[0].id]}'
        fail(e, 'unsupported operand (only self.get_tag(x) / self.get_tag_ns(x))')

    def b(e):
        if isinstance(e, ast.UnaryOp) and isinstance(e.op, ast.Not):
            return f'(!{b(e.operand)})'
        if isinstance(e, ast.BoolOp):
            return '(' + (' && ' if isinstance(e.op, ast.And) else ' || ').join(b(v) for v in e.values) + ')'
        if isinstance(e, ast.Compare) and len(e.ops) == 1 and isinstance(e.ops[0], (ast.Eq, ast.NotEq)):
            (k1, l), (k2, r) = getter(e.left), getter(e.comparators[0])
            if k1 != k2:
                fail(e, 'comparison of different getters')
            return f'({l} {"==" if isinstance(e.ops[0], ast.Eq) else "!="} {r})'
        fail(e, 'unsupported boolean expression')

    return [
        '/-- `match_nth_tag_type(el, child)` -/',
        'def match_nth_tag_type (c : Ctx) (el child : Elem) : Bool :=',
        f'  {b(body[0].value)}',
        '',
    ]


def is_name_store(e, name):
    return isinstance(e, ast.Name) and e.id == name


def find_method(tree, name):
    found = [item for node in tree.body if isinstance(node, ast.ClassDef) and node.name == CLASS
             for item in node.body if isinstance(item, (ast.FunctionDef, ast.AsyncFunctionDef)) and item.name == name]
    if len(found) != 1 or not isinstance(found[0], ast.FunctionDef):
        raise Unsupported(f'{CLASS}.{name}: expected exactly one plain definition, found {len(found)}')
    return found[0]


def translate():
    global FUNC
    tree = ast.parse(open(SRC, encoding='utf-8').read())
    FUNC = FUNC_B
    extra = translate_type(find_method(tree, FUNC_B))
    FUNC = 'match_attributes'
    fn = find_method(tree, FUNC)
    return T(fn).run(fn, extra)


def main(dest):
    text = translate()
    old = open(dest).read() if os.path.exists(dest) else None
    if old != text:
        with open(dest, 'w') as f:
            f.write(text)
    return 'valueLoop, attrLoop, matchAttributes, match_nth_tag_type'


if __name__ == '__main__':
    print(main(sys.argv[1]))
